package main

// F6: index-safety obligations (first part: enumeration and class A = proved by the compiler's prove pass)

import (
	"bufio"
	"bytes"
	"fmt"
	"go/constant"
	"go/token"
	"go/types"
	"os"
	"os/exec"
	"regexp"
	"sort"
	"strings"

	"golang.org/x/tools/go/ssa"
)

var bceLine = regexp.MustCompile(`^(?:\./)?([^:]+\.go):(\d+):(\d+): Found (IsInBounds|IsSliceInBounds)`)

// unprovenChecks runs the compiler's bounds-check-elimination diagnostics on the repository
// (no code is executed) and returns the set "file:line:col" of checks the prove pass kept.
func unprovenChecks(repo string) map[string]bool {
	cmd := exec.Command("go", "build", "-gcflags="+modPath+"/...=-d=ssa/check_bce/debug=1", "./...")
	cmd.Dir = repo
	cmd.Env = append(os.Environ(), "GOWORK=off", "GOFLAGS=-mod=mod", "GOPROXY=off", "GOSUMDB=off")
	var out bytes.Buffer
	cmd.Stdout = &out
	cmd.Stderr = &out
	if err := cmd.Run(); err != nil {
		broken("go build with check_bce failed: %v\n%s", err, lastLines(out.String(), 15))
	}
	set := map[string]bool{}
	sc := bufio.NewScanner(&out)
	sc.Buffer(make([]byte, 1<<20), 1<<24)
	for sc.Scan() {
		if m := bceLine.FindStringSubmatch(sc.Text()); m != nil {
			set[m[1]+":"+m[2]+":"+m[3]] = true
		}
	}
	if len(set) < 50 {
		broken("the compiler reported only %d unproven bounds checks: the diagnostics were not produced (build cache without replay?)", len(set))
	}
	return set
}

func lastLines(s string, n int) string {
	l := strings.Split(strings.TrimSpace(s), "\n")
	if len(l) > n {
		l = l[len(l)-n:]
	}
	return strings.Join(l, "\n")
}

type idxOblig struct {
	In   ssa.Instruction
	Kind string // index | slice
	X    ssa.Value
	Idx  ssa.Value // index
	Lo   ssa.Value
	Hi   ssa.Value
}

func indexObligs(fn *ssa.Function) []idxOblig {
	var out []idxOblig
	eachInstr(fn, func(in ssa.Instruction) {
		switch x := in.(type) {
		case *ssa.IndexAddr:
			// arrays indexed by constants are checked at compile time
			out = append(out, idxOblig{In: in, Kind: "index", X: x.X, Idx: x.Index})
		case *ssa.Index:
			out = append(out, idxOblig{In: in, Kind: "index", X: x.X, Idx: x.Index})
		case *ssa.Lookup:
			if _, isMap := x.X.Type().Underlying().(*types.Map); !isMap {
				out = append(out, idxOblig{In: in, Kind: "index", X: x.X, Idx: x.Index})
			}
		case *ssa.Slice:
			if x.Low == nil && x.High == nil && x.Max == nil {
				return // s[:] cannot fail
			}
			out = append(out, idxOblig{In: in, Kind: "slice", X: x.X, Lo: x.Low, Hi: x.High})
		}
	})
	return out
}

// f6Result: the class of one index/slice obligation
type f6Result struct {
	Fn   *ssa.Function
	O    idxOblig
	Pos  string
	Cls  string // A (compiler proved) | B (facts engine) | ? (unproved)
	Why  string
	Used []string // assumptions (axioms / struct invariants) the proof relied on
}

// classifyF6 decides every index/slice obligation of the given functions
func classifyF6(c *Ctx, pr *prover, fns []*ssa.Function) []*f6Result {
	bce := unprovenChecks(c.P.repo)
	var all, open []*f6Result
	for _, fn := range fns {
		for _, o := range indexObligs(fn) {
			r := &f6Result{Fn: fn, O: o, Pos: c.P.pos(o.In.Pos()), Cls: "A"}
			if bce[r.Pos] || !o.In.Pos().IsValid() {
				r.Cls = "?"
				open = append(open, r)
			}
			all = append(all, r)
		}
	}
	for pass := 0; pass < 8 && len(open) > 0; pass++ {
		if pass > 0 {
			if !pr.grew {
				break // nothing new was learnt in the last generation
			}
			pr.gen++
		}
		pr.grew = false
		var rest []*f6Result
		for _, r := range open {
			pr.used = nil
			v0 := pr.vacuousTop
			ok, why := pr.proveOblig(r.Fn, r.O)
			if ok && pr.vacuousTop != v0 {
				pr.used = append(pr.used, "VACUOUS: the facts at this point are contradictory (unreachable code or an inconsistent assumption)")
			}
			if ok {
				r.Cls, r.Why, r.Used = "B", "", pr.used
			} else {
				r.Why = why
				rest = append(rest, r)
			}
		}
		open = rest
	}
	return all
}

func dumpF6(c *Ctx, fns []*ssa.Function) {
	pr := newProver(c)
	var lines []string
	for _, r := range classifyF6(c, pr, fns) {
		cls := r.Cls
		if cls == "?" {
			cls = "? (" + r.Why + ")"
		}
		lines = append(lines, fmt.Sprintf("%s %s %s %s", cls, r.Pos, anchorName(r.Fn), r.O.In))
	}
	fmt.Printf("F6 steps=%d generations=%d\n", pr.steps, pr.gen)
	sort.Strings(lines)
	for _, l := range lines {
		fmt.Println(l)
	}
}

// ---------------------------------------------------------------------------
// Class B: a small difference-bound facts engine.
//
// Terms are SSA integer values, len(x) of SSA slice/string values, and the
// constant zero. A fact is  a - b <= c.  Facts valid at an instruction are
//   * definitional facts of the values involved (constants, +/- constants,
//     len(), slices with constant bounds, IndexByte post-conditions, byte
//     ranges, masks, make/convert length equalities, tables of fixed length),
//   * the conditions of the branch edges that dominate the instruction,
//   * for parameters of functions whose callers are all known: goals are
//     pushed to every call site (interprocedural, bounded depth),
//   * for phis: an inductive proof attempt (assume the goal, show it on every
//     incoming edge).
// A goal is proved when the shortest-path closure of the facts implies it.
// Integer overflow is not modelled (lengths and offsets are far below 2^63).

type term struct {
	v    ssa.Value // nil for the constant zero
	isLn bool      // len(v)
}

type fact struct {
	a, b term
	c    int64
}

type prover struct {
	c              *Ctx
	depth          int
	callers        map[*ssa.Function][]ssa.CallInstruction
	fixedLen       map[string]int64 // "global:pkg.name" / "field:pkg.T.f" -> length of a table that is made once and never re-assigned
	twoLen         map[string]int64 // tables that are either nil or of this length
	steps          int
	stableGlobal   map[*ssa.Global]bool
	immutableField map[string]bool
	constGlobal    map[*ssa.Global]int64 // stable globals initialised with an integer constant
	fieldLower     map[string]int64      // configuration-verified lower bounds of immutable fields (see f6FieldInvariants)
	invCache       map[*ssa.Function]invEntry
	inProgress     map[*ssa.Function]bool
	retCache       map[retKey]retEntry
	axiomsUsed     map[string]bool
	importDepth    int
	preCache       map[*ssa.Function]preEntry
	gen            int // generation: tainted cache entries are recomputed once per generation (facts only grow)
	preBusy        map[*ssa.Function]bool
	retBusy        map[retKey]bool
	used           []string
	grew           bool
	rewriterIface  *types.Interface
	fieldLens      map[string]*fieldLenFacts
	fieldLensBusy  bool
	loadCache      map[*ssa.Function][]fieldLoad
	lenRetCache    map[retKey]lenRetEntry
	lenRetBusy     map[retKey]bool
	storeSets      map[string]map[*ssa.Function]bool
	changerCache   map[string][]ssa.Instruction
	structInvOK    map[string]bool
	sents          map[sentKey]*ssa.Const
	configLowerOK  map[string]bool
	intLower       map[string]int64
	intLowerBusy   bool
	sentOf         map[ssa.Value]sentKey
	callIdx        map[*ssa.Function][]ssa.CallInstruction
	live           map[*ssa.Function]bool
	asValue        map[*ssa.Function]bool
	vacuousTop     int
	nest           int  // nesting of cached sub-computations (summaries, preconditions, invariants)
	taint          bool // something was derived without facts that will be available later: do not cache
}

func newProver(c *Ctx) *prover {
	p := &prover{c: c, callers: map[*ssa.Function][]ssa.CallInstruction{}, fixedLen: map[string]int64{}, twoLen: map[string]int64{},
		invCache: map[*ssa.Function]invEntry{}, inProgress: map[*ssa.Function]bool{}, retCache: map[retKey]retEntry{}, axiomsUsed: map[string]bool{}, preCache: map[*ssa.Function]preEntry{}, preBusy: map[*ssa.Function]bool{}, retBusy: map[retKey]bool{}, loadCache: map[*ssa.Function][]fieldLoad{}, lenRetCache: map[retKey]lenRetEntry{}, lenRetBusy: map[retKey]bool{}, storeSets: map[string]map[*ssa.Function]bool{}, changerCache: map[string][]ssa.Instruction{}, structInvOK: map[string]bool{}, configLowerOK: map[string]bool{}, sents: map[sentKey]*ssa.Const{}, sentOf: map[ssa.Value]sentKey{}}
	p.scanTables()
	p.scanStable()
	reps := map[string]ssa.Value{}
	canonLoad = func(v ssa.Value) ssa.Value {
		u, ok := v.(*ssa.UnOp)
		if !ok || u.Op != token.MUL {
			return v
		}
		key := ""
		switch a := strip(u.X).(type) {
		case *ssa.Global:
			if p.stableGlobal[a] {
				key = "g:" + a.Pkg.Pkg.Path() + "." + a.Name()
			}
		case *ssa.FieldAddr:
			fn := fieldName(a.X.Type(), a.Field)
			if p.immutableField[fn] {
				base := resolve(a.X)
				key = fmt.Sprintf("f:%s@%p", fn, base)
			}
		}
		if key == "" {
			// a field of a local copy of a by-value parameter that is never written again
			if fa, ok := strip(u.X).(*ssa.FieldAddr); ok {
				if al, ok := fa.X.(*ssa.Alloc); ok && readOnlyParamCopy(al) {
					key = fmt.Sprintf("a:%p.%d", al, fa.Field)
				}
			}
		}
		if key == "" {
			// two loads through the same pointer in one block with nothing in between that can write memory
			if r := earlierSameLoad(u); r != nil {
				return r
			}
			return v
		}
		if r, ok := reps[key]; ok {
			return r
		}
		reps[key] = v
		return v
	}
	return p
}

// scanStable: globals never stored outside package initialisers; struct fields only stored into freshly allocated objects
func (p *prover) scanStable() {
	p.stableGlobal = map[*ssa.Global]bool{}
	p.immutableField = map[string]bool{}
	p.constGlobal = map[*ssa.Global]int64{}
	if p.fieldLower == nil {
		p.fieldLower = map[string]int64{}
	}
	initConst := map[*ssa.Global]int64{}
	badG := map[*ssa.Global]bool{}
	badF := map[string]bool{}
	seenF := map[string]bool{}
	for fn := range p.c.P.allFuncs {
		if fn.Blocks == nil || !strings.HasPrefix(fnPkgPath(fn), modPath) || nonUniversePkgs[fnPkgPath(fn)] {
			continue
		}
		isInit := fn.Synthetic == "package initializer" || strings.HasPrefix(fn.Name(), "init#") || fn.Name() == "init"
		eachInstr(fn, func(in ssa.Instruction) {
			st, ok := in.(*ssa.Store)
			if !ok {
				return
			}
			switch a := strip(st.Addr).(type) {
			case *ssa.Global:
				if !isInit {
					badG[a] = true
				} else if k, ok := constInt(st.Val); ok {
					initConst[a] = k
				}
			case *ssa.FieldAddr:
				name := fieldName(a.X.Type(), a.Field)
				seenF[name] = true
				if _, fresh := strip(a.X).(*ssa.Alloc); !fresh {
					badF[name] = true
				}
			}
		})
	}
	for _, pk := range p.c.P.prog.AllPackages() {
		if !strings.HasPrefix(pk.Pkg.Path(), modPath) {
			continue
		}
		for _, m := range pk.Members {
			if g, ok := m.(*ssa.Global); ok && !badG[g] {
				p.stableGlobal[g] = true
				if k, ok := initConst[g]; ok {
					p.constGlobal[g] = k
				}
			}
		}
	}
	for f := range seenF {
		if !badF[f] {
			p.immutableField[f] = true
		}
	}
	// exported fields of third-party struct types that the module reads but never writes (yaml.Node.Content …):
	// assumed not to change between two reads of the same object within one function
	for fn := range p.c.P.allFuncs {
		if fn.Blocks == nil || !strings.HasPrefix(fnPkgPath(fn), modPath) || nonUniversePkgs[fnPkgPath(fn)] {
			continue
		}
		eachInstr(fn, func(in ssa.Instruction) {
			fa, ok := in.(*ssa.FieldAddr)
			if !ok {
				return
			}
			name := fieldName(fa.X.Type(), fa.Field)
			if name == "" || seenF[name] || strings.HasPrefix(name, "?") {
				return
			}
			t := fa.X.Type()
			if pt, ok := t.Underlying().(*types.Pointer); ok {
				t = pt.Elem()
			}
			if nt, ok := t.(*types.Named); ok && nt.Obj().Pkg() != nil && !strings.HasPrefix(nt.Obj().Pkg().Path(), modPath) {
				p.immutableField[name] = true
			}
		})
	}
}

// readOnlyParamCopy: the alloc holds a parameter (spilled at entry) and is only read afterwards
func readOnlyParamCopy(al *ssa.Alloc) bool {
	stores := 0
	for _, ref := range *al.Referrers() {
		switch x := ref.(type) {
		case *ssa.Store:
			if x.Addr != ssa.Value(al) {
				return false // the address itself is stored somewhere
			}
			if _, isParam := x.Val.(*ssa.Parameter); !isParam {
				return false
			}
			stores++
		case *ssa.FieldAddr:
			for _, r2 := range *x.Referrers() {
				if u, ok := r2.(*ssa.UnOp); !ok || u.Op != token.MUL {
					return false
				}
			}
		case *ssa.UnOp:
			if x.Op != token.MUL {
				return false
			}
		case *ssa.DebugRef:
		default:
			return false
		}
	}
	return stores == 1
}

// earlierSameLoad: an earlier load of the same address in the same block with only non-writing instructions between
func earlierSameLoad(u *ssa.UnOp) ssa.Value {
	blk := u.Block()
	if blk == nil {
		return nil
	}
	idx := -1
	for i, in := range blk.Instrs {
		if in == ssa.Instruction(u) {
			idx = i
		}
	}
	// the same location: the same address value, or the same field of the same object computed twice
	sameAddr := func(a, b ssa.Value) bool {
		if a == b {
			return true
		}
		fa, ok1 := strip(a).(*ssa.FieldAddr)
		fb, ok2 := strip(b).(*ssa.FieldAddr)
		return ok1 && ok2 && fa.Field == fb.Field && resolve(fa.X) == resolve(fb.X) && types.Identical(fa.X.Type(), fb.X.Type())
	}
	// backwards through this block and, while a block has a single predecessor, through its predecessors
	for hops := 0; hops < 6; hops++ {
		for i := idx - 1; i >= 0; i-- {
			switch x := blk.Instrs[i].(type) {
			case *ssa.UnOp:
				if x.Op == token.MUL && sameAddr(x.X, u.X) {
					if r := earlierSameLoad(x); r != nil {
						return r
					}
					return x
				}
			case *ssa.Store, *ssa.MapUpdate, *ssa.Send, *ssa.Go, *ssa.Defer, *ssa.Select, *ssa.RunDefers:
				return nil
			case *ssa.Call:
				if _, isB := x.Common().Value.(*ssa.Builtin); !isB {
					return nil
				}
				if bi := x.Common().Value.(*ssa.Builtin); bi.Name() == "copy" || bi.Name() == "append" || bi.Name() == "clear" || bi.Name() == "delete" {
					// copy writes elements, not slice headers: a load of a slice header through a pointer is unaffected
					// unless the destination aliases the memory holding the header, which a []byte destination cannot
					// do for a *[]byte location in safe code; append may write to the backing array only
					continue
				}
			}
		}
		if len(blk.Preds) != 1 || blk.Preds[0] == blk {
			return nil
		}
		blk = blk.Preds[0]
		idx = len(blk.Instrs)
	}
	return nil
}

// nilOrLen: the slice value is either nil or has exactly n elements (n == 0: only nil seen so far)
func (p *prover) nilOrLen(v ssa.Value, depth int) (int64, bool) {
	v = strip(v)
	if depth > 4 {
		return 0, false
	}
	if k, ok := v.(*ssa.Const); ok && k.IsNil() {
		return 0, true
	}
	if n, ok := constMakeLen(v); ok {
		return n, true
	}
	if k := tableKey(v); k != "" {
		if n, ok := p.twoLen[k]; ok {
			return n, true
		}
		if n, ok := p.fixedLen[k]; ok {
			return n, true
		}
		return 0, false
	}
	merge := func(vals []ssa.Value) (int64, bool) {
		var n int64
		for _, e := range vals {
			m, ok := p.nilOrLen(e, depth+1)
			if !ok {
				return 0, false
			}
			if m != 0 {
				if n != 0 && n != m {
					return 0, false
				}
				n = m
			}
		}
		return n, true
	}
	switch x := v.(type) {
	case *ssa.Phi:
		return merge(x.Edges)
	case *ssa.Parameter:
		fn := x.Parent()
		sites, ok := p.knownCallers(fn)
		if !ok || len(sites) == 0 {
			return 0, false
		}
		idx := -1
		for i, q := range fn.Params {
			if q == x {
				idx = i
			}
		}
		var args []ssa.Value
		for _, site := range sites {
			if site.Parent() == fn || idx >= len(site.Common().Args) {
				return 0, false
			}
			args = append(args, site.Common().Args[idx])
		}
		return merge(args)
	}
	return 0, false
}

func zeroT() term { return term{} }

func lenKey(v ssa.Value) ssa.Value {
	v = strip(v)
	for i := 0; i < 8; i++ {
		switch x := v.(type) {
		case *ssa.Convert:
			// string <-> []byte conversions keep the length
			if isBytesOrString(x.X.Type()) && isBytesOrString(x.Type()) {
				v = strip(x.X)
				continue
			}
		case *ssa.Call:
			if f := x.Common().StaticCallee(); f != nil && (isAnchor(f, "util.StringFromBytes") || isAnchor(f, "util.BytesFromString")) {
				v = strip(x.Common().Args[0])
				continue
			}
		}
		break
	}
	return v
}

func isBytesOrString(t types.Type) bool {
	switch u := t.Underlying().(type) {
	case *types.Basic:
		return u.Info()&types.IsString != 0
	case *types.Slice:
		b, ok := u.Elem().Underlying().(*types.Basic)
		return ok && b.Kind() == types.Uint8
	}
	return false
}

// canonLoad maps a load of a stable global / immutable field to one representative value per location
var canonLoad func(v ssa.Value) ssa.Value

func lenT(v ssa.Value) term {
	k := lenKey(v)
	if canonLoad != nil {
		k = canonLoad(k)
	}
	return term{v: k, isLn: true}
}
func valT(v ssa.Value) term {
	t := valT0(v)
	if canonLoad != nil && t.v != nil {
		t.v = canonLoad(t.v)
	}
	return t
}
func valT0(v ssa.Value) term {
	v = strip(v)
	// widening integer conversions keep the value
	for i := 0; i < 4; i++ {
		cv, ok := v.(*ssa.Convert)
		if !ok {
			break
		}
		if isIntType(cv.X.Type()) && isIntType(cv.Type()) && intBits(cv.Type()) >= intBits(cv.X.Type()) && !(isSigned(cv.X.Type()) && !isSigned(cv.Type())) {
			v = strip(cv.X)
			continue
		}
		break
	}
	return term{v: v}
}

func isIntType(t types.Type) bool {
	b, ok := t.Underlying().(*types.Basic)
	return ok && b.Info()&types.IsInteger != 0
}
func isSigned(t types.Type) bool {
	b, ok := t.Underlying().(*types.Basic)
	return ok && b.Info()&types.IsUnsigned == 0
}
func intBits(t types.Type) int {
	b, ok := t.Underlying().(*types.Basic)
	if !ok {
		return 0
	}
	switch b.Kind() {
	case types.Int8, types.Uint8:
		return 8
	case types.Int16, types.Uint16:
		return 16
	case types.Int32, types.Uint32:
		return 32
	}
	return 64
}

// scanTables: slices stored exactly once (package init / constructor) with a constant make length
func (p *prover) scanTables() {
	type st struct {
		n      int
		size   int64
		hasNil bool
		bad    bool
	}
	globals := map[string]*st{}
	fields := map[string]*st{}
	note := func(m map[string]*st, key string, val ssa.Value) {
		s := m[key]
		if s == nil {
			s = &st{}
			m[key] = s
		}
		v := strip(val)
		if k, ok := v.(*ssa.Const); ok && k.IsNil() {
			s.hasNil = true
			return
		}
		if ph, ok := v.(*ssa.Phi); ok {
			for _, e := range ph.Edges {
				e = strip(e)
				if k, ok := e.(*ssa.Const); ok && k.IsNil() {
					s.hasNil = true
					continue
				}
				if n, ok := constMakeLen(e); ok {
					if s.n > 0 && s.size != n {
						s.bad = true
					}
					s.n++
					s.size = n
					continue
				}
				s.bad = true
			}
			return
		}
		if n, ok := constMakeLen(v); ok {
			if s.n > 0 && s.size != n {
				s.bad = true
			}
			s.n++
			s.size = n
			return
		}
		s.bad = true
	}
	for fn := range p.c.P.allFuncs {
		if !strings.HasPrefix(fnPkgPath(fn), modPath) || fn.Blocks == nil {
			continue
		}
		eachInstr(fn, func(in ssa.Instruction) {
			stI, ok := in.(*ssa.Store)
			if !ok {
				return
			}
			if _, isSl := stI.Val.Type().Underlying().(*types.Slice); !isSl {
				return
			}
			switch a := strip(stI.Addr).(type) {
			case *ssa.Global:
				note(globals, "global:"+a.Pkg.Pkg.Path()+"."+a.Name(), stI.Val)
			case *ssa.FieldAddr:
				note(fields, "field:"+fieldName(a.X.Type(), a.Field), stI.Val)
			}
		})
	}
	if os.Getenv("SLOGCHECK_F6DBG") != "" {
		for k, s := range globals {
			fmt.Printf("F6TAB %s n=%d size=%d nil=%v bad=%v\n", k, s.n, s.size, s.hasNil, s.bad)
		}
	}
	for k, s := range globals {
		if !s.bad && s.n >= 1 && !s.hasNil {
			p.fixedLen[k] = s.size
		}
	}
	for k, s := range fields {
		if s.bad || s.n == 0 {
			continue
		}
		if s.hasNil {
			p.twoLen[k] = s.size
		} else {
			p.fixedLen[k] = s.size
		}
	}
}

// constMakeLen: the constant length of a freshly made slice (make with constant size, composite literal)
func constMakeLen(v ssa.Value) (int64, bool) {
	v = strip(v)
	switch x := v.(type) {
	case *ssa.MakeSlice:
		if k, ok := x.Len.(*ssa.Const); ok && k.Value != nil {
			return k.Int64(), true
		}
	case *ssa.Slice:
		n := arrayLen(x.X.Type())
		if _, fresh := strip(x.X).(*ssa.Alloc); !fresh || n < 0 {
			return 0, false
		}
		lo, hi := int64(0), n
		if x.Low != nil {
			k, ok := constInt(x.Low)
			if !ok {
				return 0, false
			}
			lo = k
		}
		if x.High != nil {
			k, ok := constInt(x.High)
			if !ok {
				return 0, false
			}
			hi = k
		}
		return hi - lo, true
	}
	return 0, false
}

func tableKey(v ssa.Value) string {
	v = strip(v)
	if u, ok := v.(*ssa.UnOp); ok && u.Op.String() == "*" {
		switch a := strip(u.X).(type) {
		case *ssa.Global:
			return "global:" + a.Pkg.Pkg.Path() + "." + a.Name()
		case *ssa.FieldAddr:
			return "field:" + fieldName(a.X.Type(), a.Field)
		}
	}
	if f, ok := v.(*ssa.Field); ok {
		return "field:" + fieldName(f.X.Type(), f.Field)
	}
	return ""
}

// ---- fact collection

type factSet struct {
	fs       []lin  // general linear facts  sum(coef*term) <= c
	neq      []fact // a - b != c   (from != tests), used to sharpen a bound that hits the excluded value
	nonEmpty map[ssa.Value]bool
}

func (s *factSet) le(a, b term, c int64) { s.fs = append(s.fs, diffLin(a, b, c)) }
func (s *factSet) eq(a, b term, c int64) { s.le(a, b, c); s.le(b, a, -c) }

// sum3: t = x + sign*y (exact, three terms)
func (s *factSet) sum3(t, x, y term, sign int64) {
	l := newLin(0)
	l.addF(t, 1)
	l.addF(x, -1)
	l.addF(y, -sign)
	s.fs = append(s.fs, l)
	m := newLin(0)
	m.addF(t, -1)
	m.addF(x, 1)
	m.addF(y, sign)
	s.fs = append(s.fs, m)
}

// scaled: t = k*x
func (s *factSet) scaled(t, x term, k int64) {
	l := newLin(0)
	l.addF(t, 1)
	l.addF(x, -k)
	s.fs = append(s.fs, l)
	m := newLin(0)
	m.addF(t, -1)
	m.addF(x, k)
	s.fs = append(s.fs, m)
}

func constInt(v ssa.Value) (int64, bool) {
	k, ok := strip(v).(*ssa.Const)
	if !ok || k.Value == nil {
		return 0, false
	}
	if !isIntType(k.Type()) {
		return 0, false
	}
	return k.Int64(), true
}

// definitional facts of a value (and the values it is defined from), bounded
func (p *prover) defs(s *factSet, t term, seen map[term]bool, depth int) {
	if t.v == nil || seen[t] || depth > 12 {
		return
	}
	seen[t] = true
	v := t.v
	if v == ssa.Value(symNF) || v == ssa.Value(symMF) {
		p.schemaBase(s)
		return
	}
	p.schemaFacts(s, t)
	if t.isLn {
		s.le(zeroT(), t, 0) // len >= 0
		switch x := v.(type) {
		case *ssa.Slice:
			lo, loC := int64(0), true
			if x.Low != nil {
				lo, loC = constInt(x.Low)
			}
			base := lenT(x.X)
			if arr := arrayLen(x.X.Type()); arr >= 0 {
				// slicing an array: its length is a constant
				s.eq(base, zeroT(), arr)
			}
			// len(x) = hi - lo exactly, hi = High or len(base), lo = Low or 0
			_ = lo
			_ = loC
			l := newLin(0)
			l.addF(t, 1)
			m := newLin(0)
			m.addF(t, -1)
			if x.High != nil {
				h := valT(x.High)
				l.addF(h, -1)
				m.addF(h, 1)
				p.defs(s, h, seen, depth+1)
			} else {
				l.addF(base, -1)
				m.addF(base, 1)
			}
			if x.Low != nil {
				lw := valT(x.Low)
				l.addF(lw, 1)
				m.addF(lw, -1)
				p.defs(s, lw, seen, depth+1)
			}
			s.fs = append(s.fs, l, m)
			p.defs(s, base, seen, depth+1)
		case *ssa.MakeSlice:
			l := valT(x.Len)
			s.eq(t, l, 0)
			p.defs(s, l, seen, depth+1)
			if cp, ok := x.Cap.(*ssa.Const); ok && cp != nil {
				_ = cp
			}
		case *ssa.Const:
			if x.Value != nil && x.Value.Kind() == constant.String {
				s.eq(t, zeroT(), int64(len(constant.StringVal(x.Value))))
			}
		case *ssa.Phi:
			// handled by induction in prove()
		case *ssa.Call:
			if f := x.Common().StaticCallee(); f != nil && extName(f) == "github.com/samber/lo.Map" {
				// lo.Map returns one element per input element
				b := lenT(x.Common().Args[0])
				s.eq(t, b, 0)
				p.defs(s, b, seen, depth+1)
			}
		default:
			if k := tableKey(v); k != "" {
				if n, ok := p.fixedLen[k]; ok {
					s.eq(t, zeroT(), n)
				}
			}
			if n := arrayLen(v.Type()); n >= 0 {
				s.eq(t, zeroT(), n)
			}
		}
		return
	}
	// integer value
	if k, ok := constInt(v); ok {
		s.eq(t, zeroT(), k)
		return
	}
	// a variable captured by value: it is the value bound where the closure is made (definitional facts of that
	// value only; the path conditions of the enclosing function are not imported)
	if u, ok := v.(*ssa.UnOp); ok && u.Op == token.MUL {
		// a load from a captured variable cell that is assigned exactly once (in the enclosing function)
		if fv, ok := u.X.(*ssa.FreeVar); ok && isIntType(u.Type()) {
			if b := freeVarBinding(fv); b != nil {
				if cell, isCell := b.(*ssa.Alloc); isCell {
					if sv, ok := singleStore(cell); ok {
						bt := valT(sv)
						s.eq(t, bt, 0)
						p.defs(s, bt, seen, depth+1)
					}
				}
			}
		}
	}
	if fv, ok := v.(*ssa.FreeVar); ok {
		if b := freeVarBinding(fv); b != nil {
			if _, isCell := b.(*ssa.Alloc); !isCell && isIntType(b.Type()) {
				bt := valT(b)
				s.eq(t, bt, 0)
				p.defs(s, bt, seen, depth+1)
			}
		}
	}
	if b, ok := v.Type().Underlying().(*types.Basic); ok {
		switch b.Kind() {
		case types.Uint8:
			s.le(zeroT(), t, 0)
			s.le(t, zeroT(), 255)
		case types.Uint16, types.Uint32, types.Uint64, types.Uint, types.Uintptr:
			s.le(zeroT(), t, 0)
		}
	}
	if u, ok := v.(*ssa.UnOp); ok && u.Op == token.MUL {
		if g, ok := strip(u.X).(*ssa.Global); ok {
			if k, ok := p.constGlobal[g]; ok {
				s.eq(t, zeroT(), k)
			}
		}
		if fa, ok := strip(u.X).(*ssa.FieldAddr); ok {
			fname := fieldName(fa.X.Type(), fa.Field)
			if lo, ok := f6ConfigLower[fname]; ok && p.configLowerOK[fname] {
				s.le(zeroT(), t, -lo)
				p.noteUse("verified configuration: " + fname + " >= " + fmt.Sprint(lo) + " (VerifyConfig rejects smaller values: C07.R1c, C16)")
			}
			if p.immutableField[fname] && !p.intLowerBusy {
				p.intLowerBusy = true
				il := p.intFieldLowerFacts()
				p.intLowerBusy = false
				if lo, ok := il[fname]; ok {
					s.le(zeroT(), t, -lo)
				}
			}
		}
	}
	switch x := v.(type) {
	case *ssa.BinOp:
		switch x.Op {
		case token.ADD, token.SUB:
			sign := int64(1)
			if x.Op == token.SUB {
				sign = -1
			}
			if k, ok := constInt(x.Y); ok {
				a := valT(x.X)
				s.eq(t, a, sign*k)
				p.defs(s, a, seen, depth+1)
			} else if k, ok := constInt(x.X); ok && x.Op == token.ADD {
				a := valT(x.Y)
				s.eq(t, a, k)
				p.defs(s, a, seen, depth+1)
			} else {
				// v = a + b / a - b exactly
				xa, ya := valT(x.X), valT(x.Y)
				s.sum3(t, xa, ya, sign)
				p.defs(s, xa, seen, depth+1)
				p.defs(s, ya, seen, depth+1)
			}
		case token.MUL:
			if k, ok := constInt(x.Y); ok {
				s.scaled(t, valT(x.X), k)
				p.defs(s, valT(x.X), seen, depth+1)
			} else if k, ok := constInt(x.X); ok {
				s.scaled(t, valT(x.Y), k)
				p.defs(s, valT(x.Y), seen, depth+1)
			}
		case token.SHL:
			if k, ok := constInt(x.Y); ok && k >= 0 && k < 31 {
				s.scaled(t, valT(x.X), int64(1)<<uint(k))
				p.defs(s, valT(x.X), seen, depth+1)
			}
		case token.SHR:
			// x >> k for non-negative x: 0 <= t <= x
			if k, ok := constInt(x.Y); ok && k >= 0 {
				if b, ok := x.X.Type().Underlying().(*types.Basic); ok && b.Info()&types.IsUnsigned != 0 {
					s.le(zeroT(), t, 0)
					s.le(t, valT(x.X), 0)
					p.defs(s, valT(x.X), seen, depth+1)
				}
			}
		case token.AND:
			if k, ok := constInt(x.Y); ok && k >= 0 {
				s.le(zeroT(), t, 0)
				s.le(t, zeroT(), k)
			}
		case token.REM:
			if k, ok := constInt(x.Y); ok && k > 0 {
				s.le(t, zeroT(), k-1)
			}
		}
	case *ssa.Call:
		cc := x.Common()
		if bi, ok := cc.Value.(*ssa.Builtin); ok {
			switch bi.Name() {
			case "len":
				l := lenT(cc.Args[0])
				s.eq(t, l, 0)
				p.defs(s, l, seen, depth+1)
			case "copy":
				// n = copy(dst, src): 0 <= n <= len(dst), n <= len(src)
				s.le(zeroT(), t, 0)
				s.le(t, lenT(cc.Args[0]), 0)
				s.le(t, lenT(cc.Args[1]), 0)
				p.defs(s, lenT(cc.Args[0]), seen, depth+1)
				p.defs(s, lenT(cc.Args[1]), seen, depth+1)
			case "min":
				for _, a := range cc.Args {
					s.le(t, valT(a), 0)
					p.defs(s, valT(a), seen, depth+1)
				}
			}
			return
		}
		if f := cc.StaticCallee(); f != nil {
			switch extName(f) {
			case "strings.IndexByte", "bytes.IndexByte", "strings.LastIndexByte", "bytes.LastIndexByte", "strings.IndexRune", "strings.IndexAny":
				s.le(zeroT(), t, 1) // >= -1
				l := lenT(cc.Args[0])
				s.le(t, l, -1) // <= len-1
				p.defs(s, l, seen, depth+1)
			case "strings.Index", "strings.LastIndex", "bytes.Index", "bytes.LastIndex":
				s.le(zeroT(), t, 1)
				l := lenT(cc.Args[0])
				s.le(t, l, 0)
				p.defs(s, l, seen, depth+1)
			case "golang.org/x/exp/slices.Index", "slices.Index":
				s.le(zeroT(), t, 1)
				l := lenT(cc.Args[0])
				s.le(t, l, -1)
				p.defs(s, l, seen, depth+1)
			case "math/bits.LeadingZeros32":
				s.le(zeroT(), t, 0)
				s.le(t, zeroT(), 32)
			case "math/bits.LeadingZeros64":
				s.le(zeroT(), t, 0)
				s.le(t, zeroT(), 64)
			}
			switch anchorName(f) {
			case "util.MaxInt":
				for _, a := range cc.Args {
					s.le(valT(a), t, 0)
				}
			case "util.MinInt":
				for _, a := range cc.Args {
					s.le(t, valT(a), 0)
				}
			}
		}
	case *ssa.Extract:
		// n, err := r.Read(p) style contracts are not assumed
	}
}

func arrayLen(t types.Type) int64 {
	if p, ok := t.Underlying().(*types.Pointer); ok {
		t = p.Elem()
	}
	if a, ok := t.Underlying().(*types.Array); ok {
		return a.Len()
	}
	return -1
}

// condFacts: facts implied by cond being `truth`
func (p *prover) condFacts(s *factSet, cond ssa.Value, truth bool, seen map[term]bool) {
	for {
		if u, ok := cond.(*ssa.UnOp); ok && u.Op == token.NOT {
			cond, truth = u.X, !truth
			continue
		}
		break
	}
	// short-circuit || / && lowered to a phi of booleans: when the phi has the value that none of its constant edges
	// carries, control came through the one non-constant edge, i.e. through the failing (resp. succeeding) side of
	// every earlier operand
	if ph, ok := cond.(*ssa.Phi); ok {
		nonConst := -1
		okShape := true
		for i, e := range ph.Edges {
			if k, isK := e.(*ssa.Const); isK && k.Value != nil && k.Value.Kind() == constant.Bool {
				if constant.BoolVal(k.Value) == truth {
					okShape = false
				}
				continue
			}
			if nonConst >= 0 {
				okShape = false
			}
			nonConst = i
		}
		if okShape && nonConst >= 0 && len(seen) < 4000 {
			pred := ph.Block().Preds[nonConst]
			p.edgeFacts(s, ph.Parent(), pred.Instrs[len(pred.Instrs)-1], seen)
			p.condFacts(s, ph.Edges[nonConst], truth, seen)
		}
		return
	}
	p.succFacts(s, cond, truth, seen)
	// strings.HasPrefix(x, p) / HasSuffix / Contains and the bytes counterparts: when true, len(p) <= len(x)
	if cl, ok := cond.(*ssa.Call); ok && truth {
		if f := cl.Common().StaticCallee(); f != nil && len(cl.Common().Args) == 2 {
			switch extName(f) {
			case "strings.HasPrefix", "strings.HasSuffix", "strings.Contains", "bytes.HasPrefix", "bytes.HasSuffix", "bytes.Contains":
				x, sub := lenT(cl.Common().Args[0]), lenT(cl.Common().Args[1])
				s.le(sub, x, 0)
				p.defs(s, x, seen, 0)
				p.defs(s, sub, seen, 0)
			}
		}
		return
	}
	bo, ok := cond.(*ssa.BinOp)
	if !ok {
		return
	}
	if em, ok := asEmptiness(bo); ok {
		if _, isInt := em.X.Type().Underlying().(*types.Basic); !isInt || !isIntType(em.X.Type()) {
			// nil / len()==0 test of a slice or string
			empty := em.EmptyOnTrue == truth
			lt := lenT(em.X)
			if bo2, ok := cond.(*ssa.BinOp); ok && isLenCall(bo2.X) || isLenCall(bo.Y) {
				if empty {
					s.eq(lt, zeroT(), 0)
				} else {
					s.le(zeroT(), lt, -1)
				}
				p.defs(s, lt, seen, 0)
			}
			if !empty {
				if s.nonEmpty == nil {
					s.nonEmpty = map[ssa.Value]bool{}
				}
				s.nonEmpty[lenKey(em.X)] = true
				if n, ok := p.nilOrLen(em.X, 0); ok && n > 0 {
					s.eq(lt, zeroT(), n)
				}
			}
		}
	}
	if !isIntType(bo.X.Type()) {
		return
	}
	a, b := valT(bo.X), valT(bo.Y)
	op := bo.Op
	if !truth {
		switch op {
		case token.LSS:
			op = token.GEQ
		case token.LEQ:
			op = token.GTR
		case token.GTR:
			op = token.LEQ
		case token.GEQ:
			op = token.LSS
		case token.EQL:
			op = token.NEQ
		case token.NEQ:
			op = token.EQL
		}
	}
	switch op {
	case token.LSS:
		s.le(a, b, -1)
	case token.LEQ:
		s.le(a, b, 0)
	case token.GTR:
		s.le(b, a, -1)
	case token.GEQ:
		s.le(b, a, 0)
	case token.EQL:
		s.eq(a, b, 0)
	case token.NEQ:
		s.neq = append(s.neq, fact{a, b, 0})
	}
	p.defs(s, a, seen, 0)
	p.defs(s, b, seen, 0)
}

func isLenCall(v ssa.Value) bool {
	cl, ok := v.(*ssa.Call)
	return ok && isBuiltin(cl, "len")
}

// edgeFacts: conditions of the branch edges dominating instruction `at`
func (p *prover) edgeFacts(s *factSet, fn *ssa.Function, at ssa.Instruction, seen map[term]bool) {
	b := at.Block()
	for d := b; d != nil; d = d.Idom() {
		id := d.Idom()
		if id == nil {
			break
		}
		iff, ok := id.Instrs[len(id.Instrs)-1].(*ssa.If)
		if !ok {
			continue
		}
		// d is reached from id only through one of its edges?
		for si, sc := range id.Succs {
			if sc == d && len(d.Preds) == 1 {
				p.condFacts(s, iff.Cond, si == 0, seen)
			}
		}
	}
	// conditions of non-immediate dominators whose edge is the only way in
	for d := b.Idom(); d != nil; d = d.Idom() {
		iff, ok := d.Instrs[len(d.Instrs)-1].(*ssa.If)
		if !ok || len(d.Succs) != 2 {
			continue
		}
		for si := range d.Succs {
			if d.Succs[si] == b || d.Succs[si].Dominates(b) {
				if len(d.Succs[si].Preds) == 1 {
					continue // handled above when walking the idom chain
				}
			}
			if p.c.onlyViaEdge(fn, at, d, si) {
				p.condFacts(s, iff.Cond, si == 0, seen)
			}
		}
	}
}

// hypF: an induction hypothesis about the phis of block blk; usable only where blk dominates
// (on the entry edges of blk the phis are not defined yet: using the hypothesis there would be circular)
type hypF struct {
	f      fact
	guard  *ssa.Phi // when set: the fact holds whenever this boolean phi of blk has the value gtruth
	gtruth bool
	blk    *ssa.BasicBlock // nil: unconditional
	cond   ssa.Value       // when set: the hypothesis is "cond == truth" (the condition of the edge being followed)
	truth  bool
	via    ssa.Instruction // when set: control passed this instruction, the conditions dominating it held
}

// edgeHyp: the condition under which control goes from pred to blk
func edgeHyp(pred, blk *ssa.BasicBlock) []hypF {
	iff, ok := pred.Instrs[len(pred.Instrs)-1].(*ssa.If)
	if !ok || len(pred.Succs) != 2 || pred.Succs[0] == pred.Succs[1] {
		return nil
	}
	truth := pred.Succs[0] == blk
	var cb *ssa.BasicBlock
	if in, ok := iff.Cond.(ssa.Instruction); ok {
		cb = in.Block()
	}
	return []hypF{{cond: iff.Cond, truth: truth, blk: cb}}
}

func usable(h hypF, at ssa.Instruction) bool {
	return h.blk == nil || h.blk == at.Block() || h.blk.Dominates(at.Block())
}

// substEdge replaces a phi of block blk by its i-th incoming value
func substEdge(t term, blk *ssa.BasicBlock, i int) term {
	if t.v == nil {
		return t
	}
	phi, ok := t.v.(*ssa.Phi)
	if !ok || phi.Block() != blk {
		return t
	}
	if t.isLn {
		return lenT(phi.Edges[i])
	}
	return valT(phi.Edges[i])
}

// collect gathers the facts valid at `at` for a goal over a and b
func (p *prover) collect(fn *ssa.Function, at ssa.Instruction, a, b term, hyp []hypF, direct bool) (*factSet, map[term]bool) {
	return p.collectMulti(fn, at, []term{a, b}, hyp, direct)
}

func (p *prover) collectMulti(fn *ssa.Function, at ssa.Instruction, goalTerms []term, hyp []hypF, direct bool) (*factSet, map[term]bool) {
	s := &factSet{}
	seen := map[term]bool{}
	for _, h := range hyp {
		if usable(h, at) {
			if h.guard != nil && !guardHolds(h.guard, h.gtruth, at) {
				continue
			}
			if h.cond != nil {
				p.condFacts(s, h.cond, h.truth, seen)
				continue
			}
			if h.via != nil {
				p.edgeFacts(s, fn, h.via, seen)
				continue
			}
			s.le(h.f.a, h.f.b, h.f.c)
			p.defs(s, h.f.a, seen, 0)
			p.defs(s, h.f.b, seen, 0)
		}
	}
	for _, f := range p.preconds(fn) {
		s.le(f.a, f.b, f.c)
		p.defs(s, f.a, seen, 0)
		p.defs(s, f.b, seen, 0)
	}
	p.importCallerFacts(s, fn, seen)
	if p.inProgress[fn] && !direct {
		p.taint = true // the invariants of fn are not available yet: what is derived now must not be cached
	}
	if !p.inProgress[fn] || !direct {
		for _, h := range p.invariants(fn) {
			if usable(h, at) {
				if h.guard != nil && !guardHolds(h.guard, h.gtruth, at) {
					continue
				}
				s.le(h.f.a, h.f.b, h.f.c)
				p.defs(s, h.f.a, seen, 0)
				p.defs(s, h.f.b, seen, 0)
			}
		}
	}
	for _, gt := range goalTerms {
		p.defs(s, gt, seen, 0)
	}
	p.edgeFacts(s, fn, at, seen)
	p.structFacts(s, fn, at, seen)
	// conditional post-conditions
	done := map[term]bool{}
	for round := 0; round < 6; round++ {
		var ts []term
		for t := range seen {
			if !done[t] || round == 1 {
				ts = append(ts, t)
			}
			done[t] = true
		}
		if len(ts) == 0 {
			break
		}
		sort.Slice(ts, func(i, j int) bool { return termKey(ts[i]) < termKey(ts[j]) })
		for _, t := range ts {
			if t.isLn && t.v != nil {
				p.lenSummaryFacts(s, t, seen)
			}
			if t.isLn || t.v == nil {
				continue
			}
			// idx = strings.Index(s, sub) and idx >= 0  =>  idx + len(sub) <= len(s)
			if cl, ok := t.v.(*ssa.Call); ok && cl.Common().StaticCallee() != nil {
				switch extName(cl.Common().StaticCallee()) {
				case "strings.Index", "strings.LastIndex", "bytes.Index", "bytes.LastIndex":
					if implies(s, zeroT(), t, 0) {
						l := newLin(0)
						l.addF(t, 1)
						l.addF(lenT(cl.Common().Args[1]), 1)
						l.addF(lenT(cl.Common().Args[0]), -1)
						s.fs = append(s.fs, l)
						p.defs(s, lenT(cl.Common().Args[1]), seen, 1)
					}
				}
			}
			// n = copy(dst, src) with len(src) <= len(dst)  =>  n = len(src)   (and symmetrically)
			if cl, ok := t.v.(*ssa.Call); ok && isBuiltin(cl, "copy") {
				d, sr := lenT(cl.Call.Args[0]), lenT(cl.Call.Args[1])
				if implies(s, sr, d, 0) {
					s.eq(t, sr, 0)
				} else if implies(s, d, sr, 0) {
					s.eq(t, d, 0)
				}
			}
			// summaries of module callees, interface contracts
			p.summaryFacts(s, t, seen)
			p.contractFacts(s, t, seen)
		}
	}
	return s, seen
}

// prove a - b <= c at instruction `at`
func (p *prover) prove(fn *ssa.Function, at ssa.Instruction, a, b term, c int64, hyp []hypF) bool {
	p.steps++
	if p.steps > 3000000 {
		broken("facts engine exceeded its step budget")
	}
	s, _ := p.collect(fn, at, a, b, hyp, false)
	v0 := vacuousProofs
	if implies(s, a, b, c) {
		if vacuousProofs != v0 && p.depth == 0 && p.nest == 0 {
			p.vacuousTop++
		}
		if f6why != "" && strings.Contains(p.c.P.pos(at.Pos()), f6why) {
			fmt.Printf("F6WHY at %s depth %d goal %s - %s <= %d holds by\n", p.c.P.pos(at.Pos()), p.depth, termStr(a), termStr(b), c)
			for _, f := range s.fs {
				fmt.Printf("   %s\n", linStr(f))
			}
			for _, f := range s.neq {
				fmt.Printf("   %s - %s != %d\n", termStr(f.a), termStr(f.b), f.c)
			}
		}
		return true
	}
	if dbg := os.Getenv("SLOGCHECK_F6DBG"); dbg != "" && strings.Contains(p.c.P.pos(at.Pos()), dbg) && (p.depth == 0 || os.Getenv("SLOGCHECK_F6DBGD") != "") {
		fmt.Printf("F6DBG at %s depth %d gen %d goal %s - %s <= %d\n", p.c.P.pos(at.Pos()), p.depth, p.gen, termStr(a), termStr(b), c)
		for _, f := range s.fs {
			fmt.Printf("   %s\n", linStr(f))
		}
		for _, f := range s.neq {
			fmt.Printf("   %s - %s != %d\n", termStr(f.a), termStr(f.b), f.c)
		}
	}
	if p.depth >= 4 {
		p.taint = true
		return false
	}
	// case analysis over join phis mentioned by the goal or the facts
	if p.proveSplitX(fn, at, a, b, c, hyp, 2, map[*ssa.Phi]bool{}, false) {
		return true
	}
	// results of module functions: prove the goal at every return of the callee
	for _, side := range []term{a, b} {
		if side.v == nil || side.isLn {
			continue
		}
		var cl *ssa.Call
		ridx := 0
		switch x := side.v.(type) {
		case *ssa.Call:
			cl = x
		case *ssa.Extract:
			if c2, ok := x.Tuple.(*ssa.Call); ok {
				cl, ridx = c2, x.Index
			}
		}
		if cl == nil {
			continue
		}
		callee := cl.Common().StaticCallee()
		if callee == nil || callee.Blocks == nil || !strings.HasPrefix(fnPkgPath(callee), modPath) || ridx >= callee.Signature.Results().Len() {
			continue
		}
		other := b
		if side == b {
			other = a
		}
		// the other side must be zero, a constant, or (len of) an argument of the call
		mapped, okMap := term{}, true
		switch {
		case other.v == nil:
		default:
			okMap = false
			if _, isK := other.v.(*ssa.Const); isK {
				mapped, okMap = other, true
			}
			for i, arg := range cl.Common().Args {
				if i < len(callee.Params) {
					if other.isLn && lenT(arg) == other {
						mapped, okMap = term{v: callee.Params[i], isLn: true}, true
					}
					if !other.isLn && valT(arg) == other {
						mapped, okMap = term{v: callee.Params[i]}, true
					}
				}
			}
		}
		if !okMap {
			continue
		}
		p.depth++
		okAll := true
		for _, rv := range returnedValues(callee, ridx) {
			// a constant result the caller has excluded (`if r == -1 { return }`) needs no proof
			if k, isK := constInt(rv.Val); isK && p.excluded(s, side, k) {
				continue
			}
			ra, rb := valT(rv.Val), mapped
			if side == b {
				ra, rb = mapped, valT(rv.Val)
			}
			if !p.prove(callee, rv.At, ra, rb, c, nil) {
				okAll = false
				break
			}
		}
		p.depth--
		if okAll {
			return true
		}
	}
	// phi induction: all phis of one block are replaced simultaneously
	for _, side := range []term{a, b} {
		if side.v == nil {
			continue
		}
		phi, ok := side.v.(*ssa.Phi)
		if !ok {
			continue
		}
		blk := phi.Block()
		p.depth++
		okAll := true
		goal := hypF{f: fact{a, b, c}, blk: blk}
		for i := range phi.Edges {
			pred := blk.Preds[i]
			term0 := pred.Instrs[len(pred.Instrs)-1]
			na, nb := substEdge(a, blk, i), substEdge(b, blk, i)
			if !p.prove(fn, term0, na, nb, c, append(append(append([]hypF{}, hyp...), goal), edgeHyp(pred, blk)...)) {
				okAll = false
				break
			}
		}
		p.depth--
		if okAll {
			return true
		}
	}
	// parameters: push the goal to every call site (param + k is peeled to param)
	if pa, ka := peel(a); true {
		pb, kb := peel(b)
		if pa != a || pb != b {
			// a - b <= c  with a = pa + ka, b = pb + kb   <=>   pa - pb <= c - ka + kb
			if p.goalOverParams(fn, pa, pb) {
				if p.prove(fn, at, pa, pb, c-ka+kb, hyp) {
					return true
				}
			}
		}
	}
	if p.goalOverParams(fn, a, b) {
		sites, ok := p.knownCallers(fn)
		if ok && len(sites) > 0 {
			p.depth++
			okAll := true
			for _, site := range sites {
				na, nb, ok2 := p.substParam(fn, site, a), p.substParam(fn, site, b), true
				if (a.v != nil && na.v == nil) || (b.v != nil && nb.v == nil) {
					ok2 = false
				}
				if !ok2 || !p.prove(site.Parent(), site, na, nb, c, nil) {
					okAll = false
					break
				}
			}
			p.depth--
			if okAll {
				return true
			}
		}
	}
	return false
}

// excluded: do the facts rule out t == k ?
func (p *prover) excluded(s *factSet, t term, k int64) bool {
	for _, q := range s.neq {
		d := diffLin(q.a, q.b, 0)
		if len(d.t) == 1 && d.t[t] != 0 {
			// q: t - const != q.c  (or const - t)
			g := diffLin(t, zeroT(), 0)
			_ = g
			// t - B != c  =>  t != c + B ; diffLin folded the constant B into d.c = -(-B) ...
			// recompute directly
			if kb, ok := constOf(q.b); ok && q.a == t && q.c+kb == k {
				return true
			}
			if ka, ok := constOf(q.a); ok && q.b == t && ka-q.c == k {
				return true
			}
		}
	}
	kt := int64(0)
	_ = kt
	// t >= k+1 or t <= k-1
	l1 := newLin(-(k + 1))
	l1.add(t, -1)
	if impliesLin(s, l1) {
		return true
	}
	l2 := newLin(k - 1)
	l2.add(t, 1)
	return impliesLin(s, l2)
}

func constOf(t term) (int64, bool) {
	if t.v == nil {
		return 0, true
	}
	if t.isLn {
		return 0, false
	}
	return constInt(t.v)
}

// ---- loop invariants by candidate elimination (Houdini)

type invEntry struct {
	inv     []hypF
	tainted bool
	gen     int
}
type preEntry struct {
	facts   []fact
	tainted bool
	gen     int
}
type retEntry struct {
	facts   []retFact
	tainted bool
	gen     int
}

type cand struct {
	f      fact
	blk    *ssa.BasicBlock
	guard  *ssa.Phi // flag-guarded candidate: guard == gtruth  =>  f
	gtruth bool
}

// guardHolds: control reaches `at` only with the boolean phi g equal to truth (at is dominated by that side of a branch on g)
func guardHolds(g *ssa.Phi, truth bool, at ssa.Instruction) bool {
	if g.Referrers() == nil {
		return false
	}
	check := func(cond ssa.Value, want bool) bool {
		if cond.Referrers() == nil {
			return false
		}
		for _, r := range *cond.Referrers() {
			iff, ok := r.(*ssa.If)
			if !ok {
				continue
			}
			b := iff.Block()
			if len(b.Succs) != 2 || b.Succs[0] == b.Succs[1] {
				continue
			}
			s := b.Succs[1]
			if want {
				s = b.Succs[0]
			}
			if len(s.Preds) == 1 && (s == at.Block() || s.Dominates(at.Block())) {
				return true
			}
		}
		return false
	}
	if check(g, truth) {
		return true
	}
	for _, r := range *g.Referrers() {
		if u, ok := r.(*ssa.UnOp); ok && u.Op == token.NOT && check(u, !truth) {
			return true
		}
	}
	return false
}

type guardCase struct {
	kind int // 0 constant equal to the guarded truth, 1 constant of the other value, 2 the header phi itself (unchanged), 3 unknown
	via  ssa.Instruction
}

// guardCases resolves the value the guard phi takes on an incoming edge into constant / unchanged / unknown cases, looking
// through the join phis inside the loop body (each with the branch that leads to it as path condition)
func guardCases(v ssa.Value, g *ssa.Phi, truth bool, via ssa.Instruction, depth int, out *[]guardCase) {
	if len(*out) > 24 {
		*out = append(*out, guardCase{3, via})
		return
	}
	switch x := v.(type) {
	case *ssa.Const:
		if x.Value != nil && x.Value.Kind() == constant.Bool {
			if constant.BoolVal(x.Value) == truth {
				*out = append(*out, guardCase{0, via})
			} else {
				*out = append(*out, guardCase{1, via})
			}
			return
		}
	case *ssa.Phi:
		if x == g {
			*out = append(*out, guardCase{2, via})
			return
		}
		if depth < 4 && x.Block() != g.Block() {
			for j, e := range x.Edges {
				pred := x.Block().Preds[j]
				guardCases(e, g, truth, pred.Instrs[len(pred.Instrs)-1], depth+1, out)
			}
			return
		}
	case *ssa.UnOp:
		if x.Op == token.NOT {
			guardCases(x.X, g, !truth, via, depth+1, out)
			return
		}
	}
	*out = append(*out, guardCase{3, via})
}

func (p *prover) invariants(fn *ssa.Function) []hypF {
	if e, ok := p.invCache[fn]; ok && (!e.tainted || e.gen == p.gen) {
		if e.tainted {
			p.taint = true
		}
		return e.inv
	}
	if p.inProgress[fn] {
		p.taint = true
		if e, ok := p.invCache[fn]; ok {
			return e.inv // facts of an earlier generation are still facts
		}
		return nil
	}
	p.inProgress[fn] = true
	defer delete(p.inProgress, fn)
	savedTaint := p.taint
	p.taint = false
	cands := p.candidates(fn)
	alive := make([]bool, len(cands))
	for i := range alive {
		alive[i] = true
	}
	savedDepth := p.depth
	p.depth = 0
	p.nest++
	for changed := true; changed; {
		changed = false
		var hyps []hypF
		for i, c := range cands {
			if alive[i] {
				hyps = append(hyps, hypF{f: c.f, blk: c.blk, guard: c.guard, gtruth: c.gtruth})
			}
		}
		for i, c := range cands {
			if !alive[i] {
				continue
			}
			ok := true
			for e := range c.blk.Preds {
				pred := c.blk.Preds[e]
				term0 := pred.Instrs[len(pred.Instrs)-1]
				na, nb := substEdge(c.f.a, c.blk, e), substEdge(c.f.b, c.blk, e)
				hyps := append(append([]hypF{}, hyps...), edgeHyp(pred, c.blk)...)
				if c.guard != nil {
					// flag-guarded: on this edge the flag is a constant, unchanged, or unknown (case by case, with the
					// branch leading to each case as path condition)
					var cases []guardCase
					guardCases(c.guard.Edges[e], c.guard, c.gtruth, nil, 0, &cases)
					for _, gc := range cases {
						if gc.kind == 1 {
							continue // the flag has the other value: nothing to show
						}
						h2 := append([]hypF{}, hyps...)
						if gc.via != nil {
							h2 = append(h2, hypF{via: gc.via})
						}
						if gc.kind == 2 {
							h2 = append(h2, hypF{f: c.f, blk: c.blk}) // unchanged flag: the fact held at the header
						}
						if !p.proveFlat(fn, term0, na, nb, c.f.c, h2) {
							ok = false
							break
						}
					}
					if !ok {
						break
					}
					continue
				}
				if !p.proveFlat(fn, term0, na, nb, c.f.c, hyps) {
					if dbg := os.Getenv("SLOGCHECK_F6CAND"); dbg != "" && strings.Contains(anchorName(fn), dbg) {
						fmt.Printf("F6CAND %s blk%d: %s - %s <= %d fails on edge %d (from blk%d): %s - %s\n", anchorName(fn), c.blk.Index, termStr(c.f.a), termStr(c.f.b), c.f.c, e, pred.Index, termStr(na), termStr(nb))
						if os.Getenv("SLOGCHECK_F6CANDV") != "" {
							s, _ := p.collect(fn, term0, na, nb, hyps, true)
							for _, f := range s.fs {
								fmt.Printf("      %s\n", linStr(f))
							}
							for _, f := range s.neq {
								fmt.Printf("      %s - %s != %d\n", termStr(f.a), termStr(f.b), f.c)
							}
						}
					}
					ok = false
					break
				}
			}
			if !ok {
				alive[i] = false
				changed = true
			}
		}
	}
	p.depth = savedDepth
	p.nest--
	var inv []hypF
	for i, c := range cands {
		if alive[i] {
			inv = append(inv, hypF{f: c.f, blk: c.blk, guard: c.guard, gtruth: c.gtruth})
		}
	}
	if dbg := os.Getenv("SLOGCHECK_F6INV"); dbg != "" && strings.Contains(anchorName(fn), dbg) {
		fmt.Printf("F6INV %s: %d candidates, %d invariants\n", anchorName(fn), len(cands), len(inv))
		for _, h := range inv {
			g := ""
			if h.guard != nil {
				g = fmt.Sprintf("  [when %s == %v]", h.guard.Name(), h.gtruth)
			}
			fmt.Printf("   blk%d: %s - %s <= %d%s\n", h.blk.Index, termStr(h.f.a), termStr(h.f.b), h.f.c, g)
		}
	}
	if old, ok := p.invCache[fn]; !ok || len(old.inv) != len(inv) {
		p.grew = true
	}
	p.invCache[fn] = invEntry{inv, p.taint, p.gen}
	p.taint = p.taint || savedTaint
	return inv
}

// proveFlat: facts and case analysis over the phis of join blocks (no interprocedural search)
func (p *prover) proveFlat(fn *ssa.Function, at ssa.Instruction, a, b term, c int64, hyp []hypF) bool {
	return p.proveSplit(fn, at, a, b, c, hyp, 0)
}

func (p *prover) proveSplit(fn *ssa.Function, at ssa.Instruction, a, b term, c int64, hyp []hypF, d int) bool {
	return p.proveSplitX(fn, at, a, b, c, hyp, d, map[*ssa.Phi]bool{}, true)
}

func (p *prover) proveSplitX(fn *ssa.Function, at ssa.Instruction, a, b term, c int64, hyp []hypF, d int, split map[*ssa.Phi]bool, direct bool) bool {
	p.steps++
	s, seen := p.collect(fn, at, a, b, hyp, direct)
	if implies(s, a, b, c) {
		return true
	}
	if d >= 4 {
		return false
	}
	// case analysis over the phi of a join block (not a loop header) that the goal or the facts mention:
	// the phi equals one of its incoming values
	var phis []*ssa.Phi
	for t := range seen {
		if t.v == nil || t.isLn {
			continue
		}
		if phi, ok := t.v.(*ssa.Phi); ok && !split[phi] && isIntType(phi.Type()) && !isLoopHeader(phi.Block()) &&
			(phi.Block() == at.Block() || phi.Block().Dominates(at.Block())) && len(phi.Edges) <= 6 {
			phis = append(phis, phi)
		}
	}
	sort.Slice(phis, func(i, j int) bool { return termKey(valT(phis[i])) < termKey(valT(phis[j])) })
	if len(phis) > 3 {
		phis = phis[:3]
	}
	for _, phi := range phis {
		split[phi] = true
		okAll := true
		for ei, e := range phi.Edges {
			pred := phi.Block().Preds[ei]
			h2 := append(append([]hypF{}, hyp...), hypF{f: fact{valT(phi), valT(e), 0}}, hypF{f: fact{valT(e), valT(phi), 0}})
			// control came through pred: the conditions dominating it and the condition of the edge held
			h2 = append(h2, hypF{via: pred.Instrs[len(pred.Instrs)-1]})
			h2 = append(h2, edgeHyp(pred, phi.Block())...)
			if !p.proveSplitX(fn, at, a, b, c, h2, d+1, split, direct) {
				okAll = false
				break
			}
		}
		delete(split, phi)
		if okAll {
			return true
		}
	}
	if dbg := os.Getenv("SLOGCHECK_F6LEAF"); dbg != "" && strings.Contains(anchorName(fn), dbg) {
		fmt.Printf("F6LEAF %s blk%d: %s - %s <= %d\n", anchorName(fn), at.Block().Index, termStr(a), termStr(b), c)
		for _, f := range s.fs {
			fmt.Printf("      %s\n", linStr(f))
		}
	}
	return false
}

func isLoopHeader(blk *ssa.BasicBlock) bool {
	for _, pr := range blk.Preds {
		if blk == pr || blk.Dominates(pr) {
			return true
		}
	}
	return false
}

// candidates: for every integer phi, bounds suggested by the function's own comparisons, constants, lengths and parameters
func (p *prover) candidates(fn *ssa.Function) []cand {
	var out []cand
	seen := map[string]bool{}
	add := func(blk *ssa.BasicBlock, a, b term, c int64) {
		k := fmt.Sprintf("%d|%s|%s|%d", blk.Index, termKey(a), termKey(b), c)
		if seen[k] {
			return
		}
		seen[k] = true
		out = append(out, cand{f: fact{a, b, c}, blk: blk})
	}
	// values usable in an invariant of block blk: parameters, constants and values defined in a strict dominator
	validAt := func(v ssa.Value, blk *ssa.BasicBlock) bool {
		v = strip(v)
		switch x := v.(type) {
		case *ssa.Parameter, *ssa.Const, *ssa.FreeVar:
			return true
		case ssa.Instruction:
			return x.Block() != blk && x.Block().Dominates(blk)
		}
		return false
	}
	// sequences whose length may bound a counter
	var seqs []ssa.Value
	seqSeen := map[ssa.Value]bool{}
	addSeq := func(v ssa.Value) {
		k := lenT(v).v
		if !seqSeen[k] {
			seqSeen[k] = true
			seqs = append(seqs, k)
		}
	}
	for _, prm := range fn.Params {
		if isSeqType(prm.Type()) {
			addSeq(prm)
		}
	}
	type cmpT struct {
		x   ssa.Value
		off int64
		y   ssa.Value
	}
	var cmps []cmpT
	var consts []int64
	constSeen := map[int64]bool{}
	eachInstr(fn, func(in ssa.Instruction) {
		if bo, ok := in.(*ssa.BinOp); ok && (bo.Op == token.ADD || bo.Op == token.SUB) {
			for _, o := range []ssa.Value{bo.X, bo.Y} {
				if k, ok := constInt(o); ok && k > 1 && k <= 64 && !constSeen[k] && len(consts) < 8 {
					constSeen[k] = true
					consts = append(consts, k)
				}
			}
		}
		switch x := in.(type) {
		case *ssa.Call:
			if isBuiltin(x, "len") && isSeqType(x.Call.Args[0].Type()) {
				addSeq(x.Call.Args[0])
			}
		case *ssa.BinOp:
			switch x.Op {
			case token.LSS, token.LEQ, token.GTR, token.GEQ, token.EQL, token.NEQ:
			default:
				return
			}
			if !isIntType(x.X.Type()) {
				return
			}
			for _, pr := range [][2]ssa.Value{{x.X, x.Y}, {x.Y, x.X}} {
				base, off := strip(pr[0]), int64(0)
				if add, ok := base.(*ssa.BinOp); ok && (add.Op == token.ADD || add.Op == token.SUB) {
					if kk, ok := constInt(add.Y); ok {
						base = strip(add.X)
						if add.Op == token.ADD {
							off = kk
						} else {
							off = -kk
						}
					}
				}
				cmps = append(cmps, cmpT{base, off, pr[1]})
			}
		}
	})
	for _, blk := range fn.Blocks {
		var phis []*ssa.Phi
		for _, in := range blk.Instrs {
			ph, ok := in.(*ssa.Phi)
			if !ok {
				break
			}
			if isIntType(ph.Type()) {
				phis = append(phis, ph)
			}
		}
		for _, ph := range phis {
			t := valT(ph)
			// constant lower bounds
			add(blk, zeroT(), t, 0)
			add(blk, zeroT(), t, 1)
			for _, e := range ph.Edges {
				if k, ok := constInt(e); ok {
					add(blk, zeroT(), t, -k)
					add(blk, t, zeroT(), k)
				}
			}
			// other phis of the block (also with the difference of their constant initial values)
			for _, q := range phis {
				if q != ph {
					add(blk, t, valT(q), 0)
					for _, e1 := range ph.Edges {
						k1, ok1 := constInt(e1)
						if !ok1 {
							continue
						}
						for _, e2 := range q.Edges {
							if k2, ok2 := constInt(e2); ok2 && k1-k2 != 0 && k1-k2 >= -4 && k1-k2 <= 4 {
								add(blk, t, valT(q), k1-k2)
							}
						}
					}
				}
			}
			// comparisons of the counter
			for _, cm := range cmps {
				if cm.x != ssa.Value(ph) {
					continue
				}
				if k, ok := constInt(cm.y); ok {
					for d := int64(-1); d <= 1; d++ {
						add(blk, t, zeroT(), k-cm.off+d)
						add(blk, zeroT(), t, -(k - cm.off + d))
					}
					continue
				}
				if validAt(cm.y, blk) {
					y := valT(cm.y)
					for d := int64(-1); d <= 1; d++ {
						add(blk, t, y, -cm.off+d)
						add(blk, y, t, cm.off+d)
					}
				}
			}
			// lengths (minus the small constants the function mentions)
			for _, sq := range seqs {
				if validAt(sq, blk) {
					l := term{v: sq, isLn: true}
					add(blk, t, l, 0)
					add(blk, t, l, -1)
					for _, k := range consts {
						add(blk, t, l, -k)
					}
				}
			}
			// integer parameters
			for _, prm := range fn.Params {
				if isIntType(prm.Type()) {
					add(blk, valT(prm), t, 0)
					add(blk, valT(prm), t, 1)
					add(blk, t, valT(prm), 0)
				}
			}
		}
	}
	// flag-guarded candidates: a boolean phi of a loop header (a scanner's state flag) implies a lower bound of a counter
	// of the same header — "inValue => i >= 1", "rangeStarted => i >= 2"
	for _, blk := range fn.Blocks {
		if !isLoopHeader(blk) {
			continue
		}
		var flags, ints []*ssa.Phi
		for _, in := range blk.Instrs {
			phi, ok := in.(*ssa.Phi)
			if !ok {
				break
			}
			if b, ok := phi.Type().Underlying().(*types.Basic); ok && b.Kind() == types.Bool {
				flags = append(flags, phi)
			} else if isIntType(phi.Type()) {
				ints = append(ints, phi)
			}
		}
		if len(flags) == 0 || len(flags) > 4 || len(ints) > 4 {
			continue
		}
		for _, g := range flags {
			for _, x := range ints {
				for _, k := range []int64{1, 2} {
					for _, truth := range []bool{true, false} {
						key := fmt.Sprintf("%d|g%s=%v|%s|%d", blk.Index, g.Name(), truth, termKey(valT(x)), k)
						if seen[key] {
							continue
						}
						seen[key] = true
						out = append(out, cand{f: fact{zeroT(), valT(x), -k}, blk: blk, guard: g, gtruth: truth})
					}
				}
			}
		}
	}
	return out
}

func isSeqType(t types.Type) bool {
	switch u := t.Underlying().(type) {
	case *types.Basic:
		return u.Info()&types.IsString != 0
	case *types.Slice:
		return true
	}
	return false
}

// ---- parameter preconditions: candidate facts over the parameters that hold at every call site of the module

// importCallerFacts: a function with exactly one call site in the module (an extracted helper) is entered in the state of
// that site. Everything known there (guards, the caller's own preconditions and invariants) is imported as it is — the
// caller's SSA values are just further variables of the linear system — and linked to the helper's world by equalities:
// argument i = parameter i (values and lengths), and the load of an immutable field of an argument object = the load of
// the same field through the parameter. Candidate-template preconditions (preconds) cannot express a guard such as
// len(value) > obj.maxLength + len(obj.suffix); this can.
func (p *prover) importCallerFacts(s *factSet, fn *ssa.Function, seen map[term]bool) {
	if p.importDepth >= 2 || fn.Parent() != nil {
		return
	}
	sites, ok := p.knownCallers(fn)
	if !ok || len(sites) != 1 {
		return
	}
	site := sites[0]
	caller := site.Parent()
	if caller == fn || caller.Blocks == nil {
		return
	}
	if _, isCall := site.(*ssa.Call); !isCall {
		return
	}
	args := site.Common().Args
	if len(args) != len(fn.Params) {
		return
	}
	p.importDepth++
	cs, _ := p.collectMulti(caller, site.(ssa.Instruction), nil, nil, false)
	p.importDepth--
	if len(cs.fs) > 400 {
		return
	}
	s.fs = append(s.fs, cs.fs...)
	eq := func(a, b term) {
		s.le(a, b, 0)
		s.le(b, a, 0)
	}
	fieldReps := func(f *ssa.Function, obj ssa.Value) map[int]ssa.Value {
		out := map[int]ssa.Value{}
		eachInstr(f, func(in ssa.Instruction) {
			u, ok := in.(*ssa.UnOp)
			if !ok || u.Op != token.MUL {
				return
			}
			fa, ok := strip(u.X).(*ssa.FieldAddr)
			if !ok || resolve(fa.X) != resolve(obj) || !p.immutableField[fieldName(fa.X.Type(), fa.Field)] {
				return
			}
			if _, have := out[fa.Field]; !have {
				out[fa.Field] = u
			}
		})
		return out
	}
	for i, prm := range fn.Params {
		a := args[i]
		switch {
		case isIntType(prm.Type()):
			eq(valT(a), valT(prm))
			p.defs(s, valT(a), seen, 0)
		case isSeqType(prm.Type()):
			eq(lenT(a), lenT(prm))
			p.defs(s, lenT(a), seen, 0)
		default:
			if _, isPtr := prm.Type().Underlying().(*types.Pointer); !isPtr {
				continue
			}
			inCallee, inCaller := fieldReps(fn, prm), fieldReps(caller, a)
			for fi, cu := range inCallee {
				ou, ok := inCaller[fi]
				if !ok {
					continue
				}
				if isIntType(cu.Type()) {
					eq(valT(ou), valT(cu))
				} else if isSeqType(cu.Type()) {
					eq(lenT(ou), lenT(cu))
				}
			}
		}
	}
	// the terms the links have just brought in (the length of an argument that is a slice of an immutable field of the
	// caller's receiver) get the caller's object facts too: they were not in sight when the caller's own facts were collected
	p.fieldLoadFacts(s, caller, seen)
}

func (p *prover) preconds(fn *ssa.Function) []fact {
	if e, ok := p.preCache[fn]; ok && (!e.tainted || e.gen == p.gen) {
		if e.tainted {
			p.taint = true
		}
		return e.facts
	}
	if p.preBusy[fn] {
		p.taint = true
		return p.preCache[fn].facts
	}
	sites, ok := p.knownCallers(fn)
	if !ok || len(sites) == 0 || len(sites) > 40 {
		p.preCache[fn] = preEntry{}
		return nil
	}
	if p.nest >= 6 {
		p.taint = true
		return p.preCache[fn].facts
	}
	p.preBusy[fn] = true
	defer delete(p.preBusy, fn)
	savedTaint := p.taint
	p.taint = false
	savedDepth := p.depth
	p.depth = 0
	p.nest++
	defer func() { p.depth = savedDepth; p.nest-- }()
	var cands []fact
	var tight []fact // x <= len(y) - k: the largest k <= 64 that holds at every call site is searched
	for i, x := range fn.Params {
		switch {
		case isIntType(x.Type()):
			cands = append(cands, fact{zeroT(), valT(x), 0}, fact{zeroT(), valT(x), 1}, fact{zeroT(), valT(x), -1})
			for j, y := range fn.Params {
				if i == j {
					continue
				}
				if isIntType(y.Type()) {
					cands = append(cands, fact{valT(x), valT(y), 0})
				}
				if isSeqType(y.Type()) {
					cands = append(cands, fact{valT(x), lenT(y), 0}, fact{valT(x), lenT(y), -1})
					tight = append(tight, fact{valT(x), lenT(y), 0})
				}
			}
		case isSeqType(x.Type()):
			cands = append(cands, fact{zeroT(), lenT(x), -1})
			tight = append(tight, fact{zeroT(), lenT(x), 0})
			if sl, ok := x.Type().Underlying().(*types.Slice); ok {
				if b, ok := sl.Elem().Underlying().(*types.Basic); ok && b.Kind() == types.Bool {
					cands = append(cands, fact{zeroT(), lenT(x), -256})
				}
			}
			for j, y := range fn.Params {
				if i != j && isSeqType(y.Type()) {
					cands = append(cands, fact{lenT(x), lenT(y), 0})
				}
			}
		}
	}
	for i := range f6StructInvs {
		si := &f6StructInvs[i]
		if !p.structInvOK[si.typ] {
			continue
		}
		for _, b := range invBases(fn, si) {
			for _, x := range fn.Params {
				if !isIntType(x.Type()) {
					continue
				}
				for _, sf := range si.slices {
					cands = append(cands, fact{valT(x), p.sentinel(fn, b, sf, true), 0})
				}
				for _, f := range si.ints {
					cands = append(cands, fact{p.sentinel(fn, b, f, false), valT(x), 0})
				}
			}
		}
	}
	var out []fact
	holdsAt := func(cd fact) bool {
		for _, site := range sites {
			if site.Parent() == fn {
				return false
			}
			na, nb := p.substParam(fn, site, cd.a), p.substParam(fn, site, cd.b)
			if (cd.a.v != nil && na.v == nil) || (cd.b.v != nil && nb.v == nil) || !p.prove(site.Parent(), site, na, nb, cd.c, nil) {
				return false
			}
		}
		return true
	}
	proved := map[fact]bool{}
	for _, cd := range cands {
		if holdsAt(cd) {
			out = append(out, cd)
			proved[cd] = true
		}
	}
	for _, cd := range tight {
		one := cd
		one.c = -1
		if !proved[one] {
			continue
		}
		lo, hi := int64(1), int64(64) // holds for lo, unknown above
		for lo < hi {
			mid := (lo + hi + 1) / 2
			try := cd
			try.c = -mid
			if holdsAt(try) {
				lo = mid
			} else {
				hi = mid - 1
			}
		}
		if lo > 1 {
			best := cd
			best.c = -lo
			out = append(out, best)
		}
	}
	if dbg := os.Getenv("SLOGCHECK_F6INV"); dbg != "" && strings.Contains(anchorName(fn), dbg) {
		fmt.Printf("F6PRE %s: %d call sites, %d candidates\n", anchorName(fn), len(sites), len(cands))
		for _, f := range out {
			fmt.Printf("   %s - %s <= %d\n", termStr(f.a), termStr(f.b), f.c)
		}
	}
	if old, ok := p.preCache[fn]; !ok || len(old.facts) != len(out) {
		p.grew = true
	}
	p.preCache[fn] = preEntry{out, p.taint, p.gen}
	p.taint = p.taint || savedTaint
	return out
}

// ---- summaries of integer results of module functions

// retFact:  coefRet*ret + sum(coef_i * x_i) <= c  where x_i is a parameter or the length of a parameter
type retFact struct {
	coefRet int64
	ops     []retOp
	c       int64
	except  []int64 // the fact does not hold when the result is one of these constants
}

type retOp struct {
	isLen bool
	idx   int
	coef  int64
}

type retKey struct {
	fn   *ssa.Function
	ridx int
}

func (p *prover) retSummary(callee *ssa.Function, ridx int) []retFact {
	k := retKey{callee, ridx}
	if e, ok := p.retCache[k]; ok && (!e.tainted || e.gen == p.gen) {
		if e.tainted {
			p.taint = true
		}
		return e.facts
	}
	if p.retBusy[k] {
		p.taint = true
		return p.retCache[k].facts
	}
	if p.nest >= 6 {
		p.taint = true
		return p.retCache[k].facts
	}
	rets := returnedValues(callee, ridx)
	if len(rets) == 0 || len(rets) > 12 {
		p.retCache[k] = retEntry{}
		return nil
	}
	p.retBusy[k] = true
	defer delete(p.retBusy, k)
	savedTaint := p.taint
	p.taint = false
	savedDepth := p.depth
	p.depth = 0 // a summary is an independent, cached computation
	p.nest++
	defer func() { p.depth = savedDepth; p.nest-- }()
	// holds(cd): the candidate holds at every return (constant results that fail become exceptions)
	holds := func(cd retFact) (bool, []int64) {
		var except []int64
		for _, rv := range rets {
			l := newLin(cd.c)
			l.addF(valT(rv.Val), cd.coefRet)
			for _, o := range cd.ops {
				if o.isLen {
					l.addF(term{v: callee.Params[o.idx], isLn: true}, o.coef)
				} else {
					l.addF(term{v: callee.Params[o.idx]}, o.coef)
				}
			}
			if p.proveLin(callee, rv.At, l) {
				continue
			}
			if kk, isK := constInt(rv.Val); isK {
				except = append(except, kk)
				continue
			}
			return false, nil
		}
		return len(except) < len(rets), except
	}
	var out []retFact
	try := func(cd retFact) bool {
		if ok, ex := holds(cd); ok {
			cd.except = ex
			out = append(out, cd)
			return true
		}
		return false
	}
	try(retFact{coefRet: -1, c: 0}) // ret >= 0
	try(retFact{coefRet: -1, c: 1}) // ret >= -1
	for i, prm := range callee.Params {
		if isSeqType(prm.Type()) {
			if !try(retFact{coefRet: 1, ops: []retOp{{true, i, -1}}, c: -1}) { // ret <= len(s) - 1
				try(retFact{coefRet: 1, ops: []retOp{{true, i, -1}}, c: 0}) // ret <= len(s)
			}
		}
		if isIntType(prm.Type()) {
			// tightest  ret <= x + d  and  ret >= x + d  for small d
			for d := int64(-1); d <= 10; d++ {
				if try(retFact{coefRet: 1, ops: []retOp{{false, i, -1}}, c: d}) {
					break
				}
			}
			for d := int64(10); d >= -1; d-- {
				if try(retFact{coefRet: -1, ops: []retOp{{false, i, 1}}, c: -d}) {
					break
				}
			}
			// ret <= x + len(s) + d
			for j, q := range callee.Params {
				if isSeqType(q.Type()) {
					for d := int64(0); d <= 10; d++ {
						if try(retFact{coefRet: 1, ops: []retOp{{false, i, -1}, {true, j, -1}}, c: d}) {
							break
						}
					}
				}
			}
		}
	}
	if old, ok := p.retCache[k]; !ok || len(old.facts) != len(out) {
		p.grew = true
	}
	p.retCache[k] = retEntry{out, p.taint, p.gen}
	p.taint = p.taint || savedTaint
	if dbg := os.Getenv("SLOGCHECK_F6INV"); dbg != "" && strings.Contains(anchorName(callee), dbg) {
		fmt.Printf("F6RET %s#%d: %d facts\n", anchorName(callee), ridx, len(out))
		for _, f := range out {
			fmt.Printf("   %+v\n", f)
		}
	}
	return out
}

// proveLin: a general linear goal, by the facts at `at` only (plus invariants and preconditions)
func (p *prover) proveLin(fn *ssa.Function, at ssa.Instruction, goal lin) bool {
	p.steps++
	var a, b term
	n := 0
	for t := range goal.t {
		if n == 0 {
			a = t
		} else if n == 1 {
			b = t
		}
		n++
	}
	if n <= 2 && (n == 0 || goal.t[a] == 1 || goal.t[a] == -1) && (n < 2 || goal.t[b] == -goal.t[a]) {
		// a difference goal: use the full prover (induction, callees, callers)
		switch {
		case n == 0:
			return 0 <= goal.c
		case n == 1 && goal.t[a] == 1:
			return p.prove(fn, at, a, zeroT(), goal.c, nil)
		case n == 1:
			return p.prove(fn, at, zeroT(), a, goal.c, nil)
		case goal.t[a] == 1:
			return p.prove(fn, at, a, b, goal.c, nil)
		default:
			return p.prove(fn, at, b, a, goal.c, nil)
		}
	}
	s := &factSet{}
	seen := map[term]bool{}
	var ts []term
	for t := range goal.t {
		ts = append(ts, t)
	}
	sort.Slice(ts, func(i, j int) bool { return termKey(ts[i]) < termKey(ts[j]) })
	s2, _ := p.collectMulti(fn, at, ts, nil, false)
	_ = s
	_ = seen
	return impliesLin(s2, goal)
}

// summaryFacts adds what is known about t when it is (an extracted component of) the result of a module call
func (p *prover) summaryFacts(s *factSet, t term, seen map[term]bool) {
	var cl *ssa.Call
	ridx := 0
	switch x := t.v.(type) {
	case *ssa.Call:
		cl = x
	case *ssa.Extract:
		if c2, ok := x.Tuple.(*ssa.Call); ok {
			cl, ridx = c2, x.Index
		}
	}
	if cl == nil {
		return
	}
	callee := cl.Common().StaticCallee()
	if callee == nil || callee.Blocks == nil || !strings.HasPrefix(fnPkgPath(callee), modPath) || ridx >= callee.Signature.Results().Len() {
		return
	}
	if !isIntType(callee.Signature.Results().At(ridx).Type()) {
		return
	}
	for _, rf := range p.retSummary(callee, ridx) {
		skip := false
		for _, k := range rf.except {
			if !p.excluded(s, t, k) {
				skip = true
				break
			}
		}
		if skip {
			continue
		}
		l := newLin(rf.c)
		l.addF(t, rf.coefRet)
		okArgs := true
		for _, o := range rf.ops {
			if o.idx >= len(cl.Common().Args) {
				okArgs = false
				break
			}
			var other term
			if o.isLen {
				other = lenT(cl.Common().Args[o.idx])
			} else {
				other = valT(cl.Common().Args[o.idx])
			}
			l.addF(other, o.coef)
			p.defs(s, other, seen, 1)
		}
		if okArgs {
			s.fs = append(s.fs, l)
		}
	}
}

// peel: t = base + k for a chain of additions/subtractions of constants
func peel(t term) (term, int64) {
	if t.v == nil || t.isLn {
		return t, 0
	}
	k := int64(0)
	v := t.v
	for i := 0; i < 6; i++ {
		bo, ok := v.(*ssa.BinOp)
		if !ok {
			break
		}
		if kk, ok := constInt(bo.Y); ok && bo.Op == token.ADD {
			k += kk
			v = valT(bo.X).v
			continue
		}
		if kk, ok := constInt(bo.Y); ok && bo.Op == token.SUB {
			k -= kk
			v = valT(bo.X).v
			continue
		}
		if kk, ok := constInt(bo.X); ok && bo.Op == token.ADD {
			k += kk
			v = valT(bo.Y).v
			continue
		}
		break
	}
	if v == t.v {
		return t, 0
	}
	return term{v: v}, k
}

func (p *prover) goalOverParams(fn *ssa.Function, ts ...term) bool {
	any := false
	for _, t := range ts {
		if t.v == nil {
			continue
		}
		if _, ok := t.v.(*ssa.Parameter); ok {
			any = true
			continue
		}
		if k, ok := p.sentOf[t.v]; ok && k.fn == fn {
			any = true
			continue
		}
		if _, ok := t.v.(*ssa.Const); ok {
			continue
		}
		return false
	}
	return any
}

func (p *prover) substParam(fn *ssa.Function, site ssa.CallInstruction, t term) term {
	if t.v == nil || t.v == ssa.Value(symNF) || t.v == ssa.Value(symMF) {
		return t
	}
	if k, ok := p.sentOf[t.v]; ok {
		if k.fn != fn {
			return term{}
		}
		r, ok := p.sentinelAtSite(fn, site, k)
		if !ok {
			return term{}
		}
		return r
	}
	prm, ok := t.v.(*ssa.Parameter)
	if !ok {
		return t
	}
	args := site.Common().Args
	for i, q := range fn.Params {
		if q == prm && i < len(args) {
			if t.isLn {
				return lenT(args[i])
			}
			return valT(args[i])
		}
	}
	return term{}
}

// knownCallers: all call sites of fn in the production universe, when fn is never used as a value
func (p *prover) knownCallers(fn *ssa.Function) ([]ssa.CallInstruction, bool) {
	if p.callIdx == nil {
		p.callIdx = map[*ssa.Function][]ssa.CallInstruction{}
		p.asValue = map[*ssa.Function]bool{}
		for f := range p.c.P.allFuncs {
			if f.Blocks == nil {
				continue
			}
			skip := nonUniversePkgs[fnPkgPath(f)]
			eachInstr(f, func(in ssa.Instruction) {
				var direct *ssa.Function
				if ci, ok := in.(ssa.CallInstruction); ok {
					if callee := ci.Common().StaticCallee(); callee != nil {
						if _, isClosure := ci.Common().Value.(*ssa.MakeClosure); !isClosure {
							direct = callee
						}
						if !skip {
							p.callIdx[callee] = append(p.callIdx[callee], ci)
						}
					}
				}
				var ops []*ssa.Value
				first := true
				for _, op := range in.Operands(ops) {
					if op == nil || *op == nil {
						continue
					}
					if g, ok := (*op).(*ssa.Function); ok {
						if g == direct && first {
							first = false // the callee operand of a direct call
							continue
						}
						p.asValue[g] = true
					}
				}
			})
		}
	}
	if p.asValue[fn] {
		return nil, false
	}
	if p.live == nil {
		// functions reachable from the program entry points (main, package initialisers): call sites in dead
		// code (unused exported helpers) say nothing about the values a function receives
		var roots []*ssa.Function
		for f := range p.c.P.allFuncs {
			if f.Pkg == nil || !strings.HasPrefix(fnPkgPath(f), modPath) || f.Parent() != nil {
				continue
			}
			if (f.Name() == "main" && f.Pkg.Pkg.Name() == "main") || f.Name() == "init" || strings.HasPrefix(f.Name(), "init#") {
				roots = append(roots, f)
			}
		}
		if len(roots) < 10 {
			broken("program entry points not found (%d)", len(roots))
		}
		p.live = map[*ssa.Function]bool{}
		for f := range p.c.P.reachableFrom(roots, nil) {
			p.live[f] = true
		}
		// goroutine entry points are reached through `go` statements, which are call instructions: covered
	}
	var sites []ssa.CallInstruction
	for _, site := range p.callIdx[fn] {
		if !p.live[site.Parent()] {
			continue
		}
		// a synthetic wrapper (pointer-receiver / bound-method thunk) that nothing calls or references is dead
		if w := site.Parent(); w.Synthetic != "" && !p.asValue[w] {
			if n := p.c.P.cg.Nodes[w]; n == nil || len(n.In) == 0 {
				continue
			}
		}
		sites = append(sites, site)
	}
	if sites == nil {
		sites = []ssa.CallInstruction{}
	}
	return sites, true
}

// proveOblig decides one index/slice obligation; returns (proved, what failed)
func (p *prover) proveOblig(fn *ssa.Function, o idxOblig) (bool, string) {
	x := o.X
	ln := lenT(x)
	if n := arrayLen(x.Type()); n >= 0 {
		// arrays: constant length
		if o.Kind == "index" {
			if k, ok := constInt(o.Idx); ok {
				if k >= 0 && k < n {
					return true, ""
				}
				return false, "constant index outside the array"
			}
		}
	}
	hyp := []hypF{}
	if n := arrayLen(x.Type()); n >= 0 {
		hyp = append(hyp, hypF{f: fact{ln, zeroT(), n}}, hypF{f: fact{zeroT(), ln, -n}})
	}
	switch o.Kind {
	case "index":
		i := valT(o.Idx)
		if !p.prove(fn, o.In, zeroT(), i, 0, hyp) {
			return false, "index may be negative"
		}
		if !p.prove(fn, o.In, i, ln, -1, hyp) {
			return false, "index may reach len"
		}
		return true, ""
	case "slice":
		lo, hi := zeroT(), ln
		if o.Lo != nil {
			lo = valT(o.Lo)
			if !p.prove(fn, o.In, zeroT(), lo, 0, hyp) {
				return false, "low bound may be negative"
			}
		}
		if o.Hi != nil {
			hi = valT(o.Hi)
			if !p.prove(fn, o.In, hi, ln, 0, hyp) {
				return false, "high bound may exceed len"
			}
		}
		if !p.prove(fn, o.In, lo, hi, 0, hyp) {
			return false, "low bound may exceed high bound"
		}
		return true, ""
	}
	return false, "unknown"
}

func termStr(t term) string {
	if t.v == nil {
		return "0"
	}
	if t.v == ssa.Value(symNF) {
		return "NF"
	}
	if t.v == ssa.Value(symMF) {
		return "MF"
	}
	if n, ok := termNames[t.v]; ok {
		return n
	}
	n := t.v.Name() + "=" + t.v.String()
	if len(n) > 60 {
		n = n[:60]
	}
	if t.isLn {
		return "len(" + n + ")"
	}
	return n
}

func linStr(l lin) string {
	var parts []string
	for t, k := range l.t {
		parts = append(parts, fmt.Sprintf("%d*%s", k, termStr(t)))
	}
	sort.Strings(parts)
	return strings.Join(parts, " + ") + fmt.Sprintf(" <= %d", l.c)
}

// structFacts / axiom: see f6inv.go

func init() {
	if os.Getenv("SLOGCHECK_F6WHY") != "" {
		f6why = os.Getenv("SLOGCHECK_F6WHY")
	}
}

var f6why string
