package main

// F6 contract facts ("axioms"): facts about values the engine cannot derive from the code because they
// are promised by a documented interface contract. Every use is recorded and reported as an assumed
// obligation (with the reason and the rule that checks the other side of the contract).

import (
	"fmt"
	"go/token"
	"go/types"
	"os"
	"sort"
	"strings"

	"golang.org/x/tools/go/ssa"
)

// contract facts about the result of an interface call
//
//	r = X.WriteFieldBody(value, record, buf)   (base.LogRewriter)
//	  0 <= r, r <= len(buf); r <= m for a dominating m = X.MaxFieldLength(value, record)
//	n, err = r.Read(p) style results are NOT assumed anywhere.
func (p *prover) contractFacts(s *factSet, t term, seen map[term]bool) {
	if t.isLn || t.v == nil {
		return
	}
	// n, err := read(p) through a value of the named type tcplistener.ioReader (io.Reader.Read contract:
	// 0 <= n <= len(p)); who may supply such a function is checked by C07.R1i
	if ex, ok := t.v.(*ssa.Extract); ok && ex.Index == 0 {
		if rc, ok := ex.Tuple.(*ssa.Call); ok && !rc.Common().IsInvoke() && rc.Common().StaticCallee() == nil &&
			typeName(rc.Common().Value.Type()) == "input/tcplistener.ioReader" && len(rc.Common().Args) == 1 {
			s.le(zeroT(), t, 0)
			s.le(t, lenT(rc.Common().Args[0]), 0)
			p.defs(s, lenT(rc.Common().Args[0]), seen, 1)
			p.noteUse("contract io.Reader.Read: 0 <= n <= len(p) for the connection reader passed to newMultiLineReader")
		}
	}
	// n, err := unix.Write(fd, p) / unix.Read(fd, p): -1 <= n <= len(p)  (read(2)/write(2))
	if ex, ok := t.v.(*ssa.Extract); ok && ex.Index == 0 {
		if rc, ok := ex.Tuple.(*ssa.Call); ok && rc.Common().StaticCallee() != nil {
			switch extName(rc.Common().StaticCallee()) {
			case "golang.org/x/sys/unix.Write", "golang.org/x/sys/unix.Read", "syscall.Write", "syscall.Read":
				s.le(zeroT(), t, 1)
				s.le(t, lenT(rc.Common().Args[1]), 0)
				p.defs(s, lenT(rc.Common().Args[1]), seen, 1)
				p.noteUse("OS contract read(2)/write(2): the byte count returned does not exceed the buffer length")
			}
		}
	}
	cl, ok := t.v.(*ssa.Call)
	if !ok || !cl.Common().IsInvoke() {
		return
	}
	cc := cl.Common()
	if typeName(cc.Value.Type()) != "base.LogRewriter" {
		return
	}
	switch cc.Method.Name() {
	case "MaxFieldLength":
		s.le(zeroT(), t, 0)
		p.noteUse("contract base.LogRewriter.MaxFieldLength: result >= 0 (every implementation checked by C07.R4c)")
	case "WriteFieldBody":
		s.le(zeroT(), t, 0)
		s.le(t, lenT(cc.Args[2]), 0)
		p.defs(s, lenT(cc.Args[2]), seen, 1)
		p.noteUse("contract base.LogRewriter.WriteFieldBody: 0 <= result <= len(buffer) (every implementation checked by C07.R4c)")
		// a dominating MaxFieldLength call on the same rewriter with the same arguments
		eachInstr(cl.Parent(), func(in ssa.Instruction) {
			m, ok := in.(*ssa.Call)
			if !ok || !m.Common().IsInvoke() || m.Common().Method.Name() != "MaxFieldLength" {
				return
			}
			if !sameValue(m.Common().Value, cc.Value) || !sameValue(m.Common().Args[0], cc.Args[0]) || !sameValue(m.Common().Args[1], cc.Args[1]) {
				return
			}
			if m.Block() != cl.Block() && !m.Block().Dominates(cl.Block()) {
				return
			}
			s.le(t, valT(m), 0)
			p.noteUse("contract base.LogRewriter: WriteFieldBody result <= MaxFieldLength of the same value and record")
		})
	}
}

// entry facts of contract implementations:
//
//	func (T) WriteFieldBody(value, record, buffer): len(buffer) >= MaxFieldLength(value, record); when T's
//	MaxFieldLength is literally `return len(value)` this gives len(value) <= len(buffer)
func (p *prover) contractEntryFacts(s *factSet, fn *ssa.Function, seen map[term]bool) {
	if fn.Signature.Recv() == nil || fn.Name() != "WriteFieldBody" || len(fn.Params) != 4 {
		return
	}
	if !p.implementsRewriter(fn.Signature.Recv().Type()) {
		return
	}
	mx := p.c.P.prog.LookupMethod(fn.Signature.Recv().Type(), fn.Pkg.Pkg, "MaxFieldLength")
	if mx == nil || mx.Blocks == nil {
		return
	}
	rets := returnedValues(mx, 0)
	if len(rets) != 1 {
		return
	}
	lc, ok := strip(rets[0].Val).(*ssa.Call)
	if !ok || !isBuiltin(lc, "len") || strip(lc.Call.Args[0]) != ssa.Value(mx.Params[1]) {
		return
	}
	s.le(lenT(fn.Params[1]), lenT(fn.Params[3]), 0)
	p.noteUse(fmt.Sprintf("contract base.LogRewriter: %s is given a buffer of at least MaxFieldLength(value) = len(value) bytes (caller side checked by C07.R4)", anchorName(fn)))
}

func (p *prover) implementsRewriter(t types.Type) bool {
	if p.rewriterIface == nil {
		for _, pk := range p.c.P.prog.AllPackages() {
			if strings.HasSuffix(pk.Pkg.Path(), "/base") && strings.HasPrefix(pk.Pkg.Path(), modPath) {
				if m, ok := pk.Members["LogRewriter"].(*ssa.Type); ok {
					p.rewriterIface, _ = m.Type().Underlying().(*types.Interface)
				}
			}
		}
		if p.rewriterIface == nil {
			broken("base.LogRewriter interface not found")
		}
	}
	return types.Implements(t, p.rewriterIface)
}

func (p *prover) noteUse(what string) {
	for _, u := range p.used {
		if u == what {
			return
		}
	}
	p.used = append(p.used, what)
}

func (p *prover) structFacts(s *factSet, fn *ssa.Function, at ssa.Instruction, seen map[term]bool) {
	p.contractEntryFacts(s, fn, seen)
	p.fieldLoadFacts(s, fn, seen)
	p.structInvFacts(s, fn, seen)
}

func (p *prover) axiom(fn *ssa.Function, at ssa.Instruction, a, b term, c int64) bool { return false }

// ---------------------------------------------------------------------------
// Schema contract (class C): one LogSchema governs the process.
//   SC1  every value of type base.LogFieldLocator is in [0, NF-1]            (NF = number of schema fields)
//   SC2  len(LogRecord.Fields) = MF, NF <= MF                                 (MF = schema.maxFields)
//   SC3  len(LogSchema.fieldNames) = len(GetFieldNames()) = NF, GetMaxFields() = MF
// The producers are checked structurally by rule C07.R1s (who may create a locator, who may store Fields,
// NewLogSchema's guard). NF and MF are symbolic constants of the engine.

var (
	symNF = ssa.NewConst(nil, types.Typ[types.UnsafePointer])
	symMF = ssa.NewConst(nil, types.Typ[types.UnsafePointer])
)

func nfT() term { return term{v: symNF} }
func mfT() term { return term{v: symMF} }

func (p *prover) schemaBase(s *factSet) {
	s.le(zeroT(), nfT(), 0)
	s.le(nfT(), mfT(), 0)
}

// schemaFacts adds SC1..SC3 for term t; reports whether something was added
func (p *prover) schemaFacts(s *factSet, t term) {
	v := t.v
	if v == nil || v == ssa.Value(symNF) || v == ssa.Value(symMF) {
		return
	}
	if _, isConst := v.(*ssa.Const); isConst {
		return // MissingFieldLocator (-1) is a constant of the locator type
	}
	if !t.isLn {
		if typeName(v.Type()) == "base.LogFieldLocator" {
			s.le(zeroT(), t, 0)
			s.le(t, nfT(), -1)
			p.schemaBase(s)
			p.noteUse("schema contract SC1: a base.LogFieldLocator is a valid index into the schema's fields (producers checked by C07.R1s)")
		}
		if cl, ok := v.(*ssa.Call); ok {
			if f := cl.Common().StaticCallee(); f != nil && isAnchor(f, "base.(*LogSchema).GetMaxFields") {
				s.eq(t, mfT(), 0)
				p.schemaBase(s)
				p.noteUse("schema contract SC3: GetMaxFields() is the schema's maxFields")
			}
		}
		if u, ok := v.(*ssa.UnOp); ok && u.Op == token.MUL {
			if fa, ok := strip(u.X).(*ssa.FieldAddr); ok && fieldName(fa.X.Type(), fa.Field) == "base.LogSchema.maxFields" {
				s.eq(t, mfT(), 0)
				p.schemaBase(s)
				p.noteUse("schema contract SC3: LogSchema.maxFields is the schema's maxFields")
			}
		}
		if f, ok := v.(*ssa.Field); ok && fieldName(f.X.Type(), f.Field) == "base.LogSchema.maxFields" {
			s.eq(t, mfT(), 0)
			p.schemaBase(s)
			p.noteUse("schema contract SC3: LogSchema.maxFields is the schema's maxFields")
		}
		return
	}
	fname := ""
	switch x := v.(type) {
	case *ssa.UnOp:
		if fa, ok := strip(x.X).(*ssa.FieldAddr); ok && x.Op == token.MUL {
			fname = fieldName(fa.X.Type(), fa.Field)
		}
	case *ssa.Field:
		fname = fieldName(x.X.Type(), x.Field)
	case *ssa.Call:
		if f := x.Common().StaticCallee(); f != nil && isAnchor(f, "base.(*LogSchema).GetFieldNames") {
			fname = "base.LogSchema.fieldNames"
		}
	}
	switch fname {
	case "base.LogRecord.Fields":
		s.eq(t, mfT(), 0)
		p.schemaBase(s)
		p.noteUse("schema contract SC2: LogRecord.Fields has the schema's maxFields elements (producers checked by C07.R1s)")
	case "base.LogSchema.fieldNames":
		s.eq(t, nfT(), 0)
		p.schemaBase(s)
		p.noteUse("schema contract SC3: LogSchema.fieldNames has one element per schema field")
	}
}

// ---------------------------------------------------------------------------
// Immutable slice fields: a field that is only ever stored into a freshly allocated object (constructor)
// keeps the length relations that hold at every such store:
//   len(F) = NF, len(F) = MF, len(F) >= 1, len(F) = len(G) for fields F, G stored by the same constructor.

type fieldLenFacts struct {
	eqConst    int64 // > 0: the length is this constant
	eqNF, eqMF bool
	eqField    map[string]bool // fields of the same struct with equal length
}

func (p *prover) immutableLenFacts() map[string]*fieldLenFacts {
	if p.fieldLens != nil {
		return p.fieldLens
	}
	p.fieldLens = map[string]*fieldLenFacts{}
	type storeT struct {
		fn    *ssa.Function
		at    *ssa.Store
		base  ssa.Value
		field string
	}
	byField := map[string][]storeT{}
	for fn := range p.c.P.allFuncs {
		if fn.Blocks == nil || !p.c.P.inUni[fn] {
			continue
		}
		eachInstr(fn, func(in ssa.Instruction) {
			st, ok := in.(*ssa.Store)
			if !ok {
				return
			}
			fa, ok := strip(st.Addr).(*ssa.FieldAddr)
			if !ok || !isSeqType(st.Val.Type()) {
				return
			}
			name := fieldName(fa.X.Type(), fa.Field)
			if !p.immutableField[name] {
				return
			}
			byField[name] = append(byField[name], storeT{fn, st, strip(fa.X), name})
		})
	}
	var names []string
	for n := range byField {
		names = append(names, n)
	}
	sort.Strings(names)
	saved := p.depth
	for _, name := range names {
		stores := byField[name]
		ff := &fieldLenFacts{eqNF: true, eqMF: true, eqField: map[string]bool{}}
		first := true
		for _, k := range []int64{8, 16, 32, 64, 128, 256} {
			all := true
			for _, st := range stores {
				lv := lenT(st.at.Val)
				p.depth = 0
				if !(p.prove(st.fn, st.at, lv, zeroT(), k, nil) && p.prove(st.fn, st.at, zeroT(), lv, -k, nil)) {
					all = false
					break
				}
			}
			if all {
				ff.eqConst = k
				break
			}
		}
		for _, st := range stores {
			lv := lenT(st.at.Val)
			p.depth = 0
			if ff.eqNF && !(p.prove(st.fn, st.at, lv, nfT(), 0, nil) && p.prove(st.fn, st.at, nfT(), lv, 0, nil)) {
				ff.eqNF = false
			}
			if ff.eqMF && !(p.prove(st.fn, st.at, lv, mfT(), 0, nil) && p.prove(st.fn, st.at, mfT(), lv, 0, nil)) {
				ff.eqMF = false
			}
			// sibling fields stored into the same object in the same function
			sib := map[string]bool{}
			eachInstr(st.fn, func(in ssa.Instruction) {
				o, ok := in.(*ssa.Store)
				if !ok || o == st.at {
					return
				}
				fa, ok := strip(o.Addr).(*ssa.FieldAddr)
				if !ok || strip(fa.X) != st.base || !isSeqType(o.Val.Type()) {
					return
				}
				other := fieldName(fa.X.Type(), fa.Field)
				if !p.immutableField[other] {
					return
				}
				lo := lenT(o.Val)
				// proved at the later of the two stores
				at := ssa.Instruction(st.at)
				if o.Block() == st.at.Block() {
					for _, i2 := range o.Block().Instrs {
						if i2 == ssa.Instruction(o) {
							at = o
						}
						if i2 == ssa.Instruction(st.at) {
							at = st.at
						}
					}
				} else if st.at.Block().Dominates(o.Block()) {
					at = o
				}
				if p.prove(st.fn, at, lv, lo, 0, nil) && p.prove(st.fn, at, lo, lv, 0, nil) {
					sib[other] = true
				}
			})
			if first {
				ff.eqField = sib
				first = false
			} else {
				for k := range ff.eqField {
					if !sib[k] {
						delete(ff.eqField, k)
					}
				}
			}
		}
		p.fieldLens[name] = ff
	}
	p.depth = saved
	if os.Getenv("SLOGCHECK_F6INV") != "" {
		for _, n := range names {
			ff := p.fieldLens[n]
			if ff.eqNF || ff.eqMF || len(ff.eqField) > 0 || ff.eqConst > 0 {
				fmt.Printf("F6FIELD %s: const=%d eqNF=%v eqMF=%v eq=%v\n", n, ff.eqConst, ff.eqNF, ff.eqMF, ff.eqField)
			}
		}
	}
	return p.fieldLens
}

// fieldLoadFacts: length facts of loads of immutable fields in fn (per base object)
func (p *prover) fieldLoadFacts(s *factSet, fn *ssa.Function, seen map[term]bool) {
	if p.fieldLensBusy {
		return
	}
	p.fieldLensBusy = true
	fl := p.immutableLenFacts()
	p.fieldLensBusy = false
	type ld struct {
		v     ssa.Value
		base  ssa.Value
		field string
	}
	loads, ok := p.loadCache[fn]
	if !ok {
		eachInstr(fn, func(in ssa.Instruction) {
			u, ok := in.(*ssa.UnOp)
			if !ok || u.Op != token.MUL || !isSeqType(u.Type()) {
				return
			}
			fa, ok := strip(u.X).(*ssa.FieldAddr)
			if !ok {
				return
			}
			name := fieldName(fa.X.Type(), fa.Field)
			if fl[name] == nil {
				return
			}
			loads = append(loads, fieldLoad{u, resolve(fa.X), name})
		})
		p.loadCache[fn] = loads
	}
	for _, l := range loads {
		lt := lenT(l.v)
		if !seen[lt] {
			continue
		}
		ff := fl[l.field]
		if ff.eqConst > 0 {
			s.eq(lt, zeroT(), ff.eqConst)
		}
		if ff.eqNF {
			s.eq(lt, nfT(), 0)
			p.schemaBase(s)
		}
		if ff.eqMF {
			s.eq(lt, mfT(), 0)
			p.schemaBase(s)
		}
		for _, o := range loads {
			if o.base == l.base && ff.eqField[o.field] {
				s.eq(lt, lenT(o.v), 0)
			}
		}
	}
}

type fieldLoad struct {
	v     ssa.Value
	base  ssa.Value
	field string
}

// ---------------------------------------------------------------------------
// length of a slice/string result of a module function: len(ret) = len(param_i), = NF or = MF

type lenRetFact struct {
	kind int // 0: = len(param idx), 1: = NF, 2: = MF, 3: <= len(param idx), 4: = constant idx
	idx  int
}

func (p *prover) lenRetSummary(callee *ssa.Function, ridx int) []lenRetFact {
	k := retKey{callee, ridx}
	if e, ok := p.lenRetCache[k]; ok && (!e.tainted || e.gen == p.gen) {
		if e.tainted {
			p.taint = true
		}
		return e.facts
	}
	if p.nest >= 6 || p.lenRetBusy[k] {
		p.taint = true
		return p.lenRetCache[k].facts
	}
	rets := returnedValues(callee, ridx)
	if len(rets) == 0 || len(rets) > 8 {
		p.lenRetCache[k] = lenRetEntry{}
		return nil
	}
	p.lenRetBusy[k] = true
	defer delete(p.lenRetBusy, k)
	savedTaint := p.taint
	p.taint = false
	var cands []lenRetFact
	for i, prm := range callee.Params {
		if isSeqType(prm.Type()) {
			cands = append(cands, lenRetFact{0, i})
		}
	}
	cands = append(cands, lenRetFact{1, 0}, lenRetFact{2, 0})
	for i, prm := range callee.Params {
		if isSeqType(prm.Type()) {
			cands = append(cands, lenRetFact{3, i})
		}
	}
	for _, k := range []int{8, 16, 32, 64, 128, 256} {
		cands = append(cands, lenRetFact{4, k})
	}
	var out []lenRetFact
	haveEq := map[int]bool{}
	savedDepth := p.depth
	p.depth = 0
	p.nest++
	defer func() { p.depth = savedDepth; p.nest-- }()
	for _, cd := range cands {
		var other term
		var off int64
		switch cd.kind {
		case 0, 3:
			other = term{v: callee.Params[cd.idx], isLn: true}
		case 1:
			other = nfT()
		case 2:
			other = mfT()
		case 4:
			other, off = zeroT(), int64(cd.idx)
		}
		if cd.kind == 3 && haveEq[cd.idx] {
			continue
		}
		ok := true
		for _, rv := range rets {
			if kc, isK := strip(rv.Val).(*ssa.Const); isK && kc.IsNil() {
				ok = false // nil result (error path): no length relation claimed
				break
			}
			lt := lenT(rv.Val)
			if !p.prove(callee, rv.At, lt, other, off, nil) {
				ok = false
				break
			}
			if cd.kind != 3 && !p.prove(callee, rv.At, other, lt, -off, nil) {
				ok = false
				break
			}
		}
		if ok {
			out = append(out, cd)
			if cd.kind == 0 {
				haveEq[cd.idx] = true
			}
		}
	}
	if old, ok := p.lenRetCache[k]; !ok || len(old.facts) != len(out) {
		p.grew = true
	}
	p.lenRetCache[k] = lenRetEntry{out, p.taint, p.gen}
	p.taint = p.taint || savedTaint
	return out
}

type lenRetEntry struct {
	facts   []lenRetFact
	tainted bool
	gen     int
}

func (p *prover) lenSummaryFacts(s *factSet, t term, seen map[term]bool) {
	if !t.isLn || t.v == nil {
		return
	}
	var cl *ssa.Call
	ridx := 0
	switch x := t.v.(type) {
	case *ssa.Call:
		cl = x
	case *ssa.Extract:
		if c2, ok := x.Tuple.(*ssa.Call); ok {
			cl, ridx = c2, x.Index
		}
	}
	if cl == nil {
		return
	}
	callee := cl.Common().StaticCallee()
	if callee == nil || callee.Blocks == nil || !strings.HasPrefix(fnPkgPath(callee), modPath) || ridx >= callee.Signature.Results().Len() {
		return
	}
	if !isSeqType(callee.Signature.Results().At(ridx).Type()) {
		return
	}
	for _, f := range p.lenRetSummary(callee, ridx) {
		switch f.kind {
		case 0:
			if f.idx < len(cl.Common().Args) {
				o := lenT(cl.Common().Args[f.idx])
				s.eq(t, o, 0)
				p.defs(s, o, seen, 1)
			}
		case 1:
			s.eq(t, nfT(), 0)
			p.schemaBase(s)
		case 2:
			s.eq(t, mfT(), 0)
			p.schemaBase(s)
		case 3:
			if f.idx < len(cl.Common().Args) {
				o := lenT(cl.Common().Args[f.idx])
				s.le(t, o, 0)
				p.defs(s, o, seen, 1)
			}
		case 4:
			s.eq(t, zeroT(), int64(f.idx))
		}
	}
}

// ---------------------------------------------------------------------------
// Verified configuration values: an accepted configuration passed VerifyConfig (C16) and is not modified
// afterwards, so a field that VerifyConfig rejects when `field <= 0` is >= 1 wherever the configuration is read.
// Rule C07.R1c checks that the rejecting branch exists.

var f6ConfigLower = map[string]int64{
	"transform/ttruncate.Config.MaxLength":       1,
	"transform/textractspecial.Config.MaxLength": 1,
}

func (p *prover) verifyConfigLower(c *Ctx) {
	var keys []string
	for k := range f6ConfigLower {
		keys = append(keys, k)
	}
	sort.Strings(keys)
	for _, k := range keys {
		i := strings.LastIndex(k, ".")
		typ, field := k[:i], k[i+1:]
		j := strings.LastIndex(typ, ".")
		fn := c.P.Fn(typ[:j] + ".(*" + typ[j+1:] + ").VerifyConfig")
		found := false
		var at ssa.Instruction
		for _, b := range fn.Blocks {
			iff, ok := b.Instrs[len(b.Instrs)-1].(*ssa.If)
			if !ok {
				continue
			}
			bo, ok := iff.Cond.(*ssa.BinOp)
			if !ok {
				continue
			}
			lhs := canonOf(bo.X)
			kv, isK := constInt(bo.Y)
			if lhs != "recv."+field || !isK {
				continue
			}
			rejectsBelow := (bo.Op == token.LEQ && kv == f6ConfigLower[k]-1) || (bo.Op == token.LSS && kv == f6ConfigLower[k])
			if !rejectsBelow {
				continue
			}
			// the true edge must end in a non-nil error return without rejoining
			ok2 := true
			seenB := map[*ssa.BasicBlock]bool{}
			work := []*ssa.BasicBlock{b.Succs[0]}
			for len(work) > 0 {
				x := work[len(work)-1]
				work = work[:len(work)-1]
				if seenB[x] {
					continue
				}
				seenB[x] = true
				if x == b.Succs[1] {
					ok2 = false
				}
				if r, isRet := x.Instrs[len(x.Instrs)-1].(*ssa.Return); isRet {
					if kc, isC := r.Results[len(r.Results)-1].(*ssa.Const); isC && kc.IsNil() {
						ok2 = false
					}
				}
				work = append(work, x.Succs...)
			}
			if ok2 {
				found = true
				at = iff
			}
		}
		pos := fn.Pos()
		if at != nil {
			pos = at.Pos()
		}
		c.check(found, "C07.R1c", fn, fmt.Sprintf("VerifyConfig rejects %s < %d", field, f6ConfigLower[k]), pos,
			"the branch on the field returns an error: an accepted configuration has the field at or above the bound",
			"no rejecting branch found: run-time code slices by this value assuming it is positive")
		p.configLowerOK[k] = found
	}
}

// intFieldLower: immutable integer fields whose every stored value is provably >= 0 / >= 1
func (p *prover) intFieldLowerFacts() map[string]int64 {
	if p.intLower != nil {
		return p.intLower
	}
	p.intLower = map[string]int64{}
	type storeT struct {
		fn *ssa.Function
		at *ssa.Store
	}
	byField := map[string][]storeT{}
	for _, fn := range p.c.P.universe {
		if fn.Blocks == nil {
			continue
		}
		eachInstr(fn, func(in ssa.Instruction) {
			st, ok := in.(*ssa.Store)
			if !ok || !isIntType(st.Val.Type()) {
				return
			}
			fa, ok := strip(st.Addr).(*ssa.FieldAddr)
			if !ok {
				return
			}
			name := fieldName(fa.X.Type(), fa.Field)
			if p.immutableField[name] {
				byField[name] = append(byField[name], storeT{fn, st})
			}
		})
	}
	var names []string
	for n := range byField {
		names = append(names, n)
	}
	sort.Strings(names)
	saved := p.depth
	for _, n := range names {
		best := int64(-1)
		for _, lo := range []int64{1, 0} {
			ok := true
			for _, st := range byField[n] {
				p.depth = 0
				if !p.prove(st.fn, st.at, zeroT(), valT(st.at.Val), -lo, nil) {
					ok = false
					break
				}
			}
			if ok {
				best = lo
				break
			}
		}
		if best >= 0 {
			p.intLower[n] = best
		}
	}
	p.depth = saved
	if os.Getenv("SLOGCHECK_F6INV") != "" {
		for _, n := range names {
			if lo, ok := p.intLower[n]; ok {
				fmt.Printf("F6INTFIELD %s >= %d\n", n, lo)
			}
		}
	}
	return p.intLower
}

// ---- success-conditional summaries: err == nil after a module call implies lower bounds on the lengths of its arguments

type succFact struct {
	idx int   // parameter index
	k   int64 // len(param) >= k at every return that may carry a nil error
}

var succCache = map[*ssa.Function][]succFact{}
var succBusy = map[*ssa.Function]bool{}

// succSummary: for a callee whose last result is an error, the facts len(param_i) >= k that hold at every return whose
// error result is the nil constant (returns of other error values are treated as possibly-nil and must satisfy the fact
// too, unless the value is built by an error constructor)
func (p *prover) succSummary(callee *ssa.Function) []succFact {
	if f, ok := succCache[callee]; ok {
		return f
	}
	if succBusy[callee] || p.nest >= 6 {
		return nil
	}
	nres := callee.Signature.Results().Len()
	if nres == 0 || !isErrorType(callee.Signature.Results().At(nres-1).Type()) {
		succCache[callee] = nil
		return nil
	}
	rets := returnedValues(callee, nres-1)
	var succ []retVal
	for _, rv := range rets {
		if certainlyNonNilError(rv.Val) {
			continue
		}
		succ = append(succ, rv)
	}
	if len(succ) == 0 || len(succ) > 8 {
		succCache[callee] = nil
		return nil
	}
	succBusy[callee] = true
	defer delete(succBusy, callee)
	savedDepth := p.depth
	p.depth = 0
	p.nest++
	defer func() { p.depth = savedDepth; p.nest-- }()
	var out []succFact
	for i, prm := range callee.Params {
		if !isSeqType(prm.Type()) {
			continue
		}
		// candidate bounds: constants the length of this parameter is compared with
		cands := map[int64]bool{}
		eachInstr(callee, func(in ssa.Instruction) {
			bo, ok := in.(*ssa.BinOp)
			if !ok {
				return
			}
			for _, pair := range [][2]ssa.Value{{bo.X, bo.Y}, {bo.Y, bo.X}} {
				cl, ok := pair[0].(*ssa.Call)
				if !ok || !isBuiltin(cl, "len") || lenKey(cl.Call.Args[0]) != lenKey(prm) {
					continue
				}
				if k, ok := constInt(pair[1]); ok && k > 0 && k < 1<<20 {
					cands[k], cands[k+1] = true, true
				}
			}
		})
		var ks []int64
		for k := range cands {
			ks = append(ks, k)
		}
		sort.Slice(ks, func(a, b int) bool { return ks[a] > ks[b] })
		for _, k := range ks {
			all := true
			for _, rv := range succ {
				// k <= len(prm) at the return
				if !p.prove(callee, rv.At, zeroT(), term{v: prm, isLn: true}, -k, nil) {
					all = false
					break
				}
			}
			if all {
				out = append(out, succFact{i, k})
				break
			}
		}
	}
	succCache[callee] = out
	return out
}

// succFacts: cond tests an error against nil; on the nil side the success summary of the call that produced it applies
func (p *prover) succFacts(s *factSet, cond ssa.Value, truth bool, seen map[term]bool) {
	bo, ok := cond.(*ssa.BinOp)
	if !ok || (bo.Op != token.EQL && bo.Op != token.NEQ) {
		return
	}
	var e ssa.Value
	if k, ok := bo.Y.(*ssa.Const); ok && k.IsNil() {
		e = bo.X
	} else if k, ok := bo.X.(*ssa.Const); ok && k.IsNil() {
		e = bo.Y
	}
	if e == nil || !isErrorType(e.Type()) {
		return
	}
	isNil := (bo.Op == token.EQL) == truth
	if !isNil {
		return
	}
	var cl *ssa.Call
	switch x := e.(type) {
	case *ssa.Call:
		cl = x
	case *ssa.Extract:
		cl, _ = x.Tuple.(*ssa.Call)
	}
	if cl == nil {
		return
	}
	callee := cl.Common().StaticCallee()
	if callee == nil || callee.Blocks == nil || !strings.HasPrefix(fnPkgPath(callee), modPath) {
		return
	}
	for _, sf := range p.succSummary(callee) {
		if sf.idx >= len(cl.Common().Args) {
			continue
		}
		lt := lenT(cl.Common().Args[sf.idx])
		s.le(zeroT(), lt, -sf.k)
		p.defs(s, lt, seen, 1)
	}
}
