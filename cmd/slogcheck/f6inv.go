package main

import (
	"golang.org/x/tools/go/ssa"
)

func (p *prover) structFacts(s *factSet, fn *ssa.Function, at ssa.Instruction, seen map[term]bool) {}

func (p *prover) axiom(fn *ssa.Function, at ssa.Instruction, a, b term, c int64) bool { return false }
