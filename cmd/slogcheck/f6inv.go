package main

// F6 contract facts ("axioms"): facts about values the engine cannot derive from the code because they
// are promised by a documented interface contract. Every use is recorded and reported as an assumed
// obligation (with the reason and the rule that checks the other side of the contract).

import (
	"fmt"
	"go/types"
	"strings"

	"golang.org/x/tools/go/ssa"
)

// contract facts about the result of an interface call
//
//	r = X.WriteFieldBody(value, record, buf)   (base.LogRewriter)
//	  0 <= r, r <= len(buf); r <= m for a dominating m = X.MaxFieldLength(value, record)
//	n, err = r.Read(p) style results are NOT assumed anywhere.
func (p *prover) contractFacts(s *factSet, t term, seen map[term]bool) {
	if t.isLn || t.v == nil {
		return
	}
	cl, ok := t.v.(*ssa.Call)
	if !ok || !cl.Common().IsInvoke() {
		return
	}
	cc := cl.Common()
	if typeName(cc.Value.Type()) != "base.LogRewriter" {
		return
	}
	switch cc.Method.Name() {
	case "WriteFieldBody":
		s.le(zeroT(), t, 0)
		s.le(t, lenT(cc.Args[2]), 0)
		p.defs(s, lenT(cc.Args[2]), seen, 1)
		p.noteUse("contract base.LogRewriter.WriteFieldBody: 0 <= result <= len(buffer)")
		// a dominating MaxFieldLength call on the same rewriter with the same arguments
		eachInstr(cl.Parent(), func(in ssa.Instruction) {
			m, ok := in.(*ssa.Call)
			if !ok || !m.Common().IsInvoke() || m.Common().Method.Name() != "MaxFieldLength" {
				return
			}
			if !sameValue(m.Common().Value, cc.Value) || !sameValue(m.Common().Args[0], cc.Args[0]) || !sameValue(m.Common().Args[1], cc.Args[1]) {
				return
			}
			if m.Block() != cl.Block() && !m.Block().Dominates(cl.Block()) {
				return
			}
			s.le(t, valT(m), 0)
			p.noteUse("contract base.LogRewriter: WriteFieldBody result <= MaxFieldLength of the same value and record")
		})
	}
}

// entry facts of contract implementations:
//
//	func (T) WriteFieldBody(value, record, buffer): len(buffer) >= MaxFieldLength(value, record); when T's
//	MaxFieldLength is literally `return len(value)` this gives len(value) <= len(buffer)
func (p *prover) contractEntryFacts(s *factSet, fn *ssa.Function, seen map[term]bool) {
	if fn.Signature.Recv() == nil || fn.Name() != "WriteFieldBody" || len(fn.Params) != 4 {
		return
	}
	if !p.implementsRewriter(fn.Signature.Recv().Type()) {
		return
	}
	mx := p.c.P.prog.LookupMethod(fn.Signature.Recv().Type(), fn.Pkg.Pkg, "MaxFieldLength")
	if mx == nil || mx.Blocks == nil {
		return
	}
	rets := returnedValues(mx, 0)
	if len(rets) != 1 {
		return
	}
	lc, ok := strip(rets[0].Val).(*ssa.Call)
	if !ok || !isBuiltin(lc, "len") || strip(lc.Call.Args[0]) != ssa.Value(mx.Params[1]) {
		return
	}
	s.le(lenT(fn.Params[1]), lenT(fn.Params[3]), 0)
	p.noteUse(fmt.Sprintf("contract base.LogRewriter: %s is given a buffer of at least MaxFieldLength(value) = len(value) bytes (caller side checked by C07.R4)", anchorName(fn)))
}

func (p *prover) implementsRewriter(t types.Type) bool {
	if p.rewriterIface == nil {
		for _, pk := range p.c.P.prog.AllPackages() {
			if strings.HasSuffix(pk.Pkg.Path(), "/base") && strings.HasPrefix(pk.Pkg.Path(), modPath) {
				if m, ok := pk.Members["LogRewriter"].(*ssa.Type); ok {
					p.rewriterIface, _ = m.Type().Underlying().(*types.Interface)
				}
			}
		}
		if p.rewriterIface == nil {
			broken("base.LogRewriter interface not found")
		}
	}
	return types.Implements(t, p.rewriterIface)
}

func (p *prover) noteUse(what string) {
	for _, u := range p.used {
		if u == what {
			return
		}
	}
	p.used = append(p.used, what)
}

func (p *prover) structFacts(s *factSet, fn *ssa.Function, at ssa.Instruction, seen map[term]bool) {
	p.contractEntryFacts(s, fn, seen)
}

func (p *prover) axiom(fn *ssa.Function, at ssa.Instruction, a, b term, c int64) bool { return false }
