package main

// Interprocedural event summaries:
//   must: on every path from a function's entry to each normal return, a call
//         is passed that must trigger the event (fixpoint, recursion = false)
//   may:  some call-graph path from the function reaches the event

import (
	"fmt"
	"sort"
	"strings"

	"golang.org/x/tools/go/ssa"
)

type FnPred func(*ssa.Function) bool

func anchorPred(anchors ...string) FnPred {
	m := map[string]bool{}
	for _, a := range anchors {
		m[a] = true
	}
	return func(f *ssa.Function) bool { return m[anchorName(f)] }
}

type funcCtx struct {
	fn   *ssa.Function
	bind string // canonical description of function-valued parameter bindings
}

type Summ struct {
	P                *Prog
	Target           FnPred
	SiteTarget       func(ssa.CallInstruction) bool  // optional: a call site that is the event itself
	AllowEmptyGuards bool                            // tolerate nil/empty guards on the operands of the required call
	LoopsRunOnce     bool                            // a for-each loop whose body must trigger the event counts as triggering it
	ExtraBlocked     func(*ssa.BasicBlock, int) bool // rule-specific tolerated guard edges, applied in every function analysed
	MaxDepth         int
	mustMemo         map[funcCtx]int // 1 in progress, 2 true, 3 false
	canReach         map[*ssa.Function]bool
	Visited          map[*ssa.Function]bool // functions whose bodies were analysed
}

func newSumm(P *Prog, target FnPred) *Summ {
	return &Summ{P: P, Target: target, AllowEmptyGuards: true, LoopsRunOnce: true, MaxDepth: 12,
		mustMemo: map[funcCtx]int{}, Visited: map[*ssa.Function]bool{}}
}

// binding is the analysis context accumulated along a call chain: function
// values bound to function-typed parameters, and constant booleans bound to
// bool parameters (never shrunk while descending).
type binding struct {
	funcs  map[*ssa.Parameter]*ssa.Function
	consts map[ssa.Value]bool
}

func (b *binding) String() string {
	if b == nil {
		return ""
	}
	var s []string
	for p, f := range b.funcs {
		s = append(s, fmt.Sprintf("%s.%s=%s", p.Parent().Name(), p.Name(), f.String()))
	}
	for p, v := range b.consts {
		s = append(s, fmt.Sprintf("%s.%s=%v", p.Parent().Name(), p.Name(), v))
	}
	sort.Strings(s)
	return strings.Join(s, ",")
}

func (b *binding) env() map[ssa.Value]bool {
	if b == nil {
		return nil
	}
	return b.consts
}

// calleesCtx resolves callees of a site; a call through a function-valued
// parameter bound in ctx resolves to the bound function only. Implementations
// living in the module's test-support packages are ignored.
func (s *Summ) calleesCtx(site ssa.CallInstruction, b *binding) []*ssa.Function {
	cc := site.Common()
	if !cc.IsInvoke() {
		if p, ok := resolve(cc.Value).(*ssa.Parameter); ok && b != nil {
			if f, ok := b.funcs[p]; ok {
				return []*ssa.Function{f}
			}
		}
		// closure value created locally
		if mc, ok := resolve(cc.Value).(*ssa.MakeClosure); ok {
			return []*ssa.Function{mc.Fn.(*ssa.Function)}
		}
	}
	var out []*ssa.Function
	for _, f := range s.P.callees(site) {
		if nonUniversePkgs[fnPkgPath(f)] {
			continue
		}
		out = append(out, f)
	}
	return out
}

// bindingFor extends the context with the callee's function-typed parameters
// bound to closures / functions and bool parameters bound to constants passed
// at this site.
func bindingFor(site ssa.CallInstruction, callee *ssa.Function, outer *binding) *binding {
	cc := site.Common()
	args := cc.Args
	params := callee.Params
	if cc.IsInvoke() {
		// receiver is params[0]
		if len(params) == len(args)+1 {
			params = params[1:]
		}
	}
	nb := &binding{funcs: map[*ssa.Parameter]*ssa.Function{}, consts: map[ssa.Value]bool{}}
	if outer != nil {
		for k, v := range outer.funcs {
			nb.funcs[k] = v
		}
		for k, v := range outer.consts {
			nb.consts[k] = v
		}
	}
	if len(params) != len(args) {
		return nb
	}
	for i, a := range args {
		var f *ssa.Function
		switch x := resolve(a).(type) {
		case *ssa.MakeClosure:
			f = x.Fn.(*ssa.Function)
		case *ssa.Function:
			f = x
		case *ssa.Parameter:
			if outer != nil {
				f = outer.funcs[x]
			}
		}
		if f != nil {
			nb.funcs[params[i]] = f
		}
		if v, ok := constBool(a, outer.env()); ok {
			nb.consts[params[i]] = v
		}
	}
	return nb
}

func (s *Summ) siteMust(site ssa.CallInstruction, b *binding, depth int) bool {
	if _, ok := site.(*ssa.Go); ok {
		return false
	}
	if s.SiteTarget != nil && s.SiteTarget(site) {
		return true
	}
	cs := s.calleesCtx(site, b)
	if len(cs) == 0 {
		return false
	}
	for _, c := range cs {
		if s.Target != nil && s.Target(c) {
			continue
		}
		if !s.fnMust(c, bindingFor(site, c, b), depth+1) {
			return false
		}
	}
	return true
}

// mustEvents returns the instructions of fn that must trigger the event
func (s *Summ) mustEvents(fn *ssa.Function, b *binding, depth int) map[ssa.Instruction]bool {
	ev := map[ssa.Instruction]bool{}
	eachInstr(fn, func(in ssa.Instruction) {
		switch x := in.(type) {
		case *ssa.Call:
			if s.siteMust(x, b, depth) {
				ev[in] = true
			}
		case *ssa.RunDefers:
			for _, d := range deferredAt(x, true) {
				if s.siteMust(d, b, depth) {
					ev[in] = true
				}
			}
		}
	})
	return ev
}

func (s *Summ) fnMust(fn *ssa.Function, b *binding, depth int) bool {
	if fn == nil || fn.Blocks == nil || depth > s.MaxDepth {
		return false
	}
	key := funcCtx{fn, b.String()}
	switch s.mustMemo[key] {
	case 1:
		return false // recursion
	case 2:
		return true
	case 3:
		return false
	}
	s.mustMemo[key] = 1
	s.Visited[fn] = true
	ev := s.mustEvents(fn, b, depth)
	res := false
	if len(ev) > 0 {
		bypass, _ := s.bypassPath(fn, entryOf(fn), ev, orEdge(constEdgeBlocker(b.env()), s.ExtraBlocked))
		res = bypass == nil
	}
	if res {
		s.mustMemo[key] = 2
	} else {
		s.mustMemo[key] = 3
	}
	return res
}

// bypassPath looks for a path from start to a return that passes none of the
// event instructions. Benign emptiness guards on the operands of the event
// calls are blocked first (if allowed), for-each loops whose body must trigger
// the event count as events (if allowed).
func (s *Summ) bypassPath(fn *ssa.Function, start Point, ev map[ssa.Instruction]bool, extraBlocked func(*ssa.BasicBlock, int) bool) (ssa.Instruction, []*ssa.BasicBlock) {
	evAll := map[ssa.Instruction]bool{}
	for k := range ev {
		evAll[k] = true
	}
	var guard func(*ssa.BasicBlock, int) bool
	if s.AllowEmptyGuards {
		var calls []ssa.CallInstruction
		for in := range ev {
			switch x := in.(type) {
			case ssa.CallInstruction:
				calls = append(calls, x)
			case *ssa.RunDefers:
				for _, d := range deferredAt(x, true) {
					calls = append(calls, d)
				}
			}
		}
		guard = edgeSet(emptinessGuardEdgesFor(fn, calls))
	}
	if s.LoopsRunOnce {
		addLoopEvents(s.P, fn, evAll, orEdge(guard, extraBlocked))
	}
	q := &PathQ{P: s.P, Barrier: func(in ssa.Instruction) bool { return evAll[in] }, EdgeBlocked: orEdge(guard, extraBlocked)}
	return q.Reach(start, isReturn)
}

// addLoopEvents: a for-each loop whose body passes an event on every iteration
// counts as an event itself (its header's exit branch is added to ev), i.e.
// "the collection is not empty" is assumed, innermost loops first.
func addLoopEvents(P *Prog, fn *ssa.Function, evAll map[ssa.Instruction]bool, blocked func(*ssa.BasicBlock, int) bool, ignoreReturn ...func(ssa.Instruction) bool) {
	for _, lp := range naturalLoops(fn) {
		if lp.exitIf == nil {
			continue
		}
		lp := lp
		// per-iteration must: from body entry, no path back to header or out of the loop avoiding events
		q := &PathQ{P: P, Barrier: func(in ssa.Instruction) bool { return evAll[in] }, EdgeBlocked: blocked}
		hit, _ := q.Reach(Point{lp.bodyEntry, 0}, func(in ssa.Instruction) bool {
			if in.Block() == lp.header && in == lp.header.Instrs[0] {
				return true
			}
			// the loop's own exit (reached by break or by the header) — blocks that merely lead to a return are followed to it
			if lp.exitBlock != nil && in.Block() == lp.exitBlock && in == in.Block().Instrs[0] {
				return true
			}
			if isReturn(in) {
				for _, ig := range ignoreReturn {
					if ig(in) {
						return false
					}
				}
				return true
			}
			return false
		})
		if hit == nil && loopHasEvent(lp, evAll) {
			evAll[lp.exitIf] = true
		}
	}
}

func loopHasEvent(lp *loop, ev map[ssa.Instruction]bool) bool {
	for in := range ev {
		if lp.blocks[in.Block()] {
			return true
		}
	}
	return false
}

type loop struct {
	header    *ssa.BasicBlock
	blocks    map[*ssa.BasicBlock]bool
	exitIf    *ssa.If // header terminator when the header decides between body and exit
	bodyEntry *ssa.BasicBlock
	exitBlock *ssa.BasicBlock
}

// naturalLoops finds loops by back edges (t -> h with h dominating t), innermost first.
func naturalLoops(fn *ssa.Function) []*loop {
	byHeader := map[*ssa.BasicBlock]*loop{}
	for _, b := range fn.Blocks {
		for _, s := range b.Succs {
			if s.Dominates(b) {
				lp := byHeader[s]
				if lp == nil {
					lp = &loop{header: s, blocks: map[*ssa.BasicBlock]bool{s: true}}
					byHeader[s] = lp
				}
				// collect blocks reaching b without passing s
				stack := []*ssa.BasicBlock{b}
				for len(stack) > 0 {
					x := stack[len(stack)-1]
					stack = stack[:len(stack)-1]
					if lp.blocks[x] {
						continue
					}
					lp.blocks[x] = true
					stack = append(stack, x.Preds...)
				}
			}
		}
	}
	var out []*loop
	for _, lp := range byHeader {
		h := lp.header
		if iff, ok := h.Instrs[len(h.Instrs)-1].(*ssa.If); ok && len(h.Succs) == 2 {
			in0, in1 := lp.blocks[h.Succs[0]], lp.blocks[h.Succs[1]]
			if in0 != in1 {
				lp.exitIf = iff
				if in0 {
					lp.bodyEntry, lp.exitBlock = h.Succs[0], h.Succs[1]
				} else {
					lp.bodyEntry, lp.exitBlock = h.Succs[1], h.Succs[0]
				}
			}
		}
		out = append(out, lp)
	}
	sort.Slice(out, func(i, j int) bool {
		if len(out[i].blocks) != len(out[j].blocks) {
			return len(out[i].blocks) < len(out[j].blocks)
		}
		return out[i].header.Index < out[j].header.Index
	})
	return out
}

// ---- may-reach (call graph reachability, whole program, includes go/defer)

func (s *Summ) fnMay(fn *ssa.Function) bool {
	if fn == nil {
		return false
	}
	if s.canReach == nil {
		// reverse reachability from every target function over the raw call graph
		s.canReach = map[*ssa.Function]bool{}
		var work []*ssa.Function
		for f := range s.P.allFuncs {
			if s.Target != nil && s.Target(f) {
				s.canReach[f] = true
				work = append(work, f)
			}
		}
		for len(work) > 0 {
			f := work[len(work)-1]
			work = work[:len(work)-1]
			n := s.P.cg.Nodes[f]
			if n == nil {
				continue
			}
			for _, e := range n.In {
				c := e.Caller.Func
				if !s.canReach[c] {
					s.canReach[c] = true
					work = append(work, c)
				}
			}
		}
	}
	return s.canReach[fn]
}

func (s *Summ) siteMay(site ssa.CallInstruction) bool {
	for _, c := range s.P.callees(site) {
		if s.fnMay(c) {
			return true
		}
	}
	return false
}

// reachableFrom computes the set of functions reachable from roots over the
// whole-program call graph (looking through wrappers).
func (P *Prog) reachableFrom(rootsF []*ssa.Function, stop func(*ssa.Function) bool) map[*ssa.Function]*ssa.Function {
	parent := map[*ssa.Function]*ssa.Function{}
	var work []*ssa.Function
	for _, r := range rootsF {
		if _, ok := parent[r]; !ok {
			parent[r] = nil
			work = append(work, r)
		}
	}
	for len(work) > 0 {
		f := work[0]
		work = work[1:]
		if f.Blocks == nil || (stop != nil && stop(f)) {
			continue
		}
		for _, c := range callsIn(f) {
			for _, cal := range P.callees(c) {
				if _, ok := parent[cal]; !ok {
					parent[cal] = f
					work = append(work, cal)
				}
			}
		}
		// closures created here are reached when invoked; VTA edges cover invocation
	}
	return parent
}

func chainTo(parent map[*ssa.Function]*ssa.Function, f *ssa.Function) string {
	var names []string
	for x := f; x != nil; x = parent[x] {
		names = append(names, anchorName(x))
		if len(names) > 12 {
			names = append(names, "…")
			break
		}
	}
	for i, j := 0, len(names)-1; i < j; i, j = i+1, j-1 {
		names[i], names[j] = names[j], names[i]
	}
	return strings.Join(names, " → ")
}
