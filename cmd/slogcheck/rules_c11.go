package main

// C11 Chunks are complete, ordered, self-describing batches.

import (
	"fmt"
	"go/constant"
	"go/token"
	"strings"

	"golang.org/x/tools/go/ssa"
)

const (
	aWriteStream = "output/shared.(*messagePacker).WriteStream"
	aFlushBuffer = "output/shared.(*messagePacker).FlushBuffer"
	aNewChunk    = "output/shared.(*IntermediateChunkFactory).NewChunk"
	fCurChunk    = "output/shared.messagePacker.currentChunk"
	iChunker     = "output/shared.Chunker"
)

func init() {
	for i, r := range []ruleFn{ruleC11R1, ruleC11R2, ruleC11R3, ruleC11R4, ruleC11R5, ruleC11R6} {
		register("C11", fmt.Sprintf("C11.R%d", i+1), r)
	}
	register("C11", "C05.R6", ruleC05R6)
	propExplanation["C11"] = "Decides the chunk maker's structure on every path: each stream is written exactly once, into the chunk that is current after the roll-over, never into the chunk being returned, and a new chunk exists before the write (R1); a flush that returns a chunk resets the current chunk (R2); " +
		"both Chunker implementations count a record exactly when its write succeeded and compare against their limits (R3); finalisation closes the compressor before reading the buffer and returns a copy taken before the shared buffer is reset (R4); " +
		"chunk ID, transport option and record count/array length originate from the same intermediate chunk, the tag from the pipeline's tag (R5); the id suffix written equals the suffix the output's matcher tests, and ids end with it (R6, C05.R6). " +
		"Not decided: well-formedness of the gzip/msgpack/JSON bytes, the limits as numbers."
	propAssumptions["C11"] = []string{"bytes.Buffer, gzip.Writer and msgpack.Encoder behave as documented"}
}

func ruleC11R1(c *Ctx) {
	fn := c.P.Fn(aWriteStream)
	isWrite := func(s ssa.CallInstruction) bool { return invokeOf(s, iChunker, "Write") }
	cs := &CountSpec{P: c.P, Classes: []string{"Chunker.Write"}, Site: func(s ssa.CallInstruction) int {
		if isWrite(s) {
			return 0
		}
		return -1
	}}
	outs := cs.Enum(fn, entryOf(fn), nil)
	good := len(outs) > 0
	var why []string
	for _, o := range outs {
		if o.Counts[0] != 1 {
			good = false
			why = append(why, cs.describe(o))
		}
	}
	c.check(good, "C11.R1", fn, "each stream written exactly once", fn.Pos(), fmt.Sprintf("all %d path outcomes call Chunker.Write once", len(outs)), "a path writes the stream "+strings.Join(why, "; "))
	writes := sitesWhere(fn, isWrite)
	flushes := c.callsTo(fn, anchorPred(aFlushBuffer))
	if len(writes) != 1 {
		return
	}
	wr := writes[0]
	c.check(sameValue(wr.Common().Args[0], fn.Params[1]), "C11.R1", fn, "the stream parameter is what is written", wr.Pos(), "Write(stream)", "something other than the stream parameter is written")
	// receiver loaded after roll-over and creation
	recv := strip(wr.Common().Value)
	ld, ok := recv.(*ssa.UnOp)
	okFresh := ok && fieldOf(recv) == fCurChunk
	if okFresh {
		st := storesToField(fn, fCurChunk)
		q := &PathQ{P: c.P, Barrier: func(in ssa.Instruction) bool { return in == wr.(ssa.Instruction) }}
		if hit, _ := q.Reach(after(ld), func(in ssa.Instruction) bool { return callInstrSet(flushes)[in] || instrSet(st)[in] }); hit != nil {
			okFresh = false
		}
	}
	c.check(okFresh, "C11.R1", fn, "written into the chunk that is current after the roll-over", wr.Pos(), "the receiver is loaded from currentChunk after any flush/creation", "the stream can be written into the chunk that was just flushed (it would be lost or duplicated at the chunk boundary)")
	// roll-over decided by CanAppendData(len(stream)) of the current chunk, before the write
	can := sitesWhere(fn, func(s ssa.CallInstruction) bool { return invokeOf(s, iChunker, "CanAppendData") })
	okCan := len(can) == 1
	if okCan {
		cl, isLen := strip(can[0].Common().Args[0]).(*ssa.Call)
		okCan = isLen && isBuiltin(cl, "len") && sameValue(cl.Call.Args[0], fn.Params[1])
		fe := boolEdges(can[0].Value(), false)
		okFlush := false
		for b, si := range fe {
			for _, f := range flushes {
				if c.onlyViaEdge(fn, f, b, si) {
					okFlush = true
				}
			}
			// and that edge always flushes
			q := &PathQ{P: c.P, Barrier: func(in ssa.Instruction) bool { return callInstrSet(flushes)[in] }}
			if hit, _ := q.Reach(succPoint(b, si), func(in ssa.Instruction) bool { return in == wr.(ssa.Instruction) }); hit != nil {
				okFlush = false
			}
		}
		okCan = okCan && okFlush
	}
	c.check(okCan, "C11.R1", fn, "roll-over exactly when the current chunk cannot take len(stream)", fn.Pos(), "CanAppendData(len(stream)) == false ⇔ FlushBuffer before the write", "the roll-over is not decided by CanAppendData(len(stream)) or does not always precede the write")
	// a chunk exists before the write
	okNew := false
	eachInstr(fn, func(in ssa.Instruction) {
		iff, isIf := in.(*ssa.If)
		if !isIf {
			return
		}
		em, isEm := asEmptiness(iff.Cond)
		if !isEm || fieldOf(em.X) != fCurChunk {
			return
		}
		nilSucc := 1
		if em.EmptyOnTrue {
			nilSucc = 0
		}
		var creates []ssa.Instruction
		for _, st := range storesToField(fn, fCurChunk) {
			if cl, ok := strip(st.Val).(*ssa.Call); ok && cl.Common().StaticCallee() != nil && isAnchor(cl.Common().StaticCallee(), aNewChunk) {
				creates = append(creates, st)
			}
		}
		q := &PathQ{P: c.P, Barrier: func(x ssa.Instruction) bool { return instrSet(creates)[x] }}
		if hit, _ := q.Reach(succPoint(iff.Block(), nilSucc), func(x ssa.Instruction) bool { return x == wr.(ssa.Instruction) }); hit == nil && len(creates) > 0 {
			// and the test itself precedes the write on every path after a flush
			okNew = true
		}
	})
	c.check(okNew, "C11.R1", fn, "a new chunk is created before the write when there is none", wr.Pos(), "the currentChunk == nil edge always stores factory.NewChunk() before the write", "the stream can be written while there is no current chunk (nil dereference after a roll-over)")
	// the chunk returned is the flushed one (or nil)
	okRet := true
	for _, rv := range returnedValues(fn, 0) {
		if k, isK := rv.Val.(*ssa.Const); isK && k.IsNil() {
			continue
		}
		if !mentions(rv.Val, func(v ssa.Value) bool {
			for _, f := range flushes {
				if v == f.Value() {
					return true
				}
			}
			return false
		}) {
			okRet = false
		}
	}
	c.check(okRet, "C11.R1", fn, "the returned chunk is the flushed previous chunk", fn.Pos(), "nil or FlushBuffer()'s result", "WriteStream returns something other than the chunk it flushed")
}

func ruleC11R2(c *Ctx) {
	fn := c.P.Fn(aFlushBuffer)
	fin := sitesWhere(fn, func(s ssa.CallInstruction) bool { return invokeOf(s, iChunker, "FinalizeChunk") })
	if len(fin) != 1 {
		c.bad("C11.R2", fn, "flush resets the current chunk", fn.Pos(), "expected one FinalizeChunk call")
		return
	}
	var resets []ssa.Instruction
	for _, st := range storesToField(fn, fCurChunk) {
		if k, ok := st.Val.(*ssa.Const); ok && k.IsNil() {
			resets = append(resets, st)
		}
	}
	res := resultOf(fin[0].Value(), 0)
	for _, rv := range returnedValues(fn, 0) {
		if k, isK := rv.Val.(*ssa.Const); isK && k.IsNil() {
			continue
		}
		okV := strip(rv.Val) == res
		q := &PathQ{P: c.P, Barrier: func(in ssa.Instruction) bool { return instrSet(resets)[in] }}
		hit, _ := q.Reach(after(fin[0]), func(in ssa.Instruction) bool { return in == rv.At })
		c.check(okV && hit == nil && len(resets) > 0, "C11.R2", fn, "a flush that returns a chunk resets currentChunk", rv.At.Pos(), "the finalized chunk is returned only after currentChunk = nil", "a chunk can be returned while it stays the current chunk: the next records are written into an already emitted chunk")
	}
	// the chunk finalized is the current one
	c.check(fieldOf(fin[0].Common().Value) == fCurChunk, "C11.R2", fn, "the current chunk is what gets finalized", fin[0].Pos(), "currentChunk.FinalizeChunk()", "FlushBuffer finalizes something other than the current chunk")
}

func ruleC11R3(c *Ctx) {
	for _, pkg := range []string{"output/fluentdforward", "output/datadog"} {
		wfn := c.P.Fn(pkg + ".(*intermediateChunk).Write")
		fNum := pkg + ".intermediateChunk.numRecords"
		data := wfn.Params[1]
		// the write(s) of the data parameter
		var dataWrites []ssa.CallInstruction
		for _, s := range callsIn(wfn) {
			nm := ""
			if s.Common().IsInvoke() {
				nm = s.Common().Method.Name()
			} else if f := s.Common().StaticCallee(); f != nil {
				nm = fnBaseName(f)
			}
			if nm == "Write" && len(s.Common().Args) > 0 && sameValue(s.Common().Args[len(s.Common().Args)-1], data) {
				dataWrites = append(dataWrites, s)
			}
		}
		incs := storesToField(wfn, fNum)
		okInc := len(incs) == 1 && len(dataWrites) >= 1
		why := fmt.Sprintf("expected one increment of numRecords and a write of the data, found %d / %d", len(incs), len(dataWrites))
		if okInc {
			bo, isBo := strip(incs[0].Val).(*ssa.BinOp)
			okInc = isBo && bo.Op == token.ADD && fieldOf(bo.X) == fNum && isConstInt(bo.Y, 1)
			why = "numRecords is not incremented by exactly one"
		}
		if okInc {
			// the increment only on the nil-error path of the data write, and always there
			errIsNil := map[*ssa.BasicBlock]int{}
			for _, dw := range dataWrites {
				ev := resultOf(dw.Value(), 1)
				for b, si := range nilEdgesThroughPhi(ev, true) {
					errIsNil[b] = si
				}
			}
			via := false
			for b, si := range errIsNil {
				if c.onlyViaEdge(wfn, incs[0], b, si) {
					via = true
					q := &PathQ{P: c.P, Barrier: func(in ssa.Instruction) bool { return in == ssa.Instruction(incs[0]) }}
					if hit, _ := q.Reach(succPoint(b, si), isReturn); hit != nil {
						via = false
						why = "a successful write can return without counting the record"
					}
				}
			}
			if !via {
				okInc = false
				if !strings.HasPrefix(why, "a successful") {
					why = "the record is counted on a path where its write failed (or was not attempted)"
				}
			}
		}
		c.check(okInc, "C11.R3", wfn, "a record is counted exactly when its write succeeded", wfn.Pos(), "numRecords++ only and always on the err == nil edge of the data write", why)
		// limits
		cfn := c.P.Fn(pkg + ".(*intermediateChunk).CanAppendData")
		usesRec := false
		usesBytes := false
		eachInstr(cfn, func(in ssa.Instruction) {
			if bo, ok := in.(*ssa.BinOp); ok {
				if (bo.Op == token.GEQ || bo.Op == token.GTR) && fieldOf(bo.X) == fNum && fieldOf(bo.Y) == pkg+".intermediateChunk.maxRecords" {
					usesRec = true
				}
				if (bo.Op == token.GTR || bo.Op == token.GEQ) && fieldOf(bo.Y) == pkg+".intermediateChunk.maxBytes" && mentions(bo.X, isFieldAddrOf(pkg+".intermediateChunk.numBytes")) &&
					mentions(bo.X, func(v ssa.Value) bool { return v == ssa.Value(cfn.Params[1]) }) {
					usesBytes = true
				}
			}
		})
		c.check(usesRec && usesBytes, "C11.R3", cfn, "CanAppendData compares records and bytes+dataLength with the limits", cfn.Pos(), "numRecords >= maxRecords and numBytes+dataLength > maxBytes", "CanAppendData does not compare the record count / the size including the new data with the limits")
		// numBytes grows by the length of what was written
		okB := false
		for _, st := range storesToField(wfn, pkg+".intermediateChunk.numBytes") {
			if mentions(st.Val, func(v ssa.Value) bool {
				cl, ok := v.(*ssa.Call)
				return ok && isBuiltin(cl, "len") && sameValue(cl.Call.Args[0], data)
			}) {
				okB = true
			}
		}
		c.check(okB, "C11.R3", wfn, "numBytes grows by len(data)", wfn.Pos(), "numBytes += … len(data)", "the byte count used for the size limit does not grow by the data length")
	}
}

func isConstInt(v ssa.Value, n int64) bool {
	k, ok := v.(*ssa.Const)
	return ok && k.Value != nil && k.Value.Kind() == constant.Int && k.Int64() == n
}

// nilEdgesThroughPhi: nil-test edges of v or of a phi merging v (`_, err = a.Write(); … _, err = b.Write()`)
func nilEdgesThroughPhi(v ssa.Value, wantNil bool) map[*ssa.BasicBlock]int {
	out := nilEdges(v, wantNil)
	if v == nil || v.Referrers() == nil {
		return out
	}
	for _, ref := range *v.Referrers() {
		if phi, ok := ref.(*ssa.Phi); ok {
			for b, si := range nilEdges(phi, wantNil) {
				out[b] = si
			}
		}
	}
	return out
}

func ruleC11R4(c *Ctx) {
	for _, pkg := range []string{"output/fluentdforward", "output/datadog"} {
		fn := c.P.Fn(pkg + ".(*intermediateChunk).FinalizeChunk")
		fBuf := pkg + ".intermediateChunk.writeBuffer"
		fComp := pkg + ".intermediateChunk.compressor"
		var closes, reads, resets []ssa.CallInstruction
		for _, s := range c.callsInR(fn) {
			cc := s.Common()
			if cc.IsInvoke() && cc.Method.Name() == "Close" && fieldOf(cc.Value) == fComp {
				closes = append(closes, s)
			}
			if f := cc.StaticCallee(); f != nil && len(cc.Args) > 0 && fieldOf(cc.Args[0]) == fBuf {
				switch fnBaseName(f) {
				case "Bytes":
					reads = append(reads, s)
				case "Reset":
					resets = append(resets, s)
				}
			}
		}
		c.checkOrderG("C11.R4", fn, "compressor.Close()", callInstrSet(closes), "read of writeBuffer.Bytes()", callInstrSet(reads), true)
		// the Close error is checked
		for _, cl := range closes {
			c.check(len(nilEdges(cl.Value(), false)) > 0, "C11.R4", fn, "error of compressor.Close() tested", cl.Pos(), "a failed close does not produce a chunk", "the compressor's close error is ignored: a truncated compressed chunk could be emitted")
		}
		// returned Data is a copy: every value that can reach the Data field (through phis) is a copy
		okCopy := false
		for _, st := range c.storesToFieldR(fn, "base.LogChunk.Data") {
			okCopy = true
			var leaves []ssa.Value
			seen := map[ssa.Value]bool{}
			var walk func(v ssa.Value)
			walk = func(v ssa.Value) {
				v = strip(v)
				if seen[v] {
					return
				}
				seen[v] = true
				if phi, ok := v.(*ssa.Phi); ok {
					for _, e := range phi.Edges {
						walk(e)
					}
					return
				}
				// the result of a private helper of FinalizeChunk: what the helper returns
				idx := 0
				cv := v
				if ex, ok := v.(*ssa.Extract); ok {
					cv, idx = ex.Tuple, ex.Index
				}
				if cl, ok := cv.(*ssa.Call); ok {
					if g := cl.Common().StaticCallee(); g != nil && c.helpersOf(fn)[g] {
						for _, rv := range returnedValues(g, idx) {
							walk(rv.Val)
						}
						return
					}
				}
				leaves = append(leaves, v)
			}
			walk(st.Val)
			for _, l := range leaves {
				isCopy := false
				if ex, ok := l.(*ssa.Extract); ok {
					l = ex.Tuple
				}
				if cl, ok := l.(*ssa.Call); ok {
					if f := cl.Common().StaticCallee(); f != nil && isAnchor(f, "util.CopySlice") {
						isCopy = true
					}
					if cl.Common().IsInvoke() && cl.Common().Method.Name() == "EncodeChunk" {
						isCopy = true
					}
				}
				if k, ok := l.(*ssa.Const); ok && k.IsNil() {
					isCopy = true
				}
				if !isCopy {
					okCopy = false
				}
			}
		}
		c.check(okCopy, "C11.R4", fn, "the chunk's Data is a copy of the shared buffer", fn.Pos(), "util.CopySlice(...) or the encoder's copied result", "the chunk's Data aliases the reused write buffer: the next chunk overwrites it")
		// Reset deferred or after the read
		for _, r := range resets {
			if _, isDefer := r.(*ssa.Defer); isDefer && r.Parent() == fn {
				c.ok("C11.R4", fn, "writeBuffer.Reset after the copy", r.Pos(), "deferred")
				continue
			}
			c.checkOrder("C11.R4", fn, "read/copy of writeBuffer.Bytes()", callInstrSet(reads), "writeBuffer.Reset", map[ssa.Instruction]bool{r: true})
		}
		c.check(len(resets) > 0, "C11.R4", fn, "the shared buffer is reset for the next chunk", fn.Pos(), "Reset present", "the shared write buffer is never reset: the next chunk starts with this chunk's bytes")
	}
	// the fluentd encoder returns a copy of its own reused buffer
	ec := c.P.Fn("output/fluentdforward.(*chunkEncoder).EncodeChunk")
	okEC := true
	n := 0
	for _, rv := range returnedValues(ec, 0) {
		if k, isK := rv.Val.(*ssa.Const); isK && k.IsNil() {
			continue
		}
		n++
		cl, ok := strip(rv.Val).(*ssa.Call)
		if ok && cl.Common().StaticCallee() != nil && isAnchor(cl.Common().StaticCallee(), "util.CopySlice") {
			continue
		}
		// or a message assembled in a slice made by this call (a re-slice of it)
		v := strip(rv.Val)
		for i := 0; i < 3; i++ {
			if sl, isSl := v.(*ssa.Slice); isSl {
				v = strip(sl.X)
			}
		}
		if mk, isMk := v.(*ssa.MakeSlice); isMk && mk.Parent() == ec {
			continue
		}
		okEC = false
	}
	c.check(okEC && n > 0, "C11.R4", ec, "EncodeChunk returns a copy of its reused buffer", ec.Pos(), "util.CopySlice(msgpackEncoderBuffer.Bytes())", "the encoded chunk aliases the encoder's reused buffer")
}

func ruleC11R5(c *Ctx) {
	fn := c.P.Fn("output/fluentdforward.(*intermediateChunk).FinalizeChunk")
	// encodeChunkParams: ID <- chunk.id, NumRecords <- chunk.numRecords
	for _, m := range [][2]string{{"output/fluentdforward.encodeChunkParams.ID", "output/fluentdforward.intermediateChunk.id"}, {"output/fluentdforward.encodeChunkParams.NumRecords", "output/fluentdforward.intermediateChunk.numRecords"}} {
		ok := false
		for _, st := range c.storesToFieldR(fn, m[0]) {
			if fieldOf(st.Val) == m[1] {
				ok = true
			}
		}
		c.check(ok, "C11.R5", fn, m[0]+" = "+m[1], fn.Pos(), "same source", "the encode parameters do not carry the intermediate chunk's "+m[1])
	}
	ec := c.P.Fn("output/fluentdforward.(*chunkEncoder).EncodeChunk")
	for _, m := range [][2]string{{"github.com/relex/fluentlib/protocol/forwardprotocol.TransportOption.Chunk", "output/fluentdforward.encodeChunkParams.ID"}, {"github.com/relex/fluentlib/protocol/forwardprotocol.TransportOption.Size", "output/fluentdforward.encodeChunkParams.NumRecords"}} {
		ok := false
		for _, st := range storesToField(ec, m[0]) {
			if fieldOf(st.Val) == m[1] {
				ok = true
			}
		}
		c.check(ok, "C11.R5", ec, m[0][strings.LastIndex(m[0], "/")+1:]+" = "+m[1], ec.Pos(), "same source", "the transport option does not describe the chunk it is attached to")
	}
	// array length in Forward mode = NumRecords; tag = encoder's tag
	okArr, okTag := false, false
	for _, s := range callsIn(ec) {
		if f := s.Common().StaticCallee(); f != nil {
			switch fnBaseName(f) {
			case "EncodeArrayLen":
				if fieldOf(s.Common().Args[1]) == "output/fluentdforward.encodeChunkParams.NumRecords" {
					okArr = true
				}
			case "EncodeString":
				if fieldOf(s.Common().Args[1]) == "output/fluentdforward.chunkEncoder.tag" {
					okTag = true
				}
			}
		}
	}
	c.check(okArr, "C11.R5", ec, "Forward-mode array length = NumRecords", ec.Pos(), "EncodeArrayLen(params.NumRecords)", "the entries array is not announced with the number of records written")
	c.check(okTag, "C11.R5", ec, "message tag = encoder tag", ec.Pos(), "EncodeString(enc.tag)", "the chunk is not tagged with the pipeline's tag")
	ne := c.P.Fn("output/fluentdforward.newEncoder")
	okT := false
	for _, st := range storesToField(ne, "output/fluentdforward.chunkEncoder.tag") {
		if p, ok := resolve(st.Val).(*ssa.Parameter); ok && isStringType(p.Type()) {
			okT = true
		}
	}
	c.check(okT, "C11.R5", ne, "encoder tag = tag parameter", ne.Pos(), "stored unchanged", "newEncoder does not keep the tag it is given")
	ncm := c.P.Fn("output/fluentdforward.(*Config).NewChunkMaker")
	okN := false
	for _, s := range c.callsTo(ncm, anchorPred("output/fluentdforward.newEncoder")) {
		if p, ok := resolve(s.Common().Args[0]).(*ssa.Parameter); ok && isStringType(p.Type()) {
			okN = true
		}
	}
	c.check(okN, "C11.R5", ncm, "NewChunkMaker passes its tag to the encoder", ncm.Pos(), "newEncoder(tag, …)", "the chunk maker's encoder gets a different tag than the pipeline's")
	// the pipeline passes the same tag to serializer and chunk maker (C06.R3 checks the source)
	starter := returnedClosure(c.P.Fn(aPrepPipe))
	for _, f := range withAnons(starter) {
		for _, s := range sitesWhere(f, func(s ssa.CallInstruction) bool {
			return invokeOf(s, "base/bconfig.LogOutputConfig", "NewChunkMaker") || invokeOf(s, "base/bconfig.LogOutputConfig", "NewSerializer")
		}) {
			arg := s.Common().Args[len(s.Common().Args)-1]
			p, ok := resolve(arg).(*ssa.Parameter)
			c.check(ok && p.Name() == "outputTag", "C11.R5", f, s.Common().Method.Name()+" gets the pipeline's outputTag", s.Pos(), "outputTag parameter", "a different tag than the pipeline's is given to "+s.Common().Method.Name())
		}
	}
}

func ruleC11R6(c *Ctx) {
	for _, pkg := range []string{"output/fluentdforward", "output/datadog"} {
		ncm := c.P.Fn(pkg + ".(*Config).NewChunkMaker")
		suffix := ""
		for _, s := range c.callsTo(ncm, anchorPred("output/shared.NewChunkFactory")) {
			if k, ok := s.Common().Args[0].(*ssa.Const); ok && k.Value != nil {
				suffix = constant.StringVal(k.Value)
			}
		}
		m := c.P.Fn(pkg + ".(*Config).MatchChunkID")
		ms := ""
		for _, s := range c.callsTo(m, extPred("strings.HasSuffix")) {
			if k, ok := s.Common().Args[1].(*ssa.Const); ok && k.Value != nil {
				ms = constant.StringVal(k.Value)
			}
			p, isP := resolve(s.Common().Args[0]).(*ssa.Parameter)
			c.check(isP && p == m.Params[1], "C11.R6", m, "the matcher tests its chunkID parameter", s.Pos(), "HasSuffix(chunkID, suffix)", "the matcher does not test the id it is given")
		}
		c.check(suffix != "" && suffix == ms, "C11.R6", ncm, "id suffix written = suffix matched", ncm.Pos(),
			fmt.Sprintf("NewChunkFactory(%q) and MatchChunkID's HasSuffix(_, %q) agree", suffix, ms), fmt.Sprintf("chunks are named with suffix %q but recovery accepts suffix %q: spilled chunks would never be recovered (or foreign files accepted)", suffix, ms))
	}
	// ids end with the suffix
	gen := c.P.Fn(aGenerate)
	okEnd := false
	for _, s := range c.callsTo(gen, extPred("fmt.Sprintf")) {
		if bo, ok := strip(s.Common().Args[0]).(*ssa.BinOp); ok && bo.Op == token.ADD && fieldOf(bo.Y) == "output/shared.chunkIDGenerator.suffix" {
			okEnd = true
		}
		// or: a format ending in %s whose last argument is the suffix field
		if k, ok := strip(s.Common().Args[0]).(*ssa.Const); ok && k.Value != nil && k.Value.Kind() == constant.String && strings.HasSuffix(constant.StringVal(k.Value), "%s") {
			el := varargElems(s.Common().Args[1])
			if len(el) > 0 {
				// the element stored last (highest index) — varargElems keeps store order
				last := el[len(el)-1]
				if fieldOf(unbox(last)) == "output/shared.chunkIDGenerator.suffix" {
					okEnd = true
				}
			}
		}
	}
	c.check(okEnd, "C11.R6", gen, "generated ids end with the generator's suffix", gen.Pos(), "format + suffix", "the suffix is not the end of the generated id")
	ng := c.P.Fn("output/shared.newChunkIDGenerator")
	okS := false
	for _, st := range storesToField(ng, "output/shared.chunkIDGenerator.suffix") {
		if p, ok := resolve(st.Val).(*ssa.Parameter); ok && isStringType(p.Type()) {
			okS = true
		}
	}
	c.check(okS, "C11.R6", ng, "generator suffix = factory's suffix parameter", ng.Pos(), "stored unchanged", "the generator does not keep the suffix it is given")
	ncf := c.P.Fn("output/shared.NewChunkFactory")
	okF := false
	for _, s := range c.callsTo(ncf, anchorPred("output/shared.newChunkIDGenerator")) {
		if p, ok := resolve(s.Common().Args[0]).(*ssa.Parameter); ok && p == ncf.Params[0] {
			okF = true
		}
	}
	c.check(okF, "C11.R6", ncf, "factory passes its suffix to the generator", ncf.Pos(), "newChunkIDGenerator(idSuffix)", "the factory's id suffix does not reach the generator")
}

// R10 (added after seed c11f; delegation): the bytes of a chunk reach its buffer in the order they were written because
// nothing of the module's own stands between the chunk and the library's compressor. Every function of the module that
// hands out an io.WriteCloser built on a writer parameter (InitGzipCompessor, whatever is assigned to InitCompressorFunc)
// returns the library's writer itself — gzip.NewWriterLevel(w, …) on that parameter — or nil. A module type that buffers,
// stages or re-orders writes in between is UNDECIDED (a failure): the order of bytes through a hand-written buffer is a
// value-level fact this family does not decide.
func init() {
	register("C11", "C11.R10", ruleC11R10)
	register("C11", "C10.R1", ruleC10R1) // after seed c11g: the headers a chunk is framed with carry counts that fit their width
}

func ruleC11R10(c *Ctx) {
	n := 0
	for _, fn := range c.P.universe {
		if fn.Parent() != nil || fn.Blocks == nil || !strings.HasPrefix(fnPkgPath(fn), modPath+"/output/") {
			continue
		}
		sig := fn.Signature
		if sig.Recv() != nil || sig.Results().Len() != 1 || sig.Results().At(0).Type().String() != "io.WriteCloser" {
			continue
		}
		var wparam *ssa.Parameter
		for _, p := range fn.Params {
			if p.Type().String() == "io.Writer" {
				wparam = p
			}
		}
		if wparam == nil {
			continue
		}
		n++
		for _, rv := range returnedValues(fn, 0) {
			v := strip(rv.Val)
			if k, ok := v.(*ssa.Const); ok && k.IsNil() {
				continue
			}
			if mi, ok := v.(*ssa.MakeInterface); ok {
				v = strip(mi.X)
			}
			if ex, ok := v.(*ssa.Extract); ok {
				v = strip(ex.Tuple)
			}
			okLib := false
			what := canonOf(v)
			if cl, ok := v.(*ssa.Call); ok && cl.Common().StaticCallee() != nil {
				name := extName(cl.Common().StaticCallee())
				what = name
				if !strings.HasPrefix(fnPkgPath(cl.Common().StaticCallee()), modPath) && strings.Contains(name, "NewWriter") && len(cl.Common().Args) > 0 && strip(cl.Common().Args[0]) == ssa.Value(wparam) {
					okLib = true
				}
			}
			c.check(okLib, "C11.R10", fn, "the compressor handed to a chunk is the library's writer on the chunk's buffer", rv.At.Pos(),
				"the returned io.WriteCloser is <library>.NewWriter…(w, …) on the writer parameter",
				"UNDECIDED (counts as failure): the io.WriteCloser handed out is "+what+", not the library's writer created directly on the writer parameter: a module type between the chunk and the compressor may buffer, stage or re-order writes, and the order of bytes through it is not decided by this analysis")
		}
	}
	c.floor("C11.R10", "compressor constructors", n, 1)
}
