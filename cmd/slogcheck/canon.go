package main

// Canonical provenance expressions of SSA values: a stable textual form of
// "where a value comes from" in terms of receiver fields, parameters, range
// elements, constants and calls. Used to compare arguments of sibling
// functions (config verifier vs constructor) and to key reviewed-table entries.

import (
	"fmt"
	"go/constant"
	"go/token"
	"go/types"
	"sort"
	"strings"

	"golang.org/x/tools/go/ssa"
)

type canonCtx struct {
	subst map[ssa.Value]string // parameters substituted when unfolding a callee
	depth int
	seen  map[ssa.Value]bool
	// normalise Must-style wrappers to their fallible counterparts
	mustPairs map[string]string
}

func newCanon() *canonCtx {
	return &canonCtx{subst: map[ssa.Value]string{}, seen: map[ssa.Value]bool{}, mustPairs: map[string]string{
		"regexp.MustCompile": "regexp.Compile",
	}}
}

func (cc *canonCtx) of(v ssa.Value) string {
	if v == nil {
		return "<nil>"
	}
	if s, ok := cc.subst[v]; ok {
		return s
	}
	if cc.depth > 30 {
		return "…"
	}
	cc.depth++
	defer func() { cc.depth-- }()
	v = resolve(v)
	if s, ok := cc.subst[v]; ok {
		return s
	}
	switch x := v.(type) {
	case *ssa.Parameter:
		if x.Parent().Signature.Recv() != nil && len(x.Parent().Params) > 0 && x.Parent().Params[0] == x {
			return "recv"
		}
		return "param:" + x.Name()
	case *ssa.FreeVar:
		return "free:" + x.Name()
	case *ssa.Const:
		if x.Value == nil {
			return "zero"
		}
		if x.Value.Kind() == constant.String {
			return fmt.Sprintf("%q", constant.StringVal(x.Value))
		}
		return x.Value.String()
	case *ssa.Global:
		return "global:" + x.Pkg.Pkg.Name() + "." + x.Name()
	case *ssa.FieldAddr:
		return cc.of(x.X) + "." + fieldShort(x.X.Type(), x.Field)
	case *ssa.Field:
		return cc.of(x.X) + "." + fieldShort(x.X.Type(), x.Field)
	case *ssa.UnOp:
		if x.Op == token.MUL {
			return cc.of(x.X)
		}
		return x.Op.String() + cc.of(x.X)
	case *ssa.IndexAddr:
		return "elem(" + cc.of(x.X) + ")"
	case *ssa.Index:
		return "elem(" + cc.of(x.X) + ")"
	case *ssa.Lookup:
		if _, isMap := x.X.Type().Underlying().(*types.Map); isMap {
			return "val(" + cc.of(x.X) + ")" // some value of the map (the key is dropped)
		}
		return "elem(" + cc.of(x.X) + ")"
	case *ssa.Slice:
		s := "slice(" + cc.of(x.X)
		if x.Low != nil {
			s += ",lo=" + cc.of(x.Low)
		}
		if x.High != nil {
			s += ",hi=" + cc.of(x.High)
		}
		return s + ")"
	case *ssa.BinOp:
		return "(" + cc.of(x.X) + x.Op.String() + cc.of(x.Y) + ")"
	case *ssa.Convert:
		return cc.of(x.X)
	case *ssa.Extract:
		if n, ok := x.Tuple.(*ssa.Next); ok {
			if r, ok := n.Iter.(*ssa.Range); ok {
				switch x.Index {
				case 1:
					return "key(" + cc.of(r.X) + ")"
				case 2:
					return "val(" + cc.of(r.X) + ")"
				}
				return "ok"
			}
		}
		if lk, ok := x.Tuple.(*ssa.Lookup); ok && x.Index == 0 {
			return cc.of(lk)
		}
		return cc.of(x.Tuple) + fmt.Sprintf("#%d", x.Index)
	case *ssa.Call:
		return cc.call(x)
	case *ssa.Phi:
		if cc.seen[v] {
			return "phi"
		}
		cc.seen[v] = true
		defer delete(cc.seen, v)
		var parts []string
		m := map[string]bool{}
		for _, e := range x.Edges {
			s := cc.of(e)
			if !m[s] {
				m[s] = true
				parts = append(parts, s)
			}
		}
		sort.Strings(parts)
		if len(parts) == 1 {
			return parts[0]
		}
		return "phi(" + strings.Join(parts, "|") + ")"
	case *ssa.Alloc:
		// a variable assigned exactly once stands for the assigned value
		if sv, ok := singleStore(x); ok {
			return cc.of(sv)
		}
		return "var:" + x.Comment
	case *ssa.MakeClosure:
		return "closure:" + anchorName(x.Fn.(*ssa.Function))
	case *ssa.Function:
		return "func:" + anchorName(x)
	case *ssa.TypeAssert:
		return cc.of(x.X)
	case *ssa.MakeSlice:
		return "makeslice"
	case *ssa.MakeMap:
		return "makemap"
	}
	return fmt.Sprintf("?%T", v)
}

func (cc *canonCtx) call(x *ssa.Call) string {
	c := x.Common()
	if bi, ok := c.Value.(*ssa.Builtin); ok {
		var args []string
		for _, a := range c.Args {
			args = append(args, cc.of(a))
		}
		return bi.Name() + "(" + strings.Join(args, ",") + ")"
	}
	name := ""
	var args []string
	if c.IsInvoke() {
		name = typeName(c.Value.Type()) + "." + c.Method.Name()
		args = append(args, cc.of(c.Value))
	} else if f := c.StaticCallee(); f != nil {
		name = extName(f)
		if strings.HasPrefix(fnPkgPath(f), modPath) {
			name = anchorName(f)
		}
	} else {
		name = "dyn:" + cc.of(c.Value)
	}
	single := false
	if p, ok := cc.mustPairs[name]; ok {
		name = p
		single = true
	}
	for _, a := range c.Args {
		args = append(args, cc.of(a))
	}
	s := name + "(" + strings.Join(args, ",") + ")"
	if single {
		s += "#0"
	}
	return s
}

func fieldShort(t types.Type, idx int) string {
	if p, ok := t.Underlying().(*types.Pointer); ok {
		t = p.Elem()
	}
	st, ok := t.Underlying().(*types.Struct)
	if !ok || idx >= st.NumFields() {
		return "?"
	}
	return st.Field(idx).Name()
}

func canonOf(v ssa.Value) string { return newCanon().of(v) }
