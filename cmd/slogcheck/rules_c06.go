package main

// C06: routing, queueing and tagging follow exactly the record's own key fields.
//
// R1 (F10) every map key built from the elements of a []string is an injective encoding of the tuple
// R2 (F10) the pipeline id / queue name is an injective encoding of the key values and is decoded by its inverse
// R3 (P)   tag, queue id and metric labels of a pipeline all derive from the same key values; one tag / one id per pipeline
// R4       the keys stored globally are deep copies (C12.R3)
// R5       the queue directory's .id holds the unsanitised id and recovery returns what it read from .id

import (
	"fmt"
	"go/token"
	"os"
	"sort"
	"strings"

	"golang.org/x/tools/go/ssa"
)

func init() {
	propExplanation["C06"] = "Injectivity is decided structurally, for all key tuples at once: R1 enumerates every loop that appends the string elements of a []string to a byte accumulator which is then converted to a map key (today: the pipeline lookup key and the metric key-set key) and requires, in the same iteration and before the element, an appended encoding of len(element) followed by a non-digit delimiter byte (or a fixed-width / varint length): a length-prefixed concatenation is injective on tuples of arbitrary byte strings, including empty values and separators, whereas plain concatenation is not. " +
		"R2 requires the pipeline id (queue name) to be built from the key values by an injective encoder and decoded by its inverse (strings.Join / strings.Split with a separator the values may contain is not: known finding). " +
		"R3: in newPipeline the tag, the queue id and the metric label values all derive from the one keys parameter, and the pipeline starter passes the same tag to every serializer and chunk maker and the same id to every bufferer. R4: what is stored in the global map are deep copies of the transient key values. R5: the queue directory's .id file receives the unsanitised id and recovery returns the bytes read from it. " +
		"Not decided: collisions of the 32-bit directory-name hash suffix, semantics of the tag template (a template that omits a key field merges tags by design)."
	register("C06", "C06.R1", ruleC06R1)
	register("C06", "C06.R2", ruleC06R2)
	register("C06", "C06.R3", ruleC06R3)
	register("C06", "C06.R4", ruleC12R3)
	register("C06", "C06.R5", ruleC06R5)
}

// key-building loops: an accumulator phi of type []byte in a loop header, extended by append(acc, elem...) where elem is an
// element of a []string indexed by the loop's range index
type keyLoop struct {
	fn     *ssa.Function
	lp     *loop
	acc    *ssa.Phi
	elem   ssa.Value // the string element
	app    *ssa.Call // append(…, elem...)
	asKey  bool      // the accumulator is converted to string and used as a map key / stored
	uses   int       // number of places where it is used as a key (call sites, for a helper that returns it)
	source ssa.Value
}

func findKeyLoops(c *Ctx) []keyLoop {
	var out []keyLoop
	for _, fn := range c.P.universe {
		if fn.Blocks == nil {
			continue
		}
		for _, lp := range naturalLoops(fn) {
			for _, in := range lp.header.Instrs {
				acc, ok := in.(*ssa.Phi)
				if !ok {
					break
				}
				if !isByteSlice(acc.Type()) {
					continue
				}
				for b := range lp.blocks {
					for _, i2 := range b.Instrs {
						cl, ok := i2.(*ssa.Call)
						if !ok || !isBuiltin(cl, "append") || len(cl.Call.Args) != 2 {
							continue
						}
						ev := strip(cl.Call.Args[1])
						if !isStringType(ev.Type()) {
							continue
						}
						// elem = *(&X[idx]) with X a []string
						u, ok := ev.(*ssa.UnOp)
						if !ok {
							continue
						}
						ia, ok := strip(u.X).(*ssa.IndexAddr)
						if !ok || !isStringSlice(ia.X.Type()) || !isRangeIndexOver(lp, ia.Index, strip(ia.X)) {
							continue
						}
						if !chasePhiThroughAppends(cl.Call.Args[0], acc, lp) {
							continue
						}
						kl := keyLoop{fn: fn, lp: lp, acc: acc, elem: ev, app: cl, source: strip(ia.X)}
						// used as key: string(acc) feeding a map lookup/update, or a deep copy of it stored as key
						for _, ref := range *acc.Referrers() {
							if cv, ok := ref.(*ssa.Convert); ok && isStringType(cv.Type()) {
								for _, r2 := range *cv.Referrers() {
									switch r2.(type) {
									case *ssa.Lookup, *ssa.MapUpdate:
										kl.asKey = true
									}
								}
							}
						}
						// the same through a helper: the accumulator is what the function returns, and a caller uses the
						// result as a map key
						returned := false
						for _, ref := range *acc.Referrers() {
							if _, ok := ref.(*ssa.Return); ok {
								returned = true
							}
						}
						if returned && !kl.asKey {
							for _, site := range c.callSitesOf(func(f *ssa.Function) bool {
								return f == fn || (f.Origin() != nil && f.Origin() == fn.Origin())
							}) {
								rv := site.Value()
								if rv == nil || rv.Referrers() == nil {
									continue
								}
								for _, ref := range *rv.Referrers() {
									if cv, ok := ref.(*ssa.Convert); ok && isStringType(cv.Type()) {
										for _, r2 := range *cv.Referrers() {
											switch r2.(type) {
											case *ssa.Lookup, *ssa.MapUpdate:
												kl.asKey = true
												kl.uses++
											}
										}
									}
								}
							}
						} else if kl.asKey {
							kl.uses = 1
						}
						out = append(out, kl)
					}
				}
			}
		}
	}
	sort.Slice(out, func(i, j int) bool { return anchorName(out[i].fn) < anchorName(out[j].fn) })
	return out
}

func isByteSlice(t interface{ String() string }) bool {
	return t.String() == "[]byte" || t.String() == "[]uint8"
}
func isStringSlice(t interface{ String() string }) bool {
	return t.String() == "[]string"
}
func isStringType(t interface{ String() string }) bool { return t.String() == "string" }

// chasePhiThroughAppends: v is the accumulator, or is derived from it by append / strconv.Append* / binary.Append* calls
func chasePhiThroughAppends(v ssa.Value, acc *ssa.Phi, lp *loop) bool {
	for i := 0; i < 12; i++ {
		v = strip(v)
		if v == ssa.Value(acc) {
			return true
		}
		cl, ok := v.(*ssa.Call)
		if !ok {
			return false
		}
		if isBuiltin(cl, "append") {
			v = cl.Call.Args[0]
			continue
		}
		if f := cl.Common().StaticCallee(); f != nil && (strings.HasPrefix(extName(f), "strconv.Append") || strings.Contains(extName(f), "encoding/binary") && strings.Contains(f.Name(), "Append")) {
			args := cl.Common().Args
			if cl.Common().Signature().Recv() != nil {
				args = args[1:]
			}
			v = args[0]
			continue
		}
		return false
	}
	return false
}

// lengthPrefixed: on the chain from the accumulator to the element append, len(elem) is appended (decimal followed by a
// non-digit constant byte, or fixed width / varint)
func lengthPrefixed(kl keyLoop) (bool, string) {
	v := kl.app.Call.Args[0]
	sawDelimiter := false
	for i := 0; i < 12; i++ {
		v = strip(v)
		if v == ssa.Value(kl.acc) {
			return false, "the element is appended directly after the previous one: the concatenations of ('ab','c') and ('a','bc') coincide"
		}
		cl, ok := v.(*ssa.Call)
		if !ok {
			return false, "unrecognised accumulator chain"
		}
		if isBuiltin(cl, "append") {
			// a constant, non-digit delimiter byte?
			if k, ok := appendedConstByte(cl); ok && !(k >= '0' && k <= '9') {
				sawDelimiter = true
			}
			v = cl.Call.Args[0]
			continue
		}
		f := cl.Common().StaticCallee()
		if f == nil {
			return false, "unrecognised accumulator chain"
		}
		args := cl.Common().Args
		if cl.Common().Signature().Recv() != nil {
			args = args[1:]
		}
		isLenOfElem := func(x ssa.Value) bool {
			roots := map[ssa.Value]bool{}
			deepRoots(x, roots)
			for r := range roots {
				if r == kl.elem {
					return true
				}
			}
			return strings.Contains(canonOf(x), "len("+canonOf(kl.elem)+")")
		}
		switch {
		case strings.HasPrefix(extName(f), "strconv.AppendInt") || strings.HasPrefix(extName(f), "strconv.AppendUint"):
			if len(args) >= 2 && isLenOfElem(args[1]) {
				if sawDelimiter {
					return true, "decimal length, delimiter, element"
				}
				return false, "the decimal length is not followed by a non-digit delimiter: '1'+'2ab' and '12'+'ab' coincide"
			}
		case strings.Contains(extName(f), "encoding/binary") && strings.Contains(f.Name(), "Append"):
			if len(args) >= 2 && isLenOfElem(args[1]) {
				return true, "binary length, element"
			}
		}
		v = args[0]
	}
	return false, "no encoding of len(element) precedes the element"
}

func appendedConstByte(cl *ssa.Call) (byte, bool) {
	// append(x, <slice of a fresh [1]byte holding a constant>...)
	sl, ok := strip(cl.Call.Args[1]).(*ssa.Slice)
	if !ok {
		return 0, false
	}
	al, ok := strip(sl.X).(*ssa.Alloc)
	if !ok || arrayLen(al.Type()) != 1 {
		return 0, false
	}
	for _, ref := range *al.Referrers() {
		if ia, ok := ref.(*ssa.IndexAddr); ok {
			for _, r2 := range *ia.Referrers() {
				if st, ok := r2.(*ssa.Store); ok {
					if k, ok := constInt(st.Val); ok {
						return byte(k), true
					}
				}
			}
		}
	}
	return 0, false
}

func ruleC06R1(c *Ctx) {
	loops := findKeyLoops(c)
	nKey := 0
	for _, kl := range loops {
		if !kl.asKey {
			continue
		}
		nKey += kl.uses
		ok, why := lengthPrefixed(kl)
		c.check(ok, "C06.R1", kl.fn, "map key built from the elements of "+canonOf(kl.source), kl.app.Pos(),
			"injective encoding of the tuple: "+why,
			"the merged key is not an injective encoding of the key tuple: "+why+" — two different key-field tuples share one pipeline / counter set")
	}
	c.floor("C06.R1", "uses of a map key built by a loop over a []string", nKey, 2)
	c.count("C06.R1:accumulating loops over []string", len(loops))
}

func ruleC06R2(c *Ctx) {
	np := c.P.Fn("orchestrate/obykeyset.(*byKeySetOrchestrator).newPipeline")
	no := c.P.Fn("orchestrate/obykeyset.NewOrchestrator")
	injectiveEncoders := map[string]string{} // encoder -> decoder (none in the module today)
	// encoder: the value passed as bufferID to startPipeline
	var start ssa.CallInstruction
	for _, site := range callsIn(np) {
		if site.Common().StaticCallee() == nil && !site.Common().IsInvoke() && len(site.Common().Args) == 6 {
			start = site
		}
	}
	if start == nil {
		broken("C06.R2: the startPipeline call of newPipeline was not found")
	}
	id := strip(start.Common().Args[3])
	enc := ""
	if cl, ok := id.(*ssa.Call); ok && cl.Common().StaticCallee() != nil {
		enc = extName(cl.Common().StaticCallee())
		if strings.HasPrefix(fnPkgPath(cl.Common().StaticCallee()), modPath) {
			enc = anchorName(cl.Common().StaticCallee())
		}
		// built from the keys parameter
		roots := map[ssa.Value]bool{}
		deepRoots(cl, roots)
		c.check(roots[ssa.Value(np.Params[1])], "C06.R2", np, "the pipeline id is built from the keys parameter", cl.Pos(), "argument derives from keys", "the id does not derive from the key values of this pipeline")
	}
	dec, okEnc := injectiveEncoders[enc]
	c.check(okEnc, "C06.R2", np, "the pipeline id is an injective encoding of the key values", start.Pos(),
		"whitelisted injective encoder "+enc,
		fmt.Sprintf("the id is built by %s, which is not injective when a value contains the separator: ('a,b','c') and ('a','b,c') share one queue directory and recovery splits the id into the wrong values", enc))
	// decoder in NewOrchestrator
	decFound := ""
	for _, site := range c.callsInR(no) {
		f := site.Common().StaticCallee()
		if f == nil {
			continue
		}
		n := extName(f)
		if n == "strings.Split" || (dec != "" && anchorName(f) == dec) {
			decFound = n
		}
	}
	if decFound == "" {
		broken("C06.R2: NewOrchestrator no longer decodes the recovered pipeline ids")
	}
	if okEnc {
		c.check(decFound == dec || anchorName(c.P.Fn(dec)) == decFound, "C06.R2", no, "recovered ids are decoded by the inverse of the encoder", no.Pos(), dec, "decoder "+decFound+" is not the inverse of "+enc)
	}
}

func ruleC06R3(c *Ctx) {
	np := c.P.Fn("orchestrate/obykeyset.(*byKeySetOrchestrator).newPipeline")
	keys := ssa.Value(np.Params[1])
	var start ssa.CallInstruction
	for _, site := range callsIn(np) {
		if site.Common().StaticCallee() == nil && !site.Common().IsInvoke() && len(site.Common().Args) == 6 {
			start = site
		}
	}
	if start == nil {
		broken("C06.R3: the startPipeline call of newPipeline was not found")
	}
	derives := func(v ssa.Value) bool {
		roots := map[ssa.Value]bool{}
		deepRoots(v, roots)
		return roots[keys]
	}
	a := start.Common().Args
	c.check(derives(a[3]), "C06.R3", np, "queue id derives from this pipeline's key values", start.Pos(), "from the keys parameter", "the queue id is not computed from the key values")
	tagOK := false
	if cl, ok := strip(a[4]).(*ssa.Call); ok && cl.Common().StaticCallee() != nil && isAnchor(cl.Common().StaticCallee(), "orchestrate/obase.(*TagBuilder).Build") {
		tagOK = strip(cl.Common().Args[1]) == keys
	}
	c.check(tagOK, "C06.R3", np, "tag is tagBuilder.Build(keys) of this pipeline's key values", start.Pos(), "Build(keys)", "the tag is not built from exactly the key values of this pipeline")
	// metric labels
	labOK := false
	if cl, ok := strip(a[1]).(*ssa.Call); ok && cl.Common().IsInvoke() && cl.Common().Method.Name() == "AddOrGetPrefix" {
		labOK = derives(cl.Common().Args[2])
	}
	c.check(labOK, "C06.R3", np, "metric label values derive from this pipeline's key values", start.Pos(), "append(…, keys...)", "the key_* label values are not the key values of this pipeline")
	// the starter: one tag / one id for all outputs
	ps := returnedClosure(c.P.Fn("orchestrate/obase.PrepareSequentialPipeline"))
	// by position in the PipelineStarter signature (logger, metric creator, input channel, buffer id, output tag, onStopped)
	var tagP, idP ssa.Value
	if len(ps.Params) == 6 && isStringType(ps.Params[3].Type()) && isStringType(ps.Params[4].Type()) {
		idP, tagP = ps.Params[3], ps.Params[4]
	}
	if tagP == nil || idP == nil {
		broken("C06.R3: the pipeline starter no longer has bufferID / outputTag parameters")
	}
	nTag, nID := 0, 0
	var psRegion []*ssa.Function
	for _, g := range c.regionOf(ps) {
		psRegion = append(psRegion, withAnons(g)...)
	}
	for _, fn := range psRegion {
		for _, site := range callsIn(fn) {
			if !site.Common().IsInvoke() {
				continue
			}
			switch site.Common().Method.Name() {
			case "NewSerializer", "NewChunkMaker":
				nTag++
				last := site.Common().Args[len(site.Common().Args)-1]
				c.check(resolve(last) == tagP || isFreeVarOf(last, tagP) || c.resolveR(ps, last) == tagP || isFreeVarOf(c.resolveR(ps, last), tagP), "C06.R3", fn, site.Common().Method.Name()+" receives the pipeline's tag", site.Pos(), "outputTag", "a different tag is given to an output: chunks are delivered under another key set's tag")
			case "NewBufferer":
				nID++
				arg := site.Common().Args[1]
				c.check(resolve(arg) == idP || isFreeVarOf(arg, idP) || c.resolveR(ps, arg) == idP || isFreeVarOf(c.resolveR(ps, arg), idP), "C06.R3", fn, "NewBufferer receives the pipeline's queue id", site.Pos(), "bufferID", "a different queue id is given to an output buffer: chunks are queued in another key set's directory")
			}
		}
	}
	c.floor("C06.R3", "serializer / chunk maker constructions", nTag, 2)
	c.floor("C06.R3", "bufferer constructions", nID, 1)
}

// isFreeVarOf: v is the free variable (of a nested closure) bound to outer value p
func isFreeVarOf(v ssa.Value, p ssa.Value) bool {
	v = strip(v)
	if u, ok := v.(*ssa.UnOp); ok {
		v = u.X
	}
	fv, ok := v.(*ssa.FreeVar)
	if !ok {
		return false
	}
	b := freeVarBinding(fv)
	if b == nil {
		return false
	}
	if b == p {
		return true
	}
	if al, ok := b.(*ssa.Alloc); ok {
		if sv, ok := singleStore(al); ok && strip(sv) == p {
			return true
		}
	}
	return false
}

// varargElems: the values stored into the backing array of a varargs slice (slice t[:] of a fresh array)
func varargElems(v ssa.Value) []ssa.Value {
	sl, ok := strip(v).(*ssa.Slice)
	if !ok {
		return []ssa.Value{v}
	}
	al, ok := strip(sl.X).(*ssa.Alloc)
	if !ok {
		return []ssa.Value{v}
	}
	var out []ssa.Value
	for _, ref := range *al.Referrers() {
		if ia, ok := ref.(*ssa.IndexAddr); ok {
			for _, r2 := range *ia.Referrers() {
				if st, ok := r2.(*ssa.Store); ok {
					out = append(out, st.Val)
				}
			}
		}
	}
	return out
}

func ruleC06R5(c *Ctx) {
	mk := c.P.Fn("buffer/hybridbuffer.makeBufferQueueDir")
	ls := c.P.Fn("buffer/hybridbuffer.listBufferQueueIDs")
	// .id receives the unsanitised id parameter
	n := 0
	for _, site := range callsIn(mk) {
		f := site.Common().StaticCallee()
		if f == nil || extName(f) != "os.WriteFile" {
			continue
		}
		n++
		data := site.Common().Args[1]
		roots := map[ssa.Value]bool{}
		deepRoots(data, roots)
		direct := false
		if cv, ok := strip(data).(*ssa.Convert); ok && strip(cv.X) == ssa.Value(mk.Params[2]) {
			direct = true
		}
		c.check(direct, "C06.R5", mk, ".id file content is the unsanitised buffer id", site.Pos(), "[]byte(bufferID)", "the .id file does not hold the exact id (the sanitised directory name is not injective)")
		nameOK := false
		if jc, ok := strip(site.Common().Args[0]).(*ssa.Call); ok && jc.Common().StaticCallee() != nil && extName(jc.Common().StaticCallee()) == "path/filepath.Join" {
			for _, e := range varargElems(jc.Common().Args[0]) {
				if k, ok := strip(e).(*ssa.Const); ok && k.Value != nil && strings.Contains(k.Value.String(), ".id") {
					nameOK = true
				}
			}
		}
		c.check(nameOK, "C06.R5", mk, "the file written is .id", site.Pos(), "filepath.Join(path, \".id\")", "another file name")
	}
	c.floor("C06.R5", "WriteFile calls in makeBufferQueueDir", n, 1)
	// the directory name: the sanitised id is not injective ('/' and '_' meet), the hash suffix is what keeps two ids apart,
	// so the hash must be taken of the id itself, never of something that passed the sanitiser
	nHash := 0
	for _, fn := range c.P.universe {
		if relPkg(fnPkgPath(fn)) != "buffer/hybridbuffer" {
			continue
		}
		for _, site := range callsIn(fn) {
			f := site.Common().StaticCallee()
			if f == nil || !isAnchor(f, "util.MD5ToHexdigest") {
				continue
			}
			nHash++
			arg := site.Common().Args[0]
			viaSanitiser := mentions(arg, func(v ssa.Value) bool {
				cl, ok := v.(*ssa.Call)
				return ok && cl.Common().StaticCallee() != nil && isAnchor(cl.Common().StaticCallee(), "buffer/hybridbuffer.sanitizeDirName")
			})
			p, isParam := strip(arg).(*ssa.Parameter)
			c.check(!viaSanitiser && isParam && isStringType(p.Type()), "C06.R5", fn, "the directory hash is taken of the unsanitised buffer id", site.Pos(),
				"MD5ToHexdigest(<the id parameter>)",
				"the hash suffix of the queue directory is not computed from the id itself (it passed sanitizeDirName or is another value): two ids that the sanitiser maps to one name share one directory, one .id file and each other's chunks")
		}
	}
	c.floor("C06.R5", "directory hash computations", nHash, 1)
	// recovery appends what it read
	nApp := 0
	eachInstr(ls, func(in ssa.Instruction) {
		cl, ok := in.(*ssa.Call)
		if !ok || !isBuiltin(cl, "append") || !isStringSlice(cl.Type()) {
			return
		}
		nApp++
		roots := map[ssa.Value]bool{}
		for _, e := range varargElems(cl.Call.Args[1]) {
			deepRoots(e, roots)
		}
		fromFile := false
		for r := range roots {
			if rc, ok := r.(*ssa.Call); ok && rc.Common().StaticCallee() != nil {
				switch extName(rc.Common().StaticCallee()) {
				case "os.ReadFile", "github.com/pkg/xattr.Get":
					fromFile = true
				}
			}
			if ex, ok := r.(*ssa.Extract); ok {
				if rc, ok := ex.Tuple.(*ssa.Call); ok && rc.Common().StaticCallee() != nil {
					switch extName(rc.Common().StaticCallee()) {
					case "os.ReadFile", "github.com/pkg/xattr.Get":
						fromFile = true
					}
				}
			}
		}
		c.check(fromFile, "C06.R5", ls, "recovered id is the content of .id", in.Pos(), "the bytes read from the id file", "the recovered id is not what was stored (e.g. the directory name, which is sanitised and hashed)")
		// … and exactly that: between the read and the list only conversions (bytes to string, copies) — no trimming,
		// case folding or splitting, which map different stored ids to one recovered id
		exact, culprit := true, ""
		seen := map[ssa.Value]bool{}
		var walk func(v ssa.Value, d int)
		walk = func(v ssa.Value, d int) {
			v = strip(v)
			if v == nil || seen[v] || d > 20 {
				return
			}
			seen[v] = true
			switch x := v.(type) {
			case *ssa.Convert:
				walk(x.X, d+1)
			case *ssa.ChangeType:
				walk(x.X, d+1)
			case *ssa.Phi:
				for _, e := range x.Edges {
					walk(e, d+1)
				}
			case *ssa.Extract:
				walk(x.Tuple, d+1)
			case *ssa.Alloc:
				for _, ref := range *x.Referrers() {
					if st, ok := ref.(*ssa.Store); ok && st.Addr == ssa.Value(x) {
						walk(st.Val, d+1)
					}
				}
			case *ssa.UnOp:
				walk(x.X, d+1)
			case *ssa.Call:
				f := x.Common().StaticCallee()
				n := ""
				if f != nil {
					n = extName(f)
					if strings.HasPrefix(fnPkgPath(f), modPath) {
						n = anchorName(f)
					}
				}
				switch n {
				case "os.ReadFile", "github.com/pkg/xattr.Get":
					// the source
				case "util.StringFromBytes", "util.DeepCopyStringFromBytes", "util.DeepCopyString", "strings.Clone", "bytes.Clone":
					walk(x.Common().Args[0], d+1)
				default:
					exact, culprit = false, n
				}
			case *ssa.Slice:
				exact, culprit = false, "a re-slice"
			}
		}
		for _, e := range varargElems(cl.Call.Args[1]) {
			walk(e, 0)
		}
		c.check(exact, "C06.R5", ls, "recovered id is exactly the content of .id", in.Pos(), "only conversions and copies between the read and the recovery list",
			"the recovered id passes through "+culprit+" on its way from the .id file: ids that differ only in what that removes or folds (leading / trailing whitespace, case …) are recovered as one id, whose directory name — hashed from the original id — is a different one, so the chunks are not reattached to the key set that produced them")
	})
	c.floor("C06.R5", "ids appended to the recovery list", nApp, 1)
}

// R6: the permanent key values of a pipeline are never rewritten. The lookup key of the pipeline map is built from the raw
// values (R1); tag, queue id and label values are built from the slice handed on by GetOrCreate (R3). If any function on
// the way stores into an element of that slice (cleaning, trimming, lower-casing the values "for the id"), identity and
// routing no longer follow the same values: two tuples routed apart can share one tag / queue directory.
// The slice is followed from DeepCopyStrings(tempKeys) in GetOrCreate through every call that receives it.
func init() {
	register("C06", "C06.R6", ruleC06R6)
}

func ruleC06R6(c *Ctx) {
	type item struct {
		fn *ssa.Function
		v  ssa.Value
	}
	var work []item
	for _, fn := range c.P.Fns(aGetOrCreate) {
		for _, s := range callsIn(fn) {
			if f := s.Common().StaticCallee(); f != nil && isAnchor(f, "util.DeepCopyStrings") && s.Value() != nil {
				work = append(work, item{fn, s.Value()})
			}
		}
	}
	c.floor("C06.R6", "permanent key slices created in GetOrCreate", len(work), 1)
	seen := map[ssa.Value]bool{}
	nFns, nUses := 0, 0
	visited := map[*ssa.Function]bool{}
	for len(work) > 0 {
		it := work[len(work)-1]
		work = work[:len(work)-1]
		if seen[it.v] {
			continue
		}
		seen[it.v] = true
		if !visited[it.fn] {
			visited[it.fn] = true
			nFns++
			if os.Getenv("SLOGCHECK_VERBOSE") != "" {
				fmt.Printf("C06.R6 visits %s (%s)\n", it.fn.String(), it.v.Name())
			}
		}
		// aliases of the slice inside the function: re-slices, phis, local copies, closure captures
		alias := map[ssa.Value]bool{it.v: true}
		for changed := true; changed; {
			changed = false
			for _, f := range withAnons(it.fn) {
				eachInstr(f, func(in ssa.Instruction) {
					v, ok := in.(ssa.Value)
					if !ok || alias[v] {
						return
					}
					switch x := in.(type) {
					case *ssa.Slice:
						if alias[x.X] {
							alias[v], changed = true, true
						}
					case *ssa.Phi:
						for _, e := range x.Edges {
							if alias[e] {
								alias[v], changed = true, true
							}
						}
					case *ssa.ChangeType:
						if alias[x.X] {
							alias[v], changed = true, true
						}
					case *ssa.UnOp:
						// load of a local cell or captured variable holding the slice
						if x.Op == token.MUL {
							switch a := x.X.(type) {
							case *ssa.Alloc:
								for _, ref := range *a.Referrers() {
									if st, ok := ref.(*ssa.Store); ok && st.Addr == ssa.Value(a) && alias[st.Val] {
										alias[v], changed = true, true
									}
								}
							case *ssa.FreeVar:
								if b := freeVarBinding(a); b != nil {
									if al, ok := b.(*ssa.Alloc); ok {
										for _, ref := range *al.Referrers() {
											if st, ok := ref.(*ssa.Store); ok && st.Addr == ssa.Value(al) && alias[st.Val] {
												alias[v], changed = true, true
											}
										}
									}
								}
							}
						}
					}
				})
				for _, fv := range f.FreeVars {
					if b := freeVarBinding(fv); b != nil && alias[b] && !alias[fv] {
						alias[fv], changed = true, true
					}
				}
			}
		}
		for _, f := range withAnons(it.fn) {
			eachInstr(f, func(in ssa.Instruction) {
				switch x := in.(type) {
				case *ssa.Store:
					if ia, ok := x.Addr.(*ssa.IndexAddr); ok && alias[ia.X] {
						nUses++
						c.bad("C06.R6", f, "the permanent key values are not rewritten", x.Pos(),
							"an element of the pipeline's permanent key slice is overwritten: tag, queue id and labels are then built from other values than the ones the record was routed by (two key tuples routed apart can share one tag / queue directory)")
					}
				case ssa.CallInstruction:
					cc := x.Common()
					if bi, ok := cc.Value.(*ssa.Builtin); ok {
						if (bi.Name() == "copy" || bi.Name() == "clear") && len(cc.Args) > 0 && alias[cc.Args[0]] {
							nUses++
							c.bad("C06.R6", f, "the permanent key values are not rewritten", x.Pos(), "the pipeline's permanent key slice is the destination of "+bi.Name())
						}
						return
					}
					args := cc.Args
					for i, a := range args {
						if !alias[a] {
							continue
						}
						nUses++
						for _, cal := range c.P.callees(x) {
							if cal.Blocks == nil || !(c.P.inUni[cal] || (cal.Synthetic != "" && strings.HasPrefix(fnPkgPath(cal), modPath))) {
								// outside the module: the standard library functions used here (strings.Join, append) do not write their argument
								continue
							}
							// invokes and calls of bound-method values do not list the receiver among their arguments
							pi := i + len(cal.Params) - len(cc.Args)
							if pi >= 0 && pi < len(cal.Params) {
								work = append(work, item{cal, cal.Params[pi]})
							}
						}
					}
				}
			})
		}
	}
	c.floor("C06.R6", "functions the permanent key slice flows through", nFns, 4)
	c.ok("C06.R6", nil, "the permanent key values are not rewritten", 0, fmt.Sprintf("followed through %d functions, %d uses, no element store", nFns, nUses))
}

// ---- C06.R7 (F3, added after seed c06h): pipelines are constructed one at a time. The constructor of a pipeline
// (byKeySetOrchestrator.newPipeline) builds the tag of the key set in the orchestrator's single TagBuilder, whose scratch
// buffer is shared; it is the createObject callback of the GlobalCachedMap, which the map documents as "called within
// global mutex". Every call of the function value held in GlobalCachedMap.createObject therefore happens with
// globalMutex held — constructing outside the lock lets two connections that meet two new key sets at once build their
// tags in the same buffer, and a pipeline keeps a tag made of another key set's values for its lifetime.
func init() {
	register("C06", "C06.R7", ruleC06R7)
}

func ruleC06R7(c *Ctx) {
	const fCreate = "util/localcachedmap.GlobalCachedMap.createObject"
	mutexClass := func(s ssa.CallInstruction) lockKind {
		f := s.Common().StaticCallee()
		if f == nil || len(s.Common().Args) == 0 || !strings.HasSuffix(fieldOf(s.Common().Args[0]), "GlobalCachedMap.globalMutex") {
			return lockNone
		}
		switch extName(f) {
		case "(*sync.Mutex).Lock":
			return lockAcquireW
		case "(*sync.Mutex).Unlock":
			return lockRelease
		}
		return lockNone
	}
	n := 0
	for _, fn := range c.P.universe {
		if relPkg(fnPkgPath(fn)) != "util/localcachedmap" {
			continue
		}
		var states map[ssa.Instruction]int
		for _, s := range callsIn(fn) {
			if s.Common().IsInvoke() || s.Common().StaticCallee() != nil {
				continue
			}
			if !strings.HasSuffix(normGeneric(fieldOf(s.Common().Value)), "GlobalCachedMap.createObject") {
				continue
			}
			n++
			if states == nil {
				states = c.lockStatesR(fn, mutexClass)
			}
			_, isGo := s.(*ssa.Go)
			c.check(!isGo && states[s] == 2, "C06.R7", fn, "the pipeline constructor runs under the global map's mutex", s.Pos(),
				"createObject is called between globalMutex.Lock and Unlock",
				"the constructor callback runs without the global mutex: two new key sets met at the same moment build their tags in the orchestrator's one scratch buffer, and a pipeline keeps another key set's tag")
		}
	}
	_ = fCreate
	c.floor("C06.R7", "calls of GlobalCachedMap.createObject", n, 1)
}

// normGeneric drops the type arguments of an instantiated generic type from a field name
func normGeneric(s string) string {
	for {
		i := strings.Index(s, "[")
		if i < 0 {
			return s
		}
		depth, j := 0, i
		for ; j < len(s); j++ {
			if s[j] == '[' {
				depth++
			}
			if s[j] == ']' {
				depth--
				if depth == 0 {
					break
				}
			}
		}
		if j >= len(s) {
			return s
		}
		s = s[:i] + s[j+1:]
	}
}
