package main

// C07: no input can crash or wedge the agent.
//
// R1 (F6)  index safety of every index/slice expression in the functions that run per connection
//          byte / per record (reachable from the per-record roots, construction excluded)
// R2 (F2)  explicit panics reachable from the per-record roots are reviewed invariants
// R3 (F7)  record bytes reach Prometheus label values only through a UTF-8 sanitizer
// R4 (F1)  serializer capacity guards
// R0       no recover() in the module (the premise "every reachable panic is fatal")

import (
	"fmt"
	"os"
	"sort"
	"strings"

	"golang.org/x/tools/go/ssa"
)

// perRecordRoots: entry points of the code that runs for every connection read / record / tick
var perRecordRoots = []string{
	"input/tcplistener.(*tcpLineListener).runConnection",
	"input/tcplistener.(*tcpLineListener).run",
	"base/bsupport.(*LogProcessingWorker).onInput",
	"base/bsupport.(*LogProcessingWorker).onTick",
	"base/bsupport.(*LogProcessingWorker).onStop",
}

// constructionBoundary: functions that build pipelines / sinks; what they call runs once per key set or
// connection with configuration values and is the subject of C16 (accepted configurations instantiate)
var constructionBoundary = map[string]bool{
	"orchestrate/obykeyset.(*byKeySetOrchestrator).newPipeline": true,
	"orchestrate/obase.PrepareSequentialPipeline":               true,
	"input/sysloginput.(*Config).NewInput$1":                    true, // per-connection parser + extraction transforms from configuration
}

// runtimeSet: universe functions reachable from the per-record roots without entering construction
func (c *Ctx) runtimeSet() (map[*ssa.Function]*ssa.Function, []*ssa.Function) {
	var roots []*ssa.Function
	for _, r := range perRecordRoots {
		roots = append(roots, c.P.Fn(r))
	}
	for b := range constructionBoundary {
		c.P.Fn(b) // must exist
	}
	reach := c.P.reachableFrom(roots, func(f *ssa.Function) bool {
		return !c.P.inUni[f] || constructionBoundary[anchorName(f)]
	})
	var fns []*ssa.Function
	for f := range reach {
		if c.P.inUni[f] && f.Blocks != nil && !constructionBoundary[anchorName(f)] {
			fns = append(fns, f)
		}
	}
	sort.Slice(fns, func(i, j int) bool { return anchorName(fns[i]) < anchorName(fns[j]) })
	return reach, fns
}

func init() {
	register("C07", "C07.R1", ruleC07R1)
}

// f6Reviewed: index/slice expressions accepted on review. Key: function anchor + "|" + kind + " " + canonical
// operand expression. Each entry names the invariant that makes the access safe and why the engine cannot
// derive it.
var f6Reviewed = map[string]string{}

func f6Key(fn *ssa.Function, o idxOblig) string {
	cc := newCanon()
	switch o.Kind {
	case "index":
		return anchorName(fn) + "|index " + cc.of(o.X) + "[" + cc.of(o.Idx) + "]"
	default:
		lo, hi := "", ""
		if o.Lo != nil {
			lo = cc.of(o.Lo)
		}
		if o.Hi != nil {
			hi = cc.of(o.Hi)
		}
		return anchorName(fn) + "|slice " + cc.of(o.X) + "[" + lo + ":" + hi + "]"
	}
}

func ruleC07R1(c *Ctx) {
	reach, fns := c.runtimeSet()
	c.floor("C07.R1", "universe functions reachable from the per-record roots", len(fns), 150)
	pr := newProver(c)
	// assume-guarantee: the declared struct invariants are assumed for the previous state while they are
	// verified at every store (induction over the life of the object); a failure withdraws them
	for i := range f6StructInvs {
		pr.structInvOK[f6StructInvs[i].typ] = true
	}
	pr.verifyConfigLower(c)
	pr.verifyStructInvs(c)
	for _, ok := range pr.structInvOK {
		if !ok {
			keep := pr.structInvOK
			cl := pr.configLowerOK
			pr = newProver(c) // drop everything derived under the withdrawn assumption
			pr.structInvOK = keep
			pr.configLowerOK = cl
			break
		}
	}
	res := classifyF6(c, pr, fns)
	nA, nB, nR := 0, 0, 0
	usedContracts := map[string]int{}
	for _, r := range res {
		construct := fmt.Sprintf("%s %s", r.O.Kind, canonOblig(r.O))
		switch r.Cls {
		case "A":
			nA++
			c.ok("C07.R1", r.Fn, construct, r.O.In.Pos(), "bounds check eliminated by the compiler's prove pass")
		case "B":
			nB++
			why := "proved by the facts engine (dominating guards, loop invariants, call-site preconditions, callee summaries)"
			if len(r.Used) > 0 {
				why += "; relies on: " + strings.Join(r.Used, "; ")
				for _, u := range r.Used {
					usedContracts[u]++
				}
			}
			c.ok("C07.R1", r.Fn, construct, r.O.In.Pos(), why)
		default:
			key := f6Key(r.Fn, r.O)
			if reason, ok := f6Reviewed[key]; ok {
				nR++
				c.assumed("C07.R1", r.Fn, construct, r.O.In.Pos(), "reviewed: "+reason)
				continue
			}
			if os.Getenv("SLOGCHECK_F6KEYS") != "" {
				fmt.Printf("F6KEY %q: \"\", // %s %s\n", key, r.Pos, r.Why)
			}
			c.bad("C07.R1", r.Fn, construct, r.O.In.Pos(), fmt.Sprintf("%s: no dominating guard, invariant, call-site precondition or contract bounds it; reached via %s", r.Why, chainTo(reach, r.Fn)))
		}
	}
	var us []string
	for u := range usedContracts {
		us = append(us, u)
	}
	sort.Strings(us)
	for _, u := range us {
		c.assumed("C07.R1", nil, "contract: "+u, 0, fmt.Sprintf("interface contract used by %d proofs; documented in base/logrewriter.go", usedContracts[u]))
	}
	c.note("C07.R1: %d index/slice expressions in %d runtime functions: %d compiler-proved, %d engine-proved, %d reviewed; engine steps=%d generations=%d", len(res), len(fns), nA, nB, nR, pr.steps, pr.gen+1)
	c.floor("C07.R1", "index/slice expressions decided", len(res), 200)
}

func canonOblig(o idxOblig) string {
	cc := newCanon()
	if o.Kind == "index" {
		return cc.of(o.X) + "[" + cc.of(o.Idx) + "]"
	}
	lo, hi := "", ""
	if o.Lo != nil {
		lo = cc.of(o.Lo)
	}
	if o.Hi != nil {
		hi = cc.of(o.Hi)
	}
	return cc.of(o.X) + "[" + lo + ":" + hi + "]"
}

func init() {
	register("F6SET", "dump", func(c *Ctx) {
		reach, fns := c.runtimeSet()
		for _, f := range fns {
			fmt.Printf("RT %s  <- %s\n", anchorName(f), anchorName(reach[f]))
		}
	})
}
