package main

// C07: no input can crash or wedge the agent.
//
// R1 (F6)  index safety of every index/slice expression in the functions that run per connection
//          byte / per record (reachable from the per-record roots, construction excluded)
// R2 (F2)  explicit panics reachable from the per-record roots are reviewed invariants
// R3 (F7)  record bytes reach Prometheus label values only through a UTF-8 sanitizer
// R4 (F1)  serializer capacity guards
// R0       no recover() in the module (the premise "every reachable panic is fatal")

import (
	"fmt"
	"go/token"
	"go/types"
	"os"
	"sort"
	"strings"

	"golang.org/x/tools/go/ssa"
)

// perRecordRoots: entry points of the code that runs for every connection read / record / tick
var perRecordRoots = []string{
	"input/tcplistener.(*tcpLineListener).runConnection",
	"input/tcplistener.(*tcpLineListener).run",
	"base/bsupport.(*LogProcessingWorker).onInput",
	"base/bsupport.(*LogProcessingWorker).onTick",
	"base/bsupport.(*LogProcessingWorker).onStop",
}

// constructionBoundary: functions that build pipelines / sinks; what they call runs once per key set or
// connection with configuration values and is the subject of C16 (accepted configurations instantiate)
var constructionBoundary = map[string]bool{
	"orchestrate/obykeyset.(*byKeySetOrchestrator).newPipeline": true,
	"orchestrate/obase.PrepareSequentialPipeline":               true,
}

// runtimeSet: universe functions reachable from the per-record roots without entering construction
func (c *Ctx) runtimeSet() (map[*ssa.Function]*ssa.Function, []*ssa.Function) {
	var roots []*ssa.Function
	for _, r := range perRecordRoots {
		roots = append(roots, c.P.Fn(r))
	}
	for b := range constructionBoundary {
		c.P.Fn(b) // must exist
	}
	reach := c.P.reachableFrom(roots, func(f *ssa.Function) bool {
		return !c.P.inUni[f] || isConstructionBoundary(f)
	})
	var fns []*ssa.Function
	for f := range reach {
		if c.P.inUni[f] && f.Blocks != nil && !isConstructionBoundary(f) {
			fns = append(fns, f)
		}
	}
	sort.Slice(fns, func(i, j int) bool { return anchorName(fns[i]) < anchorName(fns[j]) })
	return reach, fns
}

func init() {
	register("C07", "C07.R1", ruleC07R1)
	propExplanation["C07"] = "Decides the crash clause of the property, not liveness: for every function reachable from the per-connection / per-record entry points (runConnection, the accept loop, the pipeline worker's input/tick/stop handlers; pipeline and parser construction excluded, that is C16) every index and slice expression is classified: " +
		"bounds check eliminated by the compiler's prove pass; or proved by the facts engine (linear integer facts from dominating guards and edge conditions, Houdini-style loop invariants, preconditions that hold at every live call site, summaries of callee results, lengths of immutable fields, declared struct invariants verified at every store, entailment by Fourier-Motzkin elimination; integer overflow not modelled); " +
		"or accepted through a reviewed entry that states the invariant and, where visible in code, still requires its premises to be proved (R1). Assumptions used by proofs are contracts whose producer side is checked: schema-sized records and valid locators (R1s), verified configuration values (R1c), the multi-line reader's offsets (R1i, verified at every store), the client-number bound (R1g), the nil-or-256 character table (R1n), " +
		"LogRewriter results (R4c), io.Reader / read(2) / write(2) byte counts (assumed, stated). Also: no recover() exists (R0); explicit panics and fatal exits reachable per record are reviewed internal invariants (R2); record bytes reach WithLabelValues only through strings.ToValidUTF8 (R3). " +
		"Not decided: that the listener keeps accepting and surrounding records are delivered, memory exhaustion, panics inside dependencies (regexp, gzip, msgpack, Prometheus other than label validation)."
}

// f6Reviewed: index/slice expressions accepted on review. Key: function anchor | kind + canonical base
// expression | the aspect the engine could not prove. The entry is consulted only when the engine fails, and only
// for that aspect: a change that makes another aspect of the same expression unprovable is reported.
// Each entry names the invariant that makes the access safe and why the engine cannot derive it.
var f6Reviewed = map[string]string{
	"base.(*LogProcessCounterSet).CountChunk|index recv.chunksCountTotal|index may reach len":                                                                                                           "outputIndex enumerates worker.outputList, and the three per-output arrays are made with the number of outputs of the same pipeline (NewLogProcessCounter(…, len(outputs)) in PrepareSequentialPipeline): a relation between two objects built by one constructor call, outside the engine's per-object facts",
	"base.(*LogProcessCounterSet).CountChunk|index recv.chunksLengthTotal|index may reach len":                                                                                                          "same as chunksCountTotal (the three arrays have equal length: proved)",
	"base.(*LogProcessCounterSet).CountStream|index recv.serializedLengthTotal|index may reach len":                                                                                                     "same as chunksCountTotal",
	"base.(*LogProcessCounterSet).RegisterCustomCounter$1|index recv.currentCustomCounters|index may reach len":                                                                                         "a custom counter's index is the size of customCounterVecMap when it was registered; currentCustomCounters is made with len(customCounterVecMap) by SelectMetricKeySet, which runs per record, i.e. after every registration (registrations happen in NewTransform during pipeline construction): a temporal argument about map size, not expressible as a linear fact",
	"base.(*LogProcessCounterSet).RegisterCustomCounter$1|index recv.currentCustomCounters|index may be negative":                                                                                       "the index is len(map) at registration time (>= 0); the value passes through a closure cell the engine does not track",
	"base.(*LogProcessCounterSet).SelectMetricKeySet|index makeslice|index may reach len":                                                                                                               "vec.index ranges over the values of customCounterVecMap, each assigned the then-current map size (0..n-1, distinct) and the slice is made with len(map) = n: a property of the map's contents",
	"base.(*LogProcessCounterSet).SelectMetricKeySet|index makeslice|index may be negative":                                                                                                             "see above (vec.index >= 0)",
	"base.(LogFieldLocator).provideTemplatePart|index param:fields|index may reach len":                                                                                                                 "schema contract SC1/SC2: the only RecordType handed to a template expander in production is record.Fields (taddfields, tswitch via Expander.Run); the call goes through a function value (PartProvider), so the caller is not visible to the precondition search",
	"base.(LogFieldLocator).provideTemplatePart|index param:fields|index may be negative":                                                                                                               "see above",
	"input/tcplistener.(*multiLineReader).processBuffer|slice slice(recv.buffer,hi=param:bufferEnd)|low bound may exceed high bound":                                                                    "buffer[recordStart:searchStart-1]: recordStart is 0 (and searchStart > 0 is tested on this path) or an earlier value of searchStart, which grows by nextEndRel+1 >= 1 per iteration, so recordStart < searchStart: a disjunctive invariant (recordStart == 0 or recordStart < searchStart), outside the engine's convex linear domain. recordStart <= searchStart, 0 <= recordStart and searchStart <= bufferEnd are proved",
	"orchestrate/obase.(tagKeyFieldIndex).provideLabelSetTemplatePart|index param:labelValues|index may reach len":                                                                                      "the index is the position of the key field in keyFields found by NewTagBuilder (slices.Index != -1), and labelValues are the key values of one pipeline (len(keyFields) of them, from FieldSetExtractor): relation between a construction-time index and a per-pipeline slice passed through a function value",
	"orchestrate/obase.(tagKeyFieldIndex).provideLabelSetTemplatePart|index param:labelValues|index may be negative":                                                                                    "see above (slices.Index result after the != -1 test)",
	"run.(*ReloadableOrchestrator).NewSink|index recv.downstreamSinks|index may reach len":                                                                                                              "clientNumber < base.MaxClientNumber = len(array): the accept loop rejects a connection whose descriptor number is not below MaxClientNumber before starting runConnection (checked by C07.R1g); the value then travels through two interface calls (NewSink), which the precondition search does not follow",
	"transform/textract.(*extractTransform).Transform|index (*regexp.Regexp).FindStringSubmatchIndex(recv.pattern,base.(LogFieldLocator).Get(recv.keyLocator,param:record.Fields))|index may reach len": "regexp contract: a non-nil FindStringSubmatchIndex result has 2*(NumSubexp+1) entries, and subexpFieldLocators is made with len(pattern.SubexpNames()) = NumSubexp+1 entries for the same pattern (NewTransform), so 2*i+1 < len(loc) for every i < len(subexpFieldLocators): a property of a third-party API, not visible in the module's code",
	"transform/textract.(*extractTransform).Transform|slice base.(LogFieldLocator).Get(recv.keyLocator,param:record.Fields)|high bound may exceed len":                                                  "regexp contract: loc[2i] <= loc[2i+1] are offsets into the matched string when they are not negative (both are tested >= 0 on this path)",
	"transform/textract.(*extractTransform).Transform|slice base.(LogFieldLocator).Get(recv.keyLocator,param:record.Fields)|low bound may exceed high bound":                                            "see above",
	"transform/textract.(*extractTransform).Transform|slice base.(LogFieldLocator).Get(recv.keyLocator,param:record.Fields)|low bound may be negative":                                                  "tested on this path (loc[2i] < 0 skips the group)",
	"util.(BytesPoolBy2n).Get|index recv|index may reach len":                                                                                                                                           "index = 32 - LeadingZeros32(length) is 32 only for length >= 2^31; length is the length of one input line, bounded by the listener buffer (4 x InputLogMaxRecordBytes, a few MiB); the pool has 32 entries (proved)",
	"util.(BytesPoolBy2n).Put|index recv|index may be negative":                                                                                                                                         "the buffer comes from Get, whose pools allocate 1<<n bytes (n >= 0), so len(*buf) >= 1 and LeadingZeros32 <= 31",
	"util.(BytesPoolBy2n).Put|index recv|index may reach len":                                                                                                                                           "32 - lz - 1 <= 31 < 32 = len(pools)",
}

// f6ReviewedRequires: weaker facts that the engine must still prove at a reviewed site (the part of the review's
// argument that is visible in the code); without them the entry does not apply
var f6ReviewedRequires = map[string][]string{
	"input/tcplistener.(*multiLineReader).processBuffer|slice slice(recv.buffer,hi=param:bufferEnd)|low bound may exceed high bound": {"hi>=0", "lo<=hi+1"},
}

// f6ReviewedSites: call sites at which a precondition of the callee is accepted on review
// key: caller anchor | canonical call | goal
var f6ReviewedSites = map[string]string{
	"transform/textractspecial.extractLabelAtStart|transform/textractspecial.matchValidCharsFromStart(phi(param:text|slice(param:text,lo=len(param:leftBoundary))),param:validChars)|len(arg1)>=256":                "reached only with an empty right boundary (the non-empty case returns above); newStringExtractor rejects a nil table for position == extractFromStart with an empty right boundary (C07.R1n), and a non-nil table has 256 entries (proved)",
	"transform/textractspecial.extractLabelAtEnd|transform/textractspecial.matchValidCharsFromEnd(phi(param:text|slice(param:text,hi=(len(param:text)-len(param:rightBoundary)))),param:validChars)|len(arg1)>=256": "reached only with an empty left boundary; newStringExtractor rejects a nil table for position == extractFromEnd with an empty left boundary (C07.R1n)",
}

// requireHolds: one of the weaker facts of a reviewed entry
func requireHolds(pr *prover, r *f6Result, what string) bool {
	o := r.O
	lo, hi := zeroT(), lenT(o.X)
	if o.Lo != nil {
		lo = valT(o.Lo)
	}
	if o.Hi != nil {
		hi = valT(o.Hi)
	}
	switch what {
	case "hi>=0":
		return pr.prove(r.Fn, o.In, zeroT(), hi, 0, nil)
	case "lo>=0":
		return pr.prove(r.Fn, o.In, zeroT(), lo, 0, nil)
	case "lo<=hi+1":
		return pr.prove(r.Fn, o.In, lo, hi, 1, nil)
	case "hi<=len":
		return pr.prove(r.Fn, o.In, hi, lenT(o.X), 0, nil)
	}
	broken("unknown requirement %q in the reviewed table", what)
	return false
}

// byteTableSites: for `table[b]` with a byte index and a parameter table: the call sites at which
// len(table) >= 256 is not proved (nil when the shape does not apply)
func byteTableSites(pr *prover, r *f6Result) (failing []ssa.CallInstruction, applies bool) {
	if r.O.Kind != "index" {
		return nil, false
	}
	b, ok := r.O.Idx.Type().Underlying().(*types.Basic)
	if !ok || b.Kind() != types.Uint8 {
		return nil, false
	}
	prm, ok := strip(r.O.X).(*ssa.Parameter)
	if !ok {
		return nil, false
	}
	sites, ok := pr.knownCallers(r.Fn)
	if !ok || len(sites) == 0 {
		return nil, false
	}
	for _, site := range sites {
		lt := pr.substParam(r.Fn, site, lenT(prm))
		if lt.v == nil || !pr.prove(site.Parent(), site, zeroT(), lt, -256, nil) {
			failing = append(failing, site)
		}
	}
	return failing, true
}

func f6Key(fn *ssa.Function, o idxOblig, why string) string {
	cc := newCanon()
	return anchorName(fn) + "|" + o.Kind + " " + cc.of(o.X) + "|" + why
}

var f6Provers = map[*Ctx]*prover{}

// f6: the facts engine shared by the rules of one run, with the declared assumptions verified first
func (c *Ctx) f6() *prover {
	if p, ok := f6Provers[c]; ok {
		return p
	}
	pr := newProver(c)
	// assume-guarantee: the declared struct invariants are assumed for the previous state while they are
	// verified at every store (induction over the life of the object); a failure withdraws them
	for i := range f6StructInvs {
		pr.structInvOK[f6StructInvs[i].typ] = true
	}
	pr.verifyConfigLower(c)
	pr.verifyStructInvs(c)
	for _, ok := range pr.structInvOK {
		if !ok {
			keep := pr.structInvOK
			cl := pr.configLowerOK
			pr = newProver(c) // drop everything derived under the withdrawn assumption
			pr.structInvOK = keep
			pr.configLowerOK = cl
			break
		}
	}
	f6Provers[c] = pr
	return pr
}

func ruleC07R1(c *Ctx) {
	reach, fns := c.runtimeSet()
	c.floor("C07.R1", "universe functions reachable from the per-record roots", len(fns), 150)
	pr := c.f6()
	res := classifyF6(c, pr, fns)
	nA, nB, nR := 0, 0, 0
	usedContracts := map[string]int{}
	for _, r := range res {
		construct := fmt.Sprintf("%s %s", r.O.Kind, canonOblig(r.O))
		switch r.Cls {
		case "A":
			nA++
			c.ok("C07.R1", r.Fn, construct, r.O.In.Pos(), "bounds check eliminated by the compiler's prove pass")
		case "B":
			nB++
			why := "proved by the facts engine (dominating guards, loop invariants, call-site preconditions, callee summaries)"
			if len(r.Used) > 0 {
				why += "; relies on: " + strings.Join(r.Used, "; ")
				for _, u := range r.Used {
					usedContracts[u]++
				}
			}
			c.ok("C07.R1", r.Fn, construct, r.O.In.Pos(), why)
		default:
			key := f6Key(r.Fn, r.O, r.Why)
			if failing, applies := byteTableSites(pr, r); applies {
				// a byte index into a parameter table: decided per call site
				var unreviewed []string
				var reasons []string
				prm := strip(r.O.X).(*ssa.Parameter)
				idx := 0
				for i, q := range r.Fn.Params {
					if q == prm {
						idx = i
					}
				}
				for _, site := range failing {
					sk := anchorName(site.Parent()) + "|" + canonOf(site.Value()) + fmt.Sprintf("|len(arg%d)>=256", idx)
					if reason, ok := lookupReviewed(f6ReviewedSites, sk); ok {
						reasons = append(reasons, "at "+c.P.pos(site.Pos())+": "+reason)
					} else {
						unreviewed = append(unreviewed, c.P.pos(site.Pos()))
						if os.Getenv("SLOGCHECK_F6KEYS") != "" {
							fmt.Printf("F6SITE %q: \"\",\n", sk)
						}
					}
				}
				if len(unreviewed) == 0 {
					nR++
					c.assumed("C07.R1", r.Fn, construct, r.O.In.Pos(), "the table has 256 entries at every call site, proved except (reviewed) "+strings.Join(reasons, "; "))
				} else {
					c.bad("C07.R1", r.Fn, construct, r.O.In.Pos(), "a byte indexes a table that is not shown to have 256 entries when called from "+strings.Join(unreviewed, ", ")+" (a nil table panics on the first byte)")
				}
				continue
			}
			if mk, ok := lookupReviewedKey(f6Reviewed, key); ok {
				reason := f6Reviewed[mk]
				missing := ""
				for _, req := range f6ReviewedRequires[mk] {
					if !requireHolds(pr, r, req) {
						missing = req
						break
					}
				}
				if missing == "" {
					nR++
					c.assumed("C07.R1", r.Fn, construct, r.O.In.Pos(), "reviewed: "+reason)
					continue
				}
				c.bad("C07.R1", r.Fn, construct, r.O.In.Pos(), fmt.Sprintf("%s; the reviewed argument for this site needs %s, which no longer follows from the code; reached via %s", r.Why, missing, chainTo(reach, r.Fn)))
				continue
			}
			if os.Getenv("SLOGCHECK_F6KEYS") != "" {
				fmt.Printf("F6KEY %q: \"\", // %s %s\n", key, r.Pos, r.Why)
			}
			c.bad("C07.R1", r.Fn, construct, r.O.In.Pos(), fmt.Sprintf("%s: no dominating guard, invariant, call-site precondition or contract bounds it; reached via %s", r.Why, chainTo(reach, r.Fn)))
		}
	}
	var us []string
	for u := range usedContracts {
		us = append(us, u)
	}
	sort.Strings(us)
	for _, u := range us {
		c.assumed("C07.R1", nil, "contract: "+u, 0, fmt.Sprintf("interface contract used by %d proofs; documented in base/logrewriter.go", usedContracts[u]))
	}
	c.note("C07.R1: %d index/slice expressions in %d runtime functions: %d compiler-proved, %d engine-proved, %d reviewed; engine steps=%d generations=%d", len(res), len(fns), nA, nB, nR, pr.steps, pr.gen+1)
	c.floor("C07.R1", "index/slice expressions decided", len(res), 200)
}

func canonOblig(o idxOblig) string {
	cc := newCanon()
	if o.Kind == "index" {
		return cc.of(o.X) + "[" + cc.of(o.Idx) + "]"
	}
	lo, hi := "", ""
	if o.Lo != nil {
		lo = cc.of(o.Lo)
	}
	if o.Hi != nil {
		hi = cc.of(o.Hi)
	}
	return cc.of(o.X) + "[" + lo + ":" + hi + "]"
}

func init() {
	register("F6SET", "dump", func(c *Ctx) {
		reach, fns := c.runtimeSet()
		for _, f := range fns {
			fmt.Printf("RT %s  <- %s\n", anchorName(f), anchorName(reach[f]))
		}
	})
}

// ---------------------------------------------------------------------------
// Structural companions of R1: each checks the producer side of an assumption the engine or the reviewed
// table relies on.

func init() {
	register("C07", "C07.R0", ruleC07R0)
	register("C07", "C07.R1s", ruleC07R1s)
	register("C07", "C07.R1g", ruleC07R1g)
	register("C07", "C07.R1n", ruleC07R1n)
	register("C07", "C07.R4c", ruleC07R4c)
}

// R0: nothing recovers from a panic, so every panic reachable per record kills the agent
func ruleC07R0(c *Ctx) {
	nBuiltins := 0
	for fn := range c.P.allFuncs {
		if fn.Blocks == nil || !strings.HasPrefix(fnPkgPath(fn), modPath) || strings.HasSuffix(fnPkgPath(fn), "/test") {
			continue
		}
		eachInstr(fn, func(in ssa.Instruction) {
			ci, ok := in.(ssa.CallInstruction)
			if !ok {
				return
			}
			if b, ok := ci.Common().Value.(*ssa.Builtin); ok {
				nBuiltins++
				if b.Name() == "recover" {
					c.bad("C07.R0", fn, "recover()", in.Pos(), "a recover() exists: the rule set of C07 assumes that no panic is caught and must be re-scoped (which panics are survivable now?)")
				}
			}
		})
	}
	c.floor("C07.R0", "builtin calls scanned", nBuiltins, 300)
	c.ok("C07.R0", nil, "no recover() in the module", 0, "every reachable panic terminates the process: index safety (R1), explicit panics (R2) and label sanitising (R3) are necessary for the property")
}

func namedConstInt(c *Ctx, pkgRel, name string) int64 {
	for _, pk := range c.P.prog.AllPackages() {
		if relPkg(pk.Pkg.Path()) == pkgRel && strings.HasPrefix(pk.Pkg.Path(), modPath) {
			if nc, ok := pk.Members[name].(*ssa.NamedConst); ok {
				return nc.Value.Int64()
			}
		}
	}
	broken("constant %s.%s not found", pkgRel, name)
	return 0
}

// R1g: the accept loop starts runConnection only with a client number below MaxClientNumber
func ruleC07R1g(c *Ctx) {
	max := namedConstInt(c, "base", "MaxClientNumber")
	target := c.P.Fn("input/tcplistener.(*tcpLineListener).runConnection")
	pr := c.f6()
	n := 0
	for _, fn := range c.P.universe {
		for _, site := range callsIn(fn) {
			if site.Common().StaticCallee() != target {
				continue
			}
			n++
			arg := site.Common().Args[len(site.Common().Args)-1]
			ok := pr.prove(fn, site, valT(arg), zeroT(), max-1, nil)
			c.check(ok, "C07.R1g", fn, "runConnection is started with clientNumber < MaxClientNumber", site.Pos(),
				"the call is dominated by the rejection of descriptor numbers >= MaxClientNumber",
				fmt.Sprintf("the client number is not shown to be below %d: ReloadableOrchestrator indexes fixed arrays of that size with it", max))
		}
	}
	c.floor("C07.R1g", "call sites of runConnection", n, 1)
}

// R1n: newStringExtractor stores a nil char table only when the boundary that delimits the label is not empty
func ruleC07R1n(c *Ctx) {
	fn := c.P.Fn("transform/textractspecial.newStringExtractor")
	posStart := namedConstInt(c, "transform/textractspecial", "extractFromStart")
	posEnd := namedConstInt(c, "transform/textractspecial", "extractFromEnd")
	var stTable *ssa.Store
	stored := map[string]ssa.Value{}
	eachInstr(fn, func(in ssa.Instruction) {
		st, ok := in.(*ssa.Store)
		if !ok {
			return
		}
		if fa, ok := strip(st.Addr).(*ssa.FieldAddr); ok {
			f := fieldName(fa.X.Type(), fa.Field)
			switch f {
			case "transform/textractspecial.stringExtractor.validChars":
				stTable = st
			case "transform/textractspecial.stringExtractor.leftBound", "transform/textractspecial.stringExtractor.rightBound", "transform/textractspecial.stringExtractor.position":
				stored[f[strings.LastIndex(f, ".")+1:]] = strip(st.Val)
			}
		}
	})
	if stTable == nil || stored["leftBound"] == nil || stored["rightBound"] == nil || stored["position"] == nil {
		broken("C07.R1n: newStringExtractor no longer stores validChars/leftBound/rightBound/position")
	}
	// blocks from which the nil value flows into the store
	var nilPreds []*ssa.BasicBlock
	switch v := strip(stTable.Val).(type) {
	case *ssa.Phi:
		for i, e := range v.Edges {
			if k, ok := strip(e).(*ssa.Const); ok && k.IsNil() {
				nilPreds = append(nilPreds, v.Block().Preds[i])
			}
		}
	case *ssa.Const:
		if v.IsNil() {
			nilPreds = append(nilPreds, stTable.Block())
		}
	}
	c.floor("C07.R1n", "paths storing a nil char table", len(nilPreds), 1)
	type atom struct {
		what  string
		truth bool
	}
	classify := func(cond ssa.Value) (string, bool) {
		bo, ok := cond.(*ssa.BinOp)
		if !ok || bo.Op != token.EQL {
			return "", false
		}
		k, isK := constInt(bo.Y)
		if !isK {
			return "", false
		}
		if strip(bo.X) == stored["position"] {
			if k == posStart {
				return "posStart", true
			}
			if k == posEnd {
				return "posEnd", true
			}
		}
		if cl, ok := strip(bo.X).(*ssa.Call); ok && isBuiltin(cl, "len") && k == 0 {
			if strip(cl.Call.Args[0]) == stored["rightBound"] {
				return "rightEmpty", true
			}
			if strip(cl.Call.Args[0]) == stored["leftBound"] {
				return "leftEmpty", true
			}
		}
		return "", false
	}
	for _, target := range nilPreds {
		bad := ""
		nPaths := 0
		var walk func(b *ssa.BasicBlock, dec []atom, seen map[*ssa.BasicBlock]bool)
		walk = func(b *ssa.BasicBlock, dec []atom, seen map[*ssa.BasicBlock]bool) {
			if bad != "" || seen[b] || nPaths > 5000 {
				return
			}
			if b == target {
				nPaths++
				has := func(w string, t bool) bool {
					for _, a := range dec {
						if a.what == w && a.truth == t {
							return true
						}
					}
					return false
				}
				okA := has("posStart", false) || has("rightEmpty", false) || has("posEnd", true)
				okB := has("posEnd", false) || has("leftEmpty", false) || has("posStart", true)
				if !okA {
					bad = "position == extractFromStart with an empty right boundary is not excluded"
				} else if !okB {
					bad = "position == extractFromEnd with an empty left boundary is not excluded"
				}
				return
			}
			seen[b] = true
			defer delete(seen, b)
			if iff, ok := b.Instrs[len(b.Instrs)-1].(*ssa.If); ok {
				if w, ok := classify(iff.Cond); ok {
					walk(b.Succs[0], append(append([]atom{}, dec...), atom{w, true}), seen)
					walk(b.Succs[1], append(append([]atom{}, dec...), atom{w, false}), seen)
					return
				}
			}
			for _, s := range b.Succs {
				walk(s, dec, seen)
			}
		}
		walk(fn.Blocks[0], nil, map[*ssa.BasicBlock]bool{})
		c.check(bad == "" && nPaths > 0, "C07.R1n", fn, fmt.Sprintf("nil char table stored from block %d only with a delimiting boundary", target.Index), stTable.Pos(),
			fmt.Sprintf("all %d paths to the nil store exclude the combinations in which extractLabelAtStart/AtEnd index the table without a nil test", nPaths),
			"a nil char table can be stored although the label would be delimited by the table only: "+bad+" (matchValidCharsFrom* index a nil slice on the first record)")
	}
}

// R4c: every LogRewriter implementation honours the result side of the contract the serializer relies on
func ruleC07R4c(c *Ctx) {
	pr := c.f6()
	n := 0
	for _, fn := range c.P.universe {
		if fn.Signature.Recv() == nil || fn.Blocks == nil || !pr.implementsRewriter(fn.Signature.Recv().Type()) {
			continue
		}
		switch fn.Name() {
		case "MaxFieldLength":
			for _, rv := range returnedValues(fn, 0) {
				n++
				c.check(pr.prove(fn, rv.At, zeroT(), valT(rv.Val), 0, nil), "C07.R4c", fn, "MaxFieldLength result >= 0", rv.At.Pos(),
					"a sum of lengths (and of the next rewriter's result, by the same contract)", "the result can be negative: the serializer's capacity guard then reserves too little")
			}
		case "WriteFieldBody":
			if len(fn.Params) != 4 {
				continue
			}
			for _, rv := range returnedValues(fn, 0) {
				n++
				ok := pr.prove(fn, rv.At, zeroT(), valT(rv.Val), 0, nil) && pr.prove(fn, rv.At, valT(rv.Val), lenT(fn.Params[3]), 0, nil)
				c.check(ok, "C07.R4c", fn, "0 <= WriteFieldBody result <= len(buffer)", rv.At.Pos(),
					"the result is what copy()/the next rewriter wrote into the given buffer", "the result is not bounded by the buffer it was given: the serializer advances its position by it")
			}
		}
	}
	c.floor("C07.R4c", "return sites of LogRewriter implementations", n, 8)
}

// R1s: producers of the schema contract SC1..SC3
func ruleC07R1s(c *Ctx) {
	pr := c.f6()
	// (a) conversions to LogFieldLocator
	nConv := 0
	for _, fn := range c.P.universe {
		eachInstr(fn, func(in ssa.Instruction) {
			var x ssa.Value
			switch v := in.(type) {
			case *ssa.Convert:
				if typeName(v.Type()) == "base.LogFieldLocator" && typeName(v.X.Type()) != "base.LogFieldLocator" {
					x = v.X
				}
			case *ssa.ChangeType:
				if typeName(v.Type()) == "base.LogFieldLocator" && typeName(v.X.Type()) != "base.LogFieldLocator" {
					x = v.X
				}
			}
			if x == nil {
				return
			}
			nConv++
			// 0 <= x < len(recv.fieldNames)
			var names ssa.Value
			eachInstr(fn, func(i2 ssa.Instruction) {
				if u, ok := i2.(*ssa.UnOp); ok && u.Op == token.MUL {
					if fa, ok := strip(u.X).(*ssa.FieldAddr); ok && fieldName(fa.X.Type(), fa.Field) == "base.LogSchema.fieldNames" {
						names = u
					}
				}
			})
			ok := names != nil && pr.prove(fn, in, zeroT(), valT(x), 0, nil) && pr.prove(fn, in, valT(x), lenT(names), -1, nil)
			c.check(ok, "C07.R1s", fn, "integer converted to LogFieldLocator is an index of schema.fieldNames", in.Pos(),
				"0 <= index < len(fieldNames) at the conversion (slices.Index result after the -1 test)",
				"a locator is made from an integer that is not shown to be a valid field index: every fields[loc] relies on it")
		})
	}
	c.floor("C07.R1s", "conversions to LogFieldLocator", nConv, 1)
	// (b) uses of the constant MissingFieldLocator (-1) and (c) guards on the containers that may hold it
	tainted := map[string]bool{}
	nMissing := 0
	for _, fn := range c.P.universe {
		eachInstr(fn, func(in ssa.Instruction) {
			var ops []*ssa.Value
			for _, op := range in.Operands(ops) {
				k, ok := (*op).(*ssa.Const)
				if !ok || typeName(k.Type()) != "base.LogFieldLocator" || k.Value == nil {
					continue
				}
				nMissing++
				switch x := in.(type) {
				case *ssa.BinOp:
					continue // comparison
				case *ssa.Return:
					if isAnchor(fn, "base.(*LogSchema).CreateFieldLocator") {
						last := x.Results[len(x.Results)-1]
						if kc, isC := last.(*ssa.Const); !isC || !kc.IsNil() {
							continue // returned together with an error
						}
					}
				case *ssa.Store:
					if ia, ok := strip(x.Addr).(*ssa.IndexAddr); ok {
						root := strip(ia.X)
						found := false
						eachInstr(fn, func(i2 ssa.Instruction) {
							st, ok := i2.(*ssa.Store)
							if !ok {
								return
							}
							if fa, ok := strip(st.Addr).(*ssa.FieldAddr); ok && strip(st.Val) == root {
								tainted[fieldName(fa.X.Type(), fa.Field)] = true
								found = true
							}
						})
						if found {
							continue
						}
					}
				}
				c.bad("C07.R1s", fn, "use of MissingFieldLocator", in.Pos(), "the invalid locator (-1) flows somewhere other than a comparison, an error return of CreateFieldLocator or a slice stored in a struct field: the engine assumes locators are valid indexes")
			}
		})
	}
	c.floor("C07.R1s", "uses of MissingFieldLocator", nMissing, 3)
	var tf []string
	for f := range tainted {
		tf = append(tf, f)
	}
	sort.Strings(tf)
	for _, f := range tf {
		nLoads := 0
		for _, fn := range c.P.universe {
			eachInstr(fn, func(in ssa.Instruction) {
				u, ok := in.(*ssa.UnOp)
				if !ok || u.Op != token.MUL {
					return
				}
				ia, ok := strip(u.X).(*ssa.IndexAddr)
				if !ok || tableKey(ia.X) != "field:"+f {
					return
				}
				nLoads++
				// every use of the element other than a comparison is only reachable through `elem != -1`
				for _, ref := range *u.Referrers() {
					if bo, ok := ref.(*ssa.BinOp); ok && (bo.Op == token.EQL || bo.Op == token.NEQ) {
						continue
					}
					if _, ok := ref.(*ssa.DebugRef); ok {
						continue
					}
					guarded := false
					for _, r2 := range *u.Referrers() {
						bo, ok := r2.(*ssa.BinOp)
						if !ok || (bo.Op != token.EQL && bo.Op != token.NEQ) {
							continue
						}
						if k, ok := bo.Y.(*ssa.Const); !ok || k.Value == nil || k.Int64() != -1 {
							continue
						}
						for _, r3 := range *bo.Referrers() {
							iff, ok := r3.(*ssa.If)
							if !ok {
								continue
							}
							edge := 1 // == : the false edge
							if bo.Op == token.NEQ {
								edge = 0
							}
							if c.onlyViaEdge(fn, ref, iff.Block(), edge) {
								guarded = true
							}
						}
					}
					c.check(guarded, "C07.R1s", fn, "element of "+f+" is used only after the MissingFieldLocator test", ref.Pos(),
						"the use is reachable only through the `!= MissingFieldLocator` edge", "an element that may be MissingFieldLocator (-1) is used as a field index without the test")
				}
			})
		}
		c.floor("C07.R1s", "element loads of "+f, nLoads, 1)
	}
	// (d) who stores LogRecord.Fields
	nF := 0
	for _, fn := range c.P.universe {
		if strings.Contains(fn.Name(), "Test") {
			continue // test helpers kept in a non-test file (NewTestRecord*, CopyTestRecord): not reachable in production
		}
		for _, st := range storesToField(fn, "base.LogRecord.Fields") {
			nF++
			s := st
			lt := lenT(s.Val)
			if mk, isMake := strip(s.Val).(*ssa.MakeSlice); isMake {
				lt = valT(mk.Len) // the length operand itself (a parameter: the goal is pushed to the call sites)
			}
			ok := pr.prove(fn, s, lt, mfT(), 0, nil) && pr.prove(fn, s, mfT(), lt, 0, nil)
			c.check(ok, "C07.R1s", fn, "LogRecord.Fields is made with schema.maxFields elements", s.Pos(),
				"len(stored slice) == GetMaxFields() of the schema", "a record's Fields slice is not shown to have maxFields elements: locators index it without a check")
		}
	}
	c.floor("C07.R1s", "stores to LogRecord.Fields", nF, 1)
	// (e) NewLogSchema
	ns := c.P.Fn("base.NewLogSchema")
	var stNames, stMax *ssa.Store
	for _, st := range storesToField(ns, "base.LogSchema.fieldNames") {
		stNames = st
	}
	for _, st := range storesToField(ns, "base.LogSchema.maxFields") {
		stMax = st
	}
	if stNames == nil || stMax == nil {
		broken("C07.R1s: NewLogSchema no longer stores fieldNames/maxFields")
	}
	at := stMax
	if stNames.Block() == stMax.Block() {
		for _, in := range stMax.Block().Instrs {
			if in == ssa.Instruction(stNames) {
				at = stMax
			}
			if in == ssa.Instruction(stMax) {
				break
			}
		}
	}
	c.check(pr.prove(ns, at, lenT(stNames.Val), valT(stMax.Val), 0, nil), "C07.R1s", ns, "NewLogSchema: len(fieldNames) <= maxFields", at.Pos(),
		"the constructor rejects maxFields < len(fieldNames)", "a schema with fewer slots than named fields can be created: NF <= MF is assumed by every fields[loc]")
	for _, f := range []string{"base.LogSchema.fieldNames", "base.LogSchema.maxFields"} {
		c.check(pr.immutableField[f], "C07.R1s", nil, f+" is assigned only in constructors", 0, "stored only into fresh objects", "the schema is modified after construction")
	}
}

// ---------------------------------------------------------------------------
// R3: bytes of a record reach a Prometheus label value (WithLabelValues validates UTF-8 and panics) only
// after strings.ToValidUTF8

func init() {
	register("C07", "C07.R3", ruleC07R3)
	register("C07", "C07.R2", ruleC07R2)
}

var recordStringSources = map[string]bool{
	"base.(*FieldSetExtractor).Extract": true,
	"base.(LogFieldLocator).Get":        true,
	"util.StringFromBytes":              true,
}

// c07R3Cfg: content taint. ToValidUTF8 cleans; deep copies have the content of their argument; a byte-offset cut after
// the cleaner may split a multi-byte sequence and counts as unsanitised again.
var c07R3Cfg = taintCfg{
	mode:      "content-utf8",
	sanitizer: func(n string) bool { return n == "strings.ToValidUTF8" },
	identity: func(n string) bool {
		switch n {
		case "util.DeepCopyString", "util.DeepCopyStrings", "util.DeepCopyStringFromBytes", "strings.Clone":
			return true
		}
		return false
	},
	cutBreaks: true,
}

func ruleC07R3(c *Ctx) {
	nSites, nDynamic := 0, 0
	for _, fn := range c.P.universe {
		for _, site := range callsIn(fn) {
			cc := site.Common()
			name := ""
			if cc.IsInvoke() {
				name = cc.Method.Name()
			} else if f := cc.StaticCallee(); f != nil {
				name = f.Name()
			}
			if name != "WithLabelValues" {
				continue
			}
			nSites++
			args := cc.Args
			if !cc.IsInvoke() && len(args) > 0 {
				args = args[1:] // receiver
			}
			for _, a := range args {
				// does the argument derive from record bytes (whatever copies are made on the way)?
				derived, src := taintWalk(a, taintCfg{mode: "content-raw", identity: c07R3Cfg.identity})
				if !derived {
					src = ""
				}
				if src == "" {
					continue
				}
				nDynamic++
				construct := "label values of " + canonOf(site.Value())
				// accepted: the argument is a ToValidUTF8 result, or a slice every element of which is overwritten
				// with a ToValidUTF8 result in a range loop over that slice that is finished before the call
				ok := false
				av := strip(a)
				if cl, isCall := av.(*ssa.Call); isCall && cl.Common().StaticCallee() != nil && extName(cl.Common().StaticCallee()) == "strings.ToValidUTF8" {
					ok = true
				}
				// every flow from record bytes into the argument (including elements stored into the slice) passes ToValidUTF8
				unsanitised, usrc := taintWalk(a, c07R3Cfg)
				if !unsanitised {
					ok = true
				}
				if !ok {
					for _, lp := range naturalLoops(fn) {
						sanitizing := false
						for b := range lp.blocks {
							for _, in := range b.Instrs {
								st, isSt := in.(*ssa.Store)
								if !isSt {
									continue
								}
								ia, isIA := strip(st.Addr).(*ssa.IndexAddr)
								if !isIA || strip(ia.X) != av {
									continue
								}
								v, isCall := strip(st.Val).(*ssa.Call)
								if !isCall || v.Common().StaticCallee() == nil || extName(v.Common().StaticCallee()) != "strings.ToValidUTF8" {
									continue
								}
								// the index is the loop's own range index over the same slice
								if isRangeIndexOver(lp, ia.Index, av) {
									sanitizing = true
								}
							}
						}
						// … and nothing else is ever stored into an element of that slice (a cut after the cleaning would split sequences)
						eachInstr(fn, func(in ssa.Instruction) {
							st, isSt := in.(*ssa.Store)
							if !isSt {
								return
							}
							ia, isIA := strip(st.Addr).(*ssa.IndexAddr)
							if !isIA || strip(ia.X) != av {
								return
							}
							v, isCall := strip(st.Val).(*ssa.Call)
							if !isCall || v.Common().StaticCallee() == nil || extName(v.Common().StaticCallee()) != "strings.ToValidUTF8" {
								sanitizing = false
							}
						})
						if sanitizing && lp.exitBlock != nil && (lp.exitBlock == site.Block() || lp.exitBlock.Dominates(site.Block())) {
							ok = true
						}
					}
				}
				c.check(ok, "C07.R3", fn, construct, site.Pos(),
					"every element is replaced by strings.ToValidUTF8(element) in a completed range loop before the call (source: "+src+")",
					"bytes of a log record ("+src+") become label values without UTF-8 sanitising as the last content operation (unsanitised flow: "+usrc+"): WithLabelValues panics on the first record whose key field is not valid UTF-8 there")
			}
		}
	}
	c.floor("C07.R3", "WithLabelValues call sites", nSites, 8)
	c.floor("C07.R3", "call sites fed from record fields", nDynamic, 2)
}

// isRangeIndexOver: idx is the index variable of a `for i := range s` loop (i = phi+1 tested against len(s))
func isRangeIndexOver(lp *loop, idx ssa.Value, s ssa.Value) bool {
	bo, ok := strip(idx).(*ssa.BinOp)
	if !ok || bo.Op != token.ADD {
		return false
	}
	phi, ok := strip(bo.X).(*ssa.Phi)
	if !ok || phi.Block() != lp.header {
		return false
	}
	if k, ok := constInt(bo.Y); !ok || k != 1 {
		return false
	}
	iff, ok := lp.header.Instrs[len(lp.header.Instrs)-1].(*ssa.If)
	if !ok {
		return false
	}
	cmp, ok := iff.Cond.(*ssa.BinOp)
	if !ok || cmp.Op != token.LSS || strip(cmp.X) != ssa.Value(bo) {
		return false
	}
	ln, ok := strip(cmp.Y).(*ssa.Call)
	return ok && isBuiltin(ln, "len") && strip(ln.Call.Args[0]) == s
}

// ---------------------------------------------------------------------------
// R2: explicit panics / fatal exits reachable from the per-record roots are reviewed invariants

var c07R2Reviewed = map[string]string{
	"base.(*LogAllocator).Release|github.com/relex/gotils/logger.Panic(slice(var:varargs))":                                                             "internal invariant: a negative reference count means a record was released twice; exactly-once release on every path is what C12.R2 / C09.R1 / C19 check, independent of the input bytes",
	"transform/textractspecial.(*stringExtractor).Extract|panic(recv.position)":                                                                         "internal invariant: position is written only by newStringExtractor with the value of Config.getPosition(), which returns one of the two constants or panics at construction (C16); the field is immutable (proved: position >= 1)",
	"util.GetFDFromTCPConnOrPanic|(github.com/relex/gotils/logger.Logger).Panic(github.com/relex/gotils/logger.WithFields(makemap),slice(var:varargs))": "SyscallConn/Control fail only for a closed or invalid connection; the connection was returned by AcceptTCP in the previous statement and has not been shared with any other goroutine yet, whatever the client sends",
}

func ruleC07R2(c *Ctx) {
	reach, fns := c.runtimeSet()
	n := 0
	for _, fn := range fns {
		eachInstr(fn, func(in ssa.Instruction) {
			what := ""
			switch x := in.(type) {
			case *ssa.Panic:
				if k, ok := x.X.(*ssa.MakeInterface); ok {
					if kc, ok := k.X.(*ssa.Const); ok && kc.Value != nil && strings.Contains(kc.Value.String(), "blocking select matched no case") {
						return // synthesised by the SSA builder for a select without default: not a source-level panic
					}
				}
				what = "panic(" + canonOf(x.X) + ")"
			case *ssa.Call:
				if c.P.isNoReturnCall(x) {
					what = canonOf(x)
					if len(what) > 120 {
						what = what[:120] + "…"
					}
				}
			}
			if what == "" {
				return
			}
			n++
			key := anchorName(fn) + "|" + what
			if os.Getenv("SLOGCHECK_F6KEYS") != "" {
				if _, ok := lookupReviewed(c07R2Reviewed, key); !ok {
					fmt.Printf("R2KEY %q: \"\", // %s via %s\n", key, c.P.pos(in.Pos()), chainTo(reach, fn))
				}
			}
			if reason, ok := lookupReviewed(c07R2Reviewed, key); ok {
				c.assumed("C07.R2", fn, what, in.Pos(), "reviewed: "+reason)
				return
			}
			c.bad("C07.R2", fn, what, in.Pos(), "an explicit panic / fatal exit is reachable while records are processed and is not a reviewed internal invariant; reached via "+chainTo(reach, fn))
		})
	}
	c.floor("C07.R2", "explicit panic sites in the runtime set", n, 3)
}

// ---------------------------------------------------------------------------
// R1h (added after seed c10f; registered as C10.R6 too): a variable shift count stays below the operand's width. Go does
// not panic on `1 << n` with n >= 64: the result is 0 — a bit set indexed by an unbounded number silently has no members
// from 64 on (a field mask that stops hiding fields, a character class that stops matching). For every shift by a
// non-constant count in the per-record universe and in the constructors that build what it uses, the facts engine must
// show count <= width-1; a count masked with `& (width-1)` or taken `% width` is bounded by construction.
func init() {
	register("C07", "C07.R1h", ruleShiftCount)
	register("C10", "C07.R1h", ruleShiftCount)
}

var shiftReviewed = map[string]string{}

func ruleShiftCount(c *Ctx) {
	pr := c.f6()
	n := 0
	for _, fn := range c.P.universe {
		if fn.Blocks == nil {
			continue
		}
		eachInstr(fn, func(in ssa.Instruction) {
			bo, ok := in.(*ssa.BinOp)
			if !ok || (bo.Op != token.SHL && bo.Op != token.SHR) {
				return
			}
			if _, isK := strip(bo.Y).(*ssa.Const); isK {
				return
			}
			bt, ok := bo.X.Type().Underlying().(*types.Basic)
			if !ok {
				return
			}
			width := int64(intBits(bt))
			if width == 0 {
				return
			}
			n++
			construct := "shift count " + canonOf(bo.Y) + " < " + fmt.Sprint(width)
			// bounded by construction: y & k, y % k with constant k
			y := strip(bo.Y)
			for i := 0; i < 3; i++ {
				if cv, ok := y.(*ssa.Convert); ok {
					y = strip(cv.X)
				}
			}
			if mb, ok := y.(*ssa.BinOp); ok {
				if k, isK := constInt(mb.Y); isK {
					if (mb.Op == token.AND && k >= 0 && k < width) || (mb.Op == token.REM && k > 0 && k <= width && !isSigned(mb.X.Type())) {
						c.ok("C07.R1h", fn, construct, in.Pos(), "the count is masked / reduced to less than the width")
						return
					}
				}
			}
			if pr.prove(fn, in, valT(bo.Y), zeroT(), width-1, nil) {
				c.ok("C07.R1h", fn, construct, in.Pos(), "proved by the facts engine")
				return
			}
			key := anchorName(fn) + "|" + canonOf(bo.Y)
			if why, ok := lookupReviewed(shiftReviewed, key); ok {
				c.assumed("C07.R1h", fn, construct, in.Pos(), "reviewed: "+why)
				return
			}
			if os.Getenv("SLOGCHECK_F6KEYS") != "" {
				fmt.Printf("SHIFTKEY %q: \"\",\n", key)
			}
			c.bad("C07.R1h", fn, construct, in.Pos(), fmt.Sprintf("the shift count is not shown to stay below %d: Go yields 0 for larger counts without any error — a bit set built or tested this way silently has no members from %d on", width, width))
		})
	}
	c.count("C07.R1h:variable shifts", n)
}
