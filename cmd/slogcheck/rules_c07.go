package main

// C07: no input can crash or wedge the agent.
//
// R1 (F6)  index safety of every index/slice expression in the functions that run per connection
//          byte / per record (reachable from the per-record roots, construction excluded)
// R2 (F2)  explicit panics reachable from the per-record roots are reviewed invariants
// R3 (F7)  record bytes reach Prometheus label values only through a UTF-8 sanitizer
// R4 (F1)  serializer capacity guards
// R0       no recover() in the module (the premise "every reachable panic is fatal")

import (
	"fmt"
	"os"
	"sort"
	"strings"

	"golang.org/x/tools/go/ssa"
)

// perRecordRoots: entry points of the code that runs for every connection read / record / tick
var perRecordRoots = []string{
	"input/tcplistener.(*tcpLineListener).runConnection",
	"input/tcplistener.(*tcpLineListener).run",
	"base/bsupport.(*LogProcessingWorker).onInput",
	"base/bsupport.(*LogProcessingWorker).onTick",
	"base/bsupport.(*LogProcessingWorker).onStop",
}

// constructionBoundary: functions that build pipelines / sinks; what they call runs once per key set or
// connection with configuration values and is the subject of C16 (accepted configurations instantiate)
var constructionBoundary = map[string]bool{
	"orchestrate/obykeyset.(*byKeySetOrchestrator).newPipeline": true,
	"orchestrate/obase.PrepareSequentialPipeline":               true,
	"input/sysloginput.(*Config).NewInput$1":                    true, // per-connection parser + extraction transforms from configuration
}

// runtimeSet: universe functions reachable from the per-record roots without entering construction
func (c *Ctx) runtimeSet() (map[*ssa.Function]*ssa.Function, []*ssa.Function) {
	var roots []*ssa.Function
	for _, r := range perRecordRoots {
		roots = append(roots, c.P.Fn(r))
	}
	for b := range constructionBoundary {
		c.P.Fn(b) // must exist
	}
	reach := c.P.reachableFrom(roots, func(f *ssa.Function) bool {
		return !c.P.inUni[f] || constructionBoundary[anchorName(f)]
	})
	var fns []*ssa.Function
	for f := range reach {
		if c.P.inUni[f] && f.Blocks != nil && !constructionBoundary[anchorName(f)] {
			fns = append(fns, f)
		}
	}
	sort.Slice(fns, func(i, j int) bool { return anchorName(fns[i]) < anchorName(fns[j]) })
	return reach, fns
}

func init() {
	register("C07", "C07.R1", ruleC07R1)
}

// f6Reviewed: index/slice expressions accepted on review. Key: function anchor | kind + canonical base
// expression | the aspect the engine could not prove. The entry is consulted only when the engine fails, and only
// for that aspect: a change that makes another aspect of the same expression unprovable is reported.
// Each entry names the invariant that makes the access safe and why the engine cannot derive it.
var f6Reviewed = map[string]string{
	"base.(*LogProcessCounterSet).CountChunk|index recv.chunksCountTotal|index may reach len":                                                                                                           "outputIndex enumerates worker.outputList, and the three per-output arrays are made with the number of outputs of the same pipeline (NewLogProcessCounter(…, len(outputs)) in PrepareSequentialPipeline): a relation between two objects built by one constructor call, outside the engine's per-object facts",
	"base.(*LogProcessCounterSet).CountChunk|index recv.chunksLengthTotal|index may reach len":                                                                                                          "same as chunksCountTotal (the three arrays have equal length: proved)",
	"base.(*LogProcessCounterSet).CountStream|index recv.serializedLengthTotal|index may reach len":                                                                                                     "same as chunksCountTotal",
	"base.(*LogProcessCounterSet).RegisterCustomCounter$1|index recv.currentCustomCounters|index may reach len":                                                                                         "a custom counter's index is the size of customCounterVecMap when it was registered; currentCustomCounters is made with len(customCounterVecMap) by SelectMetricKeySet, which runs per record, i.e. after every registration (registrations happen in NewTransform during pipeline construction): a temporal argument about map size, not expressible as a linear fact",
	"base.(*LogProcessCounterSet).RegisterCustomCounter$1|index recv.currentCustomCounters|index may be negative":                                                                                       "the index is len(map) at registration time (>= 0); the value passes through a closure cell the engine does not track",
	"base.(*LogProcessCounterSet).SelectMetricKeySet|index makeslice|index may reach len":                                                                                                               "vec.index ranges over the values of customCounterVecMap, each assigned the then-current map size (0..n-1, distinct) and the slice is made with len(map) = n: a property of the map's contents",
	"base.(*LogProcessCounterSet).SelectMetricKeySet|index makeslice|index may be negative":                                                                                                             "see above (vec.index >= 0)",
	"base.(LogFieldLocator).provideTemplatePart|index param:fields|index may reach len":                                                                                                                 "schema contract SC1/SC2: the only RecordType handed to a template expander in production is record.Fields (taddfields, tswitch via Expander.Run); the call goes through a function value (PartProvider), so the caller is not visible to the precondition search",
	"base.(LogFieldLocator).provideTemplatePart|index param:fields|index may be negative":                                                                                                               "see above",
	"input/tcplistener.(*multiLineReader).processBuffer|slice slice(recv.buffer,hi=param:bufferEnd)|low bound may exceed high bound":                                                                    "buffer[recordStart:searchStart-1]: recordStart is 0 (and searchStart > 0 is tested on this path) or an earlier value of searchStart, which grows by nextEndRel+1 >= 1 per iteration, so recordStart < searchStart: a disjunctive invariant (recordStart == 0 or recordStart < searchStart), outside the engine's convex linear domain. recordStart <= searchStart, 0 <= recordStart and searchStart <= bufferEnd are proved",
	"orchestrate/obase.(tagKeyFieldIndex).provideLabelSetTemplatePart|index param:labelValues|index may reach len":                                                                                      "the index is the position of the key field in keyFields found by NewTagBuilder (slices.Index != -1), and labelValues are the key values of one pipeline (len(keyFields) of them, from FieldSetExtractor): relation between a construction-time index and a per-pipeline slice passed through a function value",
	"orchestrate/obase.(tagKeyFieldIndex).provideLabelSetTemplatePart|index param:labelValues|index may be negative":                                                                                    "see above (slices.Index result after the != -1 test)",
	"run.(*ReloadableOrchestrator).NewSink|index recv.downstreamSinks|index may reach len":                                                                                                              "clientNumber < base.MaxClientNumber = len(array): the accept loop rejects a connection whose descriptor number is not below MaxClientNumber before starting runConnection (checked by C07.R1g); the value then travels through two interface calls (NewSink), which the precondition search does not follow",
	"transform/textractspecial.matchValidCharsFromEnd|index param:validChars|index may reach len":                                                                                                       "validChars is nil or has 256 entries (proved); on the call that is not guarded by `validChars != nil` the boundary that would delimit the label is empty, and newStringExtractor rejects a nil table ('*') for exactly that combination (checked by C07.R1n): an implication between two fields of the extractor, outside the linear domain",
	"transform/textractspecial.matchValidCharsFromStart|index param:validChars|index may reach len":                                                                                                     "see matchValidCharsFromEnd",
	"transform/textract.(*extractTransform).Transform|index (*regexp.Regexp).FindStringSubmatchIndex(recv.pattern,base.(LogFieldLocator).Get(recv.keyLocator,param:record.Fields))|index may reach len": "regexp contract: a non-nil FindStringSubmatchIndex result has 2*(NumSubexp+1) entries, and subexpFieldLocators is made with len(pattern.SubexpNames()) = NumSubexp+1 entries for the same pattern (NewTransform), so 2*i+1 < len(loc) for every i < len(subexpFieldLocators): a property of a third-party API, not visible in the module's code",
	"transform/textract.(*extractTransform).Transform|slice base.(LogFieldLocator).Get(recv.keyLocator,param:record.Fields)|high bound may exceed len":                                                  "regexp contract: loc[2i] <= loc[2i+1] are offsets into the matched string when they are not negative (both are tested >= 0 on this path)",
	"transform/textract.(*extractTransform).Transform|slice base.(LogFieldLocator).Get(recv.keyLocator,param:record.Fields)|low bound may exceed high bound":                                            "see above",
	"transform/textract.(*extractTransform).Transform|slice base.(LogFieldLocator).Get(recv.keyLocator,param:record.Fields)|low bound may be negative":                                                  "tested on this path (loc[2i] < 0 skips the group)",
	"util.(BytesPoolBy2n).Get|index recv|index may reach len":                                                                                                                                           "index = 32 - LeadingZeros32(length) is 32 only for length >= 2^31; length is the length of one input line, bounded by the listener buffer (4 x InputLogMaxRecordBytes, a few MiB); the pool has 32 entries (proved)",
	"util.(BytesPoolBy2n).Put|index recv|index may be negative":                                                                                                                                         "the buffer comes from Get, whose pools allocate 1<<n bytes (n >= 0), so len(*buf) >= 1 and LeadingZeros32 <= 31",
	"util.(BytesPoolBy2n).Put|index recv|index may reach len":                                                                                                                                           "32 - lz - 1 <= 31 < 32 = len(pools)",
}

func f6Key(fn *ssa.Function, o idxOblig, why string) string {
	cc := newCanon()
	return anchorName(fn) + "|" + o.Kind + " " + cc.of(o.X) + "|" + why
}

func ruleC07R1(c *Ctx) {
	reach, fns := c.runtimeSet()
	c.floor("C07.R1", "universe functions reachable from the per-record roots", len(fns), 150)
	pr := newProver(c)
	// assume-guarantee: the declared struct invariants are assumed for the previous state while they are
	// verified at every store (induction over the life of the object); a failure withdraws them
	for i := range f6StructInvs {
		pr.structInvOK[f6StructInvs[i].typ] = true
	}
	pr.verifyConfigLower(c)
	pr.verifyStructInvs(c)
	for _, ok := range pr.structInvOK {
		if !ok {
			keep := pr.structInvOK
			cl := pr.configLowerOK
			pr = newProver(c) // drop everything derived under the withdrawn assumption
			pr.structInvOK = keep
			pr.configLowerOK = cl
			break
		}
	}
	res := classifyF6(c, pr, fns)
	nA, nB, nR := 0, 0, 0
	usedContracts := map[string]int{}
	for _, r := range res {
		construct := fmt.Sprintf("%s %s", r.O.Kind, canonOblig(r.O))
		switch r.Cls {
		case "A":
			nA++
			c.ok("C07.R1", r.Fn, construct, r.O.In.Pos(), "bounds check eliminated by the compiler's prove pass")
		case "B":
			nB++
			why := "proved by the facts engine (dominating guards, loop invariants, call-site preconditions, callee summaries)"
			if len(r.Used) > 0 {
				why += "; relies on: " + strings.Join(r.Used, "; ")
				for _, u := range r.Used {
					usedContracts[u]++
				}
			}
			c.ok("C07.R1", r.Fn, construct, r.O.In.Pos(), why)
		default:
			key := f6Key(r.Fn, r.O, r.Why)
			if reason, ok := f6Reviewed[key]; ok {
				nR++
				c.assumed("C07.R1", r.Fn, construct, r.O.In.Pos(), "reviewed: "+reason)
				continue
			}
			if os.Getenv("SLOGCHECK_F6KEYS") != "" {
				fmt.Printf("F6KEY %q: \"\", // %s %s\n", key, r.Pos, r.Why)
			}
			c.bad("C07.R1", r.Fn, construct, r.O.In.Pos(), fmt.Sprintf("%s: no dominating guard, invariant, call-site precondition or contract bounds it; reached via %s", r.Why, chainTo(reach, r.Fn)))
		}
	}
	var us []string
	for u := range usedContracts {
		us = append(us, u)
	}
	sort.Strings(us)
	for _, u := range us {
		c.assumed("C07.R1", nil, "contract: "+u, 0, fmt.Sprintf("interface contract used by %d proofs; documented in base/logrewriter.go", usedContracts[u]))
	}
	c.note("C07.R1: %d index/slice expressions in %d runtime functions: %d compiler-proved, %d engine-proved, %d reviewed; engine steps=%d generations=%d", len(res), len(fns), nA, nB, nR, pr.steps, pr.gen+1)
	c.floor("C07.R1", "index/slice expressions decided", len(res), 200)
}

func canonOblig(o idxOblig) string {
	cc := newCanon()
	if o.Kind == "index" {
		return cc.of(o.X) + "[" + cc.of(o.Idx) + "]"
	}
	lo, hi := "", ""
	if o.Lo != nil {
		lo = cc.of(o.Lo)
	}
	if o.Hi != nil {
		hi = cc.of(o.Hi)
	}
	return cc.of(o.X) + "[" + lo + ":" + hi + "]"
}

func init() {
	register("F6SET", "dump", func(c *Ctx) {
		reach, fns := c.runtimeSet()
		for _, f := range fns {
			fmt.Printf("RT %s  <- %s\n", anchorName(f), anchorName(reach[f]))
		}
	})
}
