package main

// C04 Spilled chunks survive I/O faults and crashes intact or not at all.

import (
	"fmt"
	"go/constant"
	"go/token"
	"strings"

	"golang.org/x/tools/go/ssa"
)

func init() {
	register("C04", "C04.R1", ruleC04R1)
	register("C04", "C04.R2", ruleC04R2)
	register("C04", "C03.R4", ruleC03R4)
	register("C04", "C04.R4", ruleC04R4)
	register("C04", "C03.R5", ruleC03R5)
	register("C04", "C03.R7", ruleC03R7)
	register("C04", "C03.R3", ruleC03R3)
	propExplanation["C04"] = "Decides the structure of chunk persistence on every path: the byte count of every write syscall in the persistence call tree is consumed (re-slice/comparison inside a loop or a short-write test) and a nil error is only returned after the loop/test and a checked close (R1); " +
		"the file is created under a temporary name that no chunk-id matcher accepts and renamed to the chunk id only after a successful write+close (R2); the chunk is marked saved only after a nil-error write (C03.R4); " +
		"reading loops until the stat size or fails (R4); zero-length files are corrupt (C03.R5); only matching names are recovered and a failed load does not stop the feeder (C03.R7, C03.R3). " +
		"Not decided: what the kernel does with the data, fsync/durability ordering."
	propAssumptions["C04"] = []string{"rename(2) within one directory is atomic", "a completed write+close without error has transferred all bytes handed to it"}
}

var writeSyscalls = extPred("golang.org/x/sys/unix.Write", "golang.org/x/sys/unix.Pwrite", "syscall.Write", "syscall.Pwrite",
	"(*os.File).Write", "(*os.File).WriteAt", "(*os.File).WriteString")
var readSyscalls = extPred("golang.org/x/sys/unix.Read", "golang.org/x/sys/unix.Pread", "syscall.Read", "syscall.Pread",
	"(*os.File).Read", "(*os.File).ReadAt")
var closeSyscalls = extPred("golang.org/x/sys/unix.Close", "syscall.Close", "(*os.File).Close")

// persistence call tree: universe functions reachable from UnloadChunk / LoadChunk
func persistTree(c *Ctx, root string) []*ssa.Function {
	reach := c.P.reachableFrom(c.P.Fns(root), func(f *ssa.Function) bool { return !c.P.inUni[f] })
	var out []*ssa.Function
	for f := range reach {
		if c.P.inUni[f] {
			out = append(out, f)
			c.seen(f)
		}
	}
	return out
}

// countConsumed: the byte count n of an I/O call is used to advance through the
// buffer inside a loop whose exit depends on it, or is compared with the
// buffer length with the short edge returning a non-nil error.
func countConsumed(c *Ctx, fn *ssa.Function, call ssa.CallInstruction) (bool, string) {
	n := resultOf(call.Value(), 0)
	if n == nil || n.Referrers() == nil {
		return false, "the byte count is discarded"
	}
	real := 0
	for _, r := range *n.Referrers() {
		if _, ok := r.(*ssa.DebugRef); !ok {
			real++
		}
	}
	if real == 0 {
		return false, "the byte count is discarded"
	}
	lp := loopOf(fn, call.Block())
	usesN := func(v ssa.Value) bool { return mentions(v, func(x ssa.Value) bool { return x == n }) }
	if lp != nil {
		// form A: loop; some value derived from n (re-slice low bound or offset addition) feeds a phi of the loop
		// and the loop's continuation condition depends on that phi
		fed := false
		for b := range lp.blocks {
			for _, in := range b.Instrs {
				phi, ok := in.(*ssa.Phi)
				if !ok {
					continue
				}
				for _, e := range phi.Edges {
					if usesN(e) {
						// the loop condition (any If inside the loop leaving it) mentions this phi
						for b2 := range lp.blocks {
							if iff, ok := b2.Instrs[len(b2.Instrs)-1].(*ssa.If); ok {
								leaves := !lp.blocks[b2.Succs[0]] || !lp.blocks[b2.Succs[1]]
								if leaves && mentions(iff.Cond, func(x ssa.Value) bool { return x == ssa.Value(phi) }) {
									fed = true
								}
							}
						}
					}
				}
			}
		}
		if fed {
			// zero progress must not spin forever nor count as success: n <= 0 test or error on n == 0 is optional (EOF) — require a test of n
			return true, "the count advances the buffer position inside a loop whose exit condition depends on it"
		}
	}
	// form B: comparison of n with len(buffer) whose mismatch edge returns a non-nil error
	for _, r := range *n.Referrers() {
		bo, ok := r.(*ssa.BinOp)
		if !ok {
			continue
		}
		switch bo.Op {
		case token.NEQ, token.LSS, token.EQL, token.GEQ:
		default:
			continue
		}
		other := bo.Y
		if other == n {
			other = bo.X
		}
		if cl, ok := other.(*ssa.Call); !ok || !isBuiltin(cl, "len") {
			continue
		}
		short := bo.Op == token.NEQ || bo.Op == token.LSS
		for b, si := range boolEdges(bo, short) {
			// from the short edge, every return carries a non-nil error
			allErr := true
			q := &PathQ{P: c.P}
			for _, rv := range returnedValues(fn, fn.Signature.Results().Len()-1) {
				if hit, _ := q.Reach(succPoint(b, si), func(in ssa.Instruction) bool { return in == rv.At }); hit != nil {
					if retKind(rv.Val) == "nil" {
						allErr = false
					}
				}
			}
			if allErr {
				return true, "a short count is compared with the buffer length and its mismatch edge only returns errors"
			}
		}
	}
	return false, "the byte count is neither used to advance through the buffer in a loop nor compared with the buffer length (a short transfer is reported as success)"
}

func isBuiltin(cl *ssa.Call, name string) bool {
	bi, ok := cl.Call.Value.(*ssa.Builtin)
	return ok && bi.Name() == name
}

// R1: write-count discipline and checked close
func ruleC04R1(c *Ctx) {
	n := 0
	for _, fn := range persistTree(c, aUnloadChunk) {
		for _, s := range c.callsTo(fn, writeSyscalls) {
			n++
			ok, why := countConsumed(c, fn, s)
			c.check(ok, "C04.R1", fn, "byte count of "+extName(s.Common().StaticCallee())+" consumed", s.Pos(), why, why)
			// error of the write tested
			errv := resultOf(s.Value(), 1)
			used := false
			if errv != nil && errv.Referrers() != nil {
				for _, r := range *errv.Referrers() {
					if _, ok := r.(*ssa.DebugRef); !ok {
						used = true
					}
				}
			}
			c.check(used, "C04.R1", fn, "error of "+extName(s.Common().StaticCallee())+" used", s.Pos(), "the write error is branched on or returned", "the write error is discarded")
		}
	}
	c.floor("C04.R1", "write syscalls in the persistence tree of UnloadChunk", n, 1)
	// close result checked on the success path
	fn := c.P.Fn(aWriteFileAt)
	calleeIs := func(p FnPred) func(ssa.CallInstruction) bool {
		return func(s ssa.CallInstruction) bool { f := s.Common().StaticCallee(); return f != nil && p(f) }
	}
	closes := c.sitesWhereR(fn, calleeIs(closeSyscalls))
	var checked []ssa.Instruction
	for _, s := range closes {
		v := s.Value()
		if v != nil && v.Referrers() != nil {
			for _, r := range *v.Referrers() {
				if _, ok := r.(*ssa.DebugRef); !ok {
					checked = append(checked, s)
					break
				}
			}
		}
	}
	okClose := len(checked) > 0
	why := "the result of close is discarded (a deferred write error is lost and the chunk marked saved)"
	if okClose {
		// every possible success return is preceded by a checked close
		for _, at := range c.successSites(fn) {
			at := at
			q := c.pq(fn)
			q.Barrier = func(in ssa.Instruction) bool { return instrSet(checked)[in] }
			if hit, tr := q.Reach(entryOf(fn), func(in ssa.Instruction) bool { return in == at }); hit != nil {
				okClose, why = false, "success can be returned without a checked close: "+c.P.trailString(tr)
			}
		}
	}
	pos := fn.Pos()
	if len(closes) > 0 {
		pos = closes[0].Pos()
	}
	c.check(okClose, "C04.R1", fn, "close error checked before success", pos, "every success return follows a close whose error is used", why)
	// fd never leaked on error paths: every return is preceded by a close once the file is open
	opens := c.callsTo(fn, extPred("golang.org/x/sys/unix.Openat", "golang.org/x/sys/unix.Open"))
	if len(opens) == 1 {
		ne := nilEdges(resultOf(opens[0].Value(), 1), true)
		okLeak := len(ne) > 0
		for b, si := range ne {
			q := c.pq(fn)
			q.Barrier = func(in ssa.Instruction) bool { return callInstrSet(closes)[in] }
			if hit, _ := q.Reach(succPoint(b, si), isReturn); hit != nil {
				okLeak = false
			}
		}
		c.check(okLeak, "C04.R1", fn, "descriptor closed on every path", opens[0].Pos(), "after a successful open every return passes close", "a path returns without closing the descriptor")
	}
}

func mentionsAny(v ssa.Value, ins []ssa.Instruction) bool {
	return mentions(v, func(x ssa.Value) bool {
		for _, in := range ins {
			if iv, ok := in.(ssa.Value); ok && iv == x {
				return true
			}
		}
		return false
	})
}

// R2: atomic publish under a name no matcher accepts
func ruleC04R2(c *Ctx) {
	fn := c.P.Fn(aWriteFileAt)
	filename := fn.Params[1]
	opens := c.callsTo(fn, extPred("golang.org/x/sys/unix.Openat"))
	renames := c.callsTo(fn, extPred("golang.org/x/sys/unix.Renameat", "golang.org/x/sys/unix.Renameat2", "os.Rename"))
	if len(opens) != 1 {
		c.bad("C04.R2", fn, "file created under a temporary name", fn.Pos(), fmt.Sprintf("expected one openat, found %d", len(opens)))
		return
	}
	nameArg := opens[0].Common().Args[1]
	derived := strip(nameArg) != ssa.Value(filename) && mentions(nameArg, func(v ssa.Value) bool { return v == ssa.Value(filename) })
	// shape of the temporary name: [prefix constant +] filename [+ suffix constant]
	prefix, suffix, shapeOK := "", "", false
	var parts []ssa.Value
	var flatten func(v ssa.Value)
	flatten = func(v ssa.Value) {
		if bo, ok := strip(v).(*ssa.BinOp); ok && bo.Op == token.ADD {
			flatten(bo.X)
			flatten(bo.Y)
			return
		}
		parts = append(parts, strip(v))
	}
	flatten(nameArg)
	seenName := false
	shapeOK = true
	for _, p := range parts {
		if p == ssa.Value(filename) {
			if seenName {
				shapeOK = false
			}
			seenName = true
			continue
		}
		k, ok := p.(*ssa.Const)
		if !ok || k.Value == nil || k.Value.Kind() != constant.String {
			shapeOK = false
			continue
		}
		if seenName {
			suffix += constant.StringVal(k.Value)
		} else {
			prefix += constant.StringVal(k.Value)
		}
	}
	shapeOK = shapeOK && seenName && (prefix != "" || suffix != "")
	c.check(derived && shapeOK, "C04.R2", fn, "file created under a temporary name", opens[0].Pos(),
		fmt.Sprintf("openat creates %q + filename + %q", prefix, suffix), "the chunk file is created directly under its final name (or a name of unknown shape): a crash mid-write leaves a partial file that recovery forwards")
	if !derived || !shapeOK {
		return
	}
	// no chunk-id matcher accepts the temporary name of any chunk it accepts: matchers are strings.HasSuffix(id, <const>)
	nm := 0
	for _, a := range []string{"output/fluentdforward.(*Config).MatchChunkID", "output/datadog.(*Config).MatchChunkID"} {
		m := c.P.Fn(a)
		for _, s := range c.callsTo(m, extPred("strings.HasSuffix")) {
			k, ok := s.Common().Args[1].(*ssa.Const)
			if !ok || k.Value == nil {
				c.bad("C04.R2", m, "matcher suffix is a constant", s.Pos(), "cannot evaluate the matcher against the temporary name")
				continue
			}
			nm++
			ms := constant.StringVal(k.Value)
			temp := prefix + "1700000000000000000-00000000" + ms + suffix // temporary name of a chunk id this matcher accepts
			c.check(!strings.HasSuffix(temp, ms), "C04.R2", m, "temporary names are rejected by this matcher", s.Pos(),
				fmt.Sprintf("the temporary name %q does not end in %q", temp, ms), fmt.Sprintf("the temporary file %q of a chunk being written is accepted by the matcher for %q: a partial file left by a crash is recovered and forwarded", temp, ms))
		}
	}
	c.floor("C04.R2", "chunk-id matchers evaluated", nm, 2)
	// rename temp -> final on every success path, after write and close
	var good []ssa.Instruction
	for _, r := range renames {
		args := r.Common().Args
		var from, to ssa.Value
		if len(args) == 4 {
			from, to = args[1], args[3]
		} else if len(args) == 2 {
			from, to = args[0], args[1]
		}
		if from != nil && strip(to) == ssa.Value(filename) && sameValue(from, nameArg) {
			good = append(good, r)
		}
	}
	okR := len(good) > 0
	why := "no rename from the temporary name to the chunk id"
	if okR {
		for _, at := range c.successSites(fn) {
			at := at
			q := &PathQ{P: c.P, Barrier: func(in ssa.Instruction) bool { return instrSet(good)[in] }}
			if hit, tr := q.Reach(entryOf(fn), func(in ssa.Instruction) bool { return in == at }); hit != nil {
				okR, why = false, "success can be returned without the rename: "+c.P.trailString(tr)
			}
		}
		writes := c.callsTo(fn, func(f *ssa.Function) bool { return writeSyscalls(f) || len(c.callsTo(f, writeSyscalls)) > 0 })
		sw := newSumm(c.P, writeSyscalls)
		for _, s := range callsIn(fn) { // a call that must reach the write through helpers
			if _, isGo := s.(*ssa.Go); !isGo && sw.siteMust(s, nil, 0) {
				writes = append(writes, s)
			}
		}
		closes := c.sitesWhereR(fn, func(s ssa.CallInstruction) bool { f := s.Common().StaticCallee(); return f != nil && closeSyscalls(f) })
		// the only way round the write is that there is nothing (left) to write: the emptiness test of the data being written
		allowed := map[ssa.Value]bool{}
		for _, p := range fn.Params {
			if isSeqType(p.Type()) && !isStringType(p.Type()) {
				allowed[p] = true
			}
		}
		if hit, _ := c.precedes(fn, callInstrSet(writes), instrSet(good), edgeSet(emptinessGuardEdges(fn, allowed))); hit != nil {
			okR, why = false, "the rename is reachable before the data was written"
		}
		if hit, _ := c.precedes(fn, callInstrSet(closes), instrSet(good), nil); hit != nil {
			okR, why = false, "the rename is reachable before the file was closed"
		}
		// rename only after a nil-error write: blocked when the write path failed
	}
	// publish authority: a name in the queue directory comes into being only through WriteFileAt's rename (after write and
	// close). Any other rename / link — "complete an interrupted save at start", "rotate" — can put a file under a chunk
	// id that did not go through that sequence
	pub := extPred("os.Rename", "os.Link", "os.Symlink", "syscall.Rename", "syscall.Renameat", "syscall.Link",
		"golang.org/x/sys/unix.Rename", "golang.org/x/sys/unix.Renameat", "golang.org/x/sys/unix.Renameat2", "golang.org/x/sys/unix.Link", "golang.org/x/sys/unix.Linkat", "golang.org/x/sys/unix.Symlink", "golang.org/x/sys/unix.Symlinkat")
	nPub := len(c.whoMayCall("C04.R2", "a rename / link primitive", pub, aWriteFileAt))
	c.floor("C04.R2", "rename / link sites", nPub, 1)
	pos := fn.Pos()
	if len(good) > 0 {
		pos = good[0].Pos()
	}
	c.check(okR, "C04.R2", fn, "rename to the chunk id only after write+close", pos, "every success return passes renameat(temp → filename), which follows the write and the close", why)
}

// R4: reading loops until the stat size or fails
func ruleC04R4(c *Ctx) {
	n := 0
	for _, fn := range persistTree(c, aLoadChunk) {
		for _, s := range c.callsTo(fn, readSyscalls) {
			n++
			ok, why := countConsumed(c, fn, s)
			c.check(ok, "C04.R4", fn, "byte count of "+extName(s.Common().StaticCallee())+" consumed", s.Pos(), why, why)
		}
	}
	c.floor("C04.R4", "read syscalls in the persistence tree of LoadChunk", n, 1)
	fn := c.P.Fn(aReadFileAt)
	// the buffer is sized from fstat
	okSize := false
	eachInstr(fn, func(in ssa.Instruction) {
		if ms, ok := in.(*ssa.MakeSlice); ok && mentions(ms.Len, func(v ssa.Value) bool {
			fa, ok := v.(*ssa.FieldAddr)
			return ok && strings.HasSuffix(fieldName(fa.X.Type(), fa.Field), "Stat_t.Size")
		}) {
			okSize = true
		}
	})
	c.check(okSize, "C04.R4", fn, "buffer sized from the file's stat size", fn.Pos(), "make([]byte, stat.Size)", "the read buffer is not sized from fstat")
	// a result shorter than the buffer is never returned with a nil error: no re-slice of the result by the count on a success path
	short := false
	for _, rv := range returnedValues(fn, 0) {
		if sl, ok := strip(rv.Val).(*ssa.Slice); ok && sl.High != nil {
			short = true
		}
		if phi, ok := strip(rv.Val).(*ssa.Phi); ok {
			for _, e := range phi.Edges {
				if sl, ok := strip(e).(*ssa.Slice); ok && sl.High != nil {
					short = true
				}
			}
		}
	}
	c.check(!short, "C04.R4", fn, "a short read is not returned as success", fn.Pos(), "the returned buffer is never truncated to the count read", "ReadFileAt truncates the buffer to a short count and returns it with a nil error: a partial chunk would be forwarded")
}

// ---- C04.R7 (added after seed c04g): nothing but the end of the buffer takes the queue directory away. A damaged file
// found at start must not block the recovery of the other chunks: every operation of the chunk operator works through the
// directory handle opened by its constructor, so the handle is stored only there, and the operator is closed only by the
// chunk manager's Close (which the feeder calls after its consumers have ended). A "give the directory up after N errors"
// switch turns LoadChunk / RemoveChunk off for every intact chunk behind the damaged ones.
func init() {
	register("C04", "C04.R7", ruleC04R7)
	register("C03", "C04.R7", ruleC04R7)
}

func ruleC04R7(c *Ctx) {
	const fDir = "buffer/hybridbuffer.chunkOperator.maybeDir"
	const aNewOp = "buffer/hybridbuffer.newChunkOperator"
	const aOpClose = "buffer/hybridbuffer.(*chunkOperator).Close"
	const aManClose = "buffer/hybridbuffer.(*chunkManager).Close"
	n := 0
	for _, fn := range c.P.universe {
		for _, st := range storesToField(fn, fDir) {
			n++
			c.check(ownedBy(fn, aNewOp), "C04.R7", fn, "store to chunkOperator.maybeDir", st.Pos(),
				"the queue directory handle is set by the constructor only", "the queue directory handle is replaced or cleared after construction: every later LoadChunk / RemoveChunk / UnloadChunk — also for intact chunks — works on the new value")
		}
	}
	c.floor("C04.R7", "stores to chunkOperator.maybeDir", n, 1)
	c.P.Fn(aOpClose) // the anchor must resolve
	k := 0
	for _, s := range c.callSitesOf(anchorPred(aOpClose)) {
		k++
		fn := s.Parent()
		// an operator the calling function made for itself (the listing of queue directories at start) is its own to close
		own := len(s.Common().Args) > 0 && mentions(s.Common().Args[0], func(v ssa.Value) bool {
			cl, ok := v.(*ssa.Call)
			return ok && cl.Common().StaticCallee() != nil && isAnchor(cl.Common().StaticCallee(), aNewOp) && cl.Parent() == fn
		})
		if !own {
			if al, ok := resolve(s.Common().Args[0]).(*ssa.Alloc); ok {
				if sv, ok := singleStore(al); ok {
					own = mentions(sv, func(v ssa.Value) bool {
						cl, ok := v.(*ssa.Call)
						return ok && cl.Common().StaticCallee() != nil && isAnchor(cl.Common().StaticCallee(), aNewOp) && cl.Parent() == fn
					})
				}
			}
		}
		c.check(own || ownedBy(fn, aManClose), "C04.R7", fn, "call of (*chunkOperator).Close", s.Pos(),
			"the operator is closed by the chunk manager's Close, or by the function that made it for its own use",
			"the chunk operator of a live buffer is closed outside chunkManager.Close: its directory handle is gone for every later load / remove")
	}
	c.floor("C04.R7", "chunkOperator.Close sites", k, 1)
}
