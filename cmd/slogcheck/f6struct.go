package main

// F6 struct invariants over mutable integer fields: declared here, verified at every store.
//
// An invariant is a difference fact over the fields of one struct type, e.g. for multiLineReader
//     0 <= offsetSearch <= offsetAppend <= len(buffer)
// Verification (rule C07.R1i):
//   * the slice fields mentioned are immutable (stored only into freshly allocated objects),
//   * every block that stores one tracked integer field of an object stores all of them (no partial update
//     survives a block), and at the last of these stores every invariant holds for the stored values,
//   * nothing else in the universe stores the tracked fields (they are enumerated by field, not by name).
// Use: loads of the tracked fields that belong to the same epoch (no tracked store and no call that may
// store lies on a path between them) satisfy the invariants. The object is assumed to be used by one
// goroutine at a time and its callbacks not to re-enter it (stated in DESIGN.md).

import (
	"fmt"
	"go/constant"
	"go/token"
	"go/types"
	"sort"
	"strings"

	"golang.org/x/tools/go/ssa"
)

type invTerm struct {
	field string // "" = zero
	isLen bool
}

type structInvFact struct {
	a, b invTerm
	c    int64
	text string
}

type structInv struct {
	typ     string // rel/pkg.Type
	ints    []string
	slices  []string
	facts   []structInvFact
	contrib string
}

var f6StructInvs = []structInv{
	{
		typ:    "input/tcplistener.multiLineReader",
		ints:   []string{"offsetSearch", "offsetAppend"},
		slices: []string{"buffer"},
		facts: []structInvFact{
			{invTerm{}, invTerm{"offsetSearch", false}, 0, "0 <= offsetSearch"},
			{invTerm{"offsetSearch", false}, invTerm{"offsetAppend", false}, 0, "offsetSearch <= offsetAppend"},
			{invTerm{"offsetAppend", false}, invTerm{"buffer", true}, 0, "offsetAppend <= len(buffer)"},
		},
	},
}

func (si *structInv) tracked(fieldFull string) (string, bool) {
	if !strings.HasPrefix(fieldFull, si.typ+".") {
		return "", false
	}
	f := strings.TrimPrefix(fieldFull, si.typ+".")
	for _, x := range si.ints {
		if x == f {
			return f, true
		}
	}
	return "", false
}

type trackedStore struct {
	st    *ssa.Store
	base  ssa.Value
	field string
}

func trackedStores(fn *ssa.Function, si *structInv) []trackedStore {
	var out []trackedStore
	eachInstr(fn, func(in ssa.Instruction) {
		st, ok := in.(*ssa.Store)
		if !ok {
			return
		}
		fa, ok := strip(st.Addr).(*ssa.FieldAddr)
		if !ok {
			return
		}
		if f, ok := si.tracked(fieldName(fa.X.Type(), fa.Field)); ok {
			out = append(out, trackedStore{st, resolve(fa.X), f})
		}
	})
	return out
}

// mayStoreTracked: functions that (transitively, through static and resolved dynamic calls) store a tracked field
func (p *prover) mayStoreTracked(si *structInv) map[*ssa.Function]bool {
	if m, ok := p.storeSets[si.typ]; ok {
		return m
	}
	direct := map[*ssa.Function]bool{}
	for _, fn := range p.c.P.universe {
		if len(trackedStores(fn, si)) > 0 {
			direct[fn] = true
		}
	}
	m := map[*ssa.Function]bool{}
	for f := range direct {
		m[f] = true
	}
	for changed := true; changed; {
		changed = false
		for _, fn := range p.c.P.universe {
			if m[fn] || fn.Blocks == nil {
				continue
			}
			for _, site := range callsIn(fn) {
				for _, cal := range p.c.P.callees(site) {
					if m[cal] {
						m[fn] = true
						changed = true
					}
				}
			}
		}
	}
	p.storeSets[si.typ] = m
	return m
}

// epochChangers: instructions of fn that may change a tracked field
func (p *prover) epochChangers(fn *ssa.Function, si *structInv) []ssa.Instruction {
	key := si.typ + "|" + fn.String()
	if c, ok := p.changerCache[key]; ok {
		return c
	}
	stores := p.mayStoreTracked(si)
	var out []ssa.Instruction
	eachInstr(fn, func(in ssa.Instruction) {
		switch x := in.(type) {
		case *ssa.Store:
			if fa, ok := strip(x.Addr).(*ssa.FieldAddr); ok {
				if _, ok := si.tracked(fieldName(fa.X.Type(), fa.Field)); ok {
					out = append(out, in)
				}
			}
		case ssa.CallInstruction:
			cc := x.Common()
			if _, isB := cc.Value.(*ssa.Builtin); isB {
				return
			}
			cals := p.c.P.callees(x)
			if len(cals) == 0 && cc.StaticCallee() == nil {
				// an unresolved dynamic call (callback): does not re-enter the object (assumption)
				return
			}
			for _, cal := range cals {
				if stores[cal] {
					out = append(out, in)
					return
				}
			}
		}
	})
	p.changerCache[key] = out
	return out
}

// sameEpoch: no changer lies on a path from x to y or from y to x
func (p *prover) sameEpoch(fn *ssa.Function, si *structInv, x, y ssa.Instruction) bool {
	if x == y {
		return true
	}
	for _, ch := range p.epochChangers(fn, si) {
		if p.between(fn, x, ch, y) || p.between(fn, y, ch, x) {
			return false
		}
	}
	return true
}

// between: is there a path x -> m -> y ?
func (p *prover) between(fn *ssa.Function, x, m, y ssa.Instruction) bool {
	return p.reaches(fn, x, m) && p.reaches(fn, m, y)
}

func (p *prover) reaches(fn *ssa.Function, from, to ssa.Instruction) bool {
	if from.Block() == to.Block() {
		fi, ti := -1, -1
		for i, in := range from.Block().Instrs {
			if in == from {
				fi = i
			}
			if in == to {
				ti = i
			}
		}
		if fi < ti {
			return true
		}
	}
	// block-level reachability through at least one edge
	seen := map[*ssa.BasicBlock]bool{}
	work := append([]*ssa.BasicBlock{}, from.Block().Succs...)
	for len(work) > 0 {
		b := work[len(work)-1]
		work = work[:len(work)-1]
		if seen[b] {
			continue
		}
		seen[b] = true
		if b == to.Block() {
			return true
		}
		work = append(work, b.Succs...)
	}
	return false
}

type trackedLoad struct {
	v     *ssa.UnOp
	base  ssa.Value
	field string
	isLen bool
}

func (p *prover) trackedLoads(fn *ssa.Function, si *structInv) []trackedLoad {
	var out []trackedLoad
	eachInstr(fn, func(in ssa.Instruction) {
		u, ok := in.(*ssa.UnOp)
		if !ok || u.Op != token.MUL {
			return
		}
		fa, ok := strip(u.X).(*ssa.FieldAddr)
		if !ok {
			return
		}
		full := fieldName(fa.X.Type(), fa.Field)
		if f, ok := si.tracked(full); ok {
			out = append(out, trackedLoad{u, resolve(fa.X), f, false})
			return
		}
		for _, s := range si.slices {
			if full == si.typ+"."+s {
				out = append(out, trackedLoad{u, resolve(fa.X), s, true})
			}
		}
	})
	return out
}

// sentinel terms: the value of a tracked field (or the length of a slice field) of a parameter object at
// function entry, whether or not the function loads it
type sentKey struct {
	fn    *ssa.Function
	base  ssa.Value
	field string
	isLen bool
}

func (p *prover) sentinel(fn *ssa.Function, base ssa.Value, field string, isLen bool) term {
	k := sentKey{fn, base, field, isLen}
	if v, ok := p.sents[k]; ok {
		return term{v: v}
	}
	v := ssa.NewConst(nil, types.Typ[types.UnsafePointer])
	p.sents[k] = v
	p.sentOf[v] = k
	what := field
	if isLen {
		what = "len(" + field + ")"
	}
	termNames[v] = fmt.Sprintf("ENTRY[%s.%s]", base.Name(), what)
	return term{v: v}
}

var termNames = map[ssa.Value]string{}

// inEntryEpoch: no changer can precede the instruction
func (p *prover) inEntryEpoch(fn *ssa.Function, si *structInv, at ssa.Instruction) bool {
	for _, ch := range p.epochChangers(fn, si) {
		if ch == at {
			continue
		}
		if p.reaches(fn, ch, at) {
			return false
		}
	}
	return true
}

// invBases: parameters of fn that point to an object of the invariant's type
func invBases(fn *ssa.Function, si *structInv) []ssa.Value {
	var out []ssa.Value
	for _, prm := range fn.Params {
		if typeName(prm.Type()) == si.typ {
			out = append(out, prm)
		}
	}
	return out
}

// structInvFacts: the declared invariants for loads of the same object in the same epoch and for the entry state
func (p *prover) structInvFacts(s *factSet, fn *ssa.Function, seen map[term]bool) {
	for i := range f6StructInvs {
		si := &f6StructInvs[i]
		if !p.structInvOK[si.typ] {
			continue
		}
		loads := p.trackedLoads(fn, si)
		bases := invBases(fn, si)
		if len(loads) == 0 && len(bases) == 0 {
			continue
		}
		use := func(text string) {
			p.noteUse("struct invariant " + si.typ + ": " + text + " (verified at every store by C07.R1i)")
		}
		// entry state of parameter objects
		for _, b := range bases {
			for _, f := range si.facts {
				get := func(it invTerm) term {
					if it.field == "" {
						return zeroT()
					}
					return p.sentinel(fn, b, it.field, it.isLen)
				}
				s.le(get(f.a), get(f.b), f.c)
				use(f.text)
			}
			for _, l := range loads {
				if l.base != b {
					continue
				}
				if l.isLen {
					s.eq(lenT(l.v), p.sentinel(fn, b, l.field, true), 0)
				} else if p.inEntryEpoch(fn, si, l.v) {
					s.eq(valT(l.v), p.sentinel(fn, b, l.field, false), 0)
				}
			}
		}
		// loads of the same field of the same object in the same epoch are equal
		for x, la := range loads {
			for y, lb := range loads {
				if y <= x || la.base != lb.base || la.field != lb.field || la.isLen != lb.isLen {
					continue
				}
				if la.isLen {
					s.eq(lenT(la.v), lenT(lb.v), 0)
				} else if p.sameEpoch(fn, si, la.v, lb.v) {
					s.eq(valT(la.v), valT(lb.v), 0)
				}
			}
		}
		for _, f := range si.facts {
			for _, la := range loads {
				if f.a.field != "" && (la.field != f.a.field || la.isLen != f.a.isLen) {
					continue
				}
				for _, lb := range loads {
					if f.b.field != "" && (lb.field != f.b.field || lb.isLen != f.b.isLen) {
						continue
					}
					var ta, tb term
					if f.a.field != "" {
						ta = valT(la.v)
						if f.a.isLen {
							ta = lenT(la.v)
						}
					}
					if f.b.field != "" {
						tb = valT(lb.v)
						if f.b.isLen {
							tb = lenT(lb.v)
						}
					}
					if f.a.field != "" && f.b.field != "" {
						if la.base != lb.base {
							continue
						}
						// the slice fields are immutable: only the integer loads need a common epoch
						if !la.isLen && !lb.isLen && !p.sameEpoch(fn, si, la.v, lb.v) {
							continue
						}
					}
					s.le(ta, tb, f.c)
					use(f.text)
					if f.b.field == "" {
						break
					}
				}
				if f.a.field == "" {
					break
				}
			}
		}
	}
}

// sentinelAtSite: the caller's term for the callee's entry sentinel at a call site
func (p *prover) sentinelAtSite(callee *ssa.Function, site ssa.CallInstruction, k sentKey) (term, bool) {
	idx := -1
	for i, prm := range callee.Params {
		if ssa.Value(prm) == k.base {
			idx = i
		}
	}
	args := site.Common().Args
	if idx < 0 || idx >= len(args) {
		return term{}, false
	}
	g := site.Parent()
	base := resolve(args[idx])
	for i := range f6StructInvs {
		si := &f6StructInvs[i]
		isOurs := false
		for _, f := range append(append([]string{}, si.ints...), si.slices...) {
			if f == k.field {
				isOurs = true
			}
		}
		if !isOurs || typeName(base.Type()) != si.typ {
			continue
		}
		for _, l := range p.trackedLoads(g, si) {
			if l.base != base || l.field != k.field || l.isLen != k.isLen {
				continue
			}
			if l.isLen {
				return lenT(l.v), true
			}
			if p.sameEpoch(g, si, l.v, site) {
				return valT(l.v), true
			}
		}
		if _, isParam := base.(*ssa.Parameter); isParam && (k.isLen || p.inEntryEpoch(g, si, site)) {
			return p.sentinel(g, base, k.field, k.isLen), true
		}
	}
	return term{}, false
}

// verifyStructInvs: rule C07.R1i
func (p *prover) verifyStructInvs(c *Ctx) {
	for i := range f6StructInvs {
		si := &f6StructInvs[i]
		okAll := true
		// the slice fields must be immutable
		for _, sfld := range si.slices {
			full := si.typ + "." + sfld
			c.check(p.immutableField[full], "C07.R1i", nil, "field "+full+" is assigned only in constructors", 0,
				"every store targets a freshly allocated object", "the field is re-assigned after construction: its length is not an invariant")
			if !p.immutableField[full] {
				okAll = false
			}
		}
		nStores := 0
		for _, fn := range c.P.universe {
			stores := trackedStores(fn, si)
			if len(stores) == 0 {
				continue
			}
			// group by (block, base)
			type gk struct {
				blk  *ssa.BasicBlock
				base ssa.Value
			}
			groups := map[gk][]trackedStore{}
			var order []gk
			for _, st := range stores {
				k := gk{st.st.Block(), st.base}
				if _, ok := groups[k]; !ok {
					order = append(order, k)
				}
				groups[k] = append(groups[k], st)
			}
			for _, k := range order {
				g := groups[k]
				nStores += len(g)
				last := map[string]trackedStore{}
				var lastInstr *ssa.Store
				for _, st := range g {
					last[st.field] = st
					lastInstr = st.st
				}
				construct := fmt.Sprintf("stores to %s.{%s} in block %d", si.typ, strings.Join(si.ints, ","), k.blk.Index)
				missing := []string{}
				for _, f := range si.ints {
					if _, ok := last[f]; !ok {
						missing = append(missing, f)
					}
				}
				if len(missing) > 0 {
					c.bad("C07.R1i", fn, construct, lastInstr.Pos(), "partial update: "+strings.Join(missing, ",")+" is not assigned together with the other offsets, the invariant cannot be re-established here")
					okAll = false
					continue
				}
				// the slice lengths: stored in this block (constructor) or loaded from the same object
				lenTerm := map[string]term{}
				for _, sfld := range si.slices {
					full := si.typ + "." + sfld
					eachInstr(fn, func(in ssa.Instruction) {
						switch x := in.(type) {
						case *ssa.Store:
							if fa, ok := strip(x.Addr).(*ssa.FieldAddr); ok && fieldName(fa.X.Type(), fa.Field) == full && resolve(fa.X) == k.base {
								lenTerm[sfld] = lenT(x.Val)
							}
						case *ssa.UnOp:
							if fa, ok := strip(x.X).(*ssa.FieldAddr); ok && x.Op == token.MUL && fieldName(fa.X.Type(), fa.Field) == full && resolve(fa.X) == k.base {
								if _, have := lenTerm[sfld]; !have {
									lenTerm[sfld] = lenT(x)
								}
							}
						}
					})
				}
				for _, f := range si.facts {
					get := func(it invTerm) (term, bool) {
						if it.field == "" {
							return zeroT(), true
						}
						if it.isLen {
							t, ok := lenTerm[it.field]
							return t, ok
						}
						return valT(last[it.field].st.Val), true
					}
					ta, oka := get(f.a)
					tb, okb := get(f.b)
					cons := fmt.Sprintf("%s re-established by the stores in block %d", f.text, k.blk.Index)
					if oka && !okb && f.b.isLen {
						// the length is not at hand in this function, but it is never negative: a constant that is at most c
						// satisfies a <= len + c whatever the length is (a helper that only resets the offsets to zero)
						if k, isK := ta.v.(*ssa.Const); (ta.v == nil && 0 <= f.c) || (isK && !ta.isLn && k.Value != nil && k.Value.Kind() == constant.Int && k.Int64() <= f.c) {
							c.ok("C07.R1i", fn, cons, lastInstr.Pos(), "the stored value is a constant not above the bound's offset, and a length is never negative")
							continue
						}
					}
					if !oka || !okb {
						c.bad("C07.R1i", fn, cons, lastInstr.Pos(), "the function never reads the slice field of the same object: its length is not available to compare with")
						okAll = false
						continue
					}
					p.used = nil
					ok := p.prove(fn, lastInstr, ta, tb, f.c, nil)
					for g := 0; !ok && g < 3; g++ {
						p.gen++
						ok = p.prove(fn, lastInstr, ta, tb, f.c, nil)
					}
					if !c.check(ok, "C07.R1i", fn, cons, lastInstr.Pos(),
						"proved for the stored values from the guards, loop invariants and the invariant of the previous state",
						"the values stored here are not shown to satisfy "+f.text+": a later slice of the buffer by these offsets can panic") {
						okAll = false
					}
				}
			}
		}
		c.floor("C07.R1i", "stores to the tracked fields of "+si.typ, nStores, 2*len(si.ints))
		p.structInvOK[si.typ] = okAll
	}
	var ts []string
	for t, ok := range p.structInvOK {
		ts = append(ts, fmt.Sprintf("%s=%v", t, ok))
	}
	sort.Strings(ts)
	c.note("C07.R1i: struct invariants established: %s", strings.Join(ts, " "))
}
