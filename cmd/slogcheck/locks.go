package main

// Lock discipline (F3): forward must-dataflow "the lock is held" over a
// function's CFG. Deferred unlocks run at exit and do not release the lock
// for the instructions of the body.

import (
	"golang.org/x/tools/go/ssa"
)

type lockKind int

const (
	lockNone lockKind = iota
	lockAcquireW
	lockAcquireR
	lockRelease
)

// lockState per instruction: 0 = not held, 1 = read lock held, 2 = write lock held
func lockStates(fn *ssa.Function, classify func(ssa.CallInstruction) lockKind) map[ssa.Instruction]int {
	in := map[*ssa.BasicBlock]int{}
	out := map[*ssa.BasicBlock]int{}
	const top = 3 // unvisited
	for _, b := range fn.Blocks {
		in[b], out[b] = top, top
	}
	states := map[ssa.Instruction]int{}
	transfer := func(b *ssa.BasicBlock, s int, record bool) int {
		for _, ins := range b.Instrs {
			if record {
				states[ins] = s
			}
			ci, ok := ins.(ssa.CallInstruction)
			if !ok {
				continue
			}
			if _, isDefer := ins.(*ssa.Defer); isDefer {
				continue
			}
			if _, isGo := ins.(*ssa.Go); isGo {
				continue
			}
			switch classify(ci) {
			case lockAcquireW:
				s = 2
			case lockAcquireR:
				s = 1
			case lockRelease:
				s = 0
			}
		}
		return s
	}
	meet := func(a, b int) int {
		if a == top {
			return b
		}
		if b == top {
			return a
		}
		if a < b {
			return a
		}
		return b
	}
	if len(fn.Blocks) == 0 {
		return states
	}
	in[fn.Blocks[0]] = 0
	changed := true
	for changed {
		changed = false
		for _, b := range fn.Blocks {
			s := in[b]
			if b != fn.Blocks[0] {
				s = top
				for _, p := range b.Preds {
					s = meet(s, out[p])
				}
			}
			if fn.Recover != nil && b == fn.Recover {
				s = 0
			}
			if s == top {
				continue
			}
			o := transfer(b, s, false)
			if s != in[b] || o != out[b] {
				in[b], out[b] = s, o
				changed = true
			}
		}
	}
	for _, b := range fn.Blocks {
		if in[b] != top {
			transfer(b, in[b], true)
		}
	}
	return states
}
