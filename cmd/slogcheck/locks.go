package main

// Lock discipline (F3): forward must-dataflow "the lock is held" over a
// function's CFG. Deferred unlocks run at exit and do not release the lock
// for the instructions of the body.

import (
	"golang.org/x/tools/go/ssa"
	"strings"
)

type lockKind int

const (
	lockNone lockKind = iota
	lockAcquireW
	lockAcquireR
	lockRelease
)

// lockState per instruction: 0 = not held, 1 = read lock held, 2 = write lock held
func lockStates(fn *ssa.Function, classify func(ssa.CallInstruction) lockKind) map[ssa.Instruction]int {
	return lockStatesFrom(fn, classify, 0)
}

// lockStatesR: as lockStates, but a function that is only reached by plain static calls (a helper extracted from a
// critical section) starts in the weakest lock state of its call sites instead of "not held"
func (c *Ctx) lockStatesR(fn *ssa.Function, classify func(ssa.CallInstruction) lockKind) map[ssa.Instruction]int {
	return lockStatesFrom(fn, classify, c.lockEntry(fn, classify, 0))
}

func (c *Ctx) lockEntry(fn *ssa.Function, classify func(ssa.CallInstruction) lockKind, depth int) int {
	if depth > 3 || fn.Parent() != nil {
		return 0
	}
	// every way into fn is a plain static call
	if !c.P.onlyCalledFrom(fn, c.P.allFuncs) {
		return 0
	}
	entry := 3
	for _, s := range c.P.staticSites[fn] {
		if _, isCall := s.(*ssa.Call); !isCall {
			return 0
		}
		p := s.Parent()
		if strings.Contains(p.Synthetic, "wrapper") {
			continue
		}
		st := lockStatesFrom(p, classify, c.lockEntry(p, classify, depth+1))[s]
		if st < entry {
			entry = st
		}
	}
	if entry == 3 {
		return 0
	}
	return entry
}

func lockStatesFrom(fn *ssa.Function, classify func(ssa.CallInstruction) lockKind, entry int) map[ssa.Instruction]int {
	in := map[*ssa.BasicBlock]int{}
	out := map[*ssa.BasicBlock]int{}
	const top = 3 // unvisited
	for _, b := range fn.Blocks {
		in[b], out[b] = top, top
	}
	states := map[ssa.Instruction]int{}
	transfer := func(b *ssa.BasicBlock, s int, record bool) int {
		for _, ins := range b.Instrs {
			if record {
				states[ins] = s
			}
			ci, ok := ins.(ssa.CallInstruction)
			if !ok {
				continue
			}
			if _, isDefer := ins.(*ssa.Defer); isDefer {
				continue
			}
			if _, isGo := ins.(*ssa.Go); isGo {
				continue
			}
			switch classify(ci) {
			case lockAcquireW:
				s = 2
			case lockAcquireR:
				s = 1
			case lockRelease:
				s = 0
			}
		}
		return s
	}
	meet := func(a, b int) int {
		if a == top {
			return b
		}
		if b == top {
			return a
		}
		if a < b {
			return a
		}
		return b
	}
	if len(fn.Blocks) == 0 {
		return states
	}
	in[fn.Blocks[0]] = entry
	changed := true
	for changed {
		changed = false
		for _, b := range fn.Blocks {
			s := in[b]
			if b != fn.Blocks[0] {
				s = top
				for _, p := range b.Preds {
					s = meet(s, out[p])
				}
			}
			if fn.Recover != nil && b == fn.Recover {
				s = 0
			}
			if s == top {
				continue
			}
			o := transfer(b, s, false)
			if s != in[b] || o != out[b] {
				in[b], out[b] = s, o
				changed = true
			}
		}
	}
	for _, b := range fn.Blocks {
		if in[b] != top {
			transfer(b, in[b], true)
		}
	}
	return states
}
