package main

// Lock discipline (F3): forward must-dataflow "the lock is held" over a
// function's CFG. Deferred unlocks run at exit and do not release the lock
// for the instructions of the body.

import (
	"golang.org/x/tools/go/ssa"
	"strings"
)

type lockKind int

const (
	lockNone lockKind = iota
	lockAcquireW
	lockAcquireR
	lockRelease
)

// lockState per instruction: 0 = not held, 1 = read lock held, 2 = write lock held
func lockStates(fn *ssa.Function, classify func(ssa.CallInstruction) lockKind) map[ssa.Instruction]int {
	return lockStatesFrom(fn, classify, 0)
}

// lockStatesR: as lockStates, but a function that is only reached by plain static calls (a helper extracted from a
// critical section) starts in the weakest lock state of its call sites instead of "not held"
func (c *Ctx) lockStatesR(fn *ssa.Function, classify func(ssa.CallInstruction) lockKind) map[ssa.Instruction]int {
	return lockStatesFrom(fn, classify, c.lockEntry(fn, classify, 0))
}

func (c *Ctx) lockEntry(fn *ssa.Function, classify func(ssa.CallInstruction) lockKind, depth int) int {
	if depth > 3 || fn.Parent() != nil {
		return 0
	}
	// every way into fn is a plain static call
	if !c.P.onlyCalledFrom(fn, c.P.allFuncs) {
		return 0
	}
	entry := 3
	for _, s := range c.P.staticSites[fn] {
		if _, isCall := s.(*ssa.Call); !isCall {
			return 0
		}
		p := s.Parent()
		if strings.Contains(p.Synthetic, "wrapper") {
			continue
		}
		st := lockStatesFrom(p, classify, c.lockEntry(p, classify, depth+1))[s]
		if st < entry {
			entry = st
		}
	}
	if entry == 3 {
		return 0
	}
	return entry
}

func lockStatesFrom(fn *ssa.Function, classify func(ssa.CallInstruction) lockKind, entry int) map[ssa.Instruction]int {
	in := map[*ssa.BasicBlock]int{}
	out := map[*ssa.BasicBlock]int{}
	const top = 3 // unvisited
	for _, b := range fn.Blocks {
		in[b], out[b] = top, top
	}
	states := map[ssa.Instruction]int{}
	transfer := func(b *ssa.BasicBlock, s int, record bool) int {
		for _, ins := range b.Instrs {
			if record {
				states[ins] = s
			}
			ci, ok := ins.(ssa.CallInstruction)
			if !ok {
				continue
			}
			if _, isDefer := ins.(*ssa.Defer); isDefer {
				continue
			}
			if _, isGo := ins.(*ssa.Go); isGo {
				continue
			}
			switch classify(ci) {
			case lockAcquireW:
				s = 2
			case lockAcquireR:
				s = 1
			case lockRelease:
				s = 0
			default:
				// a wrapper: a module function that returns with the lock held on all its paths acquires it; one that
				// returns without it when entered with it releases it (deferred releases inside the wrapper count)
				if g := ci.Common().StaticCallee(); g != nil && g.Blocks != nil && g != fn && wrapperDepth < 2 {
					switch lockWrapperKind(g, classify) {
					case lockAcquireW:
						s = 2
					case lockAcquireR:
						if s < 1 {
							s = 1
						}
					case lockRelease:
						s = 0
					}
				}
			}
		}
		return s
	}
	meet := func(a, b int) int {
		if a == top {
			return b
		}
		if b == top {
			return a
		}
		if a < b {
			return a
		}
		return b
	}
	if len(fn.Blocks) == 0 {
		return states
	}
	in[fn.Blocks[0]] = entry
	changed := true
	for changed {
		changed = false
		for _, b := range fn.Blocks {
			s := in[b]
			if b != fn.Blocks[0] {
				s = top
				for _, p := range b.Preds {
					s = meet(s, out[p])
				}
			}
			if fn.Recover != nil && b == fn.Recover {
				s = 0
			}
			if s == top {
				continue
			}
			o := transfer(b, s, false)
			if s != in[b] || o != out[b] {
				in[b], out[b] = s, o
				changed = true
			}
		}
	}
	for _, b := range fn.Blocks {
		if in[b] != top {
			transfer(b, in[b], true)
		}
	}
	return states
}

var wrapperDepth int

// lockWrapperKind: what a call of g does to the lock, judged from g's own body
func lockWrapperKind(g *ssa.Function, classify func(ssa.CallInstruction) lockKind) lockKind {
	touches, deferredRelease := false, false
	eachInstr(g, func(in ssa.Instruction) {
		if ci, ok := in.(ssa.CallInstruction); ok {
			if k := classify(ci); k != lockNone {
				touches = true
				if _, isDefer := in.(*ssa.Defer); isDefer && k == lockRelease {
					deferredRelease = true
				}
			}
		}
	})
	if !touches {
		return lockNone
	}
	wrapperDepth++
	defer func() { wrapperDepth-- }()
	exitState := func(entry int) int {
		st := lockStatesFrom(g, classify, entry)
		min := 3
		eachInstr(g, func(in ssa.Instruction) {
			if _, ok := in.(*ssa.Return); ok {
				if v, seen := st[in]; seen && v < min {
					min = v
				}
			}
		})
		if min == 3 {
			return entry
		}
		if deferredRelease {
			return 0
		}
		return min
	}
	switch exitState(0) {
	case 2:
		return lockAcquireW
	case 1:
		return lockAcquireR
	}
	if exitState(2) == 0 {
		return lockRelease
	}
	return lockNone
}
