package main

// F14: construction-time wiring stays intact. When a constructor stores a reference value V (buffer, writer, map, channel)
// into field F of a new object and hands the same V to the constructor of a helper kept in a sibling field G
// (G = NewEncoder(V), G = gzip.NewWriter(V) …), G keeps referring to V for the life of the object. Re-assigning F later —
// "replace the oversized buffer by a fresh one" — leaves G writing into the orphaned value while the rest of the code
// reads the new F. Every such pair is enumerated from the constructors; a store to F outside them is reported.

import (
	"fmt"
	"go/types"
	"sort"

	"golang.org/x/tools/go/ssa"
)

var wiringReviewed = map[string]string{}

// wiringFrozen: {F, G} — G is built on F at construction (confirmed by reading the constructors)
var wiringFrozen = [][2]string{
	{"base/bsupport.logParsingReceiverSink.inputCounter", "base/bsupport.logParsingReceiverSink.parser"},
	{"buffer/hybridbuffer.bufferer.inputChannel", "buffer/hybridbuffer.bufferer.feeder"},
	{"buffer/hybridbuffer.bufferer.inputClosed", "buffer/hybridbuffer.bufferer.feeder"},
	{"input/tcplistener.tcpLineListener.taskCounter", "input/tcplistener.tcpLineListener.stopped"},
	{"output/datadog.intermediateChunk.writeBuffer", "output/datadog.intermediateChunk.compressor"},
	{"output/fluentdforward.intermediateChunk.writeBuffer", "output/fluentdforward.intermediateChunk.compressor"},
	{"output/fluentdforward.chunkEncoder.msgpackEncoderBuffer", "output/fluentdforward.chunkEncoder.msgpackEncoder"},
}

func init() {
	register("C11", "C11.R9", ruleWiringF14)
	register("C10", "C11.R9", ruleWiringF14)
}

func isRefType(t types.Type) bool {
	switch t.Underlying().(type) {
	case *types.Pointer, *types.Slice, *types.Map, *types.Chan, *types.Interface:
		return true
	}
	return false
}

type wiredPair struct {
	f, g   string // field names "pkg.T.f"
	ctor   *ssa.Function
	helper string
	pos    ssa.Instruction
}

func ruleWiringF14(c *Ctx) {
	var pairs []wiredPair
	for _, fn := range c.P.universe {
		// stores into fields of objects allocated in this function
		type fstore struct {
			st    *ssa.Store
			field string
			base  ssa.Value
		}
		var stores []fstore
		eachInstr(fn, func(in ssa.Instruction) {
			st, ok := in.(*ssa.Store)
			if !ok {
				return
			}
			fa, ok := st.Addr.(*ssa.FieldAddr)
			if !ok {
				return
			}
			if _, isAlloc := fa.X.(*ssa.Alloc); !isAlloc {
				return
			}
			stores = append(stores, fstore{st, fieldName(fa.X.Type(), fa.Field), fa.X})
		})
		for _, a := range stores {
			if !isRefType(a.st.Val.Type()) {
				continue
			}
			if _, isConst := a.st.Val.(*ssa.Const); isConst {
				continue
			}
			for _, b := range stores {
				if b.base != a.base || b.field == a.field {
					continue
				}
				// b's value is (a component of) the result of a call that received a's value
				v := strip(b.st.Val)
				if ex, ok := v.(*ssa.Extract); ok {
					v = ex.Tuple
				}
				if mi, ok := v.(*ssa.MakeInterface); ok {
					v = strip(mi.X)
				}
				cl, ok := v.(*ssa.Call)
				if !ok {
					continue
				}
				for _, arg := range cl.Common().Args {
					av := strip(arg)
					if mi, ok := av.(*ssa.MakeInterface); ok {
						av = strip(mi.X)
					}
					same := av == strip(a.st.Val)
					if u, ok := av.(*ssa.UnOp); ok && !same {
						// the field read back from the object under construction: G = New(obj.F)
						if fa, ok := u.X.(*ssa.FieldAddr); ok && fa.X == a.base && fieldName(fa.X.Type(), fa.Field) == a.field {
							same = true
						}
					}
					if same {
						helper := "?"
						if f := cl.Common().StaticCallee(); f != nil {
							helper = extName(f)
						}
						pairs = append(pairs, wiredPair{a.field, b.field, fn, helper, a.st})
					}
				}
			}
		}
	}
	// The pairs confirmed by reading the code are frozen: a change that breaks the wiring in the one place where it is made
	// would otherwise remove the pair from the enumeration together with the rule instance (a pair found on the tree but
	// not listed here is checked all the same).
	have := map[string]bool{}
	for _, p := range pairs {
		have[p.f+"→"+p.g] = true
	}
	for _, fz := range wiringFrozen {
		if have[fz[0]+"→"+fz[1]] {
			continue
		}
		// the constructor: a function storing G into a fresh object
		for _, fn := range c.P.universe {
			for _, st := range storesToField(fn, fz[1]) {
				if fa, ok := strip(st.Addr).(*ssa.FieldAddr); ok {
					if _, fresh := fa.X.(*ssa.Alloc); fresh && !have[fz[0]+"→"+fz[1]] {
						have[fz[0]+"→"+fz[1]] = true
						pairs = append(pairs, wiredPair{fz[0], fz[1], fn, "(no longer a call on " + fz[0] + ")", st})
					}
				}
			}
		}
	}
	sort.Slice(pairs, func(i, j int) bool { return pairs[i].f+pairs[i].g < pairs[j].f+pairs[j].g })
	c.floor("C11.R9", "constructor-wired field pairs", len(pairs), 3)
	ctorOf := map[string]map[*ssa.Function]bool{}
	for _, p := range pairs {
		if ctorOf[p.f] == nil {
			ctorOf[p.f] = map[*ssa.Function]bool{}
		}
		ctorOf[p.f][p.ctor] = true
	}
	done := map[string]bool{}
	for _, p := range pairs {
		key := p.f + "→" + p.g
		if done[key] {
			continue
		}
		done[key] = true
		var bad []string
		var badPos ssa.Instruction
		for _, fn := range c.P.universe {
			if ctorOf[p.f][fn] {
				continue
			}
			for _, st := range storesToField(fn, p.f) {
				if why, ok := wiringReviewed[anchorName(fn)+"|"+p.f]; ok {
					c.assumed("C11.R9", fn, "store to wired field "+p.f, st.Pos(), "reviewed: "+why)
					continue
				}
				bad = append(bad, anchorName(fn)+" at "+c.P.pos(st.Pos()))
				badPos = st
			}
		}
		// the other half: G is never set to something that was not built on (or re-armed with) the same object's F — a
		// helper taken from elsewhere (a cache, a captured variable, a parameter) refers to whatever it was built on
		for _, fn := range c.P.universe {
			for _, st := range storesToField(fn, p.g) {
				fa := strip(st.Addr).(*ssa.FieldAddr)
				isF := func(v ssa.Value) bool {
					v = strip(v)
					if mi, ok := v.(*ssa.MakeInterface); ok {
						v = strip(mi.X)
					}
					if u, ok := v.(*ssa.UnOp); ok {
						if fb, ok := u.X.(*ssa.FieldAddr); ok && fb.X == fa.X && fieldName(fb.X.Type(), fb.Field) == p.f {
							return true
						}
					}
					for _, sf := range storesToField(fn, p.f) {
						if fb, ok := strip(sf.Addr).(*ssa.FieldAddr); ok && fb.X == fa.X && strip(sf.Val) == v {
							return true
						}
					}
					return false
				}
				v := strip(st.Val)
				for i := 0; i < 4; i++ {
					switch x := v.(type) {
					case *ssa.Extract:
						v = strip(x.Tuple)
					case *ssa.MakeInterface:
						v = strip(x.X)
					case *ssa.TypeAssert:
						v = strip(x.X)
					}
				}
				wired := false
				if k, ok := v.(*ssa.Const); ok && k.IsNil() {
					wired = true
				}
				if cl, ok := v.(*ssa.Call); ok {
					for _, a := range cl.Common().Args {
						if isF(a) {
							wired = true
						}
					}
				}
				if !wired {
					// re-armed in the same function: a call on the stored value that is given the object's F
					for _, s := range callsIn(fn) {
						cc := s.Common()
						onV := false
						if cc.IsInvoke() && strip(cc.Value) == strip(st.Val) {
							onV = true
						}
						for _, a := range cc.Args {
							if strip(a) == strip(st.Val) {
								onV = true
							}
						}
						if !onV {
							continue
						}
						for _, a := range cc.Args {
							if isF(a) {
								wired = true
							}
						}
					}
				}
				c.check(wired, "C11.R9", fn, fmt.Sprintf("%s is built on this object's %s wherever it is set", p.g, p.f), st.Pos(),
					"the stored value is the result of a call that received the same object's "+p.f+" (or nil, or is re-armed with it in the same function)",
					fmt.Sprintf("%s is set to a value that was not built on this object's %s (a cached, captured or passed-in helper keeps referring to the value it was created with): what is written through %s does not arrive in %s", p.g, p.f, p.g, p.f))
			}
		}
		construct := fmt.Sprintf("%s stays the value %s was built on", p.f, p.g)
		if len(bad) == 0 {
			c.ok("C11.R9", p.ctor, construct, p.pos.Pos(), fmt.Sprintf("%s = %s(%s) in %s; %s is stored nowhere else", p.g, p.helper, p.f, anchorName(p.ctor), p.f))
		} else {
			c.bad("C11.R9", badPos.Parent(), construct, badPos.Pos(),
				fmt.Sprintf("%s is built on the value of %s at construction (%s in %s) and keeps referring to it, but %s is re-assigned in %v: from then on the two fields are different objects — what is written through one is not what is read through the other", p.g, p.f, p.helper, anchorName(p.ctor), p.f, bad))
		}
	}
}

// F15: element addresses that are kept stay valid. `&table[i]` kept in another object (ReloadableSink.downstreamPtr points
// into the orchestrator's slot table) refers to the backing array the table had at that moment. If the table is a slice
// field that is ever re-assigned (grown by allocate-and-copy, appended to), holders of old element addresses read and write
// an abandoned array while everybody else uses the new one. For every kept element address whose container is a slice
// loaded from a field, that field must be stored only in constructors. A fixed-size array field is always fine.
func init() {
	register("C17", "C17.R6", ruleStableAddrF15)
	register("C09", "C17.R6", ruleStableAddrF15)
	register("C19", "C17.R6", ruleStableAddrF15)
}

func ruleStableAddrF15(c *Ctx) {
	nKept := 0
	type kept struct {
		field string
		at    ssa.Instruction
		fn    *ssa.Function
	}
	var slices []kept
	for _, fn := range c.P.universe {
		eachInstr(fn, func(in ssa.Instruction) {
			// kept: stored into a field (of a fresh or existing object) or a global — not into a local variable —, or
			// handed to the caller: returned, or bound into a returned / stored method value (`return tab[i].Method`)
			var ia *ssa.IndexAddr
			elemAddr := func(v ssa.Value) *ssa.IndexAddr {
				v = strip(v)
				if mc, ok := v.(*ssa.MakeClosure); ok {
					for _, b := range mc.Bindings {
						if x, ok := strip(b).(*ssa.IndexAddr); ok {
							return x
						}
					}
					return nil
				}
				x, _ := v.(*ssa.IndexAddr)
				return x
			}
			switch x := in.(type) {
			case *ssa.Store:
				switch x.Addr.(type) {
				case *ssa.FieldAddr, *ssa.Global:
					ia = elemAddr(x.Val)
				}
			case *ssa.Return:
				if fn.Parent() != nil {
					return // a function literal's result stays with the enclosing function
				}
				for _, r := range x.Results {
					if a := elemAddr(r); a != nil {
						ia = a
					}
				}
			}
			if ia == nil {
				return
			}
			nKept++
			// container: an array (through its address) is stable; a slice loaded from a field is the case to check
			if _, isSlice := ia.X.Type().Underlying().(*types.Slice); !isSlice {
				c.ok("C17.R6", fn, "a kept element address stays valid", in.Pos(), "the container is a fixed-size array ("+canonOf(ia.X)+"): its elements never move")
				return
			}
			if f := fieldOf(ia.X); f != "" {
				slices = append(slices, kept{f, in, fn})
			} else {
				c.bad("C17.R6", fn, "a kept element address stays valid", in.Pos(), "the address of an element of a slice that is not a field (its backing array can be replaced without trace) is kept in a long-lived object")
			}
		})
	}
	for _, k := range slices {
		var bad []string
		for _, fn := range c.P.universe {
			for _, st := range storesToField(fn, k.field) {
				if fa, ok := strip(st.Addr).(*ssa.FieldAddr); ok {
					if _, fresh := fa.X.(*ssa.Alloc); fresh {
						continue // constructor: the object is not shared yet
					}
				}
				bad = append(bad, anchorName(fn)+" at "+c.P.pos(st.Pos()))
			}
		}
		c.check(len(bad) == 0, "C17.R6", k.fn, "a kept element address stays valid", k.at.Pos(),
			"the slice field "+k.field+" is stored only in constructors: its backing array never changes",
			fmt.Sprintf("the address of an element of %s is kept in another object, but that slice field is re-assigned in %v: holders of the old address go on using the abandoned backing array (a reload closes and re-creates sinks in the new table while older connections still write through the old one)", k.field, bad))
	}
	c.floor("C17.R6", "element addresses kept in fields", nKept, 1)
}
