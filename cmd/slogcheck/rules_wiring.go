package main

// F14: construction-time wiring stays intact. When a constructor stores a reference value V (buffer, writer, map, channel)
// into field F of a new object and hands the same V to the constructor of a helper kept in a sibling field G
// (G = NewEncoder(V), G = gzip.NewWriter(V) …), G keeps referring to V for the life of the object. Re-assigning F later —
// "replace the oversized buffer by a fresh one" — leaves G writing into the orphaned value while the rest of the code
// reads the new F. Every such pair is enumerated from the constructors; a store to F outside them is reported.

import (
	"fmt"
	"go/types"
	"sort"

	"golang.org/x/tools/go/ssa"
)

var wiringReviewed = map[string]string{}

func init() {
	register("C11", "C11.R9", ruleWiringF14)
	register("C10", "C11.R9", ruleWiringF14)
}

func isRefType(t types.Type) bool {
	switch t.Underlying().(type) {
	case *types.Pointer, *types.Slice, *types.Map, *types.Chan, *types.Interface:
		return true
	}
	return false
}

type wiredPair struct {
	f, g   string // field names "pkg.T.f"
	ctor   *ssa.Function
	helper string
	pos    ssa.Instruction
}

func ruleWiringF14(c *Ctx) {
	var pairs []wiredPair
	for _, fn := range c.P.universe {
		// stores into fields of objects allocated in this function
		type fstore struct {
			st    *ssa.Store
			field string
			base  ssa.Value
		}
		var stores []fstore
		eachInstr(fn, func(in ssa.Instruction) {
			st, ok := in.(*ssa.Store)
			if !ok {
				return
			}
			fa, ok := st.Addr.(*ssa.FieldAddr)
			if !ok {
				return
			}
			if _, isAlloc := fa.X.(*ssa.Alloc); !isAlloc {
				return
			}
			stores = append(stores, fstore{st, fieldName(fa.X.Type(), fa.Field), fa.X})
		})
		for _, a := range stores {
			if !isRefType(a.st.Val.Type()) {
				continue
			}
			if _, isConst := a.st.Val.(*ssa.Const); isConst {
				continue
			}
			for _, b := range stores {
				if b.base != a.base || b.field == a.field {
					continue
				}
				// b's value is (a component of) the result of a call that received a's value
				v := strip(b.st.Val)
				if ex, ok := v.(*ssa.Extract); ok {
					v = ex.Tuple
				}
				if mi, ok := v.(*ssa.MakeInterface); ok {
					v = strip(mi.X)
				}
				cl, ok := v.(*ssa.Call)
				if !ok {
					continue
				}
				for _, arg := range cl.Common().Args {
					av := strip(arg)
					if mi, ok := av.(*ssa.MakeInterface); ok {
						av = strip(mi.X)
					}
					if av == strip(a.st.Val) {
						helper := "?"
						if f := cl.Common().StaticCallee(); f != nil {
							helper = extName(f)
						}
						pairs = append(pairs, wiredPair{a.field, b.field, fn, helper, a.st})
					}
				}
			}
		}
	}
	sort.Slice(pairs, func(i, j int) bool { return pairs[i].f+pairs[i].g < pairs[j].f+pairs[j].g })
	c.floor("C11.R9", "constructor-wired field pairs", len(pairs), 3)
	ctorOf := map[string]map[*ssa.Function]bool{}
	for _, p := range pairs {
		if ctorOf[p.f] == nil {
			ctorOf[p.f] = map[*ssa.Function]bool{}
		}
		ctorOf[p.f][p.ctor] = true
	}
	done := map[string]bool{}
	for _, p := range pairs {
		key := p.f + "→" + p.g
		if done[key] {
			continue
		}
		done[key] = true
		var bad []string
		var badPos ssa.Instruction
		for _, fn := range c.P.universe {
			if ctorOf[p.f][fn] {
				continue
			}
			for _, st := range storesToField(fn, p.f) {
				if why, ok := wiringReviewed[anchorName(fn)+"|"+p.f]; ok {
					c.assumed("C11.R9", fn, "store to wired field "+p.f, st.Pos(), "reviewed: "+why)
					continue
				}
				bad = append(bad, anchorName(fn)+" at "+c.P.pos(st.Pos()))
				badPos = st
			}
		}
		construct := fmt.Sprintf("%s stays the value %s was built on", p.f, p.g)
		if len(bad) == 0 {
			c.ok("C11.R9", p.ctor, construct, p.pos.Pos(), fmt.Sprintf("%s = %s(%s) in %s; %s is stored nowhere else", p.g, p.helper, p.f, anchorName(p.ctor), p.f))
		} else {
			c.bad("C11.R9", badPos.Parent(), construct, badPos.Pos(),
				fmt.Sprintf("%s is built on the value of %s at construction (%s in %s) and keeps referring to it, but %s is re-assigned in %v: from then on the two fields are different objects — what is written through one is not what is read through the other", p.g, p.f, p.helper, anchorName(p.ctor), p.f, bad))
		}
	}
}

// F15: element addresses that are kept stay valid. `&table[i]` kept in another object (ReloadableSink.downstreamPtr points
// into the orchestrator's slot table) refers to the backing array the table had at that moment. If the table is a slice
// field that is ever re-assigned (grown by allocate-and-copy, appended to), holders of old element addresses read and write
// an abandoned array while everybody else uses the new one. For every kept element address whose container is a slice
// loaded from a field, that field must be stored only in constructors. A fixed-size array field is always fine.
func init() {
	register("C17", "C17.R6", ruleStableAddrF15)
}

func ruleStableAddrF15(c *Ctx) {
	nKept := 0
	type kept struct {
		field string
		at    ssa.Instruction
		fn    *ssa.Function
	}
	var slices []kept
	for _, fn := range c.P.universe {
		eachInstr(fn, func(in ssa.Instruction) {
			st, ok := in.(*ssa.Store)
			if !ok {
				return
			}
			ia, ok := strip(st.Val).(*ssa.IndexAddr)
			if !ok {
				return
			}
			// kept: stored into a field (of a fresh or existing object) or a global — not into a local variable
			switch a := st.Addr.(type) {
			case *ssa.FieldAddr, *ssa.Global:
				_ = a
			default:
				return
			}
			nKept++
			// container: an array (through its address) is stable; a slice loaded from a field is the case to check
			if _, isSlice := ia.X.Type().Underlying().(*types.Slice); !isSlice {
				c.ok("C17.R6", fn, "a kept element address stays valid", in.Pos(), "the container is a fixed-size array ("+canonOf(ia.X)+"): its elements never move")
				return
			}
			if f := fieldOf(ia.X); f != "" {
				slices = append(slices, kept{f, in, fn})
			} else {
				c.bad("C17.R6", fn, "a kept element address stays valid", in.Pos(), "the address of an element of a slice that is not a field (its backing array can be replaced without trace) is kept in a long-lived object")
			}
		})
	}
	for _, k := range slices {
		var bad []string
		for _, fn := range c.P.universe {
			for _, st := range storesToField(fn, k.field) {
				if fa, ok := strip(st.Addr).(*ssa.FieldAddr); ok {
					if _, fresh := fa.X.(*ssa.Alloc); fresh {
						continue // constructor: the object is not shared yet
					}
				}
				bad = append(bad, anchorName(fn)+" at "+c.P.pos(st.Pos()))
			}
		}
		c.check(len(bad) == 0, "C17.R6", k.fn, "a kept element address stays valid", k.at.Pos(),
			"the slice field "+k.field+" is stored only in constructors: its backing array never changes",
			fmt.Sprintf("the address of an element of %s is kept in another object, but that slice field is re-assigned in %v: holders of the old address go on using the abandoned backing array (a reload closes and re-creates sinks in the new table while older connections still write through the old one)", k.field, bad))
	}
	c.floor("C17.R6", "element addresses kept in fields", nKept, 1)
}
