package main

// F14: construction-time wiring stays intact. When a constructor stores a reference value V (buffer, writer, map, channel)
// into field F of a new object and hands the same V to the constructor of a helper kept in a sibling field G
// (G = NewEncoder(V), G = gzip.NewWriter(V) …), G keeps referring to V for the life of the object. Re-assigning F later —
// "replace the oversized buffer by a fresh one" — leaves G writing into the orphaned value while the rest of the code
// reads the new F. Every such pair is enumerated from the constructors; a store to F outside them is reported.

import (
	"fmt"
	"go/types"
	"sort"

	"golang.org/x/tools/go/ssa"
)

var wiringReviewed = map[string]string{}

func init() {
	register("C11", "C11.R9", ruleWiringF14)
	register("C10", "C11.R9", ruleWiringF14)
}

func isRefType(t types.Type) bool {
	switch t.Underlying().(type) {
	case *types.Pointer, *types.Slice, *types.Map, *types.Chan, *types.Interface:
		return true
	}
	return false
}

type wiredPair struct {
	f, g   string // field names "pkg.T.f"
	ctor   *ssa.Function
	helper string
	pos    ssa.Instruction
}

func ruleWiringF14(c *Ctx) {
	var pairs []wiredPair
	for _, fn := range c.P.universe {
		// stores into fields of objects allocated in this function
		type fstore struct {
			st    *ssa.Store
			field string
			base  ssa.Value
		}
		var stores []fstore
		eachInstr(fn, func(in ssa.Instruction) {
			st, ok := in.(*ssa.Store)
			if !ok {
				return
			}
			fa, ok := st.Addr.(*ssa.FieldAddr)
			if !ok {
				return
			}
			if _, isAlloc := fa.X.(*ssa.Alloc); !isAlloc {
				return
			}
			stores = append(stores, fstore{st, fieldName(fa.X.Type(), fa.Field), fa.X})
		})
		for _, a := range stores {
			if !isRefType(a.st.Val.Type()) {
				continue
			}
			if _, isConst := a.st.Val.(*ssa.Const); isConst {
				continue
			}
			for _, b := range stores {
				if b.base != a.base || b.field == a.field {
					continue
				}
				// b's value is (a component of) the result of a call that received a's value
				v := strip(b.st.Val)
				if ex, ok := v.(*ssa.Extract); ok {
					v = ex.Tuple
				}
				if mi, ok := v.(*ssa.MakeInterface); ok {
					v = strip(mi.X)
				}
				cl, ok := v.(*ssa.Call)
				if !ok {
					continue
				}
				for _, arg := range cl.Common().Args {
					av := strip(arg)
					if mi, ok := av.(*ssa.MakeInterface); ok {
						av = strip(mi.X)
					}
					if av == strip(a.st.Val) {
						helper := "?"
						if f := cl.Common().StaticCallee(); f != nil {
							helper = extName(f)
						}
						pairs = append(pairs, wiredPair{a.field, b.field, fn, helper, a.st})
					}
				}
			}
		}
	}
	sort.Slice(pairs, func(i, j int) bool { return pairs[i].f+pairs[i].g < pairs[j].f+pairs[j].g })
	c.floor("C11.R9", "constructor-wired field pairs", len(pairs), 3)
	ctorOf := map[string]map[*ssa.Function]bool{}
	for _, p := range pairs {
		if ctorOf[p.f] == nil {
			ctorOf[p.f] = map[*ssa.Function]bool{}
		}
		ctorOf[p.f][p.ctor] = true
	}
	done := map[string]bool{}
	for _, p := range pairs {
		key := p.f + "→" + p.g
		if done[key] {
			continue
		}
		done[key] = true
		var bad []string
		var badPos ssa.Instruction
		for _, fn := range c.P.universe {
			if ctorOf[p.f][fn] {
				continue
			}
			for _, st := range storesToField(fn, p.f) {
				if why, ok := wiringReviewed[anchorName(fn)+"|"+p.f]; ok {
					c.assumed("C11.R9", fn, "store to wired field "+p.f, st.Pos(), "reviewed: "+why)
					continue
				}
				bad = append(bad, anchorName(fn)+" at "+c.P.pos(st.Pos()))
				badPos = st
			}
		}
		construct := fmt.Sprintf("%s stays the value %s was built on", p.f, p.g)
		if len(bad) == 0 {
			c.ok("C11.R9", p.ctor, construct, p.pos.Pos(), fmt.Sprintf("%s = %s(%s) in %s; %s is stored nowhere else", p.g, p.helper, p.f, anchorName(p.ctor), p.f))
		} else {
			c.bad("C11.R9", badPos.Parent(), construct, badPos.Pos(),
				fmt.Sprintf("%s is built on the value of %s at construction (%s in %s) and keeps referring to it, but %s is re-assigned in %v: from then on the two fields are different objects — what is written through one is not what is read through the other", p.g, p.f, p.helper, anchorName(p.ctor), p.f, bad))
		}
	}
}
