package main

// C03 Hybrid buffer conserves chunks in FIFO order within disk and memory bounds.

import (
	"fmt"
	"go/constant"
	"go/token"
	"go/types"
	"strings"

	"golang.org/x/tools/go/ssa"
)

const (
	aUnloadChunk = "buffer/hybridbuffer.(*chunkOperator).UnloadChunk"
	aLoadChunk   = "buffer/hybridbuffer.(*chunkOperator).LoadChunk"
	aOnInput     = "buffer/hybridbuffer.(*chunkManager).OnChunkInput"
	aOnInputRec  = "buffer/hybridbuffer.(*chunkManager).OnChunkInputRecovered"
	aLoadToOut   = "buffer/hybridbuffer.(*outputFeeder).loadToOutput"
	aScan        = "buffer/hybridbuffer.(*chunkOperator).ScanExistingChunks"
	aWriteFileAt = "util.WriteFileAt"
	aReadFileAt  = "util.ReadFileAt"
	aNewBufferer = "buffer/hybridbuffer.newBufferer"
	aNewFeeder   = "buffer/hybridbuffer.newOutputFeeder"
	aOpRecovered = "buffer/hybridbuffer.(*chunkOperator).OnChunkRecovered"

	fBufIn   = "buffer/hybridbuffer.bufferer.inputChannel"
	fFeedIn  = "buffer/hybridbuffer.outputFeeder.inputChannel"
	fFeedOut = "buffer/hybridbuffer.outputFeeder.outputChannel"
)

func init() {
	for i, r := range []ruleFn{ruleC03R1, ruleC03R2, ruleC03R3, ruleC03R4, ruleC03R5, ruleC03R6, ruleC03R7, ruleC03R8, ruleC03R9} {
		register("C03", fmt.Sprintf("C03.R%d", i+1), r)
	}
	register("C03", "C03.R10", ruleC03R10)
	register("C03", "C01.R7", ruleC01R7)
	propExplanation["C03"] = "Decides on every path: Accept counts each chunk in exactly once and resolves it exactly once as enqueued or dropped (R1) without any blocking operation (R2); " +
		"every Load/Unload result is branched on and failure reaches the dropped accounting (R3); the quota test precedes the write and saved/gauge updates only follow a nil-error write (R4); " +
		"zero-length chunks are treated as corrupt, the feeder keeps the chunk in hand exactly when output was aborted (R5); single producer/consumer ownership of the two queues (R6); " +
		"the recovery scan is sorted and filtered by the chunk-id matcher (R7); queue capacities and the spill threshold derive from the same parameters (R8); " +
		"every resolution callback decrements the pending gauge once and increments exactly one outcome counter (R9); shutdown saves every holder (C01.R7). " +
		"Not decided: byte-for-byte equality, the size limit as a number, cross-goroutine 'nothing confirmed twice'."
	propAssumptions["C03"] = []string{"loops are analysed per iteration (each block at most once per enumerated path)", "disk syscalls return"}
}

func hybridDescend(f *ssa.Function) bool {
	return strings.HasPrefix(fnPkgPath(f), modPath+"/buffer/hybridbuffer")
}

// R1: Accept — input counted once, resolved once
func ruleC03R1(c *Ctx) {
	fn := c.P.Fn(aBufAccept)
	var sel *ssa.Select
	eachInstr(fn, func(in ssa.Instruction) {
		if s, ok := in.(*ssa.Select); ok {
			for _, st := range s.States {
				if st.Dir == types.SendOnly && fieldOf(st.Chan) == fBufIn {
					sel = s
				}
			}
		}
	})
	if sel == nil {
		c.bad("C03.R1", fn, "accept accounting", fn.Pos(), "no select sending on bufferer.inputChannel")
		return
	}
	okBlock := selectCaseBlock(sel, 0)
	cs := &CountSpec{P: c.P, Classes: []string{"OnChunkInput", "resolved(enqueued|dropped)"},
		Site: func(s ssa.CallInstruction) int {
			for _, cal := range c.P.callees(s) {
				if isAnchor(cal, aOnInput) {
					return 0
				}
				if isAnchor(cal, aOnDropped) {
					return 1
				}
			}
			return -1
		},
		Block: func(b *ssa.BasicBlock) int {
			if b == okBlock {
				return 1
			}
			return -1
		},
		Descend: hybridDescend,
	}
	outs := cs.Enum(fn, entryOf(fn), nil)
	c.count("C03.R1:paths", cs.Paths)
	for f := range cs.Funcs {
		c.seen(f)
	}
	good := len(outs) > 0
	var why []string
	for _, o := range outs {
		if o.Counts[0] != 1 || o.Counts[1] != 1 {
			good = false
			why = append(why, cs.describe(o))
		}
	}
	c.check(good, "C03.R1", fn, "each accepted chunk: OnChunkInput once, then enqueued or dropped once", fn.Pos(),
		fmt.Sprintf("all %d path outcomes of Accept (with return-correlated callee summaries) count the chunk in once and resolve it once", len(outs)),
		"a path of Accept miscounts: "+strings.Join(why, "; "))
	// recovered chunks: counted only when enqueued
	rec := c.P.Fn(aBufRecover)
	var rsel *ssa.Select
	c.eachInstrR(rec, func(in ssa.Instruction) {
		if s, ok := in.(*ssa.Select); ok {
			for _, st := range s.States {
				if st.Dir == types.SendOnly && fieldOf(st.Chan) == fBufIn {
					rsel = s
				}
			}
		}
	})
	okRec := false
	if rsel != nil {
		// the count stands in the enqueue-success case of the select (in recoverExistingChunks or the private helper
		// that holds the select)
		cb := selectCaseBlock(rsel, 0)
		calls := c.sitesWhereR(rec, func(s ssa.CallInstruction) bool {
			f := s.Common().StaticCallee()
			return f != nil && isAnchor(f, aOnInputRec)
		})
		okRec = len(calls) == 1 && cb != nil && calls[0].Parent() == rsel.Parent() && (calls[0].Block() == cb || cb.Dominates(calls[0].Block()))
	}
	c.check(okRec, "C03.R1", rec, "recovered chunk counted iff enqueued", rec.Pos(), "OnChunkInputRecovered is called only in the enqueue-success case", "a recovered chunk is counted without being enqueued (or not counted)")
}

// blocking primitives directly inside fn
type blockSite struct {
	In   ssa.Instruction
	Kind string
	Desc string
}

var blockingExt = map[string]string{
	"(*sync.WaitGroup).Wait": "WaitGroup.Wait",
	"time.Sleep":             "time.Sleep",
	"(*github.com/relex/gotils/channels.AwaitableBase).WaitForever": "Awaitable.WaitForever",
	"(*github.com/relex/gotils/channels.AwaitableBase).Wait":        "Awaitable.Wait(timeout)",
	"(*github.com/relex/gotils/channels.AwaitableBase).WaitTimer":   "Awaitable.WaitTimer",
	"(*sync.Cond).Wait":            "Cond.Wait",
	"(*net/http.Client).Do":        "http.Client.Do",
	"net.Dial":                     "net.Dial",
	"net.DialTimeout":              "net.DialTimeout",
	"crypto/tls.DialWithDialer":    "tls.DialWithDialer",
	"(*net.TCPListener).AcceptTCP": "AcceptTCP",
	"github.com/relex/fluentlib/protocol/forwardprotocol.DoClientHandshake": "DoClientHandshake",
}

func blockingIn(P *Prog, fn *ssa.Function) []blockSite {
	var out []blockSite
	selectRecv := map[ssa.Instruction]bool{}
	eachInstr(fn, func(in ssa.Instruction) {
		switch x := in.(type) {
		case *ssa.Send:
			out = append(out, blockSite{in, "send", "bare channel send"})
		case *ssa.UnOp:
			if x.Op == token.ARROW {
				out = append(out, blockSite{in, "recv", "bare channel receive"})
			}
		case *ssa.Select:
			if x.Blocking {
				out = append(out, blockSite{in, "select", "blocking select"})
			}
			selectRecv[in] = true
		case *ssa.Next:
			if r, ok := x.Iter.(*ssa.Range); ok {
				if _, ok := r.X.Type().Underlying().(*types.Chan); ok {
					out = append(out, blockSite{in, "range", "range over channel"})
				}
			}
		case ssa.CallInstruction:
			if _, isGo := in.(*ssa.Go); isGo {
				return
			}
			cc := x.Common()
			if cc.IsInvoke() {
				nm := typeName(cc.Value.Type()) + "." + cc.Method.Name()
				switch nm {
				case "github.com/relex/gotils/channels.Awaitable.WaitForever", "github.com/relex/gotils/channels.Awaitable.Wait", "github.com/relex/gotils/channels.Awaitable.WaitTimer":
					out = append(out, blockSite{in, "wait", nm})
				case "net.Conn.Read", "net.Conn.Write":
					out = append(out, blockSite{in, "netio", nm})
				case "io.Writer.Write":
					if anchorName(fn) == "output/fluentdforward.writeAll" { // the writer is the upstream socket
						out = append(out, blockSite{in, "netio", nm})
					}
				}
				return
			}
			if f := cc.StaticCallee(); f != nil {
				if d, ok := blockingExt[extName(f)]; ok {
					out = append(out, blockSite{in, "wait", d})
				}
				switch extName(f) {
				case "(*github.com/vmihailenco/msgpack/v4.Decoder).Decode":
					out = append(out, blockSite{in, "netio", "msgpack Decode from socket"})
				case "(*net.TCPConn).Read", "(*net.conn).Read", "(*net.conn).Write":
					out = append(out, blockSite{in, "netio", extName(f)})
				}
			}
		}
	})
	return out
}

// R2: accepting a chunk never blocks
func ruleC03R2(c *Ctx) {
	fn := c.P.Fn(aBufAccept)
	reach := c.P.reachableFrom([]*ssa.Function{fn}, func(f *ssa.Function) bool { return !c.P.inUni[f] })
	n, nb := 0, 0
	for f := range reach {
		if !c.P.inUni[f] {
			continue
		}
		n++
		c.seen(f)
		for _, b := range blockingIn(c.P, f) {
			nb++
			c.bad("C03.R2", f, "blocking operation reachable from Accept: "+b.Desc, b.In.Pos(), "Accept must never block on a stalled consumer; reached via "+chainTo(reach, f))
		}
	}
	c.floor("C03.R2", "universe functions reachable from Accept", n, 6)
	if nb == 0 {
		c.ok("C03.R2", fn, "no blocking operation reachable from Accept", fn.Pos(), fmt.Sprintf("%d universe functions reachable from Accept contain no bare send/receive, blocking select, channel range, wait or network I/O (its only select has a default)", n))
	}
}

// R3: Load/Unload results are branched on; failure reaches the dropped accounting
func ruleC03R3(c *Ctx) {
	sites := c.callSitesOf(anchorPred(aUnloadChunk, aLoadChunk))
	c.floor("C03.R3", "UnloadChunk/LoadChunk call sites", len(sites), 2)
	sD := newSumm(c.P, anchorPred(aOnDropped))
	sD.AllowEmptyGuards, sD.LoopsRunOnce = false, false
	for _, s := range sites {
		fn := s.Parent()
		what := fnBaseName(s.Common().StaticCallee())
		v := s.Value()
		if v == nil || v.Referrers() == nil || len(*v.Referrers()) == 0 {
			c.bad("C03.R3", fn, "result of "+what+" used", s.Pos(), "the bool result of "+what+" is discarded: a failed save/load is neither dropped nor counted")
			continue
		}
		fe := boolEdges(v, false)
		if len(fe) == 0 {
			c.bad("C03.R3", fn, "result of "+what+" used", s.Pos(), "the bool result of "+what+" is never branched on")
			continue
		}
		for b, si := range fe {
			c.mustBeforeReturn("C03.R3", fn, succPoint(b, si), sD, "failure of "+what+" reaches OnChunkDropped", "chunkManager.OnChunkDropped", s.Pos(), nil)
		}
	}
}

// R4: quota before write; saved / gauges only after a nil-error write or unlink
func ruleC03R4(c *Ctx) {
	fn := c.P.Fn(aUnloadChunk)
	writes := c.callsTo(fn, anchorPred(aWriteFileAt))
	if len(writes) != 1 {
		c.bad("C03.R4", fn, "quota test before the write", fn.Pos(), fmt.Sprintf("expected exactly one util.WriteFileAt call, found %d", len(writes)))
		return
	}
	w := writes[0]
	// quota test: If whose condition mentions maxTotalBytes
	var quotaIf *ssa.If
	eachInstr(fn, func(in ssa.Instruction) {
		if iff, ok := in.(*ssa.If); ok && mentions(iff.Cond, isFieldAddrOf("buffer/hybridbuffer.chunkOperator.maxTotalBytes")) {
			quotaIf = iff
		}
	})
	okQ := quotaIf != nil
	why := "no comparison against maxTotalBytes"
	overEdge := 0 // the successor of quotaIf taken when the chunk does not fit
	viaHelper := false
	if quotaIf == nil {
		// the comparison may stand in a private helper of UnloadChunk that answers "is there space for n bytes" (or "is it
		// over the limit"): the test in UnloadChunk is then the branch on that helper's result
		isMax := isFieldAddrOf("buffer/hybridbuffer.chunkOperator.maxTotalBytes")
		isUsedH := isFieldAddrOf("buffer/hybridbuffer.chunkOperatorMetrics.persistentChunkBytes")
		for h := range c.helpersOf(fn) {
			if h.Signature.Results().Len() != 1 || !isBoolType(h.Signature.Results().At(0).Type()) {
				continue
			}
			rvs := returnedValues(h, 0)
			if len(rvs) != 1 {
				continue
			}
			bo, ok := strip(rvs[0].Val).(*ssa.BinOp)
			if !ok || !mentions(bo, isMax) || !(mentions(bo.X, isUsedH) || mentions(bo.Y, isUsedH)) {
				continue
			}
			isLenParam := func(v ssa.Value) bool {
				pp, ok := v.(*ssa.Parameter)
				return ok && pp.Parent() == h && isIntType(pp.Type())
			}
			var overWhenTrue, shaped bool
			switch {
			case (bo.Op == token.GTR || bo.Op == token.GEQ) && mentions(bo.X, isLenParam), (bo.Op == token.LSS || bo.Op == token.LEQ) && mentions(bo.Y, isLenParam):
				overWhenTrue, shaped = true, true
			case (bo.Op == token.LSS || bo.Op == token.LEQ) && mentions(bo.X, isLenParam), (bo.Op == token.GTR || bo.Op == token.GEQ) && mentions(bo.Y, isLenParam):
				overWhenTrue, shaped = false, true
			}
			unsignedSub := false
			mentions(bo, func(v ssa.Value) bool {
				if sb, ok := v.(*ssa.BinOp); ok && sb.Op == token.SUB {
					if bt, ok := sb.Type().Underlying().(*types.Basic); ok && bt.Info()&types.IsUnsigned != 0 {
						unsignedSub = true
					}
				}
				return false
			})
			if !shaped || unsignedSub {
				continue
			}
			// the branch in UnloadChunk on the helper's result, called with the length of the chunk's data
			eachInstr(fn, func(in ssa.Instruction) {
				iff, ok := in.(*ssa.If)
				if !ok {
					return
				}
				v, neg := iff.Cond, false
				for {
					u, ok := v.(*ssa.UnOp)
					if !ok || u.Op != token.NOT {
						break
					}
					v, neg = u.X, !neg
				}
				cl, ok := v.(*ssa.Call)
				if !ok || cl.Common().StaticCallee() != h {
					return
				}
				lenOK := false
				for _, a := range cl.Common().Args {
					if mentions(a, isFieldAddrOf("base.LogChunk.Data")) {
						lenOK = true
					}
				}
				if !lenOK {
					return
				}
				quotaIf, viaHelper = iff, true
				if overWhenTrue != neg {
					overEdge = 0
				} else {
					overEdge = 1
				}
			})
		}
		okQ = quotaIf != nil
	}
	if okQ && viaHelper {
		q := &PathQ{P: c.P, Barrier: func(in ssa.Instruction) bool { return in == ssa.Instruction(quotaIf) }}
		if hit, _ := q.Reach(entryOf(fn), func(in ssa.Instruction) bool { return in == w.(ssa.Instruction) }); hit != nil {
			okQ, why = false, "the write is reachable without passing the quota test"
		}
		q2 := &PathQ{P: c.P}
		if hit, _ := q2.Reach(succPoint(quotaIf.Block(), overEdge), func(in ssa.Instruction) bool { return in == w.(ssa.Instruction) }); hit != nil {
			okQ, why = false, "the over-quota edge can still reach the write"
		}
	}
	if okQ && !viaHelper {
		// used + len(Data) > max, or len(Data) > max - used (or mirrored): the side with the chunk's length is the larger
		// one on the true edge; a difference must be computed in a signed type — max - used in an unsigned type wraps to
		// almost 2^64 as soon as the bytes on disk exceed the limit (limit lowered between runs, tolerated overshoot), and
		// from then on nothing is ever over quota
		bo, isBo := quotaIf.Cond.(*ssa.BinOp)
		isData := func(v ssa.Value) bool { return isFieldAddrOf("base.LogChunk.Data")(v) }
		isUsed := isFieldAddrOf("buffer/hybridbuffer.chunkOperatorMetrics.persistentChunkBytes")
		why = "the quota test is not a comparison of persistentChunkBytes, len(chunk.Data) and maxTotalBytes with the chunk's length on the larger side of the over-quota edge"
		okQ = isBo && (((bo.Op == token.GTR || bo.Op == token.GEQ) && mentions(bo.X, isData)) || ((bo.Op == token.LSS || bo.Op == token.LEQ) && mentions(bo.Y, isData))) &&
			(mentions(bo.X, isUsed) || mentions(bo.Y, isUsed))
		if okQ {
			unsignedSub := false
			mentions(quotaIf.Cond, func(v ssa.Value) bool {
				if sb, ok := v.(*ssa.BinOp); ok && sb.Op == token.SUB {
					if bt, ok := sb.Type().Underlying().(*types.Basic); ok && bt.Info()&types.IsUnsigned != 0 {
						unsignedSub = true
					}
				}
				return false
			})
			if unsignedSub {
				okQ, why = false, "the free space (maxTotalBytes − persistentChunkBytes) is computed in an unsigned type: once the bytes on disk exceed the limit (limit lowered between runs, or the overshoot the shutdown path tolerates) the difference wraps to almost 2^64 and every write is allowed — the queue has no space limit any more"
			}
		}
		if okQ {
			// every path to the write passes the test, and the over-limit edge cannot reach the write
			q := &PathQ{P: c.P, Barrier: func(in ssa.Instruction) bool { return in == ssa.Instruction(quotaIf) }}
			if hit, _ := q.Reach(entryOf(fn), func(in ssa.Instruction) bool { return in == w.(ssa.Instruction) }); hit != nil {
				okQ, why = false, "the write is reachable without passing the quota test"
			}
			q2 := &PathQ{P: c.P}
			if hit, _ := q2.Reach(succPoint(quotaIf.Block(), 0), func(in ssa.Instruction) bool { return in == w.(ssa.Instruction) }); hit != nil {
				okQ, why = false, "the over-quota edge can still reach the write"
			}
		}
	}
	c.check(okQ, "C03.R4", fn, "quota test before the write", w.Pos(), "persistentChunkBytes + len(Data) > maxTotalBytes dominates the write and its true edge never writes", why)
	// effects of success only through werr == nil
	nilE := nilEdges(w.Value(), true)
	var effects []ssa.Instruction
	eachInstr(fn, func(in ssa.Instruction) {
		if st, ok := in.(*ssa.Store); ok {
			f := fieldOf(st.Addr)
			if f == "base.LogChunk.Saved" || f == "base.LogChunk.Data" {
				effects = append(effects, in)
			}
		}
		if ci, ok := in.(ssa.CallInstruction); ok && ci.Common().IsInvoke() {
			m := ci.Common().Method.Name()
			f := fieldOf(ci.Common().Value)
			if (m == "Add" || m == "Inc") && strings.HasPrefix(f, "buffer/hybridbuffer.chunkOperatorMetrics.persistent") {
				effects = append(effects, in)
			}
		}
	})
	c.floor("C03.R4", "success effects in UnloadChunk (Saved, Data, gauges)", len(effects), 4)
	for _, e := range effects {
		ok := false
		for b, si := range nilE {
			if c.onlyViaEdge(fn, e, b, si) {
				ok = true
			}
		}
		c.check(ok, "C03.R4", fn, "success effect only after nil-error write: "+instrDesc(e), e.Pos(),
			"only reachable through the werr == nil edge of WriteFileAt", "a chunk is marked saved / its memory released / the gauge increased without a successful write")
	}
	// the bytes written are the chunk's data under the chunk's ID
	okArgs := fieldOf(w.Common().Args[1]) == "base.LogChunk.ID" && fieldOf(w.Common().Args[2]) == "base.LogChunk.Data"
	c.check(okArgs, "C03.R4", fn, "WriteFileAt(dir, chunk.ID, chunk.Data)", w.Pos(), "file name and contents come from the same chunk", "the file written is not (chunk.ID, chunk.Data)")
	// RemoveChunk
	rm := c.P.Fn(aRemoveChunk)
	ul := c.callsTo(rm, anchorPred(aUnlinkAt))
	if len(ul) == 1 {
		ne := nilEdges(ul[0].Value(), true)
		eachInstr(rm, func(in ssa.Instruction) {
			ci, ok := in.(ssa.CallInstruction)
			if !ok || !ci.Common().IsInvoke() {
				return
			}
			m := ci.Common().Method.Name()
			f := fieldOf(ci.Common().Value)
			if (m == "Sub" || m == "Dec") && strings.HasPrefix(f, "buffer/hybridbuffer.chunkOperatorMetrics.persistent") {
				okE := false
				for b, si := range ne {
					if c.onlyViaEdge(rm, in, b, si) {
						okE = true
					}
				}
				c.check(okE, "C03.R4", rm, "gauge decreased only after successful unlink: "+instrDesc(in), in.Pos(), "only via the nil-error edge of UnlinkFileAt", "the persistent gauges are decreased although the file could not be removed")
			}
		})
	} else {
		c.bad("C03.R4", rm, "gauge decreased only after successful unlink", rm.Pos(), "expected one UnlinkFileAt call")
	}
	// recovered chunks add their stat size
	orc := c.P.Fn(aOpRecovered)
	okAdd := false
	eachInstr(orc, func(in ssa.Instruction) {
		ci, ok := in.(ssa.CallInstruction)
		if ok && ci.Common().IsInvoke() && ci.Common().Method.Name() == "Add" && fieldOf(ci.Common().Value) == "buffer/hybridbuffer.chunkOperatorMetrics.persistentChunkBytes" {
			if mentions(ci.Common().Args[0], func(v ssa.Value) bool {
				cl, ok := v.(*ssa.Call)
				return ok && cl.Common().StaticCallee() != nil && isAnchor(cl.Common().StaticCallee(), "util.StatFileAt")
			}) {
				okAdd = true
			}
		}
	})
	c.check(okAdd, "C03.R4", orc, "recovered chunk adds its file size to the byte gauge", orc.Pos(), "persistentChunkBytes.Add(stat.Size) with stat from StatFileAt", "recovered files are not added to the byte gauge used by the quota test")
}

func instrDesc(in ssa.Instruction) string {
	switch x := in.(type) {
	case *ssa.Store:
		return "store " + fieldOf(x.Addr)
	case ssa.CallInstruction:
		cc := x.Common()
		if cc.IsInvoke() {
			return fieldOf(cc.Value) + "." + cc.Method.Name()
		}
		if f := cc.StaticCallee(); f != nil {
			return "call " + fnBaseName(f)
		}
	}
	return in.String()
}

// R5: zero-length ⇒ corrupted, never forwarded; abort keeps the chunk in hand
func ruleC03R5(c *Ctx) {
	fn := c.P.Fn(aLoadToOut)
	var sel *ssa.Select
	sendIdx, closedIdx := -1, -1
	eachInstr(fn, func(in ssa.Instruction) {
		if s, ok := in.(*ssa.Select); ok {
			for i, st := range s.States {
				if st.Dir == types.SendOnly && fieldOf(st.Chan) == fFeedOut {
					sel, sendIdx = s, i
				}
			}
			if sel == s {
				for i, st := range s.States {
					if st.Dir == types.RecvOnly && mentions(st.Chan, isFieldAddrOf("buffer/hybridbuffer.outputFeeder.inputClosed")) {
						closedIdx = i
					}
				}
			}
		}
	})
	if sel == nil {
		c.bad("C03.R5", fn, "output send", fn.Pos(), "no select sending on outputChannel")
		return
	}
	c.check(closedIdx >= 0, "C03.R5", fn, "output send can be aborted by inputClosed", sel.Pos(), "the select has a case on inputClosed", "the blocking send on outputChannel has no inputClosed case (Destroy would hang on a stalled consumer)")
	// emptiness test of chunk.Data
	var emptyEdges = map[*ssa.BasicBlock]int{}
	eachInstr(fn, func(in ssa.Instruction) {
		iff, ok := in.(*ssa.If)
		if !ok {
			return
		}
		em, ok := asEmptiness(iff.Cond)
		if ok && mentions(em.X, isFieldAddrOf("base.LogChunk.Data")) {
			if em.EmptyOnTrue {
				emptyEdges[iff.Block()] = 0
			} else {
				emptyEdges[iff.Block()] = 1
			}
		}
	})
	if len(emptyEdges) == 0 {
		c.bad("C03.R5", fn, "zero-length chunk is corrupt", fn.Pos(), "loadToOutput does not test len(chunk.Data) == 0")
	}
	sC := newSumm(c.P, anchorPred(aOnCorrupted))
	sC.AllowEmptyGuards, sC.LoopsRunOnce = false, false
	for b, si := range emptyEdges {
		c.mustBeforeReturn("C03.R5", fn, succPoint(b, si), sC, "zero-length chunk is corrupt", "chunkManager.OnChunkCorrupted", b.Instrs[len(b.Instrs)-1].Pos(), nil)
		q := &PathQ{P: c.P}
		hit, _ := q.Reach(succPoint(b, si), func(in ssa.Instruction) bool { return in == ssa.Instruction(sel) })
		c.check(hit == nil, "C03.R5", fn, "zero-length chunk never forwarded", sel.Pos(), "the empty edge cannot reach the output send", "a zero-length chunk can be sent to the consumer")
		// every path to the send passes the test
		qq := &PathQ{P: c.P, Barrier: func(in ssa.Instruction) bool { return in == b.Instrs[len(b.Instrs)-1] }}
		hit2, _ := qq.Reach(entryOf(fn), func(in ssa.Instruction) bool { return in == ssa.Instruction(sel) })
		c.check(hit2 == nil, "C03.R5", fn, "length test dominates the output send", sel.Pos(), "the send is only reachable through the length test", "the output send is reachable without the zero-length test")
	}
	// load failure: returns true (feeder continues), chunk was dropped (R3)
	// false only from the inputClosed case
	if closedIdx >= 0 {
		cb := selectCaseBlock(sel, closedIdx)
		for _, rv := range returnedValues(fn, 0) {
			if retKind(rv.Val) == "true" {
				continue
			}
			c.check(c.onlyViaBlock(fn, rv.At, cb), "C03.R5", fn, "false (aborted) only from the inputClosed case", rv.At.Pos(), "the non-true return is only reachable through the inputClosed case", "loadToOutput reports 'aborted' on a path where the chunk was dropped, corrupted or forwarded (it would be saved again / counted twice)")
		}
	}
	_ = sendIdx
	// Run: chunk in hand stored exactly when loadToOutput returned false
	run := c.P.Fn(aFeederRun)
	isCallee := func(name string) func(ssa.CallInstruction) bool {
		return func(s ssa.CallInstruction) bool {
			f := s.Common().StaticCallee()
			return f != nil && isAnchor(f, name)
		}
	}
	lt := c.sitesWhereR(run, isCallee(aLoadToOut))
	if len(lt) != 1 {
		c.bad("C03.R5", run, "chunk in hand kept on abort", run.Pos(), "expected one loadToOutput call in the feeder's Run (or its private helpers)")
		return
	}
	fe := boolEdges(lt[0].Value(), false)
	if loopFn := lt[0].Parent(); loopFn != run && len(c.sitesWhereR(loopFn, isCallee(aSaveAll))) == 0 {
		// The feed loop stands in a private helper that hands the chunk in hand back to Run: what the helper returns is
		// the zero chunk or the received chunk, the latter exactly via the 'aborted' edge of loadToOutput, and Run passes
		// the helper's result on to saveEverything.
		recvd := func(v ssa.Value) bool {
			return mentions(v, func(x ssa.Value) bool {
				u, ok := x.(*ssa.UnOp)
				return ok && u.Op == token.ARROW && fieldOf(u.X) == fFeedIn
			})
		}
		okKeep, why := true, ""
		for _, rv := range returnedValues(loopFn, 0) {
			if _, isK := strip(rv.Val).(*ssa.Const); isK {
				continue
			}
			if isZeroStruct(rv.Val) {
				continue
			}
			if !recvd(rv.Val) {
				okKeep, why = false, "the chunk handed back by "+anchorName(loopFn)+" is not the chunk received from inputChannel"
				continue
			}
			via := false
			for b, si := range fe {
				if c.onlyViaEdge(loopFn, rv.At, b, si) {
					via = true
				}
			}
			if !via {
				okKeep, why = false, "the received chunk is handed back on a path where loadToOutput did not report 'aborted' (it was already resolved)"
			}
		}
		for b, si := range fe {
			q := &PathQ{P: c.P}
			if hit, _ := q.Reach(succPoint(b, si), func(in ssa.Instruction) bool {
				if in == lt[0].(ssa.Instruction) {
					return true
				}
				r, ok := in.(*ssa.Return)
				return ok && len(r.Results) > 0 && !recvd(r.Results[0])
			}); hit != nil {
				okKeep, why = false, "after an aborted output the chunk in hand is not handed back (the loop continues or a zero chunk is returned)"
			}
		}
		// Run: the helper's result reaches saveEverything
		flows := false
		for _, sv := range c.sitesWhereR(run, isCallee(aSaveAll)) {
			if len(sv.Common().Args) < 2 {
				continue
			}
			v := resolve(sv.Common().Args[1])
			for hops := 0; hops < 3; hops++ {
				prm, isP := v.(*ssa.Parameter)
				if !isP {
					break
				}
				idx := -1
				for i, q := range prm.Parent().Params {
					if q == prm {
						idx = i
					}
				}
				sites := c.callsIn2(run, prm.Parent())
				if len(sites) != 1 || idx < 0 || idx >= len(sites[0].Common().Args) {
					break
				}
				v = resolve(sites[0].Common().Args[idx])
			}
			if cl, ok := v.(*ssa.Call); ok && cl.Common().StaticCallee() == loopFn {
				flows = true
			}
		}
		if !flows {
			okKeep, why = false, "the chunk handed back by "+anchorName(loopFn)+" does not reach saveEverything"
		}
		c.check(okKeep, "C03.R5", run, "chunk in hand kept exactly when output was aborted", lt[0].Pos(),
			"the feed loop hands back the received chunk only via the false edge of loadToOutput, that edge always hands it back, and Run gives it to saveEverything", why)
		return
	}
	run = lt[0].Parent()
	// the variable passed to saveEverything
	save := c.sitesWhereR(run, isCallee(aSaveAll))
	var cell *ssa.Alloc
	if len(save) == 1 {
		if u, ok := strip(save[0].Common().Args[1]).(*ssa.UnOp); ok {
			cell, _ = strip(u.X).(*ssa.Alloc)
		}
	}
	var phi *ssa.Phi
	if len(save) == 1 && cell == nil {
		phi, _ = strip(save[0].Common().Args[1]).(*ssa.Phi)
	}
	okKeep := false
	why := "could not identify the chunk-in-hand variable passed to saveEverything"
	recvd := func(v ssa.Value) bool {
		return mentions(v, func(x ssa.Value) bool {
			u, ok := x.(*ssa.UnOp)
			return ok && u.Op == token.ARROW && fieldOf(u.X) == fFeedIn
		})
	}
	if phi != nil {
		// lifted variable: phi edges are zero value or the received chunk, the latter only from the false edge
		okKeep = true
		for i, e := range phi.Edges {
			if _, isK := e.(*ssa.Const); isK {
				continue
			}
			if !recvd(e) {
				okKeep, why = false, "the chunk in hand is not the chunk received from inputChannel"
				continue
			}
			pred := phi.Block().Preds[i]
			via := false
			for b, si := range fe {
				if b.Succs[si] == pred || b == pred && b.Succs[si] == phi.Block() {
					via = true
				}
				// the false edge may lead through a logging block
				q := &PathQ{P: c.P, EdgeBlocked: func(x *ssa.BasicBlock, i int) bool { return x == b && i == si }}
				if hit, _ := q.Reach(entryOf(run), func(in ssa.Instruction) bool { return in == pred.Instrs[len(pred.Instrs)-1] && pred != b }); hit == nil && pred != b {
					via = true
				}
			}
			if !via {
				okKeep, why = false, "the received chunk reaches saveEverything on a path where loadToOutput did not report 'aborted' (it was already resolved)"
			}
		}
		// and the false edge must lead to this phi with the chunk (not the zero value): no other way out of the false edge
		for b, si := range fe {
			q := &PathQ{P: c.P}
			if hit, _ := q.Reach(succPoint(b, si), func(in ssa.Instruction) bool {
				return in.Block() == lt[0].Block() && in == lt[0].(ssa.Instruction)
			}); hit != nil {
				okKeep, why = false, "after an aborted output the loop continues and the chunk in hand is lost"
			}
		}
	} else if cell != nil {
		okKeep = true
		for _, ref := range *cell.Referrers() {
			st, ok := ref.(*ssa.Store)
			if !ok || st.Addr != cell {
				continue
			}
			if !recvd(st.Val) {
				okKeep, why = false, "the chunk in hand is not the chunk received from inputChannel"
				continue
			}
			via := false
			for b, si := range fe {
				if c.onlyViaEdge(run, st, b, si) {
					via = true
				}
			}
			if !via {
				okKeep, why = false, "the chunk in hand is stored on a path where loadToOutput did not report 'aborted'"
			}
		}
		for b, si := range fe {
			q := &PathQ{P: c.P, Barrier: func(in ssa.Instruction) bool {
				st, ok := in.(*ssa.Store)
				return ok && st.Addr == cell
			}}
			if hit, _ := q.Reach(succPoint(b, si), func(in ssa.Instruction) bool { return callInstrSet(save)[in] }); hit != nil {
				okKeep, why = false, "an aborted output reaches saveEverything without keeping the chunk in hand"
			}
		}
	}
	c.check(okKeep, "C03.R5", run, "chunk in hand kept exactly when output was aborted", lt[0].Pos(),
		"the value given to saveEverything is the received chunk only via the false edge of loadToOutput, and that edge always keeps it", why)
}

// R6: single producer / single consumer ownership of the two queues
func ruleC03R6(c *Ctx) {
	type own struct {
		field string
		kinds map[string][]string // kind -> allowed functions
	}
	owns := []own{
		{fBufIn, map[string][]string{"send": {aBufAccept, aBufRecover}, "close": {aBufDestroy}}},
		{fFeedIn, map[string][]string{"recv": {aFeederRun, aSaveAll}, "range": {aSaveAll}}},
		{fFeedOut, map[string][]string{"send": {aLoadToOut}, "close": {aFeederRun}, "recv": {aSaveAll}, "range": {aSaveAll}}},
	}
	for _, o := range owns {
		ops := c.chanFieldOps(o.field)
		c.floor("C03.R6", "operations on "+o.field, len(ops), 2)
		for _, op := range ops {
			allowed := o.kinds[op.Kind]
			ok := ownedBy(op.In.Parent(), allowed...)
			c.check(ok, "C03.R6", op.In.Parent(), op.Kind+" on "+o.field, op.In.Pos(),
				"operation is in its owner {"+strings.Join(allowed, ", ")+"}", op.Kind+" on "+o.field+" outside its owner {"+strings.Join(allowed, ", ")+"}")
		}
	}
	// both ends of the persistent queue are the same channel
	nb := c.P.Fn(aNewBufferer)
	var mk *ssa.MakeChan
	eachInstr(nb, func(in ssa.Instruction) {
		if m, ok := in.(*ssa.MakeChan); ok && typeName(m.Type().Underlying().(*types.Chan).Elem()) == "base.LogChunk" {
			mk = m
		}
	})
	okSame := false
	if mk != nil {
		toField, toFeeder := false, false
		for _, st := range storesToField(nb, fBufIn) {
			if resolve(st.Val) == ssa.Value(mk) {
				toField = true
			}
		}
		for _, s := range c.callsTo(nb, anchorPred(aNewFeeder)) {
			for _, a := range s.Common().Args {
				if resolve(a) == ssa.Value(mk) || mentions(a, func(v ssa.Value) bool { return v == ssa.Value(mk) }) {
					toFeeder = true
				}
			}
		}
		okSame = toField && toFeeder
	}
	c.check(okSame, "C03.R6", nb, "bufferer.inputChannel and feeder.inputChannel are one channel", nb.Pos(), "the single make(chan LogChunk) flows into the bufferer field and into newOutputFeeder", "the producer and consumer ends of the persistent queue are not the same channel")
	nf := c.P.Fn(aNewFeeder)
	okP := false
	for _, st := range storesToField(nf, fFeedIn) {
		if p, ok := resolve(st.Val).(*ssa.Parameter); ok {
			if _, isChan := p.Type().Underlying().(*types.Chan); !isChan {
				continue
			}
			okP = true
		}
	}
	c.check(okP, "C03.R6", nf, "feeder.inputChannel = parameter", nf.Pos(), "newOutputFeeder stores its inputChannel parameter", "newOutputFeeder does not store the channel it is given")
	// outputChannel handed out only as ChunkConsumerArgs.InputChannel
	n := 0
	for _, fn := range c.P.universe {
		for _, in := range fieldAccesses(fn, fFeedOut) {
			n++
			ok := ownedBy(fn, aRegConsumer, aNewFeeder, aLoadToOut, aFeederRun, aSaveAll, "buffer/hybridbuffer.(*outputFeeder).NumOutput")
			c.check(ok, "C03.R6", fn, "access to outputFeeder.outputChannel", in.Pos(), "the in-memory window is only touched by the feeder and handed to the registered consumer", "outputChannel accessed outside the feeder")
		}
	}
	// one feeder goroutine per bufferer
	goSites, inGo := c.feederGoSites()
	for _, g := range goSites {
		fn := g.Parent()
		c.check(ownedBy(fn, aBufStart), "C03.R6", fn, "go feeder.Run", g.Pos(), "the feeder goroutine is launched only by bufferer.Start", "a second feeder goroutine would break FIFO order")
	}
	c.floor("C03.R6", "go feeder.Run sites", len(goSites), 1)
	for _, s := range c.callSitesOf(anchorPred(aFeederRun)) {
		if _, isGo := s.(*ssa.Go); !isGo && !inGo[s.Parent()] {
			c.bad("C03.R6", s.Parent(), "feeder.Run called synchronously", s.Pos(), "feeder.Run must only run as the single feeder goroutine")
		}
	}
	st := c.P.Fn(aBufStart)
	cnt := 0
	for _, s := range callsIn(st) {
		if _, ok := s.(*ssa.Go); ok {
			cnt++
		}
	}
	c.check(cnt == 1 && len(naturalLoops(st)) == 0, "C03.R6", st, "Start launches exactly one goroutine", st.Pos(), "one go statement, no loop", "bufferer.Start launches more than one goroutine")
	// one consumer registered per bufferer on each path of the per-output setup
	starter := returnedClosure(c.P.Fn(aPrepPipe))
	for _, f := range starter.AnonFuncs {
		if len(sitesWhere(f, func(s ssa.CallInstruction) bool { return invokeOf(s, "base/bconfig.ChunkBufferConfig", "NewBufferer") })) == 0 {
			continue
		}
		cs := &CountSpec{P: c.P, Classes: []string{"RegisterNewConsumer", "bufferer.Start"}, Site: func(s ssa.CallInstruction) int {
			if invokeOf(s, "base.ChunkBufferer", "RegisterNewConsumer") {
				return 0
			}
			if invokeOf(s, "base.ChunkBufferer", "Start") {
				return 1
			}
			return -1
		}}
		outs := cs.Enum(f, entryOf(f), nil)
		good := len(outs) > 0
		var why []string
		for _, o := range outs {
			if o.Counts[0] != 1 || o.Counts[1] != 1 {
				good = false
				why = append(why, cs.describe(o))
			}
		}
		c.check(good, "C03.R6", f, "exactly one consumer and one Start per bufferer", f.Pos(), fmt.Sprintf("all %d path outcomes register one consumer and start the bufferer once", len(outs)), "a path registers "+strings.Join(why, "; "))
	}
}

// R7: recovery scan sorted and filtered
func ruleC03R7(c *Ctx) {
	fn := c.P.Fn(aScan)
	var appends []ssa.Instruction
	c.eachInstrR(fn, func(in ssa.Instruction) {
		if cl, ok := in.(*ssa.Call); ok {
			if bi, ok := cl.Call.Value.(*ssa.Builtin); ok && bi.Name() == "append" {
				if sl, ok := cl.Type().Underlying().(*types.Slice); ok && typeName(sl.Elem()) == "base.LogChunk" {
					appends = append(appends, in)
				}
			}
		}
	})
	if len(appends) == 0 {
		c.bad("C03.R7", fn, "recovery list construction", fn.Pos(), "no append of LogChunk found")
		return
	}
	sorts := c.callsTo(fn, extPred("sort.Strings", "slices.Sort"))
	c.checkOrder("C03.R7", fn, "sort.Strings(names)", callInstrSet(sorts), "append to the recovery list", instrSet(appends))
	// what is sorted is what is iterated
	if len(sorts) == 1 {
		names := sorts[0].Common().Args[0]
		iter := false
		c.eachInstrR(fn, func(in ssa.Instruction) {
			if ia, ok := in.(*ssa.IndexAddr); ok && (ia.X == names || c.resolveR(fn, ia.X) == resolve(names)) {
				iter = true
			}
		})
		c.check(iter, "C03.R7", fn, "the sorted slice is the one iterated", sorts[0].Pos(), "loop indexes the sorted names", "the loop does not iterate the sorted slice")
	}
	match := c.sitesWhereR(fn, func(s ssa.CallInstruction) bool {
		return fieldCallOf(s, "buffer/hybridbuffer.chunkOperator.matchChunkID")
	})
	for _, ap := range appends {
		lp := loopOf(ap.Parent(), ap.Block())
		okM := false
		if lp != nil && len(match) == 1 && match[0].Parent() == ap.Parent() {
			te := boolEdges(match[0].Value(), true)
			q := &PathQ{P: c.P, EdgeBlocked: edgeSet(te)}
			hit, _ := q.Reach(Point{lp.header, 0}, func(in ssa.Instruction) bool { return in == ap })
			okM = hit == nil && len(te) > 0
		}
		c.check(okM, "C03.R7", fn, "only names accepted by matchChunkID are recovered", ap.Pos(), "within an iteration the append is only reachable through matchChunkID(name) == true", "a file whose name the output's chunk-id matcher rejects can be recovered as a chunk")
		// the id file is skipped
		idConst := pkgConstString(c.P, "buffer/hybridbuffer", "idFileName")
		okID := false
		eachInstr(ap.Parent(), func(in ssa.Instruction) {
			bo, ok := in.(*ssa.BinOp)
			if !ok || bo.Op != token.EQL {
				return
			}
			k, ok := bo.Y.(*ssa.Const)
			if !ok || k.Value == nil || k.Value.Kind() != constant.String || constant.StringVal(k.Value) != idConst {
				return
			}
			for b, si := range boolEdges(bo, true) {
				q := &PathQ{P: c.P, Barrier: func(x ssa.Instruction) bool { return lp != nil && x == lp.header.Instrs[0] }}
				if hit, _ := q.Reach(succPoint(b, si), func(x ssa.Instruction) bool { return x == ap }); hit == nil {
					okID = true
				}
			}
		})
		c.check(okID || okM, "C03.R7", fn, "the .id file is never recovered as a chunk", ap.Pos(), "name == idFileName skips the iteration (and the matcher filters)", "the id file could be recovered as a chunk")
		// the recovered chunk is {ID: name, Data: nil, Saved: true}
		okLit := false
		eachInstr(ap.Parent(), func(in ssa.Instruction) {
			if st, ok := in.(*ssa.Store); ok && fieldOf(st.Addr) == "base.LogChunk.Saved" {
				if k, ok := st.Val.(*ssa.Const); ok && k.Value != nil && constant.BoolVal(k.Value) {
					okLit = true
				}
			}
		})
		c.check(okLit, "C03.R7", fn, "recovered chunks are marked Saved", ap.Pos(), "Saved: true", "recovered chunks are not marked as saved (they would be rewritten / never loaded)")
	}
}

func pkgConstString(P *Prog, rel, name string) string {
	p := P.pkgByRel[rel]
	if p == nil {
		broken("package %s not loaded", rel)
	}
	obj := p.Types.Scope().Lookup(name)
	k, ok := obj.(*types.Const)
	if !ok {
		broken("constant %s.%s not found", rel, name)
	}
	return constant.StringVal(k.Val())
}

// R8: capacities and the spill threshold derive from the same parameters
func ruleC03R8(c *Ctx) {
	isGlobal := func(name string) func(ssa.Value) bool {
		return func(v ssa.Value) bool {
			g, ok := v.(*ssa.Global)
			return ok && g.Pkg.Pkg.Path() == modPath+"/defs" && g.Name() == name
		}
	}
	nf := c.P.Fn(aNewFeeder)
	okOut := false
	eachInstr(nf, func(in ssa.Instruction) {
		if m, ok := in.(*ssa.MakeChan); ok && mentions(m.Size, isGlobal("BufferMaxNumChunksInMemory")) {
			okOut = true
		}
	})
	c.check(okOut, "C03.R8", nf, "outputChannel capacity = BufferMaxNumChunksInMemory", nf.Pos(), "make(chan, defs.BufferMaxNumChunksInMemory)", "the in-memory window is not sized from defs.BufferMaxNumChunksInMemory")
	acc := c.P.Fn(aBufAccept)
	okTh := false
	eachInstr(acc, func(in ssa.Instruction) {
		if iff, ok := in.(*ssa.If); ok {
			if mentions(iff.Cond, isGlobal("BufferMaxNumChunksInMemory")) && mentions(iff.Cond, func(v ssa.Value) bool {
				cl, ok := v.(*ssa.Call)
				return ok && cl.Common().StaticCallee() != nil && isAnchor(cl.Common().StaticCallee(), "buffer/hybridbuffer.(*outputFeeder).NumOutput")
			}) {
				okTh = true
			}
		}
	})
	c.check(okTh, "C03.R8", acc, "spill threshold compares NumOutput with BufferMaxNumChunksInMemory", acc.Pos(), "the spill decision uses the window's own capacity parameter", "the spill threshold does not derive from the in-memory window capacity")
	nb := c.P.Fn(aNewBufferer)
	okIn := false
	eachInstr(nb, func(in ssa.Instruction) {
		if m, ok := in.(*ssa.MakeChan); ok && mentions(m.Size, isGlobal("BufferMaxNumChunksInQueue")) {
			okIn = true
		}
	})
	c.check(okIn, "C03.R8", nb, "inputChannel capacity = BufferMaxNumChunksInQueue", nb.Pos(), "make(chan, defs.BufferMaxNumChunksInQueue)", "the persistent queue is not sized from defs.BufferMaxNumChunksInQueue")
	no := c.P.Fn("buffer/hybridbuffer.(*outputFeeder).NumOutput")
	okNO := false
	for _, rv := range returnedValues(no, 0) {
		if mentions(rv.Val, isFieldAddrOf(fFeedOut)) {
			okNO = true
		}
	}
	c.check(okNO, "C03.R8", no, "NumOutput = len(outputChannel)", no.Pos(), "measures the in-memory window", "NumOutput does not measure the output channel")
}

// R9: resolution callbacks balance the pending gauge
func ruleC03R9(c *Ctx) {
	const pfx = "buffer/hybridbuffer.chunkManagerMetrics."
	type exp struct {
		anchor string
		inc    string // the one counter incremented ("" = an input counter)
		gauge  string // "Inc" or "Dec"
	}
	exps := []exp{
		{aOnInput, "", "Inc"}, {aOnInputRec, "", "Inc"},
		{aOnConsumed, "consumedChunksTotal", "Dec"}, {aOnLeftover, "leftoverChunksTotal", "Dec"},
		{aOnCorrupted, "droppedChunksTotal", "Dec"}, {aOnDropped, "droppedChunksTotal", "Dec"},
	}
	for _, e := range exps {
		fn := c.P.Fn(e.anchor)
		classes := []string{"pendingChunks.Inc", "pendingChunks.Dec", "consumed", "leftover", "dropped", "inputTransient", "inputPersistent"}
		idx := map[string]int{"consumedChunksTotal": 2, "leftoverChunksTotal": 3, "droppedChunksTotal": 4, "inputChunksTotalTransient": 5, "inputChunksTotalPersistent": 6}
		cs := &CountSpec{P: c.P, Classes: classes, Descend: func(f *ssa.Function) bool {
			if isAnchor(f, aOnDropped, aOnConsumed, aOnLeftover, aOnCorrupted, aUnloadDrop, aLoadDrop) {
				return true
			}
			// unexported helpers of the manager (a shared "count as dropped" helper)
			return hybridDescend(f) && f.Signature.Recv() != nil && !f.Object().Exported() && strings.Contains(f.Signature.Recv().Type().String(), "chunkManager")
		},
			Site: func(s ssa.CallInstruction) int {
				cc := s.Common()
				if !cc.IsInvoke() {
					return -1
				}
				f := fieldOf(cc.Value)
				if !strings.HasPrefix(f, pfx) {
					return -1
				}
				f = strings.TrimPrefix(f, pfx)
				m := cc.Method.Name()
				if f == "pendingChunks" {
					switch m {
					case "Inc":
						return 0
					case "Dec":
						return 1
					}
					return -1
				}
				if m == "Inc" {
					if i, ok := idx[f]; ok {
						return i
					}
				}
				return -1
			}}
		outs := cs.Enum(fn, entryOf(fn), nil)
		good := len(outs) > 0
		var why []string
		for _, o := range outs {
			ok := true
			if e.gauge == "Inc" {
				ok = o.Counts[0] == 1 && o.Counts[1] == 0 && o.Counts[5]+o.Counts[6] == 1 && o.Counts[2]+o.Counts[3]+o.Counts[4] == 0
			} else {
				ok = o.Counts[0] == 0 && o.Counts[1] == 1 && o.Counts[2]+o.Counts[3]+o.Counts[4] == 1 && o.Counts[5]+o.Counts[6] == 0
				// the expected counter, or 'dropped' when a save failed inside OnChunkLeftover
				if ok && o.Counts[idx[e.inc]] != 1 && !(e.anchor == aOnLeftover && o.Counts[4] == 1) {
					ok = false
				}
			}
			if !ok {
				good = false
				why = append(why, cs.describe(o))
			}
		}
		c.check(good, "C03.R9", fn, "pending gauge "+e.gauge+" once and exactly one outcome counter", fn.Pos(),
			fmt.Sprintf("all %d path outcomes balance", len(outs)), "unbalanced accounting: "+strings.Join(why, "; "))
	}
}

// R10: the byte gauge — left-hand side of the quota test — moves only together
// with the set of files: up after a successful write or for a recovered file,
// down after a successful unlink. Anything else is a reviewed entry keyed by
// function + canonical argument expression.
var c03R10Reviewed = map[string]string{
	"buffer/hybridbuffer.(*chunkOperator).OnChunkDropped|Sub|len(param:chunk.Data)": "the argument is the in-memory length, which is 0 for every saved chunk reaching this function: saved chunks are unloaded (UnloadChunk sets Data=nil with Saved=true, C03.R4) and a failed load leaves Data nil; the file stays on disk and therefore stays counted",
	"buffer/hybridbuffer.newChunkOperator|Set|0":                                    "constructor reset before the operator is shared",
}

func ruleC03R10(c *Ctx) {
	const g = "buffer/hybridbuffer.chunkOperatorMetrics.persistentChunkBytes"
	n := 0
	for _, fn := range c.P.universe {
		for _, s := range callsIn(fn) {
			cc := s.Common()
			if !cc.IsInvoke() || fieldOf(cc.Value) != g {
				continue
			}
			m := cc.Method.Name()
			if m == "Get" {
				continue
			}
			n++
			arg := ""
			if len(cc.Args) > 0 {
				arg = canonOf(cc.Args[0])
			}
			construct := fmt.Sprintf("persistentChunkBytes.%s(%s)", m, arg)
			name := anchorName(fn)
			// an update that stands in a shared helper is judged at every call of the helper, under the caller's name
			if name != aUnloadChunk && name != aOpRecovered && name != aRemoveChunk {
				if _, rev := lookupReviewed(c03R10Reviewed, name+"|"+m+"|"+arg); !rev && fn.Parent() == nil && c.P.onlyCalledFrom(fn, c.P.allFuncs) {
					okAll := true
					var whyBad string
					for _, site := range c.P.staticSites[fn] {
						caller := site.Parent()
						if strings.Contains(caller.Synthetic, "wrapper") {
							continue
						}
						cn := anchorName(caller)
						okSite := false
						switch {
						case m == "Sub" && cn == aRemoveChunk:
							for _, u := range c.callsTo(caller, anchorPred(aUnlinkAt)) {
								for b, si := range nilEdges(u.Value(), true) {
									if c.onlyViaEdge(caller, site.(ssa.Instruction), b, si) {
										okSite = true
									}
								}
							}
						default:
							_, okSite = lookupReviewed(c03R10Reviewed, cn+"|"+m+"|"+arg)
						}
						if !okSite {
							okAll, whyBad = false, "called from "+cn+" at "+c.P.pos(site.Pos())
						}
					}
					c.check(okAll, "C03.R10", fn, construct, s.Pos(), "the update stands in a helper; every call of the helper is after a successful unlink or a reviewed entry of its caller",
						"the byte gauge used by the quota test changes in a helper that is "+whyBad+" without a matching change of the files on disk")
					continue
				}
			}
			switch {
			case m == "Add" && name == aUnloadChunk:
				ok := false
				for _, w := range c.callsTo(fn, anchorPred(aWriteFileAt)) {
					for b, si := range nilEdges(w.Value(), true) {
						if c.onlyViaEdge(fn, s, b, si) && canonOf(stripLen(cc.Args[0])) == canonOf(w.Common().Args[2]) {
							ok = true
						}
					}
				}
				c.check(ok, "C03.R10", fn, construct, s.Pos(), "added after a successful write, by the length of the data written", "the byte gauge is increased by something other than the bytes just written successfully")
			case m == "Add" && name == aOpRecovered:
				c.check(strings.Contains(arg, "util.StatFileAt"), "C03.R10", fn, construct, s.Pos(), "a recovered file adds its stat size", "a recovered file does not add its size on disk")
			case m == "Sub" && name == aRemoveChunk:
				ok := false
				for _, u := range c.callsTo(fn, anchorPred(aUnlinkAt)) {
					for b, si := range nilEdges(u.Value(), true) {
						if c.onlyViaEdge(fn, s, b, si) {
							ok = true
						}
					}
				}
				c.check(ok, "C03.R10", fn, construct, s.Pos(), "subtracted only after a successful unlink", "the byte gauge is decreased although the file is still there")
			default:
				if why, ok := lookupReviewed(c03R10Reviewed, name+"|"+m+"|"+arg); ok {
					c.assumed("C03.R10", fn, construct, s.Pos(), "reviewed: "+why)
				} else {
					c.bad("C03.R10", fn, construct, s.Pos(), "the byte gauge used by the quota test changes without a matching change of the files on disk (not after a successful write/unlink, not a recovered file, not a reviewed entry): the queue directory can outgrow its limit or reject chunks it has room for")
				}
			}
		}
	}
	c.floor("C03.R10", "updates of the byte gauge", n, 3)
}

// stripLen: int64(len(x)) -> x
func stripLen(v ssa.Value) ssa.Value {
	v = strip(v)
	if cv, ok := v.(*ssa.Convert); ok {
		v = strip(cv.X)
	}
	if cl, ok := v.(*ssa.Call); ok && isBuiltin(cl, "len") {
		return cl.Call.Args[0]
	}
	return v
}

// R11: memory window. In Accept a chunk reaches the queue still loaded only when the output window was found below the
// spill threshold: every path from the entry to the enqueue passes UnloadOrDropChunk or the "below threshold" edge of the
// comparison of NumOutput() with BufferMaxNumChunksInMemory. (The numeric bound itself is not decided; this is the
// necessary condition that nothing else can switch the spill off.)
func init() {
	register("C03", "C03.R11", ruleC03R11)
}

func ruleC03R11(c *Ctx) {
	fn := c.P.Fn(aBufAccept)
	// the enqueue: the select that sends on inputChannel
	var sends []ssa.Instruction
	for _, op := range chanOps(fn) {
		if op.Kind == "send" && fieldOf(op.Chan) == fBufIn {
			sends = append(sends, op.In)
		}
	}
	if len(sends) == 0 {
		broken("C03.R11: Accept no longer sends on inputChannel")
	}
	// the threshold comparison
	type edge struct {
		b  *ssa.BasicBlock
		si int
	}
	var below []edge
	eachInstr(fn, func(in ssa.Instruction) {
		iff, ok := in.(*ssa.If)
		if !ok {
			return
		}
		bo, ok := iff.Cond.(*ssa.BinOp)
		if !ok {
			return
		}
		mentionsWindow := func(v ssa.Value) bool {
			return mentions(v, func(x ssa.Value) bool {
				if cl, ok := x.(*ssa.Call); ok && cl.Common().StaticCallee() != nil && fnBaseName(cl.Common().StaticCallee()) == "NumOutput" {
					return true
				}
				return false
			})
		}
		mentionsLimit := func(v ssa.Value) bool {
			return mentions(v, func(x ssa.Value) bool {
				g, ok := x.(*ssa.Global)
				return ok && g.Name() == "BufferMaxNumChunksInMemory"
			})
		}
		// the threshold must not exceed the limit: the limit itself, limit/k (k>=1) or limit-k (k>=0)
		var atMostLimit func(v ssa.Value) bool
		atMostLimit = func(v ssa.Value) bool {
			v = strip(v)
			switch x := v.(type) {
			case *ssa.UnOp:
				if g, ok := x.X.(*ssa.Global); ok && x.Op == token.MUL {
					return g.Name() == "BufferMaxNumChunksInMemory"
				}
			case *ssa.BinOp:
				if k, ok := constInt(x.Y); ok {
					if (x.Op == token.QUO && k >= 1) || (x.Op == token.SUB && k >= 0) {
						return atMostLimit(x.X)
					}
				}
			}
			return false
		}
		if mentionsWindow(bo.X) && mentionsLimit(bo.Y) {
			c.check(atMostLimit(bo.Y), "C03.R11", fn, "the spill threshold is at most BufferMaxNumChunksInMemory", bo.Pos(),
				"the threshold is the limit, limit/k or limit-k", "the window is compared with an expression that can exceed BufferMaxNumChunksInMemory")
		} else if mentionsLimit(bo.X) && mentionsWindow(bo.Y) {
			c.check(atMostLimit(bo.X), "C03.R11", fn, "the spill threshold is at most BufferMaxNumChunksInMemory", bo.Pos(),
				"the threshold is the limit, limit/k or limit-k", "the window is compared with an expression that can exceed BufferMaxNumChunksInMemory")
		}
		switch {
		case mentionsWindow(bo.X) && mentionsLimit(bo.Y):
			switch bo.Op.String() {
			case ">=", ">":
				below = append(below, edge{iff.Block(), 1})
			case "<", "<=":
				below = append(below, edge{iff.Block(), 0})
			}
		case mentionsLimit(bo.X) && mentionsWindow(bo.Y):
			switch bo.Op.String() {
			case "<=", "<":
				below = append(below, edge{iff.Block(), 1})
			case ">", ">=":
				below = append(below, edge{iff.Block(), 0})
			}
		}
	})
	c.floor("C03.R11", "comparisons of the output window with BufferMaxNumChunksInMemory in Accept", len(below), 1)
	isUnload := func(in ssa.Instruction) bool {
		if s, ok := in.(ssa.CallInstruction); ok {
			if f := s.Common().StaticCallee(); f != nil && isAnchor(f, aUnloadDrop) {
				return true
			}
		}
		return false
	}
	for _, snd := range sends {
		q := &PathQ{P: c.P, Barrier: isUnload, EdgeBlocked: func(b *ssa.BasicBlock, si int) bool {
			for _, e := range below {
				if e.b == b && e.si == si {
					return true
				}
			}
			return false
		}}
		hit, trail := q.Reach(entryOf(fn), func(in ssa.Instruction) bool { return in == snd })
		c.check(hit == nil, "C03.R11", fn, "a chunk is queued still loaded only below the spill threshold", snd.Pos(),
			"every path to the enqueue passes UnloadOrDropChunk or the below-threshold edge of the window comparison",
			"the enqueue is reachable with a loaded chunk although the output window is at or above the spill threshold (the spill can be switched off by another condition): the queue of 500000 slots then holds loaded chunks and the in-memory bound is gone: "+c.P.trailString(trail))
	}
}

// feederGoSites: the go statements that launch the feeder loop, either "go feeder.Run()" or "go func() { …; feeder.Run() }()".
// The second result holds the closures that only run as such a goroutine.
func (c *Ctx) feederGoSites() ([]*ssa.Go, map[*ssa.Function]bool) {
	var out []*ssa.Go
	inGo := map[*ssa.Function]bool{}
	for _, fn := range c.P.universe {
		for _, s := range callsIn(fn) {
			g, ok := s.(*ssa.Go)
			if !ok {
				continue
			}
			for _, cal := range c.P.callees(g) {
				if isAnchor(cal, aFeederRun) {
					out = append(out, g)
					break
				}
				if cal.Parent() != nil && len(c.callsTo(cal, anchorPred(aFeederRun))) > 0 {
					// a closure launched by go only (its single use is this go statement)
					if mc, isMC := strip(g.Call.Value).(*ssa.MakeClosure); isMC && mc.Fn == cal && len(*mc.Referrers()) == 1 {
						out = append(out, g)
						inGo[cal] = true
						break
					}
					if f, isF := g.Call.Value.(*ssa.Function); isF && f == cal {
						out = append(out, g)
						inGo[cal] = true
						break
					}
				}
			}
		}
	}
	return out, inGo
}

// R12: the persistent-chunks gauge (and the byte gauge with it) moves at most once per chunk event. A chunk is counted
// persistent once (OnChunkRecovered or a successful UnloadChunk), so an exit event (consumed, corrupted, dropped,
// leftover, failed unload/load) that can decrement the gauge twice on one path leaves it one too low for the life
// of the process. Paths are enumerated through the manager's and the operator's methods.
func init() {
	register("C03", "C03.R12", ruleC03R12)
	register("C03", "C01.R8", ruleC01R8) // "recovered chunks first": the recovery is queued before Start returns
	register("C19", "C03.R12", ruleC03R12)
}

func ruleC03R12(c *Ctx) {
	const pfx = "buffer/hybridbuffer.chunkOperatorMetrics."
	roots := []string{aOnConsumed, aOnCorrupted, aOnDropped, aOnLeftover, aUnloadDrop, aLoadDrop}
	nSites := 0
	for _, a := range roots {
		fn := c.P.Fn(a)
		cs := &CountSpec{P: c.P, Classes: []string{"persistentChunks.Inc", "persistentChunks.Dec", "persistentChunkBytes.Add", "persistentChunkBytes.Sub"},
			Descend: func(f *ssa.Function) bool {
				n := anchorName(f)
				return strings.HasPrefix(n, "buffer/hybridbuffer.(*chunkManager).") || strings.HasPrefix(n, "buffer/hybridbuffer.(*chunkOperator).")
			},
			Site: func(s ssa.CallInstruction) int {
				cc := s.Common()
				if !cc.IsInvoke() {
					return -1
				}
				f := fieldOf(cc.Value)
				if !strings.HasPrefix(f, pfx) {
					return -1
				}
				switch strings.TrimPrefix(f, pfx) + "." + cc.Method.Name() {
				case "persistentChunks.Inc":
					return 0
				case "persistentChunks.Dec":
					return 1
				case "persistentChunkBytes.Add":
					return 2
				case "persistentChunkBytes.Sub":
					return 3
				}
				return -1
			}}
		outs := cs.Enum(fn, entryOf(fn), nil)
		good := len(outs) > 0
		var why []string
		for _, o := range outs {
			nSites += o.Counts[0] + o.Counts[1]
			if o.Counts[0] > 1 || o.Counts[1] > 1 || o.Counts[2] > 1 || o.Counts[3] > 1 || o.Counts[1] != o.Counts[3] || o.Counts[0] != o.Counts[2] {
				good = false
				why = append(why, cs.describe(o))
			}
		}
		c.check(good, "C03.R12", fn, "persistent gauges move at most once per chunk event, count and bytes together", fn.Pos(),
			fmt.Sprintf("all %d path outcomes move persistentChunks and persistentChunkBytes at most once, and together", len(outs)),
			"a chunk event can move the persistent gauges twice (or one without the other): "+strings.Join(why, "; "))
	}
	c.floor("C03.R12", "gauge movements seen on the enumerated paths", nSites, 4)
}

// isZeroStruct: the load of a local that is never stored to (a zero value built in place)
func isZeroStruct(v ssa.Value) bool {
	u, ok := strip(v).(*ssa.UnOp)
	if !ok || u.Op != token.MUL {
		return false
	}
	al, ok := u.X.(*ssa.Alloc)
	if !ok {
		return false
	}
	for _, ref := range *al.Referrers() {
		switch ref.(type) {
		case *ssa.Store, *ssa.FieldAddr, *ssa.IndexAddr:
			return false
		}
	}
	return true
}

func isBoolType(t types.Type) bool {
	b, ok := t.Underlying().(*types.Basic)
	return ok && b.Kind() == types.Bool
}
