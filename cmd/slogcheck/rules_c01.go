package main

// C01 At-least-once delivery end to end: the flush chain, teardown order,
// deletion authority, hand-back and recovery wiring exist on ALL paths.

import (
	"fmt"
	"go/token"
	"go/types"
	"os"
	"path/filepath"
	"strconv"
	"strings"

	"golang.org/x/tools/go/ssa"
)

func init() {
	register("C01", "C01.R1", ruleC01R1)
	register("C01", "C01.R2", ruleC01R2)
	register("C01", "C01.R3", ruleC01R3)
	register("C01", "C01.R4", ruleC01R4)
	register("C01", "C01.R5", ruleC01R5)
	register("C01", "C01.R6", ruleC01R6)
	register("C01", "C01.R7", ruleC01R7)
	register("C01", "C01.R8", ruleC01R8)
	register("C01", "C02.R1", ruleC02R1)
	register("C01", "C02.R5", ruleC02R5)
	register("C01", "C02.R7", ruleC02R7)
	register("C01", "C02.R3", ruleC02R3) // a chunk is owned by the acknowledger only after it was transmitted
	register("C01", "C02.R4", ruleC02R4) // the chunk in flight is remembered until the acknowledger owns it (hand-back at stop)
	propExplanation["C01"] = "Decides the structural clauses of at-least-once delivery on every path of the anchored functions: " +
		"final flush chain of connection/sink/orchestrator/worker buffers (R1-R4), teardown order worker→bufferer.Destroy→onStopped (R5), " +
		"who may delete a chunk file and that deletion is only reachable from the ACK callback (R6, C02.R1), hand-back of unsent chunks at stop (R7, C02.R5/R7), " +
		"recovery wiring at start (R8). Not decided: that the upstream eventually acknowledges, runtime queue overflow, byte-exactness of what is delivered."
	propAssumptions["C01"] = []string{
		"for-each loops over outputs / caches / buffer ids run their body for every element (loop bodies are checked per iteration)",
		"nil/empty guards on the operands of a required call ('nothing to flush') are not bypasses",
		"implementations living in test-support packages (test, testdata, base/btest) are ignored when resolving interface calls",
	}
}

const (
	aRunConn     = "input/tcplistener.(*tcpLineListener).runConnection"
	aFlushAll    = "input/tcplistener.(*multiLineReader).FlushAll"
	aSinkFlush   = "base/bsupport.(*logParsingReceiverSink).Flush"
	aSinkClose   = "base/bsupport.(*logParsingReceiverSink).Close"
	aSendBuffer  = "base/bsupport.(*logParsingReceiverSink).sendBuffer"
	aOrcClose    = "orchestrate/obykeyset.(*byKeySetOrchestratorSink).Close"
	aCIBFlush    = "orchestrate/obykeyset.(*channelInputBuffer).Flush"
	aBaseRun     = "base/bsupport.(*PipelineWorkerBase)._baseRun"
	aProcMain    = "base/bsupport.(*PipelineWorkerBase)._baseProcessMain"
	aOnStop      = "base/bsupport.(*LogProcessingWorker).onStop"
	aNewLPW      = "base/bsupport.NewLogProcessingWorker"
	aInitInt     = "base/bsupport.(*PipelineWorkerBase).InitInternal"
	aSignal      = "(*github.com/relex/gotils/channels.SignalAwaitable).Signal"
	aPrepPipe    = "orchestrate/obase.PrepareSequentialPipeline"
	aUnlinkAt    = "util.UnlinkFileAt"
	aRemoveChunk = "buffer/hybridbuffer.(*chunkOperator).RemoveChunk"
	aOnConsumed  = "buffer/hybridbuffer.(*chunkManager).OnChunkConsumed"
	aOnCorrupted = "buffer/hybridbuffer.(*chunkManager).OnChunkCorrupted"
	aOnLeftover  = "buffer/hybridbuffer.(*chunkManager).OnChunkLeftover"
	aOnDropped   = "buffer/hybridbuffer.(*chunkManager).OnChunkDropped"
	aRegConsumer = "buffer/hybridbuffer.(*outputFeeder).RegisterNewConsumer"
	aFeederRun   = "buffer/hybridbuffer.(*outputFeeder).Run"
	aSaveAll     = "buffer/hybridbuffer.(*outputFeeder).saveEverything"
	aUnloadDrop  = "buffer/hybridbuffer.(*chunkManager).UnloadOrDropChunk"
	aLoadDrop    = "buffer/hybridbuffer.(*chunkManager).LoadOrDropChunk"
	aBufStart    = "buffer/hybridbuffer.(*bufferer).Start"
	aBufRecover  = "buffer/hybridbuffer.(*bufferer).recoverExistingChunks"
	aBufAccept   = "buffer/hybridbuffer.(*bufferer).Accept"
	aBufDestroy  = "buffer/hybridbuffer.(*bufferer).Destroy"
	aStartOrc    = "orchestrate/obykeyset.(*Config).StartOrchestrator"
	aNewOrc      = "orchestrate/obykeyset.NewOrchestrator"
	aGetOrCreate = "util/localcachedmap.(*LocalCachedMap).GetOrCreate"
)

// R1: runConnection — read error ⇒ FlushAll, then sink.Flush, then deferred sink.Close
func ruleC01R1(c *Ctx) {
	for _, fn := range c.P.Fns(aRunConn) {
		newSink := sitesWhere(fn, func(s ssa.CallInstruction) bool {
			return invokeOf(s, "base.MultiSinkMessageReceiver", "NewSink")
		})
		if len(newSink) != 1 {
			broken("C01.R1: expected exactly one MultiSinkMessageReceiver.NewSink call in runConnection, found %d", len(newSink))
		}
		sink := newSink[0].Value()
		// (a) FlushAll on every path to return
		sFA := newSumm(c.P, anchorPred(aFlushAll))
		sFA.AllowEmptyGuards, sFA.LoopsRunOnce = false, false
		c.mustBeforeReturn("C01.R1", fn, entryOf(fn), sFA, "FlushAll before return", "(*multiLineReader).FlushAll", fn.Pos(), nil)
		// (b) after every FlushAll, sink.Flush on every path to return
		isFlush := func(s ssa.CallInstruction) bool {
			return invokeOf(s, "base.MessageReceiverSink", "Flush") && sameValue(recvOf(s), sink)
		}
		sFl := siteSumm(c.P, isFlush)
		sFl.AllowEmptyGuards, sFl.LoopsRunOnce = false, false
		fa := c.callsTo(fn, anchorPred(aFlushAll))
		for _, s := range fa {
			c.mustBeforeReturn("C01.R1", fn, after(s), sFl, "sink.Flush after FlushAll", "MessageReceiverSink.Flush on the connection's sink", s.Pos(), nil)
		}
		// (c) deferred sink.Close dominates every exit, and runs after the last Flush
		okClose := true
		rds := rundefersOf(fn)
		for _, rd := range rds {
			found := false
			for _, d := range deferredAt(rd, true) {
				if invokeOf(d, "base.MessageReceiverSink", "Close") && sameValue(recvOf(d), sink) {
					found = true
				}
			}
			if !found {
				okClose = false
				c.bad("C01.R1", fn, "deferred sink.Close at exit", rd.Pos(), "an exit runs its defers without a deferred MessageReceiverSink.Close of the connection's sink registered on every path")
			}
		}
		if okClose && len(rds) > 0 {
			c.ok("C01.R1", fn, "deferred sink.Close at exit", rds[0].Pos(), fmt.Sprintf("all %d exits run a deferred Close of the sink created by NewSink", len(rds)))
		}
		// explicit Close calls (non-deferred) must not precede a Flush: none expected
		for _, s := range sitesWhere(fn, func(s ssa.CallInstruction) bool {
			_, isDefer := s.(*ssa.Defer)
			return !isDefer && invokeOf(s, "base.MessageReceiverSink", "Close")
		}) {
			q := &PathQ{P: c.P}
			if hit, _ := q.Reach(after(s), func(in ssa.Instruction) bool {
				ci, ok := in.(ssa.CallInstruction)
				return ok && isFlush(ci)
			}); hit != nil {
				c.bad("C01.R1", fn, "no Flush after Close", s.Pos(), "sink.Flush is reachable after an explicit sink.Close")
			}
		}
	}
}

// R2: the parsing sink forwards Flush/Close downstream
func ruleC01R2(c *Ctx) {
	fl := c.P.Fn(aSinkFlush)
	sSend := newSumm(c.P, anchorPred(aSendBuffer))
	c.mustBeforeReturn("C01.R2", fl, entryOf(fl), sSend, "Flush sends the buffered records", "sendBuffer", fl.Pos(), nil)
	sTick := siteSumm(c.P, func(s ssa.CallInstruction) bool { return invokeOf(s, "base.BufferReceiverSink", "Tick") })
	sTick.AllowEmptyGuards = false
	c.mustBeforeReturn("C01.R2", fl, entryOf(fl), sTick, "Flush ticks the downstream sink", "BufferReceiverSink.Tick", fl.Pos(), nil)
	// sendBuffer before Tick (records first, then the tick that may flush them)
	c.checkOrderG("C01.R2", fl, "sendBuffer", callInstrSet(c.callsTo(fl, anchorPred(aSendBuffer))),
		"outputSink.Tick", callInstrSet(sitesWhere(fl, func(s ssa.CallInstruction) bool { return invokeOf(s, "base.BufferReceiverSink", "Tick") })), true)

	cl := c.P.Fn(aSinkClose)
	sClose := siteSumm(c.P, func(s ssa.CallInstruction) bool { return invokeOf(s, "base.BufferReceiverSink", "Close") })
	sClose.AllowEmptyGuards = false
	c.mustBeforeReturn("C01.R2", cl, entryOf(cl), sClose, "Close closes the downstream sink", "BufferReceiverSink.Close", cl.Pos(), nil)

	sb := c.P.Fn(aSendBuffer)
	acc := sitesWhere(sb, func(s ssa.CallInstruction) bool { return invokeOf(s, "base.BufferReceiverSink", "Accept") })
	okArg := len(acc) == 1 && fieldOf(acc[0].Common().Args[0]) == "base/bsupport.logParsingReceiverSink.bufferedLogs"
	pos := sb.Pos()
	if len(acc) > 0 {
		pos = acc[0].Pos()
	}
	c.check(okArg, "C01.R2", sb, "sendBuffer passes bufferedLogs downstream", pos,
		"the single BufferReceiverSink.Accept call receives the bufferedLogs field", "sendBuffer does not pass the bufferedLogs field to exactly one BufferReceiverSink.Accept call")
	if okArg {
		sAcc := siteSumm(c.P, func(s ssa.CallInstruction) bool { return s == acc[0] })
		sAcc.AllowEmptyGuards = true // "nothing buffered" on the very slice that is handed over (path-related guards only)
		c.mustBeforeReturn("C01.R2", sb, entryOf(sb), sAcc, "sendBuffer always forwards", "outputSink.Accept", sb.Pos(), nil)
		// truncation of the buffer only after the hand-over
		st := storesToField(sb, "base/bsupport.logParsingReceiverSink.bufferedLogs")
		c.checkOrder("C01.R2", sb, "outputSink.Accept", callInstrSet(acc), "truncating store to bufferedLogs", instrSet(st))
	}
}

// R3: closing the orchestrator sink flushes every local per-pipeline buffer
func ruleC01R3(c *Ctx) {
	fn := c.P.Fn(aOrcClose)
	s := newSumm(c.P, anchorPred(aCIBFlush))
	c.mustBeforeReturn("C01.R3", fn, entryOf(fn), s, "Close flushes every channelInputBuffer", "(*channelInputBuffer).Flush for each cached pipeline (constant arguments propagated, only empty-buffer guards tolerated)", fn.Pos(), nil)
}

// R4: the worker flushes its chunk makers when its input closes, before it reports stopped
func ruleC01R4(c *Ctx) {
	const fOnStop = "base/bsupport.PipelineWorkerBase._baseOnStop"
	// The worker body is _baseRun with its private helpers (the main loop may stand in a helper such as _baseProcessMain
	// or in _baseRun itself): the main loop is where the input channel is received from.
	for _, fn := range c.P.Fns(aBaseRun) {
		var recvs []ssa.Instruction
		for _, op := range c.chanOpsR(fn) {
			if (op.Kind == "recv" || op.Kind == "range") && (fieldOf(resolve(op.Chan)) == fBaseInput || fieldOf(op.Chan) == fBaseInput) {
				recvs = append(recvs, op.In)
			}
		}
		var stop, sig []ssa.CallInstruction
		for _, s := range c.callsInR(fn) {
			if fieldCallOf(s, fOnStop) {
				stop = append(stop, s)
			}
			if f := s.Common().StaticCallee(); f != nil && extName(f) == aSignal {
				sig = append(sig, s)
			}
		}
		c.checkOrder("C01.R4", fn, "main loop (receive from _baseInput)", instrSet(recvs), "_baseOnStop()", callInstrSet(stop))
		if len(recvs) > 0 && len(stop) > 0 && len(sig) > 0 {
			// the stop handler runs when the loop is over: no further receive from the input after it
			q := c.pq(fn)
			hit, trail := q.Reach(after(stop[0]), func(in ssa.Instruction) bool { return instrSet(recvs)[in] })
			c.check(hit == nil, "C01.R4", fn, "_baseOnStop() runs after the main loop has ended", stop[0].Pos(),
				"no receive from the input channel is reachable after the stop handler",
				"the input channel is received from again after the stop handler (the handler runs inside the loop): "+c.P.trailString(trail))
			// every path to Signal passes the stop handler (nil guard on the handler tolerated)
			q = c.pq(fn)
			q.Barrier = func(in ssa.Instruction) bool { return callInstrSet(stop)[in] }
			blocked := map[*ssa.BasicBlock]map[int]bool{}
			for _, st := range stop {
				for b, si := range emptinessGuardEdgesFor(st.Parent(), []ssa.CallInstruction{st}) {
					if blocked[b] == nil {
						blocked[b] = map[int]bool{}
					}
					blocked[b][si] = true
				}
			}
			q.EdgeBlocked = func(b *ssa.BasicBlock, si int) bool { return blocked[b][si] }
			hit, trail = q.Reach(entryOf(fn), func(in ssa.Instruction) bool { return callInstrSet(sig)[in] })
			c.check(hit == nil, "C01.R4", fn, "_baseOnStop() before _baseStopped.Signal", sig[0].Pos(),
				"no path reaches Signal without calling the stop handler (nil-handler guard tolerated)",
				"Signal is reachable without calling the stop handler: "+c.P.trailString(trail))
		} else {
			c.bad("C01.R4", fn, "_baseOnStop() before _baseStopped.Signal", fn.Pos(), "could not find main loop / stop handler / Signal call")
		}
	}
	// the stop handler of the processing worker is onStop
	nw := c.P.Fn(aNewLPW)
	okInit := false
	for _, s := range c.callsTo(nw, anchorPred(aInitInt)) {
		args := s.Common().Args
		if len(args) == 4 {
			if mc, ok := resolve(args[3]).(*ssa.MakeClosure); ok {
				for _, t := range wrapperTargets(c.P, mc.Fn.(*ssa.Function)) {
					if isAnchor(t, aOnStop) {
						okInit = true
					}
				}
			}
		}
	}
	c.check(okInit, "C01.R4", nw, "InitInternal(.., .., onStop)", nw.Pos(), "the stop handler registered is (*LogProcessingWorker).onStop", "the stop handler passed to InitInternal is not (*LogProcessingWorker).onStop")
	for _, ii := range c.P.Fns(aInitInt) {
		st := storesToField(ii, fOnStop)
		okSt := len(st) == 1
		if okSt {
			p, isP := resolve(st[0].Val).(*ssa.Parameter)
			okSt = isP && p == ii.Params[3]
		}
		c.check(okSt, "C01.R4", ii, "_baseOnStop = stopHandler", ii.Pos(), "InitInternal stores its third handler into _baseOnStop", "InitInternal does not store the stopHandler parameter into _baseOnStop")
	}
	// onStop flushes every output's chunk maker and hands the chunk to the bufferer
	os := c.P.Fn(aOnStop)
	sFB := siteSumm(c.P, func(s ssa.CallInstruction) bool { return invokeOf(s, "base.LogChunkMaker", "FlushBuffer") })
	c.mustBeforeReturn("C01.R4", os, entryOf(os), sFB, "onStop flushes every chunk maker", "LogChunkMaker.FlushBuffer for each output", os.Pos(), nil)
	sAC := siteSumm(c.P, func(s ssa.CallInstruction) bool {
		return fieldCallOf(s, "base/bsupport.OutputInterface.AcceptChunk")
	})
	c.mustBeforeReturn("C01.R4", os, entryOf(os), sAC, "onStop hands the flushed chunk to AcceptChunk", "OutputInterface.AcceptChunk for each output (guard: chunk != nil)", os.Pos(), nil)
}

// R5: bufferer.Destroy only after the processing worker has stopped; onStopped after all Destroy
func ruleC01R5(c *Ctx) {
	isDestroy := func(s ssa.CallInstruction) bool { return invokeOf(s, "base.ChunkBufferer", "Destroy") }
	var sites []ssa.CallInstruction
	for _, fn := range c.P.universe {
		sites = append(sites, sitesWhere(fn, isDestroy)...)
	}
	c.floor("C01.R5", "ChunkBufferer.Destroy call sites", len(sites), 1)
	pp := c.P.Fn(aPrepPipe)
	starter := returnedClosure(pp)
	// the continuation registered on procWorker.Stopped().Next(...)
	var cont *ssa.Function
	var startCalls, nextCalls []ssa.CallInstruction
	var worker ssa.Value
	for _, s := range callsIn(starter) {
		if invokeOf(s, "github.com/relex/gotils/channels.Awaitable", "Next") {
			nextCalls = append(nextCalls, s)
		}
	}
	for _, s := range nextCalls {
		// receiver must be Stopped() of a worker value
		st, ok := resolve(recvOf(s)).(*ssa.Call)
		if !ok || st.Common().StaticCallee() == nil || anchorName(st.Common().StaticCallee()) != "base/bsupport.(*PipelineWorkerBase).Stopped" {
			continue
		}
		cl := closureArgs(s)
		if len(cl) == 1 {
			cont = cl[0]
			worker = st.Common().Args[0]
		}
	}
	if cont == nil {
		c.bad("C01.R5", starter, "Stopped().Next(continuation)", starter.Pos(), "no continuation registered on the processing worker's Stopped() awaitable")
		return
	}
	// worker whose Stopped() is awaited is the one started here
	for _, s := range callsIn(starter) {
		if f := s.Common().StaticCallee(); f != nil && anchorName(f) == "base/bsupport.(*PipelineWorkerBase).Start" {
			startCalls = append(startCalls, s)
		}
	}
	sameWorker := len(startCalls) == 1 && workerRoot(startCalls[0].Common().Args[0]) == workerRoot(worker)
	c.check(sameWorker, "C01.R5", starter, "continuation hangs on the started worker", cont.Pos(),
		"the awaited Stopped() belongs to the worker that this function starts", "the awaited Stopped() does not belong to the processing worker started here")
	// all Destroy sites are inside the continuation (or closures nested in it)
	inCont := map[*ssa.Function]bool{}
	for _, g := range c.regionOf(cont) {
		for _, f := range withAnons(g) {
			inCont[f] = true
		}
	}
	for _, s := range sites {
		c.check(inCont[s.Parent()], "C01.R5", s.Parent(), "call of ChunkBufferer.Destroy", s.Pos(),
			"Destroy is called from the continuation of the processing worker's Stopped()", "ChunkBufferer.Destroy called outside the continuation of the processing worker's Stopped()")
	}
	// inside: Destroy for each output, then onStopped
	sD := siteSumm(c.P, isDestroy)
	sD.AllowEmptyGuards = false
	c.mustBeforeReturn("C01.R5", cont, entryOf(cont), sD, "continuation destroys every bufferer", "ChunkBufferer.Destroy for each output", cont.Pos(), nil)
	var onStopped []ssa.CallInstruction
	for _, s := range c.callsInR(cont) {
		if p, ok := c.resolveR(cont, s.Common().Value).(*ssa.Parameter); ok && isPlainCallback(p.Type()) && !c.helpersOf(cont)[p.Parent()] {
			onStopped = append(onStopped, s)
		}
	}
	// the events are taken where they stand: a call of a private helper that destroys the bufferers is replaced by the
	// helper's own events, so that the order is decided inside the helper too
	evD := map[ssa.Instruction]bool{}
	var expand func(f *ssa.Function, depth int)
	expand = func(f *ssa.Function, depth int) {
		for in := range sD.mustEvents(f, nil, 0) {
			if ci, ok := in.(ssa.CallInstruction); ok && depth < 4 {
				if g := ci.Common().StaticCallee(); g != nil && c.helpersOf(cont)[g] {
					expand(g, depth+1)
					continue
				}
			}
			evD[in] = true
		}
	}
	expand(cont, 0)
	c.checkOrderL("C01.R5", cont, "Destroy of every bufferer", evD, "onStopped()", callInstrSet(onStopped))
	// the registration precedes the start of the worker
	c.checkOrder("C01.R5", starter, "Stopped().Next(...)", callInstrSet(nextCalls), "procWorker.Start()", callInstrSet(startCalls))
}

func workerRoot(v ssa.Value) ssa.Value {
	for i := 0; i < 10; i++ {
		v = resolve(v)
		switch x := v.(type) {
		case *ssa.FieldAddr:
			v = x.X
		case *ssa.Field:
			v = x.X
		default:
			return v
		}
	}
	return v
}

// R6: deletion authority — a chunk file is unlinked only via consumed/corrupted callbacks
func ruleC01R6(c *Ctx) {
	raw := extPred("os.Remove", "os.RemoveAll", "golang.org/x/sys/unix.Unlink", "golang.org/x/sys/unix.Unlinkat", "syscall.Unlink", "syscall.Unlinkat", "syscall.Rmdir", "os.Rename", "os.Truncate", "golang.org/x/sys/unix.Truncate")
	n := len(c.whoMayCall("C01.R6", "a raw unlink/remove/rename/truncate primitive", raw, aUnlinkAt, "util.WriteFileAt"))
	c.floor("C01.R6", "raw unlink sites", n, 1)
	n = len(c.whoMayCall("C01.R6", "util.UnlinkFileAt", anchorPred(aUnlinkAt), aRemoveChunk))
	c.floor("C01.R6", "UnlinkFileAt sites", n, 1)
	n = len(c.whoMayCall("C01.R6", "(*chunkOperator).RemoveChunk", anchorPred(aRemoveChunk), aOnConsumed, aOnCorrupted))
	c.floor("C01.R6", "RemoveChunk sites", n, 2)
	// OnChunkConsumed is never called directly and is referenced only in RegisterNewConsumer
	for _, s := range c.callSitesOf(anchorPred(aOnConsumed)) {
		// calls through function values are resolved by VTA: they must be the ack callback sites
		c.check(ownedBy(s.Parent(), aRunAcker), "C01.R6", s.Parent(), "call reaching OnChunkConsumed", s.Pos(),
			"only the acknowledger's ack callback resolves to OnChunkConsumed", "a call outside runAcknowledger can reach chunkManager.OnChunkConsumed")
	}
	refs := c.funcRefs(anchorPred(aOnConsumed))
	c.floor("C01.R6", "OnChunkConsumed references", len(refs), 1)
	for _, r := range refs {
		c.check(ownedBy(r.Parent(), aRegConsumer), "C01.R6", r.Parent(), "reference to OnChunkConsumed", r.Pos(),
			"OnChunkConsumed is only handed out as ChunkConsumerArgs.OnChunkConsumed", "chunkManager.OnChunkConsumed referenced outside RegisterNewConsumer")
	}
}

// R7: at stop the feeder saves everything it still holds, before it waits for consumers and reports stopped
func ruleC01R7(c *Ctx) {
	fn := c.P.Fn(aSaveAll)
	// holders enumerated from the type: every chan-of-LogChunk field of outputFeeder
	feederT := fn.Params[0].Type().(*types.Pointer).Elem()
	st := feederT.Underlying().(*types.Struct)
	nHold := 0
	for i := 0; i < st.NumFields(); i++ {
		ch, ok := st.Field(i).Type().Underlying().(*types.Chan)
		if !ok || typeName(ch.Elem()) != "base.LogChunk" {
			continue
		}
		nHold++
		fname := fieldName(feederT, i)
		// a range over this channel whose body must reach UnloadOrDropChunk
		var rng *ssa.Range
		for _, op := range chanOps(fn) {
			if op.Kind == "range" && fieldOf(op.Chan) == fname {
				rng = op.In.(*ssa.Range)
			}
		}
		// go/ssa lowers `for x := range ch` to a receive loop: accept recv,commaOk in a loop too
		var recv ssa.Instruction
		for _, op := range chanOps(fn) {
			if op.Kind == "recv" && fieldOf(op.Chan) == fname {
				recv = op.In
			}
		}
		if rng == nil && recv == nil {
			c.bad("C01.R7", fn, "drain of "+fname, fn.Pos(), "saveEverything does not receive from this chunk-holding channel")
			continue
		}
		at := recv
		if at == nil {
			at = rng
		}
		// per iteration: from the receive, every path back to the loop header or out passes UnloadOrDropChunk
		lp := loopOf(fn, at.Block())
		if lp == nil {
			c.bad("C01.R7", fn, "drain of "+fname, at.Pos(), "the receive is not inside a loop (the channel would not be drained)")
			continue
		}
		unl := callInstrSet(c.sitesMustReach(fn, anchorPred(aUnloadDrop)))
		q := &PathQ{P: c.P, Barrier: func(in ssa.Instruction) bool { return unl[in] },
			EdgeBlocked: commaOkFalseEdges(at)}
		hit, trail := q.Reach(after(at), func(in ssa.Instruction) bool {
			return (in.Block() == lp.header && in == lp.header.Instrs[0]) || isReturn(in) || (!lp.blocks[in.Block()] && in == in.Block().Instrs[0])
		})
		c.check(hit == nil, "C01.R7", fn, "drain of "+fname, at.Pos(),
			"every chunk received from the channel is passed to UnloadOrDropChunk before the next iteration",
			"a chunk received from the channel can skip UnloadOrDropChunk: "+c.P.trailString(trail))
	}
	c.floor("C01.R7", "chunk-holding channels of outputFeeder", nHold, 2)
	// the chunk in hand
	unlSites := c.sitesMustReach(fn, anchorPred(aUnloadDrop))
	c.check(len(unlSites) >= nHold+1, "C01.R7", fn, "lastInputChunk saved", fn.Pos(),
		"UnloadOrDropChunk is also applied to the chunk in hand (lastInputChunk)", "fewer UnloadOrDropChunk calls than holders (channels + chunk in hand)")
	lastParam := fn.Params[1]
	usesLast := false
	for _, s := range unlSites {
		for _, a := range s.Common().Args {
			if mentions(a, func(v ssa.Value) bool { return v == ssa.Value(lastParam) }) {
				usesLast = true
			}
		}
	}
	c.check(usesLast, "C01.R7", fn, "lastInputChunk parameter flows to UnloadOrDropChunk", fn.Pos(), "the chunk-in-hand parameter is unloaded", "the lastInputChunk parameter never reaches UnloadOrDropChunk")

	run := c.P.Fn(aFeederRun)
	calleeIs := func(p FnPred) func(ssa.CallInstruction) bool {
		return func(s ssa.CallInstruction) bool { f := s.Common().StaticCallee(); return f != nil && p(f) }
	}
	save := c.sitesWhereR(run, calleeIs(anchorPred(aSaveAll)))
	wait := c.sitesWhereR(run, calleeIs(anchorPred("util.(*TrackedWaitGroup).Wait")))
	var sig []ssa.CallInstruction
	for _, s := range c.sitesWhereR(run, calleeIs(extPred(aSignal))) {
		if fieldOf(s.Common().Args[0]) == "buffer/hybridbuffer.outputFeeder.stopped" {
			sig = append(sig, s)
		}
	}
	var closeOut []ssa.Instruction
	for _, op := range c.chanOpsR(run) {
		if op.Kind == "close" && fieldOf(op.Chan) == "buffer/hybridbuffer.outputFeeder.outputChannel" {
			closeOut = append(closeOut, op.In)
		}
	}
	c.checkOrder("C01.R7", run, "close(outputChannel)", instrSet(closeOut), "saveEverything", callInstrSet(save))
	c.checkOrder("C01.R7", run, "saveEverything", callInstrSet(save), "consumerCounter.Wait", callInstrSet(wait))
	c.checkOrder("C01.R7", run, "saveEverything", callInstrSet(save), "stopped.Signal", callInstrSet(sig))
	sSave := newSumm(c.P, anchorPred(aSaveAll))
	sSave.AllowEmptyGuards, sSave.LoopsRunOnce = false, false
	c.mustBeforeReturn("C01.R7", run, entryOf(run), sSave, "Run always saves before returning", "saveEverything", run.Pos(), nil)
	// the chunk handed to saveEverything is the one loadToOutput refused (C03.R5 covers the store)
}

func loopOf(fn *ssa.Function, b *ssa.BasicBlock) *loop {
	for _, lp := range naturalLoops(fn) { // innermost first
		if lp.blocks[b] {
			return lp
		}
	}
	return nil
}

// commaOkFalseEdges: for `v, ok := <-ch` (or range next), block the edge taken when ok is false
func commaOkFalseEdges(recv ssa.Instruction) func(*ssa.BasicBlock, int) bool {
	blocked := map[*ssa.BasicBlock]int{}
	if v, ok := recv.(ssa.Value); ok && v.Referrers() != nil {
		for _, ref := range *v.Referrers() {
			ex, ok := ref.(*ssa.Extract)
			if !ok || ex.Index != 1 {
				continue
			}
			for _, r2 := range *ex.Referrers() {
				if iff, ok := r2.(*ssa.If); ok {
					blocked[iff.Block()] = 1
				}
				if u, ok := r2.(*ssa.UnOp); ok {
					for _, r3 := range *u.Referrers() {
						if iff, ok := r3.(*ssa.If); ok {
							blocked[iff.Block()] = 0
						}
					}
				}
			}
		}
	}
	return edgeSet(blocked)
}

// R8: recovery wiring at start
func ruleC01R8(c *Ctx) {
	st := c.P.Fn(aBufStart)
	rec := c.callsTo(st, anchorPred(aBufRecover))
	var goRun []ssa.Instruction
	gs, _ := c.feederGoSites()
	for _, g := range gs {
		if g.Parent() == st {
			goRun = append(goRun, g)
		}
	}
	// the recovery runs synchronously in Start: Start returns (and the bufferer is handed to the producers of Accept)
	// only after every recovered chunk is in the queue. A recovery inside a goroutine or a deferred call races with Accept.
	nRec := 0
	for _, s := range c.callSitesOf(anchorPred(aBufRecover)) {
		nRec++
		_, isCall := s.(*ssa.Call)
		c.check(isCall && s.Parent() == st, "C01.R8", s.Parent(), "recovered chunks are queued before Start returns", s.Pos(),
			"recoverExistingChunks is an ordinary call in bufferer.Start itself",
			"recoverExistingChunks runs outside the body of bufferer.Start (goroutine, closure or deferred call): Accept can queue new chunks ahead of recovered ones")
	}
	c.floor("C01.R8", "recoverExistingChunks call sites", nRec, 1)
	c.checkOrder("C01.R8", st, "recoverExistingChunks", callInstrSet(rec), "go feeder.Run", instrSet(goRun))

	starter := returnedClosure(c.P.Fn(aPrepPipe))
	// inside the per-output closure: bufferer.Start before consumer.Start
	// (a function literal handed to lo.Map, or a private helper of the starter called per output)
	var perOut *ssa.Function
	perOutCands := append([]*ssa.Function{}, starter.AnonFuncs...)
	for _, h := range c.regionOf(starter)[1:] {
		perOutCands = append(perOutCands, h)
	}
	for _, f := range perOutCands {
		if len(sitesWhere(f, func(s ssa.CallInstruction) bool { return invokeOf(s, "base/bconfig.ChunkBufferConfig", "NewBufferer") })) > 0 {
			perOut = f
		}
	}
	if perOut == nil {
		c.bad("C01.R8", starter, "per-output setup closure", starter.Pos(), "no closure calling ChunkBufferConfig.NewBufferer found")
	} else {
		bs := sitesWhere(perOut, func(s ssa.CallInstruction) bool { return invokeOf(s, "base.ChunkBufferer", "Start") })
		cs := sitesWhere(perOut, func(s ssa.CallInstruction) bool { return invokeOf(s, "base.ChunkConsumer", "Start") })
		c.checkOrder("C01.R8", perOut, "bufferer.Start", callInstrSet(bs), "consumer.Start", callInstrSet(cs))
		// the per-output closure runs (lo.Map) before the worker starts
		var mapCalls []ssa.CallInstruction
		for _, s := range callsIn(starter) {
			for _, a := range s.Common().Args {
				if mc, ok := resolve(a).(*ssa.MakeClosure); ok && mc.Fn == perOut {
					mapCalls = append(mapCalls, s)
				}
				if f, ok := resolve(a).(*ssa.Function); ok && f == perOut {
					mapCalls = append(mapCalls, s)
				}
			}
			if s.Common().StaticCallee() == perOut {
				mapCalls = append(mapCalls, s)
			}
		}
		var ws []ssa.CallInstruction
		for _, s := range callsIn(starter) {
			if f := s.Common().StaticCallee(); f != nil && anchorName(f) == "base/bsupport.(*PipelineWorkerBase).Start" {
				ws = append(ws, s)
			}
		}
		c.checkOrderL("C01.R8", starter, "per-output setup (buffer recovery, consumer start)", callInstrSet(mapCalls), "procWorker.Start", callInstrSet(ws))
	}

	// every output pair's existing queue ids are listed and fed to NewOrchestrator
	so := c.P.Fn(aStartOrc)
	sList := siteSumm(c.P, func(s ssa.CallInstruction) bool {
		return invokeOf(s, "base/bconfig.ChunkBufferConfig", "ListBufferIDs")
	})
	sList.AllowEmptyGuards = false
	c.mustBeforeReturn("C01.R8", so, entryOf(so), sList, "ListBufferIDs for every output pair", "ChunkBufferConfig.ListBufferIDs per pair", so.Pos(), nil)
	lp := (*loop)(nil)
	for _, s := range sitesWhere(so, func(s ssa.CallInstruction) bool {
		return invokeOf(s, "base/bconfig.ChunkBufferConfig", "ListBufferIDs")
	}) {
		lp = loopOf(so, s.Block())
		rng := false
		if lp != nil {
			// the loop iterates over args.OutputBufferPairs (whole slice)
			eachInstr(so, func(in ssa.Instruction) {
				if ia, ok := in.(*ssa.IndexAddr); ok && lp.blocks[in.Block()] && fieldOf(ia.X) == "base/bconfig.PipelineArgs.OutputBufferPairs" {
					rng = true
				}
			})
		}
		c.check(rng, "C01.R8", so, "ListBufferIDs loop ranges over OutputBufferPairs", s.Pos(), "the call sits in a loop indexing args.OutputBufferPairs", "ListBufferIDs is not called in a loop over args.OutputBufferPairs")
	}
	no := c.P.Fn(aNewOrc)
	sGOC := newSumm(c.P, anchorPred(aGetOrCreate))
	// tolerated guard: malformed id (len(keys) != len(keyFields)), and no ids at all
	malformed := func(b *ssa.BasicBlock, si int) bool {
		iff, ok := b.Instrs[len(b.Instrs)-1].(*ssa.If)
		if !ok {
			return false
		}
		bo, ok := iff.Cond.(*ssa.BinOp)
		if !ok {
			return false
		}
		// the number of parts of the split id differs from the expected number (however that is passed around)
		isSplitLen := func(v ssa.Value) bool {
			cl, ok := v.(*ssa.Call)
			if !ok {
				return false
			}
			bi, ok := cl.Call.Value.(*ssa.Builtin)
			if !ok || bi.Name() != "len" {
				return false
			}
			sp, ok := resolve(cl.Call.Args[0]).(*ssa.Call)
			return ok && sp.Common().StaticCallee() != nil && extName(sp.Common().StaticCallee()) == "strings.Split"
		}
		if !(isSplitLen(bo.X) || isSplitLen(bo.Y)) {
			return false
		}
		switch bo.Op {
		case token.NEQ:
			return si == 0 // the "lengths differ" edge
		case token.EQL:
			return si == 1
		}
		return false
	}
	sGOC.ExtraBlocked = malformed
	// the loop that creates the pipelines iterates the id list it was given, whole (not a sub-slice of it), up to
	// NewOrchestrator's own parameter
	for _, site := range c.sitesWhereR(no, func(s ssa.CallInstruction) bool {
		f := s.Common().StaticCallee()
		return f != nil && isAnchor(f, aGetOrCreate)
	}) {
		f := site.Parent()
		lp := loopOf(f, site.Block())
		whole := false
		var coll ssa.Value
		if lp != nil {
			eachInstr(f, func(in ssa.Instruction) {
				if ia, ok := in.(*ssa.IndexAddr); ok && lp.blocks[in.Block()] && isStringSlice(ia.X.Type()) && coll == nil {
					coll = strip(ia.X)
				}
			})
		}
		for hops := 0; coll != nil && hops < 4; hops++ {
			prm, isP := coll.(*ssa.Parameter)
			if !isP {
				break
			}
			if prm.Parent() == no {
				whole = true
				break
			}
			// a helper's parameter: what the (single) call site in the region passes
			idx := -1
			for i, q := range prm.Parent().Params {
				if q == prm {
					idx = i
				}
			}
			var next ssa.Value
			for _, cs := range c.callsIn2(no, prm.Parent()) {
				args := cs.Common().Args
				if idx >= 0 && idx < len(args) {
					next = strip(args[idx])
				}
			}
			coll = next
		}
		c.check(whole, "C01.R8", f, "the pipeline-creating loop iterates the whole list of recovered ids", site.Pos(),
			"the loop indexes the id list that NewOrchestrator was given (passed on unchanged)",
			"the loop that creates pipelines for recovered queues does not iterate the id list NewOrchestrator was given as it is (a sub-slice or another collection): some recovered queues get no pipeline and are never forwarded")
	}
	c.mustBeforeReturn("C01.R8", no, entryOf(no), sGOC, "a pipeline is created for every recovered queue id", "LocalCachedMap.GetOrCreate per id (guards: no ids, malformed id)", no.Pos(), malformed)
}

// R9: the final flush of a connection visits every local buffer that Accept can fill. The buffers Accept appends to
// come from workerMap.GetOrCreate; the flush at Close must walk that same map (LocalCachedMap.Walk on the immutable
// field workerMap), the closure it hands to Walk flushes the buffer it is given, and the map itself is append-only:
// GetOrCreate returns only values that are in localMap, Walk calls the action for every entry of localMap, nothing
// deletes from it. A flush driven by any other collection (a side list of "dirty" buffers, a cache of recent ones)
// is not accepted: its completeness is an invariant over histories this analysis does not prove.
func init() {
	register("C01", "C01.R9", ruleC01R9)
	// routing: a record is appended to the buffer that GetOrCreate returned for THIS record's keys — a remembered buffer
	// (last key set, hot entry) routes by history (seed c06f)
	register("C06", "C01.R9", ruleC01R9)
}

func ruleC01R9(c *Ctx) {
	const (
		aWalk      = "util/localcachedmap.(*LocalCachedMap).Walk"
		aOrcAccept = "orchestrate/obykeyset.(*byKeySetOrchestratorSink).Accept"
		fWorkerMap = "orchestrate/obykeyset.byKeySetOrchestratorSink.workerMap"
		fLocalMap  = "util/localcachedmap.LocalCachedMap.localMap"
		aMakeLocal = "util/localcachedmap.(*GlobalCachedMap).MakeLocalMap"
		aOrcNewSnk = "orchestrate/obykeyset.(*byKeySetOrchestrator).NewSink"
	)
	fromWorkerMap := func(v ssa.Value) bool { return mentions(v, isFieldAddrOf(fWorkerMap)) }
	// (a) Accept: every Append goes to a buffer returned by workerMap.GetOrCreate
	acc := c.P.Fn(aOrcAccept)
	nApp := 0
	for _, fn := range c.P.universe {
		for _, s := range c.callsTo(fn, anchorPred(aCIBAppend)) {
			nApp++
			okSrc := false
			if cl, ok := strip(recvOf(s)).(*ssa.Call); ok && cl.Common().StaticCallee() != nil && isAnchor(cl.Common().StaticCallee(), aGetOrCreate) {
				okSrc = fromWorkerMap(cl.Common().Args[0])
			}
			c.check(okSrc && fn == acc, "C01.R9", fn, "records are appended to a buffer of workerMap", s.Pos(),
				"the receiver of Append is the result of workerMap.GetOrCreate in Accept",
				"Append is called on a buffer that does not come from workerMap.GetOrCreate in Accept: the final flush cannot be shown to visit it")
		}
	}
	c.floor("C01.R9", "Append call sites", nApp, 1)
	// (b) Close walks workerMap on every path
	cl := c.P.Fn(aOrcClose)
	isWalk := func(s ssa.CallInstruction) bool {
		f := s.Common().StaticCallee()
		return f != nil && isAnchor(f, aWalk) && fromWorkerMap(s.Common().Args[0])
	}
	sWalk := siteSumm(c.P, isWalk)
	sWalk.AllowEmptyGuards = false
	c.mustBeforeReturn("C01.R9", cl, entryOf(cl), sWalk, "Close walks the map that Accept fills", "LocalCachedMap.Walk on the field workerMap (not a side collection)", cl.Pos(), nil)
	// (c) the closure handed to Walk flushes the buffer it is given; no other Flush receiver on the close path
	reach := c.P.reachableFrom([]*ssa.Function{cl}, nil)
	nFl := 0
	for fn := range reach {
		for _, s := range c.callsTo(fn, anchorPred(aCIBFlush)) {
			nFl++
			okRecv := false
			if p, ok := strip(recvOf(s)).(*ssa.Parameter); ok && fn.Parent() != nil && len(fn.Params) == 2 && p == fn.Params[1] {
				// the closure is an argument of a Walk call on workerMap
				for _, site := range callsIn(fn.Parent()) {
					if !isWalk(site) || len(site.Common().Args) < 2 {
						continue
					}
					if mc, ok := strip(site.Common().Args[1]).(*ssa.MakeClosure); ok && mc.Fn == fn {
						okRecv = true
					}
				}
			}
			c.check(okRecv, "C01.R9", fn, "the final flush flushes the entry Walk hands over", s.Pos(),
				"Flush is called on the value parameter of the closure passed to workerMap.Walk",
				"on the close path Flush is called on a buffer that is not the entry handed over by workerMap.Walk: buffers outside that collection are never flushed at Close")
		}
	}
	c.floor("C01.R9", "Flush call sites on the close path", nFl, 1)
	// (d) the map: Walk visits every entry, GetOrCreate returns entries of the map, nothing deletes, the fields are immutable
	for _, fn := range c.P.Fns(aWalk) {
		var rng *ssa.Range
		eachInstr(fn, func(in ssa.Instruction) {
			if r, ok := in.(*ssa.Range); ok && fieldOf(r.X) == fLocalMap {
				rng = r
			}
		})
		okWalk := false
		pos := fn.Pos()
		if rng != nil && len(fn.Params) == 2 {
			for _, s := range callsIn(fn) {
				if s.Common().Value != fn.Params[1] || len(s.Common().Args) != 2 {
					continue
				}
				ex, ok := s.Common().Args[1].(*ssa.Extract)
				if !ok || ex.Index != 2 {
					continue
				}
				nx, ok := ex.Tuple.(*ssa.Next)
				if !ok || nx.Iter != rng {
					continue
				}
				pos = s.Pos()
				// no way round the call within an iteration
				lp := loopOf(fn, s.Block())
				if lp == nil || lp.bodyEntry == nil {
					continue
				}
				q := &PathQ{P: c.P, Barrier: func(in ssa.Instruction) bool { return in == s.(ssa.Instruction) }}
				hit, _ := q.Reach(Point{lp.bodyEntry, 0}, func(in ssa.Instruction) bool { return in == ssa.Instruction(nx) || isReturn(in) })
				okWalk = hit == nil
			}
		}
		c.check(okWalk, "C01.R9", fn, "Walk calls the action for every entry of localMap", pos,
			"range over the field localMap, the action is called with the entry in every iteration",
			"Walk does not call the action for every entry of localMap")
	}
	for _, fn := range c.P.Fns(aGetOrCreate) {
		for _, rv := range returnedValues(fn, 0) {
			okRet := false
			v := strip(rv.Val)
			if ex, ok := v.(*ssa.Extract); ok && ex.Index == 0 {
				if lk, ok := ex.Tuple.(*ssa.Lookup); ok && fieldOf(lk.X) == fLocalMap {
					okRet = true
				}
			}
			if !okRet {
				eachInstr(fn, func(in ssa.Instruction) {
					if mu, ok := in.(*ssa.MapUpdate); ok && fieldOf(mu.Map) == fLocalMap && strip(mu.Value) == v && dominatesInstr(mu, rv.At) {
						okRet = true
					}
				})
			}
			c.check(okRet, "C01.R9", fn, "GetOrCreate returns an entry of localMap", rv.At.Pos(),
				"the result was found in localMap or stored into it before the return",
				"GetOrCreate can return a local buffer that is not in localMap: Walk, and with it the final flush, never visits it")
		}
	}
	nMapOps := 0
	for _, fn := range c.P.universe {
		eachInstr(fn, func(in ssa.Instruction) {
			switch x := in.(type) {
			case *ssa.Call:
				if isBuiltin(x, "delete") && fieldOf(x.Call.Args[0]) == fLocalMap {
					c.bad("C01.R9", fn, "localMap is append-only", x.Pos(), "an entry is deleted from localMap: its buffer is no longer visited by the final flush")
				}
				if isBuiltin(x, "clear") && fieldOf(x.Call.Args[0]) == fLocalMap {
					c.bad("C01.R9", fn, "localMap is append-only", x.Pos(), "localMap is cleared: its buffers are no longer visited by the final flush")
				}
			case *ssa.Store:
				if fa, ok := strip(x.Addr).(*ssa.FieldAddr); ok {
					switch fieldName(fa.X.Type(), fa.Field) {
					case fLocalMap:
						nMapOps++
						c.check(isAnchor(fn, aMakeLocal), "C01.R9", fn, "localMap is set once, at construction", x.Pos(),
							"stored in MakeLocalMap only", "localMap is replaced outside MakeLocalMap: buffers of the old map are never flushed")
					case fWorkerMap:
						nMapOps++
						c.check(isAnchor(fn, aOrcNewSnk), "C01.R9", fn, "workerMap is set once, at construction", x.Pos(),
							"stored in NewSink only", "the sink's workerMap is replaced outside NewSink: buffers of the old map are never flushed")
					}
				}
			}
		})
	}
	c.floor("C01.R9", "stores of localMap / workerMap", nMapOps, 2)
}

// R10: timer discipline on the delivery path. With the language version of this module (go.mod below 1.23) a
// time.Timer's channel keeps a stale tick when the timer fired unobserved, and Reset does not drain it: the next select on
// timer.C then takes the timeout branch at once — in channelInputBuffer.Flush that branch discards the batch. Every
// (*time.Timer).Reset in the module must therefore be dominated by a Stop of the same timer and a drain of its channel
// (`if !t.Stop() { select { case <-t.C: default: } }`). Today there is no Reset at all (every wait uses a fresh
// time.After); the rule is armed for the day one appears.
func init() {
	register("C01", "C01.R10", ruleC01R10)
	register("C18", "C01.R10", ruleC01R10)
}

func ruleC01R10(c *Ctx) {
	// language version
	legacy := true
	if b, err := os.ReadFile(filepath.Join(c.P.repo, "go.mod")); err == nil {
		for _, line := range strings.Split(string(b), "\n") {
			f := strings.Fields(line)
			if len(f) == 2 && f[0] == "go" {
				parts := strings.Split(f[1], ".")
				if len(parts) >= 2 {
					maj, _ := strconv.Atoi(parts[0])
					min, _ := strconv.Atoi(parts[1])
					if maj > 1 || (maj == 1 && min >= 23) {
						legacy = false
					}
				}
			}
		}
	}
	n := 0
	timerKey := func(v ssa.Value) string {
		if f := fieldOf(v); f != "" {
			return "field " + f
		}
		return "value " + strip(v).Name()
	}
	for _, fn := range c.P.universe {
		for _, s := range callsIn(fn) {
			f := s.Common().StaticCallee()
			if f == nil || extName(f) != "(*time.Timer).Reset" {
				continue
			}
			n++
			if !legacy {
				c.ok("C01.R10", fn, "Timer.Reset on a drained timer", s.Pos(), "go.mod selects Go >= 1.23: Reset discards a stale tick itself")
				continue
			}
			key := timerKey(s.Common().Args[0])
			var stops []ssa.Instruction
			for _, x := range callsIn(fn) {
				g := x.Common().StaticCallee()
				if g != nil && extName(g) == "(*time.Timer).Stop" && timerKey(x.Common().Args[0]) == key && dominatesInstr(x, s) {
					stops = append(stops, x)
				}
			}
			drained := false
			for _, op := range chanOps(fn) {
				if op.Kind != "recv" {
					continue
				}
				// <-t.C of the same timer, after a dominating Stop and before the Reset
				fa, ok := strip(op.Chan).(*ssa.UnOp)
				if !ok {
					continue
				}
				cf, ok := strip(fa.X).(*ssa.FieldAddr)
				if !ok || fieldName(cf.X.Type(), cf.Field) != "time.Timer.C" || timerKey(cf.X) != key {
					continue
				}
				for _, st := range stops {
					q := &PathQ{P: c.P}
					if hit, _ := q.Reach(after(st), func(in ssa.Instruction) bool { return in == op.In }); hit != nil {
						q2 := &PathQ{P: c.P}
						if hit2, _ := q2.Reach(after(op.In), func(in ssa.Instruction) bool { return in == s.(ssa.Instruction) }); hit2 != nil {
							drained = true
						}
					}
				}
			}
			c.check(len(stops) > 0 && drained, "C01.R10", fn, "Timer.Reset on a drained timer", s.Pos(),
				"a Stop of the same timer dominates the Reset and its channel is drained in between",
				"Reset of "+key+" without the stop-and-drain idiom (language version below 1.23): a tick left in the channel by an earlier, unobserved expiry makes the next wait time out at once — on the delivery path the timeout branch discards the batch in hand")
		}
	}
	c.count("C01.R10:Timer.Reset calls", n)
	if n == 0 {
		c.ok("C01.R10", nil, "Timer.Reset on a drained timer", 0, "no (*time.Timer).Reset in the module: every timed wait uses a fresh timer (time.After)")
	}
}

// R11 (added after seed c01f): the unterminated tail of the line buffer is only given up when the connection has ended.
// Flush() emits the complete lines and keeps what follows the last newline for the next read; FlushAll() emits (or
// discards) that tail as a record of its own. Called while more bytes can still arrive — on a read timeout, between two
// reads — it cuts a record that is merely slow in two: the head is delivered truncated, the rest has no header and is
// dropped. So after every call of FlushAll no further Read of the reader may be reachable (paths of the caller's region).
func init() {
	register("C01", "C01.R11", ruleC01R11)
	register("C09", "C01.R11", ruleC01R11)
}

func ruleC01R11(c *Ctx) {
	const aRead = "input/tcplistener.(*multiLineReader).Read"
	n := 0
	for _, fn := range c.P.universe {
		for _, s := range c.callsTo(fn, anchorPred(aFlushAll)) {
			n++
			root := fn
			for _, cand := range c.P.universe {
				if cand.Parent() == nil && c.helpersOf(cand)[fn] {
					root = cand
				}
			}
			q := c.pq(root)
			hit, trail := q.Reach(after(s), func(in ssa.Instruction) bool {
				ci, ok := in.(ssa.CallInstruction)
				return ok && ci.Common().StaticCallee() != nil && isAnchor(ci.Common().StaticCallee(), aRead)
			})
			c.check(hit == nil, "C01.R11", fn, "no read follows FlushAll", s.Pos(),
				"the reader is not read from again after its unterminated tail was flushed: the connection has ended",
				"after FlushAll the connection is read from again ("+c.P.trailString(trail)+"): a record that arrives in two pieces with a pause in between is cut — the first piece is emitted (or discarded) as a record of its own and the rest, which has no header, is dropped")
		}
	}
	c.floor("C01.R11", "FlushAll call sites", n, 1)
}
