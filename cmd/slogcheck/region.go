package main

// Helper-transparent analysis. "Extract method" and its inverse are the commonest behaviour-preserving edits, and a rule
// that looks for its events in one function body only would report the moved statements as missing. A rule that opts in
// analyses the *region* of its anchor instead: the function plus its private helpers — functions of the same package that
// are called by plain static calls (or deferred static calls) from inside the region and from nowhere else. Events are
// collected over the region (callsInR, eachInstrR, chanOpsR …) and path queries descend into the helpers at their call
// sites with a call stack (PathQ.Into), so "A before B on every path" is decided on the same paths whether the statements
// stand in the anchor or in a helper it calls.

import (
	"fmt"
	"os"
	"sort"
	"strings"

	"golang.org/x/tools/go/ssa"
)

// helpersOf: the private helpers of fn (memoised). A helper is in the same package, has a body, is not recursive with
// the region, and every call-graph caller of it lies in the region.
func (c *Ctx) helpersOf(fn *ssa.Function) map[*ssa.Function]bool { return c.P.helpersOf(fn) }

func (P *Prog) helpersOf(fn *ssa.Function) map[*ssa.Function]bool {
	c := &Ctx{P: P}
	if c.P.helperMemo == nil {
		c.P.helperMemo = map[*ssa.Function]map[*ssa.Function]bool{}
	}
	if h, ok := c.P.helperMemo[fn]; ok {
		return h
	}
	region := map[*ssa.Function]bool{fn: true}
	for _, a := range withAnons(fn) {
		region[a] = true
	}
	helpers := map[*ssa.Function]bool{}
	for round := 0; round < 4; round++ {
		grown := false
		var members []*ssa.Function
		for f := range region {
			members = append(members, f)
		}
		for _, f := range members {
			for _, s := range callsIn(f) {
				if _, isGo := s.(*ssa.Go); isGo {
					continue
				}
				g := s.Common().StaticCallee()
				if os.Getenv("SLOGCHECK_REGDBG") != "" && g != nil && fnPkgPath(g) == fnPkgPath(fn) {
					fmt.Fprintf(os.Stderr, "region %s: callee %s synthetic=%q blocks=%v parent=%v only=%v sites=%d valueUse=%v\n", fn, g, g.Synthetic, g.Blocks != nil, g.Parent() != nil, c.P.onlyCalledFrom(g, region), len(c.P.staticSites[g]), c.P.valueUse[g])
					for _, ss := range c.P.staticSites[g] {
						fmt.Fprintf(os.Stderr, "   site in %s (%p) synthetic=%q inRegion=%v\n", ss.Parent(), ss.Parent(), ss.Parent().Synthetic, region[ss.Parent()])
					}
				}
				if g == nil || region[g] || g.Blocks == nil || g.Parent() != nil || fnPkgPath(g) != fnPkgPath(fn) || (g.Synthetic != "" && !strings.HasPrefix(g.Synthetic, "instance of")) {
					continue
				}
				if !c.P.onlyCalledFrom(g, region) {
					continue
				}
				helpers[g] = true
				for _, a := range withAnons(g) {
					region[a] = true
				}
				grown = true
			}
		}
		if !grown {
			break
		}
	}
	c.P.helperMemo[fn] = helpers
	return helpers
}

// onlyCalledFrom: every static call of g stands in the region, g is never used as a value, and the call graph knows
// no other way into it (interface dispatch, function values)
func (P *Prog) onlyCalledFrom(g *ssa.Function, region map[*ssa.Function]bool) bool {
	if P.staticSites == nil {
		P.staticSites = map[*ssa.Function][]ssa.CallInstruction{}
		P.valueUse = map[*ssa.Function]bool{}
		P.valueUsers = map[*ssa.Function]map[*ssa.Function]bool{}
		for f := range P.allFuncs {
			if f.Blocks == nil {
				continue
			}
			eachInstr(f, func(in ssa.Instruction) {
				var callee *ssa.Function
				if ci, ok := in.(ssa.CallInstruction); ok {
					if callee = ci.Common().StaticCallee(); callee != nil {
						P.staticSites[callee] = append(P.staticSites[callee], ci)
					}
				}
				for _, op := range in.Operands(nil) {
					if op == nil || *op == nil {
						continue
					}
					if fv, ok := (*op).(*ssa.Function); ok {
						if ci, isCall := in.(ssa.CallInstruction); isCall && ci.Common().Value == ssa.Value(fv) && fv == callee {
							continue
						}
						P.valueUse[fv] = true
						if P.valueUsers[fv] == nil {
							P.valueUsers[fv] = map[*ssa.Function]bool{}
						}
						P.valueUsers[fv][f] = true
					}
				}
			})
		}
	}
	sites := P.staticSites[g]
	if len(sites) == 0 || P.valueUse[g] {
		return false
	}
	// a promoted-method or pointer-receiver wrapper that nothing calls or takes is not a caller
	deadWrapper := func(w *ssa.Function) bool {
		if w == nil || !strings.Contains(w.Synthetic, "wrapper") || len(P.staticSites[w]) > 0 || P.valueUse[w] {
			return false
		}
		n := P.cg.Nodes[w]
		return n == nil || len(n.In) == 0
	}
	inside := 0
	for _, s := range sites {
		if deadWrapper(s.Parent()) {
			continue
		}
		if !region[s.Parent()] {
			return false
		}
		inside++
	}
	if inside == 0 {
		return false
	}
	if n := P.cg.Nodes[g]; n != nil {
		for _, e := range n.In {
			if e.Caller != nil && deadWrapper(e.Caller.Func) {
				continue
			}
			if e.Caller == nil || e.Caller.Func == nil || !region[e.Caller.Func] {
				return false
			}
			if e.Site == nil || e.Site.Common().StaticCallee() != g {
				return false // reached through a function value / interface
			}
		}
	}
	return true
}

// regionOf: fn followed by its helpers in a stable order
func (c *Ctx) regionOf(fn *ssa.Function) []*ssa.Function {
	out := []*ssa.Function{fn}
	var hs []*ssa.Function
	for h := range c.helpersOf(fn) {
		hs = append(hs, h)
	}
	sort.Slice(hs, func(i, j int) bool { return hs[i].Pos() < hs[j].Pos() })
	return append(out, hs...)
}

func (c *Ctx) eachInstrR(fn *ssa.Function, f func(ssa.Instruction)) {
	for _, g := range c.regionOf(fn) {
		eachInstr(g, f)
	}
}

// callsInR: call instructions of the region (the calls of the helpers themselves included: a rule's anchor may well be a
// private helper of another anchor, as saveEverything is of the feeder's Run)
func (c *Ctx) callsInR(fn *ssa.Function) []ssa.CallInstruction {
	var out []ssa.CallInstruction
	for _, g := range c.regionOf(fn) {
		out = append(out, callsIn(g)...)
	}
	return out
}

func (c *Ctx) chanOpsR(fn *ssa.Function) []chanOp {
	var out []chanOp
	for _, g := range c.regionOf(fn) {
		out = append(out, chanOps(g)...)
	}
	return out
}

func (c *Ctx) storesToFieldR(fn *ssa.Function, name string) []*ssa.Store {
	var out []*ssa.Store
	for _, g := range c.regionOf(fn) {
		out = append(out, storesToField(g, name)...)
	}
	return out
}

// pq: a path query over fn's region
func (c *Ctx) pq(fn *ssa.Function) *PathQ {
	return &PathQ{P: c.P, Into: c.helpersOf(fn), Root: fn}
}

// goTarget: the function a go statement launches — a function literal, a named function or method, or a bound method
func (P *Prog) goTarget(gi *ssa.Go) *ssa.Function {
	if mc, ok := resolve(gi.Call.Value).(*ssa.MakeClosure); ok {
		f := mc.Fn.(*ssa.Function)
		for i := 0; isWrapper(f) && i < 3; i++ {
			ts := wrapperTargets(P, f)
			if len(ts) != 1 {
				break
			}
			f = ts[0]
		}
		return f
	}
	if f := gi.Call.StaticCallee(); f != nil && f.Blocks != nil {
		return f
	}
	return nil
}

// goParent: for a named function that is only ever started as a goroutine, from one function: that function. Such a
// function plays the part of a `go func() {…}()` literal of its launcher, and reviewed entries written for the literal
// (parent$N) apply to it.
func (c *Ctx) goParent(fn *ssa.Function) *ssa.Function {
	if fn.Parent() != nil {
		return nil
	}
	if p := c.methodValueParent(fn); p != nil {
		return p
	}
	n := c.P.cg.Nodes[fn]
	if n == nil || len(n.In) == 0 {
		return nil
	}
	var parent *ssa.Function
	for _, e := range n.In {
		gi, isGo := e.Site.(*ssa.Go)
		if !isGo || e.Caller == nil || c.P.goTarget(gi) != fn {
			return nil
		}
		p := e.Caller.Func
		for p.Parent() != nil {
			p = p.Parent()
		}
		if parent != nil && parent != p {
			return nil
		}
		parent = p
	}
	return parent
}

func (c *Ctx) sitesWhereR(fn *ssa.Function, pred func(ssa.CallInstruction) bool) []ssa.CallInstruction {
	var out []ssa.CallInstruction
	for _, s := range c.callsInR(fn) {
		if pred(s) {
			out = append(out, s)
		}
	}
	return out
}

// callsIn2: the call sites of helper g inside the region of fn
func (c *Ctx) callsIn2(fn, g *ssa.Function) []ssa.CallInstruction {
	var out []ssa.CallInstruction
	for _, f := range c.regionOf(fn) {
		for _, a := range withAnons(f) {
			for _, s := range callsIn(a) {
				if s.Common().StaticCallee() == g {
					out = append(out, s)
				}
			}
		}
	}
	return out
}

// methodValueParent: a named method that is never called directly and is only taken as a method value (x.m, handed out as
// a callback) inside one function: it plays the part of a function literal of that function, like goParent's case.
func (c *Ctx) methodValueParent(fn *ssa.Function) *ssa.Function {
	c.P.onlyCalledFrom(fn, nil) // builds the index
	var parent *ssa.Function
	note := func(user *ssa.Function) bool {
		for user.Parent() != nil {
			user = user.Parent()
		}
		if parent != nil && parent != user {
			return false
		}
		parent = user
		return true
	}
	sites := c.P.staticSites[fn]
	if len(sites) == 0 && !c.P.valueUse[fn] {
		return nil
	}
	for u := range c.P.valueUsers[fn] {
		if !note(u) {
			return nil
		}
	}
	for _, s := range sites {
		w := s.Parent()
		if !strings.Contains(w.Synthetic, "bound method wrapper") && !strings.Contains(w.Synthetic, "wrapper for") {
			return nil // an ordinary direct call
		}
		if len(c.P.staticSites[w]) > 0 {
			return nil
		}
		if n := c.P.cg.Nodes[w]; (n == nil || len(n.In) == 0) && !c.P.valueUse[w] {
			continue // dead wrapper
		}
		if !strings.Contains(w.Synthetic, "bound method wrapper") {
			return nil
		}
		for u := range c.P.valueUsers[w] {
			if !note(u) {
				return nil
			}
		}
	}
	return parent
}

// installReviewedParent wires the reviewed-table lookups (rulekit.go) to the region machinery
func (P *Prog) installReviewedParent() {
	byName := map[string][]*ssa.Function{}
	for _, f := range P.universe {
		byName[anchorName(f)] = append(byName[anchorName(f)], f)
	}
	memo := map[string]string{}
	reviewedParentOf = func(name string) string {
		if strings.HasPrefix(name, "gone:") {
			// "gone:<old function>><current function>": the old function's package and receiver type are those of the
			// current one (an inlined helper lived next to its caller)
			parts := strings.SplitN(strings.TrimPrefix(name, "gone:"), ">", 2)
			if len(parts) == 2 && samePkgAndRecv(parts[0], parts[1]) {
				return "ok"
			}
			return ""
		}
		if v, ok := memo[name]; ok {
			return v
		}
		out := ""
		for _, f := range byName[name] {
			if f.Parent() != nil {
				continue
			}
			P.onlyCalledFrom(f, nil)
			var parent *ssa.Function
			okAll := len(P.staticSites[f]) > 0
			for _, s := range P.staticSites[f] {
				u := s.Parent()
				if strings.Contains(u.Synthetic, "wrapper") {
					continue
				}
				for u.Parent() != nil {
					u = u.Parent()
				}
				if parent != nil && parent != u {
					okAll = false
				}
				parent = u
			}
			if okAll && parent != nil && parent != f && P.helpersOf(parent)[f] {
				out = anchorName(parent)
			}
			if out == "" {
				// only ever started as a goroutine / handed out as a method value by one function
				if gp := (&Ctx{P: P}).goParent(f); gp != nil && gp != f {
					out = anchorName(gp)
				}
			}
		}
		memo[name] = out
		return out
	}
}

// samePkgAndRecv: two anchor names "pkg.(*T).m" / "pkg.f" agree on package and receiver type
func samePkgAndRecv(a, b string) bool {
	cut := func(s string) string {
		if i := strings.LastIndex(s, "."); i > 0 {
			return s[:i]
		}
		return s
	}
	return cut(a) == cut(b)
}

// ownerNames: the anchor name of fn followed by the names of the functions it is a private helper of (its only caller,
// that one's only caller, …). A who-may rule that allows function A allows the private helpers extracted from A.
func ownerNames(fn *ssa.Function) []string {
	n := anchorName(fn)
	out := []string{n}
	for hops := 0; hops < 4; hops++ {
		par := reviewedParentOf(n)
		if par == "" || par == n {
			break
		}
		out = append(out, par)
		n = par
	}
	return out
}

// ownedBy: fn is one of the named functions or a private helper (transitively) of one
func ownedBy(fn *ssa.Function, names ...string) bool {
	for _, o := range ownerNames(fn) {
		for _, n := range names {
			if o == n {
				return true
			}
		}
	}
	return false
}

func ownedByAny(fn *ssa.Function, allowed map[string]bool) bool {
	for _, o := range ownerNames(fn) {
		if allowed[o] {
			return true
		}
	}
	return false
}

// mentionsR: mentions, looking through the results of private helpers of root into what they return
func (c *Ctx) mentionsR(root *ssa.Function, v ssa.Value, pred func(ssa.Value) bool, depth int) bool {
	hs := c.helpersOf(root)
	return mentions(v, func(x ssa.Value) bool {
		if pred(x) {
			return true
		}
		if cl, ok := x.(*ssa.Call); ok && depth < 3 {
			if g := cl.Common().StaticCallee(); g != nil && hs[g] {
				for ri := 0; ri < g.Signature.Results().Len(); ri++ {
					for _, rv := range returnedValues(g, ri) {
						if c.mentionsR(root, rv.Val, pred, depth+1) {
							return true
						}
					}
				}
			}
		}
		return false
	})
}

// siteInRoot: the instruction of root that stands for in — in itself, or the (unique) call of the private helper of root
// that contains it, up the helper chain; nil when there is no unique one
func (c *Ctx) siteInRoot(root *ssa.Function, in ssa.Instruction) ssa.Instruction {
	cur := in
	for hops := 0; hops < 4; hops++ {
		f := cur.Parent()
		if f == root {
			return cur
		}
		if !c.helpersOf(root)[f] {
			return nil
		}
		sites := c.callsIn2(root, f)
		if len(sites) != 1 {
			return nil
		}
		cur = sites[0]
	}
	return nil
}

// resolveR: resolve, and through a parameter of a private helper of root (with one call site) to the argument
func (c *Ctx) resolveR(root *ssa.Function, v ssa.Value) ssa.Value {
	for hops := 0; hops < 4; hops++ {
		v = resolve(v)
		prm, ok := v.(*ssa.Parameter)
		if !ok || prm.Parent() == root || !c.helpersOf(root)[prm.Parent()] {
			return v
		}
		sites := c.callsIn2(root, prm.Parent())
		if len(sites) != 1 {
			return v
		}
		idx := -1
		for i, q := range prm.Parent().Params {
			if q == prm {
				idx = i
			}
		}
		if idx < 0 || idx >= len(sites[0].Common().Args) {
			return v
		}
		v = sites[0].Common().Args[idx]
	}
	return resolve(v)
}

// errNilEdgesInRoot: the branch edges *of root* that mean "the error of call s is nil" (wantNil) resp. "is not nil". When s
// stands in a private helper of root whose own error result is equivalent to the error of s — nil exactly when that is: it
// is returned as it is, or a nil constant only through the nil edge and a certainly non-nil value only through the non-nil
// edge — the call of the helper stands for s, up the helper chain. errIdx is the index of the error among s's results.
func (c *Ctx) errNilEdgesInRoot(root *ssa.Function, s ssa.CallInstruction, errIdx int, wantNil bool) map[*ssa.BasicBlock]int {
	cur := s
	idx := errIdx
	for hops := 0; hops < 4; hops++ {
		f := cur.Parent()
		errv := resultOf(cur.Value(), idx)
		if cur.Value() != nil && cur.Common().Signature().Results().Len() == 1 {
			errv = cur.Value()
		}
		if f == root {
			return nilEdges(errv, wantNil)
		}
		if !c.helpersOf(root)[f] || errv == nil {
			return nil
		}
		nres := f.Signature.Results().Len()
		if nres == 0 || !isErrorType(f.Signature.Results().At(nres-1).Type()) {
			return nil
		}
		nilE, nonNilE := nilEdges(errv, true), nilEdges(errv, false)
		for _, rv := range returnedValues(f, nres-1) {
			v := strip(rv.Val)
			switch {
			case v == strip(errv):
			case func() bool { k, ok := v.(*ssa.Const); return ok && k.IsNil() }():
				via := false
				for b, si := range nilE {
					if c.onlyViaEdge(f, rv.At, b, si) {
						via = true
					}
				}
				if !via {
					return nil
				}
			default:
				via := false
				for b, si := range nonNilE {
					if c.onlyViaEdge(f, rv.At, b, si) {
						via = true
					}
				}
				if !via || !certainlyNonNilError(rv.Val) && !mentions(rv.Val, func(x ssa.Value) bool { return x == errv }) {
					return nil
				}
			}
		}
		sites := c.callsIn2(root, f)
		if len(sites) != 1 {
			return nil
		}
		cur, idx = sites[0], nres-1
	}
	return nil
}
