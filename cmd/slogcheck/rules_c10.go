package main

// C10: serialized Fluentd events decode to exactly the record's visible fields (structure of the encoder).
//
// R1  length classes: every header written with a 4-bit / 16-bit length is proved to carry a length that fits
// R2  reserve / back-patch agreement: a header re-written at a saved position has the width of its reservation
//     and is selected by the same predicate
// R3  the root map count: starts at 1 (environment), is incremented exactly once per emitted field; the
//     environment map announces len(envFieldLocators) pairs and writes exactly one key and one value per locator
// R4  nothing reachable from serialization writes a LogRecord (rule C12.R5, registered there as C10.R4)
// R5  every LogRewriter: WriteFieldBody result is within [0, len(buffer)] and MaxFieldLength >= 0 (C07.R4c);
//     MaxFieldLength and WriteFieldBody are built from the same operands

import (
	"fmt"
	"go/token"
	"sort"
	"strings"

	"golang.org/x/tools/go/ssa"
)

func init() {
	propExplanation["C10"] = "Decode equality is value-level and NOT decided. Decided is the shape of the hand-rolled encoder on every path: R1 every fastmsgpack header with a 4-bit or 16-bit length field (EncodeString4/16, EncodeStringLen4/16, EncodeMapLen4/16, EncodeArrayLen4/16) is called with a length proved to fit (0..15 / 0..65535) by the facts engine, including the two back-patched headers (root map count <= number of fields + 1, rewritten length <= reserved maximum by the LogRewriter contract); " +
		"R2 a header re-written at a saved position uses the same width as its reservation and is chosen by the same predicate (compared as canonical expressions); R3 the root map count starts at 1 for the nested environment map and is incremented exactly once in every loop iteration that emits a field and never in one that skips, the environment map announces len(envFieldLocators) and every iteration writes exactly one key and one value; " +
		"R4 serialization and rewriters never write to the record (one record is serialized once per output); R5 every LogRewriter returns 0 <= n <= len(buffer) and a non-negative maximum, and both methods are computed from the same operands. " +
		"Not decided: the bytes inside each field, escape semantics of the unescape rewriter, the event-time encoding."
	register("C10", "C10.R1", ruleC10R1)
	register("C10", "C10.R2", ruleC10R2)
	register("C10", "C10.R3", ruleC10R3)
	register("C10", "C10.R4", ruleC12R5)
	register("C10", "C10.R5", ruleC10R5)
	register("C10", "C07.R4c", ruleC07R4c)
}

// width class of a fastmsgpack header function: (bits of the length field, index of the length argument, string argument?)
func msgpackClass(f *ssa.Function) (bits int, lenArg int, strArg bool, ok bool) {
	if f == nil || relPkg(fnPkgPath(f)) != "output/fastmsgpack" {
		return 0, 0, false, false
	}
	n := f.Name()
	for _, suf := range []struct {
		s    string
		bits int
	}{{"4", 4}, {"16", 16}, {"32", 32}} {
		if !strings.HasSuffix(n, suf.s) {
			continue
		}
		base := strings.TrimSuffix(n, suf.s)
		switch base {
		case "EncodeString":
			return suf.bits, 2, true, true
		case "EncodeStringLen", "EncodeMapLen", "EncodeArrayLen":
			return suf.bits, 2, false, true
		}
	}
	return 0, 0, false, false
}

// c10R1Reviewed: lengths accepted on review (function | header function | canonical length)
var c10R1Reviewed = map[string]string{
	"output/fluentdforward.(*eventSerializer).encodeRecord|EncodeMapLen16|len(recv.envFieldLocators)": "the number of environment fields is the length of a YAML list of schema field names; a 16-bit count (65535) is not reachable by a configuration that fits in memory as a schema, and there is no 32-bit variant in the encoder by design",
	"output/fluentdforward.(*eventSerializer).encodeRecord|EncodeMapLen16|phi((phi+1)|1|phi)":         "the root map count is at most the number of schema fields + 1 (proved for the 4-bit case by the same invariant); the schema is a YAML list, far below 65535 entries",
}

func ruleC10R1(c *Ctx) {
	pr := c.f6()
	n := 0
	for _, fn := range c.P.universe {
		if relPkg(fnPkgPath(fn)) == "output/fastmsgpack" {
			continue // the helpers call each other with the same length: decided at their callers
		}
		for _, site := range callsIn(fn) {
			bits, la, isStr, ok := msgpackClass(site.Common().StaticCallee())
			if !ok || bits == 32 {
				continue
			}
			n++
			arg := site.Common().Args[la]
			var t term
			if isStr {
				t = lenT(arg)
			} else {
				t = valT(arg)
			}
			max := int64(1)<<uint(bits) - 1
			if reason, ok := lookupReviewed(c10R1Reviewed, anchorName(fn)+"|"+site.Common().StaticCallee().Name()+"|"+canonOf(arg)); ok {
				if pr.prove(fn, site, zeroT(), t, 0, nil) {
					c.assumed("C10.R1", fn, fmt.Sprintf("%s with a length that fits %d bits", site.Common().StaticCallee().Name()+"(…,"+canonOf(arg)+")", bits), site.Pos(), "reviewed: "+reason)
					continue
				}
			}
			pr.used = nil
			okHi := pr.prove(fn, site, t, zeroT(), max, nil)
			okLo := pr.prove(fn, site, zeroT(), t, 0, nil)
			why := fmt.Sprintf("0 <= length <= %d proved at the call", max)
			if len(pr.used) > 0 {
				why += "; relies on: " + strings.Join(pr.used, "; ")
			}
			c.check(okHi && okLo, "C10.R1", fn, fmt.Sprintf("%s with a length that fits %d bits", canonOf(site.Value()), bits), site.Pos(), why,
				fmt.Sprintf("the length is not shown to be within 0..%d: the header's length field is truncated and the stream no longer decodes", max))
		}
	}
	c.floor("C10.R1", "calls of 4-bit / 16-bit msgpack headers", n, 8)
}

// controllingCond: canonical condition + truth under which alone the instruction is reached
func controllingCond(c *Ctx, fn *ssa.Function, in ssa.Instruction) string {
	w := &f8{c: c}
	iff, si := w.controllingIf(fn, in)
	if iff == nil {
		return "<unconditional>"
	}
	return fmt.Sprintf("%s is %v", canonOf(iff.Cond), si == 0)
}

func ruleC10R2(c *Ctx) {
	fn := c.P.Fn("output/fluentdforward.(*eventSerializer).encodeRecord")
	// reservations: calls whose position argument value is later used as the position of a header call whose result is discarded
	type hdr struct {
		site ssa.CallInstruction
		bits int
		pos  ssa.Value
	}
	var patches, reserves []hdr
	// reservation and patch of one header stand in one function; which function of the encoder's region that is (the
	// root map in encodeRecord, a field's length in a helper that encodes one field) is free
	for _, site := range c.callsInR(fn) {
		f := site.Common().StaticCallee()
		if f == nil || relPkg(fnPkgPath(f)) != "output/fastmsgpack" {
			continue
		}
		bits := 0
		switch {
		case strings.HasSuffix(f.Name(), "32"):
			bits = 32
		case strings.HasSuffix(f.Name(), "16"):
			bits = 16
		case strings.HasSuffix(f.Name(), "4"):
			bits = 4
		default:
			continue
		}
		posIdx := 1
		if strings.HasPrefix(f.Name(), "ReserveLen") {
			posIdx = 0
		}
		if posIdx >= len(site.Common().Args) {
			continue
		}
		h := hdr{site, bits, strip(site.Common().Args[posIdx])}
		v := site.Value()
		unused := v == nil || v.Referrers() == nil || len(*v.Referrers()) == 0
		if unused {
			patches = append(patches, h)
		} else {
			reserves = append(reserves, h)
		}
	}
	c.floor("C10.R2", "back-patched headers", len(patches), 4)
	for _, p := range patches {
		var match []hdr
		for _, r := range reserves {
			if r.pos == p.pos && r.site.Parent() == p.site.Parent() {
				match = append(match, r)
			}
		}
		construct := "back-patch " + canonOf(p.site.Value())
		if len(match) == 0 {
			c.bad("C10.R2", p.site.Parent(), construct, p.site.Pos(), "a header is written at a position for which no reservation of the same position value exists")
			continue
		}
		okW := false
		pc := controllingCond(c, p.site.Parent(), p.site)
		var seen []string
		for _, r := range match {
			rc := controllingCond(c, r.site.Parent(), r.site)
			seen = append(seen, fmt.Sprintf("%d bits when %s", r.bits, rc))
			if r.bits == p.bits && rc == pc {
				okW = true
			}
		}
		sort.Strings(seen)
		c.check(okW, "C10.R2", fn, construct, p.site.Pos(),
			fmt.Sprintf("%d-bit header when %s, as reserved", p.bits, pc),
			fmt.Sprintf("the header patched here is %d bits wide when %s, but the reservation at that position is: %s — a different width shifts every following byte", p.bits, pc, strings.Join(seen, " / ")))
	}
}

func ruleC10R3(c *Ctx) {
	root := c.P.Fn("output/fluentdforward.(*eventSerializer).encodeRecord")
	// the encoder's body: encodeRecord and its private helpers (the field loop and the environment loop may stand in either)
	var region []*ssa.Function
	for _, g := range c.regionOf(root) {
		region = append(region, withAnons(g)...)
	}
	inRegion := map[*ssa.Function]bool{}
	for _, g := range region {
		inRegion[g] = true
	}
	isMapLen := func(site ssa.CallInstruction) bool {
		f := site.Common().StaticCallee()
		return f != nil && relPkg(fnPkgPath(f)) == "output/fastmsgpack" && strings.HasPrefix(f.Name(), "EncodeMapLen") && len(site.Common().Args) == 3
	}
	unusedResult := func(site ssa.CallInstruction) bool {
		v := site.Value()
		return v == nil || v.Referrers() == nil || len(*v.Referrers()) == 0
	}
	// the counter: the value back-patched into the root map header is  k + (a loop-header phi)  — also when the loop stands
	// in a helper that returns its count
	type cnt struct {
		phi *ssa.Phi
		k   int64
	}
	var resolveCount func(v ssa.Value, depth int) (cnt, bool)
	resolveCount = func(v ssa.Value, depth int) (cnt, bool) {
		v = strip(v)
		if depth > 6 {
			return cnt{}, false
		}
		switch x := v.(type) {
		case *ssa.Phi:
			if isLoopHeader(x.Block()) {
				return cnt{x, 0}, true
			}
			var got cnt
			for i, e := range x.Edges {
				r, ok := resolveCount(e, depth+1)
				if !ok || (i > 0 && r != got) {
					return cnt{}, false
				}
				got = r
			}
			return got, len(x.Edges) > 0
		case *ssa.BinOp:
			if x.Op == token.ADD {
				if k, ok := constInt(x.Y); ok {
					r, ok2 := resolveCount(x.X, depth+1)
					r.k += k
					return r, ok2
				}
				if k, ok := constInt(x.X); ok {
					r, ok2 := resolveCount(x.Y, depth+1)
					r.k += k
					return r, ok2
				}
			}
		case *ssa.Extract:
			if cl, ok := x.Tuple.(*ssa.Call); ok {
				if g := cl.Common().StaticCallee(); g != nil && inRegion[g] {
					var got cnt
					rvs := returnedValues(g, x.Index)
					for i, rv := range rvs {
						r, ok := resolveCount(rv.Val, depth+1)
						if !ok || (i > 0 && r != got) {
							return cnt{}, false
						}
						got = r
					}
					return got, len(rvs) > 0
				}
			}
		case *ssa.Call:
			if g := x.Common().StaticCallee(); g != nil && inRegion[g] && g.Signature.Results().Len() == 1 {
				var got cnt
				rvs := returnedValues(g, 0)
				for i, rv := range rvs {
					r, ok := resolveCount(rv.Val, depth+1)
					if !ok || (i > 0 && r != got) {
						return cnt{}, false
					}
					got = r
				}
				return got, len(rvs) > 0
			}
		}
		return cnt{}, false
	}
	var counter *ssa.Phi
	var patched cnt
	nPatch := 0
	for _, g := range region {
		for _, site := range callsIn(g) {
			if !isMapLen(site) || !unusedResult(site) {
				continue
			}
			nPatch++
			r, ok := resolveCount(site.Common().Args[2], 0)
			// a join of the counter inside its loop reaches the header phi
			c.check(ok && (counter == nil || (r.phi == counter && r.k == patched.k)), "C10.R3", g, "the back-patched root map length is the field counter", site.Pos(), "the counter of the field loop (plus a constant)", "another value is written as the root map size")
			if ok && counter == nil {
				counter, patched = r.phi, r
			}
		}
	}
	c.floor("C10.R3", "back-patched root map headers", nPatch, 1)
	if counter == nil {
		broken("C10.R3: the field counter patched into the root map header was not found")
	}
	fn := counter.Parent()
	lp := loopOf(fn, counter.Block())
	if lp == nil || lp.bodyEntry == nil {
		broken("C10.R3: the field loop of the encoder was not found")
	}
	// initial value: counter + constant = 1 before the first field (the nested environment map)
	init := int64(-1 << 30)
	for i, e := range counter.Edges {
		if !lp.blocks[counter.Block().Preds[i]] {
			if k, ok := constInt(e); ok {
				init = k
			}
		}
	}
	c.check(init+patched.k == 1, "C10.R3", fn, "root map count starts at 1 (the nested environment map)", counter.Pos(), "the announced size is 1 + the number of fields written", fmt.Sprintf("the counter starts at %d and %d is added: the announced map size is off by the environment entry", init, patched.k))
	// per iteration: increments == value writes
	isInc := func(in ssa.Instruction) bool {
		bo, ok := in.(*ssa.BinOp)
		if !ok || bo.Op.String() != "+" {
			return false
		}
		k, isK := constInt(bo.Y)
		return isK && k == 1 && chasePhi(bo.X, counter, lp)
	}
	isValueWrite := func(s ssa.CallInstruction) bool {
		f := s.Common().StaticCallee()
		if f != nil && relPkg(fnPkgPath(f)) == "output/fastmsgpack" && strings.HasPrefix(f.Name(), "EncodeString") && !strings.HasPrefix(f.Name(), "EncodeStringLen") {
			return true
		}
		return invokeOf(s, "base.LogRewriter", "WriteFieldBody")
	}
	isKeyCopy := func(s ssa.CallInstruction) bool {
		if cl, ok := s.(*ssa.Call); ok && isBuiltin(cl, "copy") {
			return strings.Contains(canonOf(cl.Call.Args[1]), "serializedFieldKeys") || strings.Contains(canonOf(cl.Call.Args[1]), "serializedEnvFieldKeys")
		}
		return false
	}
	samePkg := func(f *ssa.Function) bool { return fnPkgPath(f) == fnPkgPath(root) }
	cs := &CountSpec{P: c.P, Classes: []string{"count++", "value", "key"}, Descend: samePkg,
		Site: func(s ssa.CallInstruction) int {
			switch {
			case isValueWrite(s):
				return 1
			case isKeyCopy(s):
				return 2
			}
			return -1
		},
		Instr: func(in ssa.Instruction) int {
			if isInc(in) {
				return 0
			}
			return -1
		}}
	outs := cs.Enum(fn, Point{lp.bodyEntry, 0}, func(in ssa.Instruction) bool { return in == lp.header.Instrs[0] })
	good := len(outs) >= 2
	var why []string
	for _, o := range outs {
		if _, isRet := o.End.(*ssa.Return); isRet {
			continue // overflow return: the record is abandoned
		}
		if !(o.Counts[0] == o.Counts[1] && o.Counts[1] == o.Counts[2] && o.Counts[0] <= 1) {
			good = false
			why = append(why, cs.describe(o))
		}
	}
	c.check(good, "C10.R3", fn, "per field: key, value and count++ happen together, once, or not at all", lp.header.Instrs[0].Pos(),
		fmt.Sprintf("all %d iteration outcomes have count++ = key copies = value writes <= 1", len(outs)),
		"an iteration emits a field without counting it (or counts without emitting): the announced map size differs from the number of pairs: "+strings.Join(why, "; "))
	// environment map: announced len(envFieldLocators), one key + one value per locator
	var envLoop *loop
	var envFn *ssa.Function
	for _, g := range region {
		for _, l2 := range naturalLoops(g) {
			if g == fn && (l2.header == lp.header || lp.blocks[l2.header]) {
				continue
			}
			has := false
			for _, site := range callsIn(g) {
				if l2.blocks[site.Block()] {
					if cl, ok := site.(*ssa.Call); ok && isBuiltin(cl, "copy") && strings.Contains(canonOf(cl.Call.Args[1]), "serializedEnvFieldKeys") {
						has = true
					}
				}
			}
			if has {
				envLoop, envFn = l2, g
			}
		}
	}
	if envLoop == nil || envLoop.bodyEntry == nil {
		broken("C10.R3: the environment loop of the encoder was not found")
	}
	cs2 := &CountSpec{P: c.P, Classes: []string{"value", "key"}, Descend: samePkg,
		Site: func(s ssa.CallInstruction) int {
			switch {
			case isValueWrite(s):
				return 0
			case isKeyCopy(s):
				return 1
			}
			return -1
		}}
	outs2 := cs2.Enum(envFn, Point{envLoop.bodyEntry, 0}, func(in ssa.Instruction) bool { return in == envLoop.header.Instrs[0] })
	good2 := len(outs2) >= 1
	var why2 []string
	for _, o := range outs2 {
		if _, isRet := o.End.(*ssa.Return); isRet {
			continue
		}
		if !(o.Counts[0] == 1 && o.Counts[1] == 1) {
			good2 = false
			why2 = append(why2, cs2.describe(o))
		}
	}
	c.check(good2, "C10.R3", envFn, "per environment field: exactly one key and one value (present even when empty)", envLoop.header.Instrs[0].Pos(),
		fmt.Sprintf("all %d iteration outcomes write one key and one value", len(outs2)), "an environment field can be skipped or written twice while the map announces len(envFieldLocators) pairs: "+strings.Join(why2, "; "))
	nAnn := 0
	for _, g := range region {
		for _, site := range callsIn(g) {
			if !isMapLen(site) || unusedResult(site) {
				continue
			}
			nAnn++
			ok := canonOf(site.Common().Args[2]) == "len(recv.envFieldLocators)"
			c.check(ok, "C10.R3", g, "environment map announces len(envFieldLocators)", site.Pos(), "len(recv.envFieldLocators)", "the announced size "+canonOf(site.Common().Args[2])+" is not the number of locators the loop ranges over")
		}
	}
	c.floor("C10.R3", "environment map headers", nAnn, 2)
	// the loop ranges over envFieldLocators
	iff, _ := envLoop.header.Instrs[len(envLoop.header.Instrs)-1].(*ssa.If)
	okRange := iff != nil && strings.Contains(canonOf(iff.Cond), "len(recv.envFieldLocators)")
	c.check(okRange, "C10.R3", envFn, "the environment loop ranges over envFieldLocators", envLoop.header.Instrs[0].Pos(), "range bound is len(recv.envFieldLocators)", "the loop's bound is not the announced size")
}

// chasePhi: v is the loop counter or a join of it inside the loop
func chasePhi(v ssa.Value, counter *ssa.Phi, lp *loop) bool {
	seen := map[ssa.Value]bool{}
	var walk func(v ssa.Value) bool
	walk = func(v ssa.Value) bool {
		v = strip(v)
		if v == ssa.Value(counter) {
			return true
		}
		if seen[v] {
			return false
		}
		seen[v] = true
		if ph, ok := v.(*ssa.Phi); ok && lp.blocks[ph.Block()] {
			for _, e := range ph.Edges {
				if walk(e) {
					return true
				}
			}
		}
		return false
	}
	return walk(v)
}

// R5: both methods of a rewriter are computed from the same operands
func ruleC10R5(c *Ctx) {
	pr := c.f6()
	n := 0
	types := map[string][2]*ssa.Function{}
	for _, fn := range c.P.universe {
		if fn.Signature.Recv() == nil || fn.Blocks == nil || !pr.implementsRewriter(fn.Signature.Recv().Type()) {
			continue
		}
		tn := typeName(fn.Signature.Recv().Type())
		e := types[tn]
		switch fn.Name() {
		case "MaxFieldLength":
			e[0] = fn
		case "WriteFieldBody":
			e[1] = fn
		}
		types[tn] = e
	}
	var names []string
	for tn := range types {
		names = append(names, tn)
	}
	sort.Strings(names)
	for _, tn := range names {
		e := types[tn]
		if e[0] == nil || e[1] == nil {
			continue
		}
		n++
		// operands: field loads of the receiver, parameters, and calls that contribute to the returned length
		ops := func(fn *ssa.Function) map[string]bool {
			out := map[string]bool{}
			eachInstr(fn, func(in ssa.Instruction) {
				switch x := in.(type) {
				case *ssa.UnOp:
					if fa, ok := strip(x.X).(*ssa.FieldAddr); ok {
						if _, isRecv := resolve(fa.X).(*ssa.Parameter); isRecv && isSeqType(x.Type()) {
							out["len(recv."+fieldShort(fa.X.Type(), fa.Field)+")"] = true
						}
					}
				case *ssa.Call:
					if x.Common().IsInvoke() && typeName(x.Common().Value.Type()) == "base.LogRewriter" {
						out["next"] = true
					}
					if f := x.Common().StaticCallee(); f != nil && isAnchor(f, "base.(LogFieldLocator).Get") {
						out["field value"] = true
					}
				}
			})
			return out
		}
		mo, wo := ops(e[0]), ops(e[1])
		var missing []string
		for k := range wo {
			if !mo[k] {
				missing = append(missing, k)
			}
		}
		sort.Strings(missing)
		c.check(len(missing) == 0, "C10.R5", e[1], "WriteFieldBody writes only what MaxFieldLength accounts for", e[1].Pos(),
			"every length-contributing operand of WriteFieldBody also appears in MaxFieldLength", "WriteFieldBody uses "+strings.Join(missing, ", ")+" which MaxFieldLength does not account for: the reserved length can be exceeded")
	}
	c.floor("C10.R5", "LogRewriter implementations", n, 3)
}

// ---- C10.R6 (delegation, added after seed c10h): the event time is what package time says. The two words of fluentd's
// EventTime are the seconds and the nanoseconds-within-the-second of the record's timestamp; splitting one UnixNano
// reading by division is wrong before 1970 (truncating division) and outside the UnixNano range. The words written must be
// value.Unix() and value.Nanosecond() of the parameter, in that order; anything else fails as UNDECIDED.
func init() {
	register("C10", "C10.R6", ruleC10R6)
}

func ruleC10R6(c *Ctx) {
	fn := c.P.Fn("output/fluentdforward.EncodeEventTime")
	var tm ssa.Value
	for _, p := range fn.Params {
		if typeName(p.Type()) == "time.Time" {
			tm = p
		}
	}
	if tm == nil {
		broken("C10.R6: EncodeEventTime no longer takes a time.Time")
	}
	var writes []ssa.CallInstruction
	for _, s := range callsIn(fn) {
		if f := s.Common().StaticCallee(); f != nil && relPkg(fnPkgPath(f)) == "output/fastmsgpack" && strings.HasPrefix(f.Name(), "Write") {
			writes = append(writes, s)
		}
	}
	c.floor("C10.R6", "words written by EncodeEventTime", len(writes), 2)
	methodOf := func(v ssa.Value) string {
		for i := 0; i < 4; i++ {
			v = strip(v)
			if cv, ok := v.(*ssa.Convert); ok {
				v = cv.X
				continue
			}
			break
		}
		cl, ok := v.(*ssa.Call)
		if !ok || cl.Common().StaticCallee() == nil || len(cl.Common().Args) == 0 {
			return ""
		}
		recv := resolve(cl.Common().Args[0])
		if u, ok := recv.(*ssa.UnOp); ok { // a spilled value receiver
			if al, ok := u.X.(*ssa.Alloc); ok {
				if sv, ok := singleStore(al); ok {
					recv = resolve(sv)
				}
			}
		}
		if recv != tm {
			return ""
		}
		return extName(cl.Common().StaticCallee())
	}
	if len(writes) == 2 {
		// the second word is written at the position the first write returned
		first, second := writes[0], writes[1]
		if mentions(first.Common().Args[1], func(v ssa.Value) bool { return v == second.Value() }) {
			first, second = second, first
		}
		okS := methodOf(first.Common().Args[2]) == "(time.Time).Unix"
		okN := methodOf(second.Common().Args[2]) == "(time.Time).Nanosecond"
		c.check(okS && okN, "C10.R6", fn, "EventTime = (value.Unix(), value.Nanosecond())", first.Pos(), "both words are delegated to package time",
			"UNDECIDED (counts as failure): the seconds / nanoseconds words are not value.Unix() and value.Nanosecond() of the record's time — the module splits the instant itself, which this family does not decide (truncating division is wrong before 1970, UnixNano overflows outside 1678..2262)")
	} else {
		c.bad("C10.R6", fn, "EventTime = (value.Unix(), value.Nanosecond())", fn.Pos(), "UNDECIDED (counts as failure): expected two words written")
	}
}
