package main

// C13: timestamps are parsed exactly and parsing is total.
//
// R1 (F6)  every index/slice expression of the tparsetime package is proved in bounds for all strings
// R2 (F4)  parseTimeTransform.Transform: on every path exactly one of {error counted, Timestamp stored}; the store only
//          on the err == nil edge
// R3       the nanosecond argument of time.Date is a rounded, not a truncated, float
// R4       parseRFC3339Timestamp returns a non-nil error on every path that fails the shape test, and the shape test
//          (length and the five separators) dominates every digit read

import (
	"fmt"
	"go/token"
	"go/types"
	"strings"

	"golang.org/x/tools/go/ssa"
)

func init() {
	propExplanation["C13"] = "Totality and the accounting of failures are decided; exact calendar arithmetic is delegated to time.Date and not decided. " +
		"R1: every index and slice expression in transform/tparsetime (fixed-offset digit reads, the fraction/time-zone split) is proved in bounds for strings of every length by the compiler's prove pass or the facts engine (call-site preconditions carry the length test into atoi2/atoi4/atof3/6/9) — no reviewed entries are accepted here. " +
		"R2: on every path of Transform exactly one of {the error counter is called, record.Timestamp is assigned} happens, the assignment only on the err == nil edge (so the fallback receive time stays on every error). " +
		"R3: the float fraction reaches the nanosecond argument of time.Date only through math.Round (truncation of the inexact binary sum is 1 ns low for 7% of six-digit fractions). " +
		"R4: the first test of parseRFC3339Timestamp compares the length with 19 and the five separator positions, every digit read is dominated by its passing edge, and every return reached through a failing edge carries a non-nil error. " +
		"Not decided: that the digits are digits (non-digit bytes give an arbitrary instant, not an error), correctness of time.Date / time.Parse for offsets."
	register("C13", "C13.R1", ruleC13R1)
	register("C13", "C13.R2", ruleC13R2)
	register("C13", "C13.R3", ruleC13R3)
	register("C13", "C13.R4", ruleC13R4)
}

func ruleC13R1(c *Ctx) {
	var fns []*ssa.Function
	for _, fn := range c.P.universe {
		if relPkg(fnPkgPath(fn)) == "transform/tparsetime" && fn.Blocks != nil {
			fns = append(fns, fn)
		}
	}
	c.floor("C13.R1", "functions of transform/tparsetime", len(fns), 4)
	pr := c.f6()
	res := classifyF6(c, pr, fns)
	nA, nB := 0, 0
	for _, r := range res {
		construct := fmt.Sprintf("%s %s", r.O.Kind, canonOblig(r.O))
		switch r.Cls {
		case "A":
			nA++
			c.ok("C13.R1", r.Fn, construct, r.O.In.Pos(), "bounds check eliminated by the compiler's prove pass")
		case "B":
			nB++
			why := "proved by the facts engine"
			if len(r.Used) > 0 {
				why += "; relies on: " + strings.Join(r.Used, "; ")
			}
			c.ok("C13.R1", r.Fn, construct, r.O.In.Pos(), why)
		default:
			c.bad("C13.R1", r.Fn, construct, r.O.In.Pos(), r.Why+": a string of some length makes this read panic (parsing is not total)")
		}
	}
	c.floor("C13.R1", "index/slice expressions of transform/tparsetime", len(res), 20)
	c.note("C13.R1: %d expressions: %d compiler-proved, %d engine-proved", len(res), nA, nB)
}

func ruleC13R2(c *Ctx) {
	fn := c.P.Fn("transform/tparsetime.(*parseTimeTransform).Transform")
	var counterCalls []ssa.Instruction
	// over the region: the counting may stand in a private helper of Transform (the enumeration below enters it)
	for _, site := range c.callsInR(fn) {
		if site.Common().StaticCallee() == nil && !site.Common().IsInvoke() {
			if u, ok := strip(site.Common().Value).(*ssa.UnOp); ok {
				if fa, ok := strip(u.X).(*ssa.FieldAddr); ok && fieldName(fa.X.Type(), fa.Field) == "transform/tparsetime.parseTimeTransform.errorCounter" {
					counterCalls = append(counterCalls, site)
				}
			}
		}
	}
	stores := storesToField(fn, "base.LogRecord.Timestamp")
	c.count("C13.R2:errorCounter calls", len(counterCalls))
	c.count("C13.R2:Timestamp stores", len(stores))
	if len(fieldAccesses(fn, "transform/tparsetime.parseTimeTransform.keyLocator")) == 0 {
		broken("C13.R2: Transform no longer reads its key field")
	}
	isCounter := map[ssa.Instruction]bool{}
	for _, x := range counterCalls {
		isCounter[x] = true
	}
	isStore := map[ssa.Instruction]bool{}
	for _, x := range stores {
		isStore[x] = true
	}
	cs := &CountSpec{P: c.P, Classes: []string{"errorCounter", "Timestamp="},
		Site: func(s ssa.CallInstruction) int {
			if isCounter[s] {
				return 0
			}
			return -1
		},
		Instr: func(in ssa.Instruction) int {
			if isStore[in] {
				return 1
			}
			return -1
		}}
	outs := cs.Enum(fn, entryOf(fn), nil)
	good := len(outs) >= 2
	var why []string
	for _, o := range outs {
		if o.Counts[0]+o.Counts[1] != 1 {
			good = false
			why = append(why, cs.describe(o))
		}
	}
	c.check(good, "C13.R2", fn, "exactly one of {error counted, Timestamp assigned} on every path", fn.Pos(),
		fmt.Sprintf("all %d path outcomes count the error once or assign the timestamp once, never both or neither", len(outs)),
		"path(s) on which a timestamp is neither parsed nor counted as an error (or both): "+strings.Join(why, "; "))
	// the store only on err == nil of the parse result; the counter only on err != nil
	var parse ssa.CallInstruction
	for _, site := range callsIn(fn) {
		if f := site.Common().StaticCallee(); f != nil && isAnchor(f, "transform/tparsetime.parseRFC3339Timestamp") {
			parse = site
		}
	}
	if parse == nil {
		broken("C13.R2: Transform no longer calls parseRFC3339Timestamp")
	}
	errV := resultOf(parse.Value(), 1)
	// a memo of the parsed time: a field of the transform whose every store is result #0 of the parser under err == nil.
	// Whether the memo is keyed by the whole input is the business of C15.R6 (cross-record state).
	memoOfParse := func(v ssa.Value) (string, bool) {
		u, ok := strip(v).(*ssa.UnOp)
		if !ok || u.Op != token.MUL {
			return "", false
		}
		fa, ok := strip(u.X).(*ssa.FieldAddr)
		if !ok || typeName(fa.X.Type()) != "transform/tparsetime.parseTimeTransform" {
			return "", false
		}
		name := fieldName(fa.X.Type(), fa.Field)
		n := 0
		for _, g := range c.P.universe {
			for _, ms := range storesToField(g, name) {
				n++
				if g != fn || !sameValue(ms.Val, resultOf(parse.Value(), 0)) {
					return "", false
				}
				via := false
				for b, si := range nilEdges(errV, true) {
					if c.onlyViaEdge(fn, ms, b, si) {
						via = true
					}
				}
				if !via {
					return "", false
				}
			}
		}
		return name, n > 0
	}
	for _, st := range stores {
		if name, ok := memoOfParse(st.Val); ok {
			c.ok("C13.R2", fn, "record.Timestamp is assigned from a memo of the parsed time", st.Pos(), "the field "+name+" only ever holds result #0 of parseRFC3339Timestamp stored under err == nil")
			continue
		}
		okE := false
		for b, si := range nilEdges(errV, true) {
			if c.onlyViaEdge(fn, st, b, si) {
				okE = true
			}
		}
		c.check(okE, "C13.R2", fn, "record.Timestamp is assigned only when parsing returned no error", st.Pos(),
			"the store is reachable only through the err == nil edge", "the fallback receive time can be overwritten although parsing failed")
		c.check(sameValue(st.Val, resultOf(parse.Value(), 0)), "C13.R2", fn, "the assigned value is the parsed time", st.Pos(), "result #0 of parseRFC3339Timestamp", "something other than the parse result is stored")
	}
}

func ruleC13R3(c *Ctx) {
	fn := c.P.Fn("transform/tparsetime.parseRFC3339Timestamp")
	n := 0
	for _, site := range callsIn(fn) {
		f := site.Common().StaticCallee()
		if f == nil || extName(f) != "time.Date" {
			continue
		}
		n++
		nsec := strip(site.Common().Args[6])
		cv, ok := nsec.(*ssa.Convert)
		if !ok {
			c.ok("C13.R3", fn, "nanosecond argument of time.Date", site.Pos(), "not a float conversion: "+canonOf(nsec))
			continue
		}
		rounded := false
		if cl, ok := strip(cv.X).(*ssa.Call); ok && cl.Common().StaticCallee() != nil {
			switch extName(cl.Common().StaticCallee()) {
			case "math.Round", "math.RoundToEven":
				rounded = true
			}
		}
		if !isFloat(cv.X.Type()) {
			rounded = true
		}
		c.check(rounded, "C13.R3", fn, "nanosecond argument of time.Date", site.Pos(),
			"the float fraction is rounded to the nearest integer before the conversion", "int(float) truncates: the binary sum of decimal digits is often slightly below the decimal value, the result is 1 ns early")
	}
	c.floor("C13.R3", "time.Date calls", n, 1)
	// and no other float -> int conversion in the package feeds a time
	for _, f2 := range c.P.universe {
		if relPkg(fnPkgPath(f2)) != "transform/tparsetime" {
			continue
		}
		eachInstr(f2, func(in ssa.Instruction) {
			cv, ok := in.(*ssa.Convert)
			if !ok || !isFloat(cv.X.Type()) || !isIntType(cv.Type()) {
				return
			}
			if cl, ok := strip(cv.X).(*ssa.Call); ok && cl.Common().StaticCallee() != nil && strings.HasPrefix(extName(cl.Common().StaticCallee()), "math.Round") {
				return
			}
			c.bad("C13.R3", f2, "float to integer conversion "+canonOf(cv), in.Pos(), "a float is truncated to an integer in the timestamp parser")
		})
	}
}

func isFloat(t interface{ String() string }) bool {
	s := t.String()
	return s == "float64" || s == "float32"
}

func ruleC13R4(c *Ctx) {
	fn := c.P.Fn("transform/tparsetime.parseRFC3339Timestamp")
	pr := c.f6()
	// the shape: at every digit read (call of atoi2/atoi4) the facts include len(t) >= 19 and the call's operand is a slice of t
	nReads := 0
	for _, site := range callsIn(fn) {
		f := site.Common().StaticCallee()
		if f == nil || !(isAnchor(f, "transform/tparsetime.atoi2") || isAnchor(f, "transform/tparsetime.atoi4")) {
			continue
		}
		nReads++
		ok := pr.prove(fn, site, zeroT(), lenT(fn.Params[0]), -19, nil)
		c.check(ok, "C13.R4", fn, "digit read "+canonOf(site.Value())+" is dominated by len(t) >= 19", site.Pos(), "the length test dominates the read", "a fixed-offset digit read is reachable for strings shorter than the layout")
	}
	c.floor("C13.R4", "fixed-offset digit reads", nReads, 3)
	// separators: the entry block chain compares t[4], t[7], t[10], t[13], t[16] before any digit read
	seps := map[int64]bool{}
	eachInstr(fn, func(in ssa.Instruction) {
		bo, ok := in.(*ssa.BinOp)
		if !ok || (bo.Op != token.NEQ && bo.Op != token.EQL) {
			return
		}
		var x, idx ssa.Value
		switch lk := strip(bo.X).(type) {
		case *ssa.Lookup:
			x, idx = lk.X, lk.Index
		case *ssa.Index:
			x, idx = lk.X, lk.Index
		}
		if x != nil && strip(x) == ssa.Value(fn.Params[0]) {
			if k, ok := constInt(idx); ok {
				if _, isK := constInt(bo.Y); isK {
					seps[k] = true
				}
			}
		}
	})
	for _, k := range []int64{4, 7, 10, 13, 16} {
		c.check(seps[k], "C13.R4", fn, fmt.Sprintf("separator at offset %d is tested", k), fn.Pos(), "compared with a constant byte", "a separator of the layout is not checked: wrong separators are not reported as errors")
	}
	// error on every failing path: every return whose error result may be nil is dominated by the passing edges
	succ := c.successSites(fn)
	c.floor("C13.R4", "success returns", len(succ), 1)
	for _, r := range succ {
		ok := pr.prove(fn, r, zeroT(), lenT(fn.Params[0]), -19, nil)
		c.check(ok, "C13.R4", fn, "a nil error is returned only for strings that passed the shape test", r.Pos(), "len(t) >= 19 holds at the success return", "a string that fails the shape test can be reported as parsed")
	}
}

// ---------------------------------------------------------------------------
// C09.R3: the PRI arithmetic indexes its two tables in bounds for every PRI value, and all other index/slice
// expressions of the syslog parser are proved (no reviewed exceptions)

func init() {
	register("C09", "C09.R3", ruleC09R3)
}

func ruleC09R3(c *Ctx) {
	var fns []*ssa.Function
	for _, fn := range c.P.universe {
		p := relPkg(fnPkgPath(fn))
		if (p == "input/syslogparser" || p == "input/syslogprotocol") && fn.Blocks != nil && !strings.HasPrefix(fn.Name(), "init") {
			fns = append(fns, fn)
		}
	}
	c.floor("C09.R3", "functions of the syslog parser packages", len(fns), 5)
	pr := c.f6()
	res := classifyF6(c, pr, fns)
	tables := 0
	for _, r := range res {
		construct := fmt.Sprintf("%s %s", r.O.Kind, canonOblig(r.O))
		base := canonOf(r.O.X)
		isTable := strings.Contains(base, "FacilityNames") || strings.Contains(base, "levelMapping")
		if isTable && isAnchor(r.Fn, "input/syslogparser.(*syslogParser).Parse") {
			tables++
		}
		switch r.Cls {
		case "A":
			c.ok("C09.R3", r.Fn, construct, r.O.In.Pos(), "bounds check eliminated by the compiler's prove pass")
		case "B":
			why := "proved by the facts engine"
			if len(r.Used) > 0 {
				why += "; relies on: " + strings.Join(r.Used, "; ")
			}
			c.ok("C09.R3", r.Fn, construct, r.O.In.Pos(), why)
		default:
			msg := r.Why + ": some header makes this access panic"
			if isTable {
				msg = r.Why + ": some PRI value indexes the table out of range (facility = pri>>3 must be tested against the table's length, severity = pri&7 needs a table of 8 entries established by NewParser)"
			}
			c.bad("C09.R3", r.Fn, construct, r.O.In.Pos(), msg)
		}
	}
	c.floor("C09.R3", "table lookups by facility / severity in Parse", tables, 2)
	c.floor("C09.R3", "index/slice expressions of the parser", len(res), 15)
}

// R5: the clause "for any numeric offset" is carried by package time, not by arithmetic of this module: the offset given to
// time.FixedZone is what (time.Time).Zone reports for the time.Parse result of the zone text with a constant layout. The
// analysis does not decide integer arithmetic on offsets (sign, hours, minutes); if the module starts to compute them
// itself the clause is undecided here, and undecided fails.
func init() {
	register("C13", "C13.R5", ruleC13R5)
}

func ruleC13R5(c *Ctx) {
	n := 0
	for _, fn := range c.P.universe {
		if relPkg(fnPkgPath(fn)) != "transform/tparsetime" {
			continue
		}
		for _, s := range callsIn(fn) {
			f := s.Common().StaticCallee()
			if f == nil {
				continue
			}
			switch extName(f) {
			case "time.FixedZone":
				n++
				off := strip(s.Common().Args[1])
				okOff := false
				why := "the offset is " + canonOf(off)
				if ex, ok := off.(*ssa.Extract); ok && ex.Index == 1 {
					if zc, ok := ex.Tuple.(*ssa.Call); ok && zc.Common().StaticCallee() != nil && extName(zc.Common().StaticCallee()) == "(time.Time).Zone" {
						recv := strip(zc.Common().Args[0])
						if pe, ok := recv.(*ssa.Extract); ok && pe.Index == 0 {
							if pc, ok := pe.Tuple.(*ssa.Call); ok && pc.Common().StaticCallee() != nil && extName(pc.Common().StaticCallee()) == "time.Parse" {
								// constant layout(s)
								okLayout := true
								var chk func(v ssa.Value, d int)
								chk = func(v ssa.Value, d int) {
									switch x := strip(v).(type) {
									case *ssa.Const:
									case *ssa.Phi:
										if d < 4 {
											for _, e := range x.Edges {
												chk(e, d+1)
											}
										}
									default:
										okLayout = false
									}
								}
								chk(pc.Common().Args[0], 0)
								okOff = okLayout
								if !okLayout {
									why = "the layout given to time.Parse is not a constant"
								}
							}
						}
					}
				}
				c.check(okOff, "C13.R5", fn, "the zone offset is computed by package time", s.Pos(),
					"FixedZone(z.Zone()) of z = time.Parse(<constant layout>, zone text)",
					"UNDECIDED (counts as failure): the numeric offset handed to time.FixedZone is computed by this module ("+why+") instead of being taken from time.Parse(…).Zone(): sign / hour / minute arithmetic is not decided by this analysis, so 'exact for any numeric offset' is not shown")
			case "time.LoadLocation", "time.LoadLocationFromTZData":
				c.bad("C13.R5", fn, "the zone offset is computed by package time", s.Pos(), "UNDECIDED: a location is loaded by name; the property speaks of numeric offsets")
			}
		}
	}
	// every location handed to time.Date is a fixed offset: time.UTC, the result of time.FixedZone, or a value of a cache
	// that only ever receives such values. (time.Time).Location() of a parsed zone text is NOT one: time.Parse attaches
	// time.Local when the offset equals the host zone's, and time.Local's offset varies with the date (DST).
	nDate := 0
	for _, fn := range c.P.universe {
		if relPkg(fnPkgPath(fn)) != "transform/tparsetime" {
			continue
		}
		for _, s := range callsIn(fn) {
			f := s.Common().StaticCallee()
			if f == nil || extName(f) != "time.Date" {
				continue
			}
			nDate++
			args := s.Common().Args
			loc := args[len(args)-1]
			seen := map[ssa.Value]bool{}
			bad := ""
			var walk func(v ssa.Value, d int, cached bool)
			walk = func(v ssa.Value, d int, cached bool) {
				v = strip(v)
				if v == nil || seen[v] || d > 12 || bad != "" {
					return
				}
				seen[v] = true
				switch x := v.(type) {
				case *ssa.Const:
					if !x.IsNil() {
						bad = "a constant location"
					}
				case *ssa.Phi:
					for _, e := range x.Edges {
						walk(e, d+1, cached)
					}
				case *ssa.Extract:
					if cl, ok := x.Tuple.(*ssa.Call); ok {
						if cf := cl.Common().StaticCallee(); cf != nil && c.P.inUni[cf] && cf.Blocks != nil {
							for _, rv := range returnedValues(cf, x.Index) {
								walk(rv.Val, d+1, cached)
							}
							return
						}
					}
					walk(x.Tuple, d+1, cached)
				case *ssa.Lookup:
					// a cache: every value stored into a map of locations in this package
					for _, g := range c.P.universe {
						if relPkg(fnPkgPath(g)) != "transform/tparsetime" {
							continue
						}
						eachInstr(g, func(in ssa.Instruction) {
							if mu, ok := in.(*ssa.MapUpdate); ok && types.Identical(mu.Map.Type(), x.X.Type()) {
								walk(mu.Value, d+1, true)
							}
						})
					}
				case *ssa.UnOp:
					if gl, ok := x.X.(*ssa.Global); ok && x.Op == token.MUL {
						if gl.Pkg.Pkg.Path() == "time" && gl.Name() == "UTC" {
							return
						}
						// a timestamp without a zone is local time by documentation; but time.Local must never sit in the cache
						// under the text of a numeric offset
						if gl.Pkg.Pkg.Path() == "time" && gl.Name() == "Local" && !cached {
							return
						}
						bad = "the variable " + gl.Pkg.Pkg.Path() + "." + gl.Name() + " (time.Local follows the host's DST rules)"
						return
					}
					if al, ok := x.X.(*ssa.Alloc); ok {
						for _, ref := range *al.Referrers() {
							if st, ok := ref.(*ssa.Store); ok && st.Addr == ssa.Value(al) {
								walk(st.Val, d+1, cached)
							}
						}
						return
					}
					bad = "a location loaded from " + canonOf(x.X)
				case *ssa.Call:
					if cf := x.Common().StaticCallee(); cf != nil {
						if c.P.inUni[cf] && cf.Blocks != nil {
							for _, rv := range returnedValues(cf, 0) {
								walk(rv.Val, d+1, cached)
							}
							return
						}
						switch extName(cf) {
						case "time.FixedZone":
							return
						case "(time.Time).Location":
							bad = "(time.Time).Location() — for a parsed zone text that is time.Local whenever the offset equals the host zone's, and time.Local's offset depends on the date"
							return
						}
						bad = "the result of " + extName(cf)
						return
					}
					bad = "the result of a dynamic call"
				default:
					bad = canonOf(v)
				}
			}
			walk(loc, 0, false)
			c.check(bad == "", "C13.R5", fn, "every location given to time.Date is a fixed offset", s.Pos(),
				"time.UTC, time.FixedZone(…), a cache value that is one of these, or time.Local for a timestamp that states no zone",
				"the location given to time.Date can be "+bad+": the instant computed for a stated numeric offset is then not that offset's (silently wrong timestamp, no error counted)")
		}
	}
	c.floor("C13.R5", "time.Date calls in transform/tparsetime", nDate, 1)
}

// ---- C13.R6 (delegation, added after seed c13g): the instant is computed by package time. Calendar arithmetic (leap
// years, days before a month, the epoch) is value-level; the claim "the event time equals the instant denoted, for all
// dates" rests on parseRFC3339Timestamp handing the decoded fields to time.Date. Every value returned together with a
// possibly nil error must be the result of time.Date (error returns carry time.Now() / the zero time); a fast path that
// computes Unix seconds itself fails as UNDECIDED — also a correct one.
func init() {
	register("C13", "C13.R6", ruleC13R6)
}

func ruleC13R6(c *Ctx) {
	fn := c.P.Fn("transform/tparsetime.parseRFC3339Timestamp")
	errIdx := fn.Signature.Results().Len() - 1
	n := 0
	for _, rv := range returnedValues(fn, 0) {
		// the error returned with it
		var errv ssa.Value
		if ret, ok := rv.At.(*ssa.Return); ok && errIdx < len(ret.Results) {
			errv = ret.Results[errIdx]
		}
		if errv != nil && neverNilError(errv) {
			continue // a failure: the time value is not used (C13.R2)
		}
		if errv != nil {
			// `if err != nil { return time.Now(), err }`: the return is only reached through the non-nil edge of its error
			failure := false
			for b, si := range nilEdges(errv, false) {
				if c.onlyViaEdge(fn, rv.At, b, si) {
					failure = true
				}
			}
			if failure {
				continue
			}
		}
		n++
		cl, ok := strip(rv.Val).(*ssa.Call)
		isDate := ok && cl.Common().StaticCallee() != nil && extName(cl.Common().StaticCallee()) == "time.Date"
		c.check(isDate, "C13.R6", fn, "the instant of a successfully parsed timestamp is time.Date(decoded fields)", rv.At.Pos(),
			"delegated to package time",
			"UNDECIDED (counts as failure): a successful return carries a time that is not the result of time.Date — the module computes the instant (calendar arithmetic) itself, which this family does not decide; the clause 'for all dates' rested on the delegation")
	}
	c.floor("C13.R6", "successful returns of parseRFC3339Timestamp", n, 1)
}
