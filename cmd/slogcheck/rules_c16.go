package main

// C16 Accepted configurations always instantiate; rejected ones fail cleanly.

import (
	"fmt"
	"go/ast"
	"go/constant"
	"go/types"
	"os"
	"sort"
	"strings"

	"golang.org/x/tools/go/ssa"
)

func init() {
	for i, r := range []ruleFn{ruleC16R1, ruleC16R2, ruleC16R3, ruleC16R4} {
		register("C16", fmt.Sprintf("C16.R%d", i+1), r)
	}
	propExplanation["C16"] = "Sibling cross-check of every configuration type: the set of checks whose failure makes a constructor panic (Must*-calls, `if err != nil {panic}`, fatal switch defaults; found in the constructor's call tree with arguments expressed as canonical provenance over the configuration value) must be contained in the set of checks whose failure makes VerifyConfig return an error, " +
		"with fallible helpers unfolded into their parts, nested configuration values as delegation obligations (NewTransformsFromConfig↔VerifyTransformConfigs, X.NewY↔X.VerifyConfig, …) and enumerations compared as accepted sets (R1); no explicit panic/fatal is reachable from ParseConfigFile, the loader constructor or any UnmarshalYAML except reviewed invariants (R2); " +
		"optional configuration holders are nil-tested before use in the verification tree (R3); ParseConfigFile verifies every section and every container type verifies every nested list, enumerated from the struct types (R4). Not decided: that accepted configurations process records correctly; panics inside third-party libraries."
	propAssumptions["C16"] = []string{
		"list elements of configuration holders are always produced by UnmarshalYAML (yaml.v3 skips null elements), so only struct-field holders can be nil",
		"constructor panics whose condition does not depend on the configuration value (parameter contracts such as next == nil ↔ hasNext, re-initialisation guards) are listed as assumed",
		"guards around a check (e.g. skipping unnamed captures) are not compared, only the check and the provenance of its arguments",
	}
}

type cfgType struct {
	name   string // rel/pkg.Type
	verify *ssa.Function
	ctors  []*ssa.Function
}

func configTypes(c *Ctx) []cfgType {
	var out []cfgType
	for _, p := range c.P.pkgs {
		if !strings.HasPrefix(p.PkgPath, modPath) || nonUniversePkgs[p.PkgPath] {
			continue
		}
		sp := c.P.prog.Package(p.Types)
		if sp == nil {
			continue
		}
		scope := p.Types.Scope()
		for _, n := range scope.Names() {
			tn, ok := scope.Lookup(n).(*types.TypeName)
			if !ok || tn.IsAlias() {
				continue
			}
			named, ok := tn.Type().(*types.Named)
			if !ok || named.TypeParams().Len() > 0 {
				continue
			}
			if _, isIface := named.Underlying().(*types.Interface); isIface {
				continue
			}
			ms := c.P.prog.MethodSets.MethodSet(types.NewPointer(named))
			var vfn *ssa.Function
			var ctors []*ssa.Function
			for i := 0; i < ms.Len(); i++ {
				sel := ms.At(i)
				fn := c.P.prog.MethodValue(sel)
				if fn == nil {
					continue
				}
				// unwrap promoted/pointer wrappers to the declared method
				for isWrapper(fn) {
					ts := wrapperTargets(c.P, fn)
					if len(ts) != 1 {
						break
					}
					fn = ts[0]
				}
				if fn.Blocks == nil || fnPkgPath(fn) != p.PkgPath {
					continue
				}
				if sel.Obj().Name() == "VerifyConfig" || sel.Obj().Name() == "verify" {
					vfn = fn
				} else if !f8NonCtorMethods[sel.Obj().Name()] && sel.Obj().Exported() || sel.Obj().Name() == "newCase" {
					ctors = append(ctors, fn)
				}
			}
			if vfn == nil {
				continue
			}
			sort.Slice(ctors, func(i, j int) bool { return ctors[i].Name() < ctors[j].Name() })
			out = append(out, cfgType{relPkg(p.PkgPath) + "." + n, vfn, ctors})
		}
	}
	sort.Slice(out, func(i, j int) bool { return out[i].name < out[j].name })
	return out
}

func recvCanon(fn *ssa.Function, as string) *canonCtx {
	cc := newCanon()
	if len(fn.Params) > 0 {
		cc.subst[fn.Params[0]] = as
	}
	for _, p := range fn.Params {
		if typeName(p.Type()) == "base/bconfig.PipelineArgs" {
			cc.subst[p] = "ARGS"
		}
	}
	return cc
}

// constructor panics that are reviewed: key = function|kind|fn-or-cond
var c16Reviewed = map[string]string{
	"transform/textractspecial.(*Config).getPosition|enum|recv.Header.Type": "the Type value is the key under which this configuration type was registered (\"extractHead\"/\"extractTail\" in transform.Register); another value cannot reach this type",
}

func ruleC16R1(c *Ctx) {
	w := &f8{c: c}
	cts := configTypes(c)
	c.floor("C16.R1", "configuration types with VerifyConfig", len(cts), 15)
	nP := 0
	report := func(owner string, P, V map[string]f8Item, vfn *ssa.Function) {
		var keys []string
		for k := range P {
			keys = append(keys, k)
		}
		sort.Strings(keys)
		for _, k := range keys {
			p := P[k]
			nP++
			construct := fmt.Sprintf("%s: constructor %s %s(%s)", owner, p.Kind, p.Fn, p.Args)
			if why, ok := lookupReviewed(c16Reviewed, anchorName(p.In)+"|"+p.Kind+"|"+p.Fn); ok {
				c.assumed("C16.R1", p.In, construct, p.Pos, "reviewed: "+why)
				continue
			}
			ok, why := f8Match(p, V)
			via := ""
			if p.Via != "" {
				via = " (reached via " + p.Via + ")"
			}
			if ok {
				c.ok("C16.R1", p.In, construct, p.Pos, why+via)
			} else {
				c.bad("C16.R1", p.In, construct, p.Pos, "a configuration accepted by "+anchorName(vfn)+" can make this constructor panic: "+why+via)
			}
		}
	}
	rootExtra := map[string]f8Item{}
	for _, ct := range cts {
		V := map[string]f8Item{}
		w.verify(ct.verify, recvCanon(ct.verify, "recv"), 0, V, "", map[*ssa.Function]bool{})
		P := map[string]f8Item{}
		for _, m := range ct.ctors {
			w.ctor(m, recvCanon(m, "recv"), 0, P, "", map[*ssa.Function]bool{})
		}
		// obligations on the root configuration (reached through PipelineArgs) belong to ParseConfigFile
		for k, p := range P {
			if !strings.Contains(p.Args, "recv") && !strings.Contains(p.Fn, "recv") {
				rootExtra[k] = p
				delete(P, k)
			}
		}
		c.count("C16.R1:verifier checks", len(V))
		if os.Getenv("SLOGCHECK_F8") != "" && strings.Contains(ct.name, os.Getenv("SLOGCHECK_F8")) {
			for k := range V {
				fmt.Println("  V:", ct.name, k)
			}
			for k, p := range P {
				fmt.Println("  P:", ct.name, k, "complete=", p.Complete)
				for u := range p.Unfold {
					fmt.Println("      unfold:", u)
				}
			}
		}
		report(ct.name, P, V, ct.verify)
	}
	// helper pairs operating on lists of nested configuration values
	for _, pr := range [][2]string{
		{"base/bsupport.NewTransformsFromConfig", "base/bsupport.VerifyTransformConfigs"},
		{"base/bsupport.NewRewritersFromConfig", "base/bsupport.VerifyRewriterConfigs"},
	} {
		cf, vf := c.P.Fn(pr[0]), c.P.Fn(pr[1])
		V := map[string]f8Item{}
		w.verify(vf, recvCanon(vf, "recv"), 0, V, "", map[*ssa.Function]bool{})
		P := map[string]f8Item{}
		w.ctor(cf, recvCanon(cf, "recv"), 0, P, "", map[*ssa.Function]bool{})
		report(pr[0], P, V, vf)
	}
	// the root configuration: ParseConfigFile vs loader / pipeline construction
	pcf := c.P.Fn("run.ParseConfigFile")
	V := map[string]f8Item{}
	vcc := newCanon()
	eachInstr(pcf, func(in ssa.Instruction) {
		if al, ok := in.(*ssa.Alloc); ok && al.Comment == "conf" {
			vcc.subst[al] = "CONF"
		}
	})
	w.verify(pcf, vcc, 0, V, "", map[*ssa.Function]bool{})
	P := map[string]f8Item{}
	nl := c.P.Fn(aNewLoaderCF)
	ncc := newCanon()
	for _, s := range c.callsTo(nl, anchorPred("run.ParseConfigFile")) {
		if r0 := resultOf(s.Value(), 0); r0 != nil {
			ncc.subst[r0] = "CONF"
		}
	}
	w.ctor(nl, ncc, 0, P, "", map[*ssa.Function]bool{})
	for _, a := range []string{"run.(*Loader).StartOrchestrator", "run.(*Loader).LaunchInputs", "run.(*Loader).RelaunchOrchestrator"} {
		f := c.P.Fn(a)
		w.ctor(f, recvCanon(f, "LOADER"), 0, P, "", map[*ssa.Function]bool{})
	}
	pp := c.P.Fn(aPrepPipe)
	ppc := recvCanon(pp, "ARGS")
	w.ctor(pp, ppc, 0, P, "", map[*ssa.Function]bool{})
	for _, a := range pp.AnonFuncs {
		w.ctor(a, subCanon(ppc, true), 0, P, "", map[*ssa.Function]bool{})
	}
	for k, p := range rootExtra {
		P[k] = p
	}
	c.count("C16.R1:verifier checks", len(V))
	report("run.Config", P, V, pcf)
	c.floor("C16.R1", "constructor obligations", nP, 25)
	// the PipelineArgs field mapping used above is what NewLoaderFromConfigFile builds
	for _, m := range [][2]string{{"base/bconfig.PipelineArgs.TransformConfigs", "Transformations"}, {"base/bconfig.PipelineArgs.OutputBufferPairs", "OutputBuffersPairs"}} {
		ok := false
		for _, st := range storesToField(nl, m[0]) {
			if strings.HasSuffix(ncc.of(st.Val), "CONF."+m[1]) {
				ok = true
			}
		}
		c.check(ok, "C16.R1", nl, "PipelineArgs mapping: "+m[0]+" = config."+m[1], nl.Pos(), "the pipeline is built from the verified section", "the pipeline arguments are not filled from the verified configuration section")
	}
	sort.Strings(w.assumed)
	seen := map[string]bool{}
	for _, a := range w.assumed {
		if !seen[a] {
			seen[a] = true
			c.note("parameter contract: %s", a)
		}
	}
}

// R2: no explicit panic reachable from configuration loading / verification
var c16R2Reviewed = map[string]string{
	"transform/textractspecial.(*Config).getPosition":    "the Type value is the key under which this configuration type was registered (\"extractHead\"/\"extractTail\" in transform.Register); another value cannot reach this type",
	"base/bconfig.getConfigConstructors":                 "registration invariant: every ConfigHolder type used in Config has its creator table registered by an init() (run/config.go init)",
	"base/bconfig.RegisterConfigConstructors":            "init-time double registration guard",
	"util/stringunescape.(Unescaper).FindFirstUnescaped": "the target bytes are the constants '*', '[' and ']' which are registered as escapable in patternUnescaper",
	"base.(*LogSchema).MustCreateFieldLocator":           "reached only from checkConfigCompatibility on the OLD schema for fields the old configuration already located",
	"base.(*LogSchema).MustCreateFieldLocators":          "NewLoaderFromConfigFile: after ParseConfigFile verified metricKeys with CreateFieldLocators (paired by R1)",
	"util.MD5ToHexdigest":                                "hash.Hash.Write never returns an error",
}

func ruleC16R2(c *Ctx) {
	var rootsF []*ssa.Function
	rootsF = append(rootsF, c.P.Fns("run.ParseConfigFile")...)
	rootsF = append(rootsF, c.P.Fns(aNewLoaderCF)...)
	rootsF = append(rootsF, c.P.Fns(aNewReloader)...)
	nU := 0
	for _, fn := range c.P.universe {
		if fn.Name() == "UnmarshalYAML" || strings.HasPrefix(fn.Name(), "UnmarshalYAML[") {
			rootsF = append(rootsF, fn)
			nU++
		}
	}
	c.floor("C16.R2", "UnmarshalYAML methods", nU, 3)
	// valueMatch constructors are called through a table from UnmarshalYAML (VTA resolves them)
	reach := c.P.reachableFrom(rootsF, func(f *ssa.Function) bool { return !c.P.inUni[f] })
	n, nPanic := 0, 0
	var fns []*ssa.Function
	for f := range reach {
		if c.P.inUni[f] {
			fns = append(fns, f)
		}
	}
	sort.Slice(fns, func(i, j int) bool { return fns[i].String() < fns[j].String() })
	for _, f := range fns {
		n++
		c.seen(f)
		eachInstr(f, func(in ssa.Instruction) {
			if !isPanicSite(c.P, in) {
				return
			}
			// the implicit panic of a blocking select without default is compiler-generated
			if p, ok := in.(*ssa.Panic); ok && !p.Pos().IsValid() {
				return
			}
			nPanic++
			name := anchorName(f)
			if why, ok := lookupReviewed(c16R2Reviewed, name); ok {
				c.assumed("C16.R2", f, "explicit panic reachable from configuration loading", in.Pos(), "reviewed: "+why)
				return
			}
			c.bad("C16.R2", f, "explicit panic reachable from configuration loading", in.Pos(),
				"a configuration file can reach this panic/fatal instead of being rejected with an error; reached via "+chainTo(reach, f))
		})
	}
	c.floor("C16.R2", "universe functions reachable from configuration loading", n, 60)
	c.count("C16.R2:panic sites", nPanic)
}

// R3: optional holders are nil-tested before use
func ruleC16R3(c *Ctx) {
	var rootsF []*ssa.Function
	rootsF = append(rootsF, c.P.Fns("run.ParseConfigFile")...)
	reach := c.P.reachableFrom(rootsF, func(f *ssa.Function) bool { return !c.P.inUni[f] })
	n := 0
	for f := range reach {
		if !c.P.inUni[f] {
			continue
		}
		for _, s := range callsIn(f) {
			cc := s.Common()
			if !cc.IsInvoke() || !f8ConfigIfaces[typeName(cc.Value.Type())] {
				continue
			}
			// receiver is X.Value where X is a holder stored in a struct field (not a list element)
			fld := fieldOf(cc.Value)
			if !strings.HasSuffix(fld, "ConfigHolder.Value") {
				continue
			}
			holderIsElem := mentions(cc.Value, func(v ssa.Value) bool {
				switch v.(type) {
				case *ssa.IndexAddr, *ssa.Index, *ssa.Next:
					return true
				}
				return false
			}) && !mentionsStructFieldHolder(cc.Value)
			if holderIsElem {
				continue
			}
			n++
			// a nil test of the same Value dominates the call, with the nil edge not reaching it
			ok := false
			want := canonOf(cc.Value)
			eachInstr(f, func(in ssa.Instruction) {
				iff, isIf := in.(*ssa.If)
				if !isIf {
					return
				}
				em, isEm := asEmptiness(iff.Cond)
				if !isEm || canonOf(em.X) != want {
					return
				}
				nonNil := 0
				if em.EmptyOnTrue {
					nonNil = 1
				}
				if c.onlyViaEdge(f, s, iff.Block(), nonNil) {
					ok = true
				}
			})
			c.check(ok, "C16.R3", f, "nil test before "+want+"."+cc.Method.Name(), s.Pos(), "the call is only reachable through the non-nil edge of a test of the same holder value",
				"an omitted configuration section leaves this holder's Value nil: the loader crashes with a nil dereference instead of reporting an error")
		}
	}
	c.floor("C16.R3", "method calls on optional holders in the verification tree", n, 3)
}

// the holder itself is a struct field (e.g. conf.Orchestration, pair.BufferConfig) rather than a list element
func mentionsStructFieldHolder(v ssa.Value) bool {
	// v = load(FieldAddr(holderAddr, Value)); holderAddr is FieldAddr(...) of a struct => struct-field holder
	ld, ok := strip(v).(*ssa.UnOp)
	if !ok {
		return false
	}
	fa, ok := strip(ld.X).(*ssa.FieldAddr)
	if !ok {
		if f, ok := strip(v).(*ssa.Field); ok {
			_, isF := strip(f.X).(*ssa.Field)
			if u, isU := strip(f.X).(*ssa.UnOp); isU {
				_, isFA := strip(u.X).(*ssa.FieldAddr)
				return isFA
			}
			return isF
		}
		return false
	}
	switch h := strip(fa.X).(type) {
	case *ssa.FieldAddr:
		return true
	case *ssa.Alloc:
		// a local copy of a struct (e.g. range copy `pair`): holder is a field of that struct
		_ = h
		return false
	}
	return false
}

// R4: every section / nested list is verified
func ruleC16R4(c *Ctx) {
	isHolderish := func(t types.Type) bool {
		s := t.String()
		return strings.Contains(s, "bconfig.ConfigHolder[") || strings.Contains(s, "bmatch.LogMatcherConfig") || strings.Contains(s, "bconfig.OutputBufferConfig")
	}
	// root
	pcf := c.P.Fn("run.ParseConfigFile")
	confT := c.P.pkgByRel["run"].Types.Scope().Lookup("Config").Type()
	st := confT.Underlying().(*types.Struct)
	n := 0
	for i := 0; i < st.NumFields(); i++ {
		f := st.Field(i)
		if !isHolderish(f.Type()) && f.Name() != "MetricKeys" && f.Name() != "Schema" {
			continue
		}
		n++
		fname := "run.Config." + f.Name()
		// some verifying call consumes the field on every path to the success return
		succ := instrSet(c.successSites(pcf))
		s := siteSumm(c.P, func(site ssa.CallInstruction) bool {
			used := false
			cc := site.Common()
			vals := append([]ssa.Value{}, cc.Args...)
			if cc.IsInvoke() {
				vals = append(vals, cc.Value)
			}
			for _, v := range vals {
				if mentions(v, isFieldAddrOf(fname)) {
					used = true
				}
				// the whole configuration handed to a module function that reads this section
				if typeName(v.Type()) == "run.Config" {
					if g := cc.StaticCallee(); g != nil && g.Blocks != nil && len(fieldAccesses(g, fname)) > 0 {
						used = true
					}
				}
			}
			if !used {
				return false
			}
			return hasRealRef(errorResult(site))
		})
		s.AllowEmptyGuards, s.LoopsRunOnce = false, true
		ev := s.mustEvents(pcf, nil, 0)
		okAll := len(ev) > 0
		why := "no error-checked call consumes this section"
		if os.Getenv("SLOGCHECK_DBG") != "" {
			for in := range ev {
				fmt.Println("DBG ev", fname, c.P.pos(in.Pos()), in)
			}
		}
		if okAll {
			addLoopEvents(c.P, pcf, ev, nil, func(in ssa.Instruction) bool { return !succ[in] })
			for at := range succ {
				at := at
				q := &PathQ{P: c.P, Barrier: func(in ssa.Instruction) bool { return ev[in] }}
				if hit, tr := q.Reach(entryOf(pcf), func(in ssa.Instruction) bool { return in == at }); hit != nil {
					okAll, why = false, "success can be returned without verifying this section: "+c.P.trailString(tr)
				}
			}
		}
		c.check(okAll, "C16.R4", pcf, "section "+fname+" verified before success", pcf.Pos(), "every success return follows an error-checked call consuming the section", why)
	}
	c.floor("C16.R4", "sections of run.Config", n, 5)
	// nested lists of every configuration type
	for _, ct := range configTypes(c) {
		recvT := ct.verify.Params[0].Type()
		if p, ok := recvT.(*types.Pointer); ok {
			recvT = p.Elem()
		}
		sst, ok := recvT.Underlying().(*types.Struct)
		if !ok {
			continue
		}
		var walkFields func(prefix string, t *types.Struct, owner types.Type)
		walkFields = func(prefix string, t *types.Struct, owner types.Type) {
			for i := 0; i < t.NumFields(); i++ {
				f := t.Field(i)
				if f.Name() == "Header" {
					continue
				}
				if inner, ok := f.Type().Underlying().(*types.Struct); ok && !isHolderish(f.Type()) {
					walkFields(prefix+f.Name()+".", inner, f.Type())
					continue
				}
				if !isHolderish(f.Type()) {
					continue
				}
				n++
				fname := fieldName(owner, i)
				V := map[string]f8Item{}
				w := &f8{c: c}
				w.verify(ct.verify, recvCanon(ct.verify, "recv"), 0, V, "", map[*ssa.Function]bool{})
				found := false
				for _, v := range V {
					if v.Kind == "delegate" && strings.Contains(v.Args, "recv."+prefix+f.Name()) {
						found = true
					}
				}
				c.check(found, "C16.R4", ct.verify, "nested configuration "+ct.name+"."+prefix+f.Name()+" is verified", ct.verify.Pos(),
					"VerifyConfig delegates to the nested values' verifier", "nested steps in this field are never verified: an invalid nested step is accepted and panics when the pipeline is built")
				if found {
					// …and on EVERY path that accepts the configuration (added after seed c16f: `else` verified only when
					// `then` is absent): from the entry no success return is reachable without passing a call that consumes
					// this field; only emptiness guards on the field itself are tolerated
					vf := ct.verify
					consumes := func(s ssa.CallInstruction) bool {
						if _, isGo := s.(*ssa.Go); isGo {
							return false
						}
						// a verifying call (after seed c16h: looking a map key up in the schema, or testing it against another
						// list, derives from the field too but verifies nothing of the nested steps)
						vname := ""
						if s.Common().IsInvoke() {
							vname = s.Common().Method.Name()
						} else if f := s.Common().StaticCallee(); f != nil {
							vname = f.Name()
						}
						if !strings.HasPrefix(vname, "Verify") && !strings.HasPrefix(vname, "verify") {
							return false
						}
						if s.Common().IsInvoke() && mentions(s.Common().Value, isFieldAddrOf(fname)) {
							return true
						}
						for _, a := range s.Common().Args {
							if mentions(a, isFieldAddrOf(fname)) {
								return true
							}
						}
						return false
					}
					sm := siteSumm(c.P, consumes)
					ev := sm.mustEvents(vf, nil, 0)
					var calls []ssa.CallInstruction
					for in := range ev {
						if ci, ok := in.(ssa.CallInstruction); ok {
							calls = append(calls, ci)
						}
					}
					guard := edgeSet(emptinessGuardEdgesFor(vf, calls))
					notSuccess := func(in ssa.Instruction) bool {
						r, ok := in.(*ssa.Return)
						return ok && !returnsSuccess(vf, r)
					}
					addLoopEvents(c.P, vf, ev, guard, notSuccess)
					q := &PathQ{P: c.P, Barrier: func(in ssa.Instruction) bool { return ev[in] }, EdgeBlocked: guard}
					hit, trail := q.Reach(entryOf(vf), func(in ssa.Instruction) bool {
						r, ok := in.(*ssa.Return)
						return ok && returnsSuccess(vf, r)
					})
					pos := vf.Pos()
					if hit != nil {
						pos = hit.Pos()
					}
					c.check(hit == nil, "C16.R4", vf, "nested configuration "+ct.name+"."+prefix+f.Name()+" is verified on every accepting path", pos,
						"no success return is reachable without a call that consumes the field (emptiness guards on the field itself tolerated)",
						"a path accepts the configuration without verifying this nested list ("+c.P.trailString(trail)+"): an invalid nested step there is accepted and panics when the pipeline is built")
				}
			}
		}
		walkFields("", sst, recvT)
	}
	c.floor("C16.R4", "sections and nested lists", n, 8)
}

// R5: implicit panics (index / slice out of range) in what a configuration file can reach while it is loaded and
// verified: every such expression is proved in bounds for all configuration values (F6), or is a reviewed entry
func init() {
	register("C16", "C16.R5", ruleC16R5)
}

var c16R5Reviewed = map[string]string{
	"run.(*ConfigStatsBuilder).BeginTrackingFields$1|index recv.fieldsInUse|index may be negative":      "the closure is installed as LogSchema.OnLocated and is called only by CreateFieldLocator of that schema with the index it just found (slices.Index result after the -1 test: 0 <= index < len(fieldNames)); both slices are made with len(schema.GetFieldNames()) of the same schema. The call goes through a function-valued field, which the precondition search does not follow",
	"run.(*ConfigStatsBuilder).BeginTrackingFixedFields$1|index recv.fieldsFixed|index may be negative": "the closure is installed as LogSchema.OnLocated and is called only by CreateFieldLocator of that schema with the index it just found (slices.Index result after the -1 test: 0 <= index < len(fieldNames)); both slices are made with len(schema.GetFieldNames()) of the same schema. The call goes through a function-valued field, which the precondition search does not follow",
	"run.(*ConfigStatsBuilder).BeginTrackingFixedFields$1|index recv.fieldsInUse|index may be negative": "the closure is installed as LogSchema.OnLocated and is called only by CreateFieldLocator of that schema with the index it just found (slices.Index result after the -1 test: 0 <= index < len(fieldNames)); both slices are made with len(schema.GetFieldNames()) of the same schema. The call goes through a function-valued field, which the precondition search does not follow",
	"transform/textractspecial.fillValidCharsByRangeExpression|index phi(slice(util/stringunescape.(Unescaper).Run(global:textractspecial.patternUnescaper,slice(param:expression,lo=1,hi=(len(param:expression)-1))),lo=1)|util/stringunescape.(Unescaper).Run(global:textractspecial.patternUnescaper,slice(param:expression,lo=1,hi=(len(param:expression)-1))))|index may be negative": "expr[i-2] is read only when rangeStarted is set, which happens only for a '-' at an index i-1 >= 1 (the `i > 0` test), so i >= 2: an invariant correlated with a boolean flag, outside the linear domain",
	"util/stringtemplate.NewExpander|index (*regexp.Regexp).FindStringSubmatch(global:stringtemplate.variableExpressionRegex,slice(elem((*regexp.Regexp).FindAllString(global:stringtemplate.partRegex,param:template,-1)),lo=2,hi=(len(elem((*regexp.Regexp).FindAllString(global:stringtemplate.partRegex,param:template,-1)))-1)))|index may be negative":                               "regexp contract: a non-nil FindStringSubmatch result has NumSubexp()+1 entries and SubexpIndex(\"name\") is a valid group index of the same pattern (computed in init)",
	"util/stringtemplate.NewExpander|index elem((*regexp.Regexp).FindAllString(global:stringtemplate.partRegex,param:template,-1))|index may reach len":                                                                                                                                                                                                                                    "regexp contract: every match of partRegex `(\\$\\w+|\\$\\{\\w+[^}]*\\}|[^$]+)` is non-empty, a match starting with '$' has at least two bytes, and a match `${…}` has at least four (so p[0], p[1] and p[2:len(p)-1] are in range): a property of the pattern's language, not visible in the module's code",
	"util/stringtemplate.NewExpander|slice elem((*regexp.Regexp).FindAllString(global:stringtemplate.partRegex,param:template,-1))|low bound may exceed high bound":                                                                                                                                                                                                                        "regexp contract: every match of partRegex `(\\$\\w+|\\$\\{\\w+[^}]*\\}|[^$]+)` is non-empty, a match starting with '$' has at least two bytes, and a match `${…}` has at least four (so p[0], p[1] and p[2:len(p)-1] are in range): a property of the pattern's language, not visible in the module's code",
	"util/stringtemplate.createVariableExpressionSolver|index param:expressionSubmatches|index may be negative":                                                                                                                                                                                                                                                                            "expressionSubmatches is the non-nil FindStringSubmatch result of variableExpressionRegex and capturedStartIndex / capturedEndIndex are SubexpIndex results of its named groups (set once in init, never reassigned): regexp contract",
}

func ruleC16R5(c *Ctx) {
	var rootsF []*ssa.Function
	rootsF = append(rootsF, c.P.Fns("run.ParseConfigFile")...)
	rootsF = append(rootsF, c.P.Fns(aNewLoaderCF)...)
	for _, fn := range c.P.universe {
		if fn.Name() == "UnmarshalYAML" || strings.HasPrefix(fn.Name(), "UnmarshalYAML[") {
			rootsF = append(rootsF, fn)
		}
	}
	reach := c.P.reachableFrom(rootsF, func(f *ssa.Function) bool { return !c.P.inUni[f] })
	var fns []*ssa.Function
	for f := range reach {
		if c.P.inUni[f] && f.Blocks != nil {
			fns = append(fns, f)
		}
	}
	sort.Slice(fns, func(i, j int) bool { return anchorName(fns[i]) < anchorName(fns[j]) })
	c.floor("C16.R5", "universe functions reachable from configuration loading", len(fns), 60)
	pr := c.f6()
	res := classifyF6(c, pr, fns)
	nA, nB, nR := 0, 0, 0
	for _, r := range res {
		construct := fmt.Sprintf("%s %s", r.O.Kind, canonOblig(r.O))
		switch r.Cls {
		case "A":
			nA++
			c.ok("C16.R5", r.Fn, construct, r.O.In.Pos(), "bounds check eliminated by the compiler's prove pass")
		case "B":
			nB++
			why := "proved by the facts engine"
			if len(r.Used) > 0 {
				why += "; relies on: " + strings.Join(r.Used, "; ")
			}
			c.ok("C16.R5", r.Fn, construct, r.O.In.Pos(), why)
		default:
			key := f6Key(r.Fn, r.O, r.Why)
			if reason, ok := lookupReviewed(c16R5Reviewed, key); ok {
				nR++
				c.assumed("C16.R5", r.Fn, construct, r.O.In.Pos(), "reviewed: "+reason)
				continue
			}
			if os.Getenv("SLOGCHECK_F6KEYS") != "" {
				fmt.Printf("F6KEY %q: \"\", // %s %s\n", key, r.Pos, r.Why)
			}
			c.bad("C16.R5", r.Fn, construct, r.O.In.Pos(), fmt.Sprintf("%s: some configuration value makes loading / verification panic instead of returning an error; reached via %s", r.Why, chainTo(reach, r.Fn)))
		}
	}
	c.note("C16.R5: %d index/slice expressions in %d functions of the configuration loading tree: %d compiler-proved, %d engine-proved, %d reviewed", len(res), len(fns), nA, nB, nR)
	c.floor("C16.R5", "index/slice expressions decided", len(res), 60)
}

// R6: no check of the loading / verification tree is made vacuous by its argument. A module function that tests
// membership in, ranges over, measures or compares a parameter decides nothing when the caller passes a variable that
// holds its zero value on every path (declared and never assigned — e.g. shadowed by `:=` in an inner block: in SSA the
// argument is a constant although the source names a variable). For every such call in the tree the callee must not
// read the parameter; a literal nil / "" / 0 in the source is the author's statement and is not examined; reviewed
// exceptions are keyed by caller|callee|parameter.
var c16R6Reviewed = map[string]string{}

func init() {
	register("C16", "C16.R6", ruleC16R6)
	// "… and can process records without panicking": run-time index safety of what the accepted configuration builds
	register("C16", "C07.R1", ruleC07R1)
}

func ruleC16R6(c *Ctx) {
	var rootsF []*ssa.Function
	rootsF = append(rootsF, c.P.Fns("run.ParseConfigFile")...)
	rootsF = append(rootsF, c.P.Fns(aNewLoaderCF)...)
	reach := c.P.reachableFrom(rootsF, func(f *ssa.Function) bool { return !c.P.inUni[f] })
	var fns []*ssa.Function
	for f := range reach {
		if c.P.inUni[f] && f.Blocks != nil {
			fns = append(fns, f)
		}
	}
	if os.Getenv("SLOGCHECK_R6ALL") != "" {
		fns = append([]*ssa.Function{}, c.P.universe...) // exploration: the whole module
	}
	sort.Slice(fns, func(i, j int) bool { return anchorName(fns[i]) < anchorName(fns[j]) })
	nCalls, nNil := 0, 0
	// does f read its parameter p (range, index, len, lookup, or hand it to something that may)?
	var reads func(f *ssa.Function, p *ssa.Parameter, depth int) bool
	reads = func(f *ssa.Function, p *ssa.Parameter, depth int) bool {
		if p.Referrers() == nil {
			return false
		}
		for _, ref := range *p.Referrers() {
			switch x := ref.(type) {
			case *ssa.DebugRef:
				continue
			case *ssa.Store:
				// spilled into a local: any load of the cell counts
				if x.Val == ssa.Value(p) {
					return true
				}
			case ssa.CallInstruction:
				cc := x.Common()
				if bi, ok := cc.Value.(*ssa.Builtin); ok {
					switch bi.Name() {
					case "len", "cap", "append", "copy":
						return true
					}
					continue
				}
				g := cc.StaticCallee()
				if g == nil || g.Blocks == nil || !c.P.inUni[g] || depth > 3 {
					return true // slices.Index, strings.Join, an interface method …: reads it
				}
				for i, a := range cc.Args {
					if a == ssa.Value(p) {
						pi := i + len(g.Params) - len(cc.Args)
						if pi >= 0 && pi < len(g.Params) && reads(g, g.Params[pi], depth+1) {
							return true
						}
					}
				}
			default:
				return true // range, index, lookup, slice, phi, comparison, conversion …
			}
		}
		return false
	}
	for _, fn := range fns {
		for _, site := range callsIn(fn) {
			cc := site.Common()
			nCalls++
			for i, a := range cc.Args {
				k, ok := a.(*ssa.Const)
				if !ok || !isZeroValueConst(k) {
					continue
				}
				// the source argument is a variable (not a literal, not a declared constant): it holds its zero value on every path
				e, info := c.P.callArgExpr(site, i)
				id, isID := e.(*ast.Ident)
				if !isID || info == nil {
					continue
				}
				if _, isVar := info.Uses[id].(*types.Var); !isVar {
					continue
				}
				for _, cal := range c.P.callees(site) {
					if cal.Blocks == nil || !c.P.inUni[cal] {
						continue
					}
					pi := i + len(cal.Params) - len(cc.Args)
					if pi < 0 || pi >= len(cal.Params) {
						continue
					}
					nNil++
					p := cal.Params[pi]
					construct := "never-assigned variable " + id.Name + " passed as " + p.Name() + " of " + anchorName(cal)
					key := anchorName(fn) + "|" + anchorName(cal) + "|" + p.Name()
					if why, ok := c16R6Reviewed[key]; ok {
						c.assumed("C16.R6", fn, construct, site.Pos(), "reviewed: "+why)
						continue
					}
					if os.Getenv("SLOGCHECK_F6KEYS") != "" {
						fmt.Printf("R6KEY16 %q: \"\",\n", key)
					}
					c.check(!reads(cal, p, 0), "C16.R6", fn, construct, site.Pos(),
						"the callee does not read the parameter",
						"the variable holds its zero value on every path (declared, never assigned — typically because an inner `:=` shadows it) and the callee reads the parameter (membership test, range, length, comparison): the check it performs decides nothing. A configuration the check should reject is accepted and fails later, at construction")
				}
			}
		}
	}
	c.floor("C16.R6", "calls examined in the loading / verification tree", nCalls, 200)
	c.count("C16.R6:never-assigned variables passed to module functions", nNil)
	c.ok("C16.R6", nil, "no check is made vacuous by a nil argument", 0, fmt.Sprintf("%d calls in %d functions examined, %d never-assigned variables passed to module functions", nCalls, len(fns), nNil))
}

// callArgExpr: the source expression of argument i (SSA numbering: the receiver of a static method call is argument 0)
// of the call instruction, or nil when it cannot be located
func (P *Prog) callArgExpr(site ssa.CallInstruction, i int) (ast.Expr, *types.Info) {
	pos := site.Pos()
	if !pos.IsValid() {
		return nil, nil
	}
	var found *ast.CallExpr
	var info *types.Info
	for _, pkg := range P.pkgByRel {
		for _, f := range pkg.Syntax {
			if f.Pos() <= pos && pos <= f.End() {
				ast.Inspect(f, func(n ast.Node) bool {
					if ce, ok := n.(*ast.CallExpr); ok && ce.Lparen == pos {
						found, info = ce, pkg.TypesInfo
						return false
					}
					return found == nil
				})
			}
		}
	}
	if found == nil {
		return nil, nil
	}
	ai := i - (len(site.Common().Args) - len(found.Args))
	if ai < 0 || ai >= len(found.Args) {
		return nil, nil
	}
	return found.Args[ai], info
}

func isZeroValueConst(k *ssa.Const) bool {
	if k.Value == nil {
		return true // nil, or the zero value of an aggregate
	}
	switch k.Value.Kind() {
	case constant.Bool:
		return !constant.BoolVal(k.Value)
	case constant.String:
		return constant.StringVal(k.Value) == ""
	case constant.Int, constant.Float, constant.Complex:
		return constant.Sign(k.Value) == 0
	}
	return false
}

// ---- R8: a decoded value whose zero form cannot be used is checked on the decoded result
//
// yaml.v3 does not call UnmarshalYAML for a null node (nor for an alias to one, nor for a null that arrives through a
// merged map): the zero value stays in the decoded structure. A type that decodes itself and carries a function in an
// unexported field — which only its UnmarshalYAML can fill — is unusable in that zero form (calling the nil function
// crashes the pipeline on the first record). So the verification tree (VerifyConfig / verify and what they call) must
// compare that field with nil on values taken from the decoded configuration, and the nil edge must not report success.
// A check on the YAML syntax tree does not count: what the decoder leaves behind is decided by anchors and merges too.
func init() {
	register("C16", "C16.R8", ruleC16R8)
}

func ruleC16R8(c *Ctx) {
	// the verification tree
	var roots []*ssa.Function
	for _, f := range c.P.universe {
		if f.Signature.Recv() != nil && (f.Name() == "VerifyConfig" || f.Name() == "verify") && f.Blocks != nil {
			roots = append(roots, f)
		}
	}
	tree := map[*ssa.Function]bool{}
	var grow func(f *ssa.Function, d int)
	grow = func(f *ssa.Function, d int) {
		if tree[f] || d > 3 || f.Blocks == nil {
			return
		}
		tree[f] = true
		for _, s := range callsIn(f) {
			if g := s.Common().StaticCallee(); g != nil && c.P.inUni[g] {
				grow(g, d+1)
			}
		}
		for _, an := range f.AnonFuncs {
			grow(an, d)
		}
	}
	for _, f := range roots {
		grow(f, 0)
	}
	nTypes := 0
	for _, p := range c.P.pkgs {
		if !strings.HasPrefix(p.PkgPath, modPath) || nonUniversePkgs[p.PkgPath] {
			continue
		}
		scope := p.Types.Scope()
		for _, n := range scope.Names() {
			tn, ok := scope.Lookup(n).(*types.TypeName)
			if !ok || tn.IsAlias() {
				continue
			}
			named, ok := tn.Type().(*types.Named)
			if !ok || named.TypeParams().Len() > 0 {
				continue
			}
			st, ok := named.Underlying().(*types.Struct)
			if !ok {
				continue
			}
			var um *ssa.Function
			ms := c.P.prog.MethodSets.MethodSet(types.NewPointer(named))
			for i := 0; i < ms.Len(); i++ {
				if ms.At(i).Obj().Name() == "UnmarshalYAML" {
					um = c.P.prog.MethodValue(ms.At(i))
				}
			}
			if um == nil {
				continue
			}
			for i := 0; i < st.NumFields(); i++ {
				fld := st.Field(i)
				if _, isFn := fld.Type().Underlying().(*types.Signature); !isFn || fld.Exported() {
					continue
				}
				nTypes++
				// a nil comparison of this field in the verification tree whose nil edge cannot report success
				var at ssa.Instruction
				var where *ssa.Function
				found := false
				for f := range tree {
					eachInstr(f, func(in ssa.Instruction) {
						bo, ok := in.(*ssa.BinOp)
						if !ok || found {
							return
						}
						em, ok := asEmptiness(bo)
						if !ok {
							return
						}
						isFld := func(v ssa.Value) bool {
							switch x := strip(v).(type) {
							case *ssa.Field:
								return types.Identical(x.X.Type(), named) && x.Field == i
							case *ssa.UnOp:
								if fa, ok := x.X.(*ssa.FieldAddr); ok {
									if pt, ok := fa.X.Type().Underlying().(*types.Pointer); ok {
										return types.Identical(pt.Elem(), named) && fa.Field == i
									}
								}
							}
							return false
						}
						if !isFld(bo.X) && !isFld(bo.Y) {
							return
						}
						good := true
						for b, si := range boolEdges(bo, em.EmptyOnTrue) {
							q := &PathQ{P: c.P}
							if hit, _ := q.Reach(succPoint(b, si), func(x ssa.Instruction) bool {
								r, ok := x.(*ssa.Return)
								return ok && returnsSuccess(f, r)
							}); hit != nil {
								good = false
							}
						}
						if good && len(boolEdges(bo, em.EmptyOnTrue)) > 0 {
							found, at, where = true, in, f
						}
					})
				}
				desc := relPkg(p.PkgPath) + "." + n + "." + fld.Name()
				if found {
					c.ok("C16.R8", where, "decoded "+desc+" is checked against nil after decoding", at.Pos(),
						"a null YAML value (directly, through an alias or a merged map) leaves the zero "+n+" without calling its UnmarshalYAML; the verification tree rejects the nil function on the decoded value")
				} else {
					c.bad("C16.R8", um, "decoded "+desc+" is checked against nil after decoding", um.Pos(),
						"type "+n+" decodes itself and keeps a function in the unexported field "+fld.Name()+"; yaml.v3 leaves the zero value for a null node (also behind an alias or a merge) without calling UnmarshalYAML, and no VerifyConfig/verify compares the decoded field with nil: an accepted configuration then calls a nil function on the first record")
				}
			}
		}
	}
	c.floor("C16.R8", "self-decoding types with a function field", nTypes, 1)
}
