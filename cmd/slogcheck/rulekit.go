package main

// Small building blocks shared by the rules.

import (
	"fmt"
	"go/token"
	"go/types"
	"regexp"
	"sort"
	"strings"

	"golang.org/x/tools/go/ssa"
)

// callSitesOf: all call/go/defer sites in universe functions with a callee satisfying pred
func (c *Ctx) callSitesOf(pred FnPred) []ssa.CallInstruction {
	var out []ssa.CallInstruction
	for _, fn := range c.P.universe {
		for _, site := range callsIn(fn) {
			for _, cal := range c.P.callees(site) {
				if pred(cal) {
					out = append(out, site)
					break
				}
			}
		}
	}
	c.count("callsites_scanned", 1)
	return out
}

// callsTo: call sites inside fn (not its closures) with a callee satisfying pred
func (c *Ctx) callsTo(fn *ssa.Function, pred FnPred) []ssa.CallInstruction {
	var out []ssa.CallInstruction
	for _, site := range callsIn(fn) {
		for _, cal := range c.P.callees(site) {
			if pred(cal) {
				out = append(out, site)
				break
			}
		}
	}
	return out
}

// funcRefs: instructions in universe functions that take fn (or a bound-method
// wrapper of it) as a value rather than calling it
func (c *Ctx) funcRefs(pred FnPred) []ssa.Instruction {
	var out []ssa.Instruction
	isRef := func(v ssa.Value) bool {
		switch x := v.(type) {
		case *ssa.Function:
			if pred(x) {
				return true
			}
			if isWrapper(x) {
				for _, t := range wrapperTargets(c.P, x) {
					if pred(t) {
						return true
					}
				}
			}
		case *ssa.MakeClosure:
			f := x.Fn.(*ssa.Function)
			if pred(f) {
				return true
			}
			if isWrapper(f) {
				for _, t := range wrapperTargets(c.P, f) {
					if pred(t) {
						return true
					}
				}
			}
		}
		return false
	}
	for _, fn := range c.P.universe {
		eachInstr(fn, func(in ssa.Instruction) {
			if mc, ok := in.(*ssa.MakeClosure); ok {
				if isRef(mc) {
					out = append(out, in)
				}
				return
			}
			var ops []*ssa.Value
			ops = in.Operands(ops)
			for i, op := range ops {
				if op == nil || *op == nil {
					continue
				}
				if ci, ok := in.(ssa.CallInstruction); ok && i == 0 && !ci.Common().IsInvoke() {
					if _, isFn := (*op).(*ssa.Function); isFn {
						continue // the callee position of a static call is not a reference
					}
				}
				if f, ok := (*op).(*ssa.Function); ok && isRef(f) {
					out = append(out, in)
				}
			}
		})
	}
	return out
}

func fnNames(sites []ssa.CallInstruction) []string {
	m := map[string]bool{}
	for _, s := range sites {
		m[anchorName(s.Parent())] = true
	}
	var out []string
	for k := range m {
		out = append(out, k)
	}
	sort.Strings(out)
	return out
}

// whoMayCall: every universe call site of target lies in one of the allowed functions
func (c *Ctx) whoMayCall(rule, what string, target FnPred, allowed ...string) []ssa.CallInstruction {
	sites := c.callSitesOf(target)
	allow := map[string]bool{}
	for _, a := range allowed {
		allow[a] = true
	}
	for _, s := range sites {
		fn := s.Parent()
		c.check(ownedByAny(fn, allow), rule, fn, "call of "+what, s.Pos(),
			"call site is in the allowed set {"+strings.Join(allowed, ", ")+"}",
			"call of "+what+" outside the allowed set {"+strings.Join(allowed, ", ")+"}")
	}
	c.count(rule+":sites("+what+")", len(sites))
	return sites
}

// mustBetween: every path from start to a return of fn passes an instruction
// that must trigger the event described by summ.
func (c *Ctx) mustBeforeReturn(rule string, fn *ssa.Function, start Point, summ *Summ, construct, what string, pos token.Pos, extraBlocked func(*ssa.BasicBlock, int) bool) bool {
	c.seen(fn)
	ev := summ.mustEvents(fn, nil, 0)
	if len(ev) == 0 {
		c.bad(rule, fn, construct, pos, "no call in this function must reach "+what)
		return false
	}
	hit, trail := summ.bypassPath(fn, start, ev, extraBlocked)
	for f := range summ.Visited {
		c.seen(f)
	}
	if hit != nil {
		c.bad(rule, fn, construct, hit.Pos(), fmt.Sprintf("a path reaches the return at %s without passing a call that must reach %s (%s)",
			c.P.pos(hit.Pos()), what, c.P.trailString(trail)))
		return false
	}
	c.ok(rule, fn, construct, pos, fmt.Sprintf("every path to a return passes one of %d call(s) that must reach %s (benign nil/empty guards on the call's own operands tolerated)", len(ev), what))
	return true
}

// precedes: no path from the function entry reaches an instruction of `later`
// without passing an instruction of `earlier`.
func (c *Ctx) precedes(fn *ssa.Function, earlier, later map[ssa.Instruction]bool, blocked func(*ssa.BasicBlock, int) bool) (ssa.Instruction, []*ssa.BasicBlock) {
	q := c.pq(fn)
	q.Barrier, q.EdgeBlocked = func(in ssa.Instruction) bool { return earlier[in] }, blocked
	return q.Reach(entryOf(fn), func(in ssa.Instruction) bool { return later[in] && !earlier[in] })
}

func instrSet[T ssa.Instruction](l []T) map[ssa.Instruction]bool {
	m := map[ssa.Instruction]bool{}
	for _, x := range l {
		m[x] = true
	}
	return m
}

func callInstrSet(l []ssa.CallInstruction) map[ssa.Instruction]bool {
	m := map[ssa.Instruction]bool{}
	for _, x := range l {
		m[x] = true
	}
	return m
}

// checkOrder: in fn, every call of B is preceded on all paths by a call of A
func (c *Ctx) checkOrder(rule string, fn *ssa.Function, aDesc string, a map[ssa.Instruction]bool, bDesc string, b map[ssa.Instruction]bool) bool {
	return c.checkOrderG(rule, fn, aDesc, a, bDesc, b, false)
}

// checkOrderL: as checkOrder, but a for-each loop whose body always passes A
// (modulo nil/empty guards on A's own operands) counts as A
func (c *Ctx) checkOrderL(rule string, fn *ssa.Function, aDesc string, a map[ssa.Instruction]bool, bDesc string, b map[ssa.Instruction]bool) bool {
	a2 := map[ssa.Instruction]bool{}
	var calls []ssa.CallInstruction
	for k := range a {
		a2[k] = true
		if ci, ok := k.(ssa.CallInstruction); ok {
			calls = append(calls, ci)
		}
	}
	// loops are looked for in every function of the region that holds an A site
	done := map[*ssa.Function]bool{}
	for _, g := range append([]*ssa.Function{fn}, c.regionOf(fn)...) {
		if done[g] {
			continue
		}
		done[g] = true
		var own []ssa.CallInstruction
		for _, ci := range calls {
			if ci.Parent() == g {
				own = append(own, ci)
			}
		}
		if len(own) == 0 && g != fn {
			continue
		}
		addLoopEvents(c.P, g, a2, edgeSet(emptinessGuardEdgesFor(g, own)))
	}
	return c.checkOrderG(rule, fn, aDesc, a2, bDesc, b, false)
}

// checkOrderG: as checkOrder; with guards=true, nil/empty guards on the operands of the A calls are not bypasses
func (c *Ctx) checkOrderG(rule string, fn *ssa.Function, aDesc string, a map[ssa.Instruction]bool, bDesc string, b map[ssa.Instruction]bool, guards bool) bool {
	c.seen(fn)
	construct := aDesc + " before " + bDesc
	if len(a) == 0 {
		c.bad(rule, fn, construct, fn.Pos(), "no "+aDesc+" found in function")
		return false
	}
	if len(b) == 0 {
		c.bad(rule, fn, construct, fn.Pos(), "no "+bDesc+" found in function")
		return false
	}
	var blocked func(*ssa.BasicBlock, int) bool
	if guards {
		var calls []ssa.CallInstruction
		for in := range a {
			if ci, ok := in.(ssa.CallInstruction); ok {
				calls = append(calls, ci)
			}
		}
		blocked = edgeSet(emptinessGuardEdgesFor(fn, calls))
	}
	hit, trail := c.precedes(fn, a, b, blocked)
	if hit != nil {
		c.bad(rule, fn, construct, hit.Pos(), fmt.Sprintf("%s at %s is reachable without passing %s (%s)", bDesc, c.P.pos(hit.Pos()), aDesc, c.P.trailString(trail)))
		return false
	}
	c.ok(rule, fn, construct, firstPos(b), fmt.Sprintf("all %d site(s) of %s are preceded on every path by one of %d site(s) of %s", len(b), bDesc, len(a), aDesc))
	return true
}

func firstPos(m map[ssa.Instruction]bool) token.Pos {
	var best token.Pos
	for in := range m {
		if p := in.Pos(); p.IsValid() && (best == 0 || p < best) {
			best = p
		}
	}
	return best
}

// ---- fields and channels

// fieldOf: if v (after resolve) is a load of / address of a struct field, return
// "pkg.Type.field"
func fieldOf(v ssa.Value) string {
	v = strip(v)
	if u, ok := v.(*ssa.UnOp); ok && u.Op == token.MUL {
		v = strip(u.X)
	}
	switch x := v.(type) {
	case *ssa.FieldAddr:
		return fieldName(x.X.Type(), x.Field)
	case *ssa.Field:
		return fieldName(x.X.Type(), x.Field)
	}
	return ""
}

func fieldName(t types.Type, idx int) string {
	if p, ok := t.Underlying().(*types.Pointer); ok {
		t = p.Elem()
	}
	st, ok := t.Underlying().(*types.Struct)
	if !ok || idx >= st.NumFields() {
		return ""
	}
	tn := "?"
	switch n := t.(type) {
	case *types.Named:
		tn = n.Obj().Name()
		if n.Obj().Pkg() != nil {
			tn = relPkg(n.Obj().Pkg().Path()) + "." + tn
		}
	}
	return tn + "." + st.Field(idx).Name()
}

// field access instructions (FieldAddr / Field) of the given "pkg.Type.field" in fn
func fieldAccesses(fn *ssa.Function, name string) []ssa.Instruction {
	var out []ssa.Instruction
	eachInstr(fn, func(in ssa.Instruction) {
		switch x := in.(type) {
		case *ssa.FieldAddr:
			if fieldName(x.X.Type(), x.Field) == name {
				out = append(out, in)
			}
		case *ssa.Field:
			if fieldName(x.X.Type(), x.Field) == name {
				out = append(out, in)
			}
		}
	})
	return out
}

// storesToField: Store instructions whose address is the given field
func storesToField(fn *ssa.Function, name string) []*ssa.Store {
	var out []*ssa.Store
	eachInstr(fn, func(in ssa.Instruction) {
		if st, ok := in.(*ssa.Store); ok {
			if fa, ok := strip(st.Addr).(*ssa.FieldAddr); ok && fieldName(fa.X.Type(), fa.Field) == name {
				out = append(out, st)
			}
		}
	})
	return out
}

type chanOp struct {
	In   ssa.Instruction
	Kind string // send | recv | close | range
	Chan ssa.Value
}

// chanOps lists channel operations in fn (including select states)
func chanOps(fn *ssa.Function) []chanOp {
	var out []chanOp
	eachInstr(fn, func(in ssa.Instruction) {
		switch x := in.(type) {
		case *ssa.Send:
			out = append(out, chanOp{in, "send", x.Chan})
		case *ssa.UnOp:
			if x.Op == token.ARROW {
				out = append(out, chanOp{in, "recv", x.X})
			}
		case *ssa.Select:
			for _, st := range x.States {
				k := "recv"
				if st.Dir == types.SendOnly {
					k = "send"
				}
				out = append(out, chanOp{in, k, st.Chan})
			}
		case *ssa.Call:
			if bi, ok := x.Call.Value.(*ssa.Builtin); ok && bi.Name() == "close" {
				out = append(out, chanOp{in, "close", x.Call.Args[0]})
			}
		case *ssa.Range:
			if _, ok := x.X.Type().Underlying().(*types.Chan); ok {
				out = append(out, chanOp{in, "range", x.X})
			}
		}
	})
	return out
}

// chanFieldOps: operations of kind on channel-typed field `name` across the universe
func (c *Ctx) chanFieldOps(name string) []chanOp {
	var out []chanOp
	for _, fn := range c.P.universe {
		for _, op := range chanOps(fn) {
			if fieldOf(resolve(op.Chan)) == name || fieldOf(op.Chan) == name {
				out = append(out, op)
			}
		}
	}
	return out
}

// selectCaseBlock returns the block executed when select state idx was chosen
func selectCaseBlock(sel *ssa.Select, idx int) *ssa.BasicBlock {
	// pattern: t = select ...; i = extract t #0; c = i == k; if c goto caseBlock else next
	for _, ref := range *sel.Referrers() {
		ex, ok := ref.(*ssa.Extract)
		if !ok || ex.Index != 0 {
			continue
		}
		for _, r2 := range *ex.Referrers() {
			bo, ok := r2.(*ssa.BinOp)
			if !ok || bo.Op != token.EQL {
				continue
			}
			k, ok := bo.Y.(*ssa.Const)
			if !ok || k.Int64() != int64(idx) {
				continue
			}
			for _, r3 := range *bo.Referrers() {
				if iff, ok := r3.(*ssa.If); ok {
					return iff.Block().Succs[0]
				}
			}
		}
	}
	return nil
}

// errNilEdge: for a value `err` (result of a call), find the If that tests it
// against nil and return (block, succIdx) of the nil (success) edge.
func errNilEdges(errv ssa.Value) (edges []struct {
	B  *ssa.BasicBlock
	SI int
}) {
	var visit func(v ssa.Value)
	visit = func(v ssa.Value) {
		refs := v.Referrers()
		if refs == nil {
			return
		}
		for _, ref := range *refs {
			switch r := ref.(type) {
			case *ssa.BinOp:
				em, ok := asEmptiness(r)
				if !ok {
					continue
				}
				_ = em
				for _, r2 := range *r.Referrers() {
					if iff, ok := r2.(*ssa.If); ok {
						e, _ := asEmptiness(iff.Cond)
						si := 1
						if e.EmptyOnTrue {
							si = 0
						}
						edges = append(edges, struct {
							B  *ssa.BasicBlock
							SI int
						}{iff.Block(), si})
					}
				}
			}
		}
	}
	visit(errv)
	return
}

// resultOf: Extract #idx of a tuple-returning call, or the call itself if single-valued
func resultOf(call ssa.Value, idx int) ssa.Value {
	refs := call.Referrers()
	if refs == nil {
		return nil
	}
	if _, ok := call.Type().(*types.Tuple); !ok {
		if idx == 0 {
			return call
		}
		return nil
	}
	for _, ref := range *refs {
		if ex, ok := ref.(*ssa.Extract); ok && ex.Index == idx {
			return ex
		}
	}
	return nil
}

// onlyViaEdge: every path from fn entry to target passes the edge (b, si)
func (c *Ctx) onlyViaEdge(fn *ssa.Function, target ssa.Instruction, b *ssa.BasicBlock, si int) bool {
	q := &PathQ{P: c.P, EdgeBlocked: func(x *ssa.BasicBlock, i int) bool { return x == b && i == si }}
	hit, _ := q.Reach(entryOf(fn), func(in ssa.Instruction) bool { return in == target })
	return hit == nil
}

func isCallTo(in ssa.Instruction, P *Prog, pred FnPred) bool {
	ci, ok := in.(ssa.CallInstruction)
	if !ok {
		return false
	}
	for _, cal := range P.callees(ci) {
		if pred(cal) {
			return true
		}
	}
	return false
}

func extPred(names ...string) FnPred {
	m := map[string]bool{}
	for _, n := range names {
		m[n] = true
	}
	return func(f *ssa.Function) bool { return m[extName(f)] }
}

func orPred(ps ...FnPred) FnPred {
	return func(f *ssa.Function) bool {
		for _, p := range ps {
			if p(f) {
				return true
			}
		}
		return false
	}
}

// closureArgOf: the closure function passed as argument argIdx (negative = any) at a call site
func closureArgs(site ssa.CallInstruction) []*ssa.Function {
	var out []*ssa.Function
	for _, a := range site.Common().Args {
		switch x := resolve(a).(type) {
		case *ssa.MakeClosure:
			out = append(out, x.Fn.(*ssa.Function))
		case *ssa.Function:
			if x.Parent() != nil {
				out = append(out, x) // function literal without captures
			}
		}
	}
	return out
}

// typeName gives "rel/pkg.Name" for a named (or pointer-to-named) type
func typeName(t types.Type) string {
	if p, ok := t.(*types.Pointer); ok {
		t = p.Elem()
	}
	switch n := t.(type) {
	case *types.Named:
		if n.Obj().Pkg() != nil {
			return relPkg(n.Obj().Pkg().Path()) + "." + n.Obj().Name()
		}
		return n.Obj().Name()
	case *types.Alias:
		return typeName(types.Unalias(n))
	}
	return t.String()
}

// invokeOf: site is a dynamic call of method `method` on interface type iface ("rel/pkg.Name")
func invokeOf(site ssa.CallInstruction, iface, method string) bool {
	cc := site.Common()
	if !cc.IsInvoke() || cc.Method.Name() != method {
		return false
	}
	return typeName(cc.Value.Type()) == iface
}

// fieldCallOf: site calls the function stored in struct field "rel/pkg.Type.field"
func fieldCallOf(site ssa.CallInstruction, field string) bool {
	cc := site.Common()
	if cc.IsInvoke() {
		return false
	}
	return fieldOf(cc.Value) == field || fieldOf(resolve(cc.Value)) == field
}

// recvOf: receiver value of a method call (invoke or static)
func recvOf(site ssa.CallInstruction) ssa.Value {
	cc := site.Common()
	if cc.IsInvoke() {
		return cc.Value
	}
	if f := cc.StaticCallee(); f != nil && f.Signature.Recv() != nil && len(cc.Args) > 0 {
		return cc.Args[0]
	}
	return nil
}

func sameValue(a, b ssa.Value) bool {
	if a == nil || b == nil {
		return false
	}
	un := func(v ssa.Value) ssa.Value {
		for {
			v = resolve(v)
			if ta, ok := v.(*ssa.TypeAssert); ok {
				v = ta.X
				continue
			}
			return v
		}
	}
	return un(a) == un(b)
}

func sitesWhere(fn *ssa.Function, pred func(ssa.CallInstruction) bool) []ssa.CallInstruction {
	var out []ssa.CallInstruction
	for _, s := range callsIn(fn) {
		if pred(s) {
			out = append(out, s)
		}
	}
	return out
}

// eventSummary builds a Summ whose event is a site predicate
func siteSumm(P *Prog, pred func(ssa.CallInstruction) bool) *Summ {
	s := newSumm(P, nil)
	s.SiteTarget = pred
	return s
}

func rundefersOf(fn *ssa.Function) []*ssa.RunDefers {
	var out []*ssa.RunDefers
	eachInstr(fn, func(in ssa.Instruction) {
		if r, ok := in.(*ssa.RunDefers); ok {
			out = append(out, r)
		}
	})
	return out
}

// fnBaseName: method/function name without generic type arguments
func fnBaseName(f *ssa.Function) string {
	if f == nil {
		return ""
	}
	if f.Origin() != nil {
		return f.Origin().Name()
	}
	return f.Name()
}

type retVal struct {
	Val ssa.Value
	At  ssa.Instruction // the Return, or the store into the spilled result slot
}

// returnedValues lists the values a function can return as result idx. With
// defers go/ssa spills results into slots that are reloaded after rundefers;
// then every store to the slot is a return site.
func returnedValues(fn *ssa.Function, idx int) []retVal {
	var out []retVal
	seenSlot := map[*ssa.Alloc]bool{}
	eachInstr(fn, func(in ssa.Instruction) {
		r, ok := in.(*ssa.Return)
		if !ok || idx >= len(r.Results) {
			return
		}
		v := r.Results[idx]
		if u, ok := v.(*ssa.UnOp); ok && u.Op == token.MUL {
			if al, ok := u.X.(*ssa.Alloc); ok && fn.Recover != nil {
				if !seenSlot[al] {
					seenSlot[al] = true
					for _, ref := range *al.Referrers() {
						if st, ok := ref.(*ssa.Store); ok && st.Addr == al {
							out = append(out, retVal{st.Val, st})
						}
					}
				}
				return
			}
		}
		if fn.Recover != nil && in.Block() == fn.Recover {
			return
		}
		out = append(out, retVal{v, in})
	})
	return out
}

// deepRoots: like roots but also descends into the arguments of calls
func deepRoots(v ssa.Value, out map[ssa.Value]bool) {
	first := map[ssa.Value]bool{}
	roots(v, first)
	seen := map[ssa.Value]bool{}
	var expand func(r ssa.Value, d int)
	expand = func(r ssa.Value, d int) {
		if seen[r] || d > 6 {
			return
		}
		seen[r] = true
		out[r] = true
		if cl, ok := r.(*ssa.Call); ok {
			sub := map[ssa.Value]bool{}
			if cl.Call.IsInvoke() {
				roots(cl.Call.Value, sub)
			}
			for _, a := range cl.Call.Args {
				roots(a, sub)
			}
			for x := range sub {
				expand(x, d+1)
			}
		}
		if ex, ok := r.(*ssa.Next); ok {
			sub := map[ssa.Value]bool{}
			if rg, ok := ex.Iter.(*ssa.Range); ok {
				roots(rg.X, sub)
			}
			for x := range sub {
				expand(x, d+1)
			}
		}
	}
	for r := range first {
		expand(r, 0)
	}
}

// onlyViaBlock: every path from fn's entry to target enters block via (edges into it are the only way)
func (c *Ctx) onlyViaBlock(fn *ssa.Function, target ssa.Instruction, via *ssa.BasicBlock) bool {
	if via == nil {
		return false
	}
	q := &PathQ{P: c.P, EdgeBlocked: func(b *ssa.BasicBlock, si int) bool { return b.Succs[si] == via }}
	hit, _ := q.Reach(entryOf(fn), func(in ssa.Instruction) bool { return in == target })
	return hit == nil
}

// successSites: program points at which an error-returning function may return
// a nil error. A returned value that is only reachable through its own
// `!= nil` edge is a failure; phi results are examined per incoming edge.
func (c *Ctx) successSites(fn *ssa.Function) []ssa.Instruction {
	idx := fn.Signature.Results().Len() - 1
	var out []ssa.Instruction
	onlyWhenNonNil := func(v ssa.Value, at ssa.Instruction) bool {
		for b, si := range nilEdges(v, false) {
			if c.onlyViaEdge(fn, at, b, si) {
				return true
			}
		}
		return false
	}
	for _, rv := range returnedValues(fn, idx) {
		v := strip(rv.Val)
		switch x := v.(type) {
		case *ssa.Const:
			if x.IsNil() {
				out = append(out, rv.At)
			}
		case *ssa.Phi:
			if onlyWhenNonNil(v, rv.At) {
				continue
			}
			if x.Block() != rv.At.Block() {
				out = append(out, rv.At)
				continue
			}
			for i, e := range x.Edges {
				p := x.Block().Preds[i]
				term := p.Instrs[len(p.Instrs)-1]
				if k, ok := e.(*ssa.Const); ok {
					if k.IsNil() {
						out = append(out, term)
					}
					continue
				}
				if onlyWhenNonNil(e, term) {
					continue
				}
				out = append(out, term)
			}
		default:
			if neverNilError(rv.Val) || onlyWhenNonNil(v, rv.At) {
				continue
			}
			// `return cleanupAfter(…, err)`: a helper that hands back the error it was given
			if cl, ok := v.(*ssa.Call); ok {
				if pi, ok := errPassThrough(cl.Common().StaticCallee()); ok && pi < len(cl.Common().Args) {
					if a := cl.Common().Args[pi]; neverNilError(a) || onlyWhenNonNil(strip(a), rv.At) {
						continue
					}
				}
			}
			out = append(out, rv.At)
		}
	}
	return out
}

// neverNilError: the value is built by a constructor that never returns nil
func neverNilError(v ssa.Value) bool {
	if mi, ok := v.(*ssa.MakeInterface); ok {
		if _, isPtr := mi.X.Type().Underlying().(*types.Pointer); isPtr {
			_, isAlloc := mi.X.(*ssa.Alloc)
			return isAlloc
		}
		return true // a non-pointer concrete value boxed into the interface
	}
	if cl, ok := strip(v).(*ssa.Call); ok {
		if f := cl.Common().StaticCallee(); f != nil {
			switch extName(f) {
			case "fmt.Errorf", "errors.New":
				return true
			}
			if isAnchor(f, "util.NewYamlError") {
				return true
			}
		}
	}
	return false
}

// ---- closures are identified by what they are, not by go/ssa's ordinal ($1, $2 …), which shifts when an unrelated
// function literal (a deferred logger, a monitor goroutine) is added earlier in the parent

var closureOrdinal = regexp.MustCompile(`\$\d+`)

// normClosure replaces closure ordinals in a name or table key by a wildcard
func normClosure(s string) string { return closureOrdinal.ReplaceAllString(s, "$$·") }

var namedLocal = regexp.MustCompile(`\b(param|var|recv|captured):[A-Za-z_][A-Za-z0-9_]*`)

// normNames additionally ignores the names of parameters, receivers and captured variables in a canonical expression
func normNames(s string) string {
	return namedLocal.ReplaceAllString(normClosure(s), "$1:·")
}

// lookupReviewed finds a reviewed-table entry by its exact key; failing that by its key with closure ordinals ignored;
// failing that with the names of parameters / captured variables ignored as well (a renamed parameter or a function
// literal added earlier in the parent must not invalidate a review). A normalised match must be unique.
func lookupReviewed(table map[string]string, key string) (string, bool) {
	k, ok := lookupReviewedKey(table, key)
	if !ok {
		return "", false
	}
	return table[k], true
}

// reviewedNames: the parameter / receiver / free-variable names of the functions of the universe, by anchor name — used to
// tell "the parameter was renamed" (the entry's name is gone) from "another parameter of the same function" (it is not)
var reviewedNames = map[string]map[string]bool{}

func noteFunctionNames(fn *ssa.Function) {
	n := anchorName(fn)
	if reviewedNames[n] != nil {
		return
	}
	m := map[string]bool{}
	for _, p := range fn.Params {
		m[p.Name()] = true
	}
	for _, f := range fn.FreeVars {
		m[f.Name()] = true
	}
	reviewedNames[n] = m
}

// reviewedParentOf: for the anchor name of a private helper (region.go) the anchor name of the function it was extracted
// from / is only called by; "" otherwise. Set at load.
var reviewedParentOf = func(string) string { return "" }

// lookupReviewedKey is lookupReviewed returning the key of the entry that matched. Beyond lookupReviewedKey1 it follows
// "extract method" and "inline": a construct reviewed in function A and now standing in a private helper of A is the same
// construct (the key is tried with the helper replaced by its only caller, up to three levels); and an entry whose
// function no longer exists in the module matches the same construct in the function that absorbed it, if unique.
func lookupReviewedKey(table map[string]string, key string) (string, bool) {
	if k, ok := lookupReviewedKey1(table, key); ok {
		return k, true
	}
	i := strings.Index(key, "|")
	if i <= 0 {
		return "", false
	}
	fn, rest := key[:i], key[i:]
	for hops := 0; hops < 3; hops++ {
		par := reviewedParentOf(fn)
		if par == "" || par == fn {
			break
		}
		if k, ok := lookupReviewedKey1(table, par+rest); ok {
			return k, true
		}
		fn = par
	}
	// the entry's function is gone (inlined into its caller): same construct, unique
	var cands []string
	nrest := normNames(normClosure(rest))
	for k := range table {
		j := strings.Index(k, "|")
		if j <= 0 {
			continue
		}
		efn := k[:j]
		if reviewedNames[efn] != nil || reviewedNames[normClosure(efn)] != nil {
			continue
		}
		if strings.Contains(efn, "$") {
			continue // closures are matched by lookupReviewedKey1
		}
		if normNames(normClosure(k[j:])) == nrest && reviewedParentOf("gone:"+efn+">"+key[:i]) == "ok" {
			cands = append(cands, k)
		}
	}
	if len(cands) == 1 {
		return cands[0], true
	}
	return "", false
}

func lookupReviewedKey1(table map[string]string, key string) (string, bool) {
	if _, ok := table[key]; ok {
		return key, true
	}
	for _, norm := range []func(string) string{normClosure, normNames} {
		nk := norm(key)
		var keys []string
		for k := range table {
			if norm(k) == nk {
				keys = append(keys, k)
			}
		}
		sort.Strings(keys)
		if len(keys) == 1 {
			// names ignored: the entry must speak of names that no longer exist in that function (renamed), otherwise the
			// query is about another parameter of the same function — a different site, not covered by this review
			if i := strings.Index(key, "|"); i > 0 {
				if cur := reviewedNames[key[:i]]; cur != nil {
					still := false
					for _, m := range namedLocal.FindAllString(keys[0], -1) {
						nm := m[strings.Index(m, ":")+1:]
						if cur[nm] && !strings.Contains(key, m) {
							still = true
						}
					}
					if still {
						return "", false
					}
				}
			}
			return keys[0], true
		}
		if len(keys) > 1 {
			// several entries collapse to one normal form: accept only if the query's exact-name twin is absent from the tree,
			// i.e. never guess between different reviewed sites
			return "", false
		}
	}
	return "", false
}

// returnedClosure: the function literal that fn returns (its starter / factory closure)
func returnedClosure(fn *ssa.Function) *ssa.Function {
	var out *ssa.Function
	eachInstr(fn, func(in ssa.Instruction) {
		r, ok := in.(*ssa.Return)
		if !ok {
			return
		}
		for _, v := range r.Results {
			if mc, ok := resolve(v).(*ssa.MakeClosure); ok {
				if f, ok := mc.Fn.(*ssa.Function); ok {
					out = f
				}
			}
		}
	})
	if out == nil {
		broken("%s no longer returns a function literal", anchorName(fn))
	}
	return out
}

// isConstructionBoundary: pipeline / sink / parser construction, which runs once per key set or connection (C16's business)
func isConstructionBoundary(f *ssa.Function) bool {
	if constructionBoundary[anchorName(f)] {
		return true
	}
	// the per-connection parser factory: the literal of sysloginput.(*Config).NewInput that builds the parser
	if p := f.Parent(); p != nil && anchorName(p) == "input/sysloginput.(*Config).NewInput" {
		for _, s := range callsIn(f) {
			if g := s.Common().StaticCallee(); g != nil && isAnchor(g, aNewParser) {
				return true
			}
		}
	}
	return false
}

// isPlainCallback: func() — a completion callback without arguments or results
func isPlainCallback(t types.Type) bool {
	sig, ok := t.Underlying().(*types.Signature)
	return ok && sig.Params().Len() == 0 && sig.Results().Len() == 0
}

// sitesMustReach: the call sites of fn that call a target function directly, or call something (a helper, a method, a
// local function literal) every path of which reaches one — "extract helper" must not hide a required call
func (c *Ctx) sitesMustReach(fn *ssa.Function, target FnPred) []ssa.CallInstruction {
	sm := newSumm(c.P, target)
	sm.AllowEmptyGuards, sm.LoopsRunOnce = false, false
	var out []ssa.CallInstruction
	for _, s := range callsIn(fn) {
		if _, isGo := s.(*ssa.Go); isGo {
			continue
		}
		if sm.siteMust(s, nil, 0) {
			out = append(out, s)
		}
	}
	return out
}
