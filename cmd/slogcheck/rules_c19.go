package main

// C09 (accounting clauses) and C19 Metrics balance with what actually happened.

import (
	"fmt"
	"go/constant"
	"go/token"
	"go/types"
	"os"
	"sort"
	"strings"

	"golang.org/x/tools/go/ssa"
)

const (
	aParse        = "input/syslogparser.(*syslogParser).Parse"
	aOnMalformed  = "input/syslogparser.(*syslogParser).onMalformed"
	aOnOverflow   = "input/syslogparser.(*syslogParser).onOverflow"
	aNewParser    = "input/syslogparser.NewParser"
	aCompParse    = "input/sysloginput.(*compositeParser).Parse"
	aCountPass    = "base.(*LogInputCounterSet).CountRecordPass"
	aCountDrop    = "base.(*LogInputCounterSet).CountRecordDrop"
	aRelease      = "base.(*LogAllocator).Release"
	aNewRecord    = "base.(*LogAllocator).NewRecord"
	aRunTransf    = "base/bsupport.RunTransforms"
	aOnInputW     = "base/bsupport.(*LogProcessingWorker).onInput"
	aSelectKeySet = "base.(*LogProcessCounterSet).SelectMetricKeySet"
	aCountStream  = "base.(*LogProcessCounterSet).CountStream"
	aCountChunk   = "base.(*LogProcessCounterSet).CountChunk"
	aProcUpdate   = "base.(*LogProcessCounterSet).UpdateMetrics"
	aInputUpdate  = "base.(*LogInputCounterSet).UpdateMetrics"
	aCleanUTF8    = "util.CleanUTF8"
	aLocSet       = "base.(LogFieldLocator).Set"
)

func init() {
	register("C09", "C09.R1", ruleC09R1)
	register("C09", "C09.R2", ruleC09R2)
	register("C09", "C09.R4", ruleC09R4)
	propExplanation["C09"] = "Decides the accounting and truncation clauses on every path of the parser: exactly one of pass/drop is counted per message after RawLength was set, nil is returned exactly on drop paths and the record released exactly once there (R1); " +
		"whenever the message is cut to the configured maximum, overflow is counted and the stored value passes through the UTF-8 cleaner (R2); PRI/facility/severity index safety (R3, decided by the C07 index-safety engine); " +
		"a record dropped by input-stage transforms is released once (R4). Not decided: that the substrings are the right substrings, the level mapping contents."
	propAssumptions["C09"] = []string{"loops are analysed per iteration"}

	for i, r := range []ruleFn{ruleC09R1, ruleC19R2, ruleC19R3, ruleC19R4, ruleC19R5, ruleC19R6, ruleC19R7} {
		name := fmt.Sprintf("C19.R%d", i+1)
		if i == 0 {
			name = "C09.R1"
		}
		register("C19", name, r)
	}
	propExplanation["C19"] = "Decides exactly-once counting on every path (bounded path enumeration with return-correlated summaries): parser pass/drop (C09.R1); per record exactly one of pipeline pass/drop chosen by the transform result, one stream count per output, one chunk count per emitted chunk before it is handed on (R2); " +
		"pending gauge and outcome counters of the buffer (C03.R1/R9) (R3); forwarding/forwarded/acknowledged/leftover/session-ended counters tied to the events they describe, with the session-ended operands being the lengths of the merged slices (R4); " +
		"batched counters are flushed at stop/close/flush after the last count (R5); the metric key set is selected before any transform may count (R6); input-stage drops are accounted (R7 — known finding). Not decided: the balance equations as numbers across goroutines."
	propAssumptions["C19"] = []string{"loops are analysed per iteration", "Prometheus client library adds what it is given"}
}

// dropEdges: edges taken when the FilterResult value v is DROP (false) / PASS
func dropEdges(v ssa.Value, wantDrop bool) map[*ssa.BasicBlock]int {
	out := map[*ssa.BasicBlock]int{}
	if v == nil || v.Referrers() == nil {
		return out
	}
	for _, ref := range *v.Referrers() {
		switch r := ref.(type) {
		case *ssa.If:
			if wantDrop {
				out[r.Block()] = 1
			} else {
				out[r.Block()] = 0
			}
		case *ssa.BinOp:
			k, ok := r.Y.(*ssa.Const)
			if !ok || k.Value == nil || k.Value.Kind() != constant.Bool {
				continue
			}
			isDropConst := !constant.BoolVal(k.Value)
			// v == DROP is true when dropping; v != DROP is false when dropping ...
			var trueMeansDrop bool
			switch r.Op {
			case token.EQL:
				trueMeansDrop = isDropConst
			case token.NEQ:
				trueMeansDrop = !isDropConst
			default:
				continue
			}
			for b, si := range boolEdges(r, trueMeansDrop == wantDrop) {
				out[b] = si
			}
		}
	}
	return out
}

func siteClass(P *Prog, table map[string]int) func(ssa.CallInstruction) int {
	return func(s ssa.CallInstruction) int {
		for _, cal := range P.callees(s) {
			if i, ok := table[anchorName(cal)]; ok {
				return i
			}
		}
		return -1
	}
}

// ---- C09.R1

func ruleC09R1(c *Ctx) {
	fn := c.P.Fn(aParse)
	cs := &CountSpec{P: c.P, Classes: []string{"CountRecordPass", "CountRecordDrop", "Release"},
		Site:    siteClass(c.P, map[string]int{aCountPass: 0, aCountDrop: 1, aRelease: 2}),
		Descend: func(f *ssa.Function) bool { return strings.HasPrefix(fnPkgPath(f), modPath+"/input/syslogparser") }}
	outs := cs.Enum(fn, entryOf(fn), nil)
	c.count("C09.R1:paths", cs.Paths)
	good := len(outs) >= 2
	var why []string
	for _, o := range outs {
		ok := false
		switch o.Ret {
		case "nil":
			ok = o.Counts[0] == 0 && o.Counts[1] == 1 && o.Counts[2] == 1
		default:
			ok = o.Counts[0] == 1 && o.Counts[1] == 0 && o.Counts[2] == 0
		}
		if !ok {
			good = false
			why = append(why, cs.describe(o))
		}
	}
	c.check(good, "C09.R1", fn, "each message counted once as passed or dropped; nil ⇔ dropped and released once", fn.Pos(),
		fmt.Sprintf("all %d path outcomes: nil return ⇒ drop=1 release=1, record return ⇒ pass=1", len(outs)), "miscounting path(s): "+strings.Join(why, "; "))
	// RawLength = len(input) before any counting
	var rl []ssa.Instruction
	for _, st := range storesToField(fn, "base.LogRecord.RawLength") {
		if cl, ok := strip(st.Val).(*ssa.Call); ok && isBuiltin(cl, "len") && cl.Call.Args[0] == ssa.Value(fn.Params[1]) {
			rl = append(rl, st)
		}
	}
	counts := c.callsTo(fn, func(f *ssa.Function) bool { return isAnchor(f, aCountPass, aCountDrop, aOnMalformed) })
	c.checkOrder("C09.R1", fn, "record.RawLength = len(input)", instrSet(rl), "pass/drop counting", callInstrSet(counts))
	// the record counted is the record allocated for this input
	nr := c.callsTo(fn, anchorPred(aNewRecord))
	okRec := len(nr) == 1 && nr[0].Common().Args[1] == ssa.Value(fn.Params[1])
	c.check(okRec, "C09.R1", fn, "record allocated from this input", fn.Pos(), "NewRecord(input)", "the record is not allocated from the input bytes")
}

// ---- C09.R2

func ruleC09R2(c *Ctx) {
	fn := c.P.Fn(aParse)
	isMax := func(v ssa.Value) bool {
		g, ok := v.(*ssa.Global)
		return ok && g.Pkg.Pkg.Path() == modPath+"/defs" && g.Name() == "InputLogMaxMessageBytes"
	}
	var cuts []*ssa.Slice
	calleeIs := func(p FnPred) func(ssa.CallInstruction) bool {
		return func(s ssa.CallInstruction) bool { f := s.Common().StaticCallee(); return f != nil && p(f) }
	}
	c.eachInstrR(fn, func(in ssa.Instruction) {
		if sl, ok := in.(*ssa.Slice); ok && sl.High != nil && mentions(sl.High, isMax) {
			cuts = append(cuts, sl)
		}
	})
	c.floor("C09.R2", "truncations to InputLogMaxMessageBytes", len(cuts), 1)
	// the final store of the message field
	var sets []ssa.CallInstruction
	for _, s := range c.sitesWhereR(fn, calleeIs(anchorPred(aLocSet))) {
		if fieldOf(s.Common().Args[0]) == "input/syslogparser.syslogParser.fieldLogLocator" {
			sets = append(sets, s)
		}
	}
	if len(sets) == 0 {
		c.bad("C09.R2", fn, "message field store", fn.Pos(), "no fieldLogLocator.Set call found")
		return
	}
	over := c.sitesWhereR(fn, calleeIs(anchorPred(aOnOverflow)))
	for _, cut := range cuts {
		// guarded by len(x) > max
		okG := false
		eachInstr(cut.Parent(), func(in ssa.Instruction) {
			bo, ok := in.(*ssa.BinOp)
			if !ok || (bo.Op != token.GTR && bo.Op != token.GEQ) || !mentions(bo.Y, isMax) {
				return
			}
			for b, si := range boolEdges(bo, true) {
				if c.onlyViaEdge(cut.Parent(), cut, b, si) {
					okG = true
				}
			}
		})
		c.check(okG, "C09.R2", fn, "cut only when the message exceeds the maximum", cut.Pos(), "the re-slice is only reachable through len(message) > InputLogMaxMessageBytes", "the message is cut without the length test (slice bounds out of range for short messages)")
		// overflow counted on the way to the cut
		c.checkOrder("C09.R2", fn, "onOverflow", callInstrSet(over), "cut to InputLogMaxMessageBytes", map[ssa.Instruction]bool{cut: true})
		// cleaned before it is stored
		q := c.pq(fn)
		q.Barrier = func(in ssa.Instruction) bool { return isCallTo(in, c.P, anchorPred(aCleanUTF8)) }
		hit, tr := q.Reach(after(cut), func(in ssa.Instruction) bool { return callInstrSet(sets)[in] })
		c.check(hit == nil, "C09.R2", fn, "a cut message is UTF-8-cleaned before it is stored", cut.Pos(),
			"every path from the cut to the message store passes util.CleanUTF8", "a message cut at the byte limit can be stored without UTF-8 clean-up (a multi-byte sequence split at the limit stays in the record): "+c.P.trailString(tr))
	}
	// the cleaner's input derives from the cut and its output is what is stored
	for _, s := range c.sitesWhereR(fn, calleeIs(anchorPred(aCleanUTF8))) {
		okIn := false
		for _, cut := range cuts {
			if mentions(s.Common().Args[0], func(v ssa.Value) bool { return v == ssa.Value(cut) }) {
				okIn = true
			}
		}
		// the argument may also be the phi merging cut / uncut
		if !okIn {
			okIn = mentions(s.Common().Args[0], func(v ssa.Value) bool {
				if prm, isP := v.(*ssa.Parameter); isP && prm.Parent() != fn && c.helpersOf(fn)[prm.Parent()] {
					return true // the message as handed to a private helper of Parse
				}
				_, isPhi := v.(*ssa.Phi)
				return isPhi
			})
		}
		okOut := false
		for _, st := range sets {
			if c.mentionsR(fn, st.Common().Args[2], func(v ssa.Value) bool { return v == s.Value() }, 0) {
				okOut = true
			}
		}
		c.check(okIn && okOut, "C09.R2", fn, "CleanUTF8(cut message) is what gets stored", s.Pos(), "cleaner input derives from the cut, its result flows into the message field", "the cleaner's result is not the stored message (or its input is not the cut message)")
	}
	// onOverflow counts through the registered overflow counter
	oo := c.P.Fn(aOnOverflow)
	okCnt := len(sitesWhere(oo, func(s ssa.CallInstruction) bool {
		return fieldCallOf(s, "input/syslogparser.syslogParser.overflowCounter")
	})) > 0
	c.check(okCnt, "C09.R2", oo, "onOverflow counts", oo.Pos(), "calls the overflow counter", "onOverflow does not count the overflow")
}

// ---- C09.R4 / C19.R7

func ruleC09R4(c *Ctx) {
	fn := c.P.Fn(aCompParse)
	rt := c.callsTo(fn, anchorPred(aRunTransf))
	if len(rt) != 1 {
		c.bad("C09.R4", fn, "release on DROP", fn.Pos(), "expected one RunTransforms call")
		return
	}
	rel := callInstrSet(c.callsTo(fn, anchorPred(aRelease)))
	drop := dropEdges(rt[0].Value(), true)
	pass := dropEdges(rt[0].Value(), false)
	okD := len(drop) > 0
	for b, si := range drop {
		q := &PathQ{P: c.P, Barrier: func(in ssa.Instruction) bool { return rel[in] }}
		if hit, _ := q.Reach(succPoint(b, si), isReturn); hit != nil {
			okD = false
		}
		// exactly once: no second release after the first
		for r := range rel {
			q2 := &PathQ{P: c.P}
			if hit, _ := q2.Reach(after(r), func(in ssa.Instruction) bool { return rel[in] }); hit != nil {
				okD = false
			}
		}
	}
	c.check(okD, "C09.R4", fn, "record released exactly once on the DROP path", rt[0].Pos(), "every path from the DROP edge releases the record once", "a record dropped by an extraction transform is not released exactly once")
	okP := len(pass) > 0
	for b, si := range pass {
		q := &PathQ{P: c.P}
		if hit, _ := q.Reach(succPoint(b, si), func(in ssa.Instruction) bool { return rel[in] }); hit != nil {
			okP = false
		}
	}
	c.check(okP, "C09.R4", fn, "no release on the PASS path", rt[0].Pos(), "a passed record is not released by the parser", "a record that is handed on is released (use after recycle)")
	// a nil from the underlying parser is passed through without touching the record
	okNil := true
	for _, rv := range returnedValues(fn, 0) {
		if retKind(rv.Val) == "other" {
			// must be the parsed record, only via PASS
			via := false
			for b, si := range pass {
				if c.onlyViaEdge(fn, rv.At, b, si) {
					via = true
				}
			}
			if !via {
				okNil = false
			}
		}
	}
	c.check(okNil, "C09.R4", fn, "a record is returned only on the PASS path", fn.Pos(), "non-nil returns are only reachable via PASS", "a dropped (released) record can be returned to the caller")
}

func ruleC19R7(c *Ctx) {
	fn := c.P.Fn(aCompParse)
	rt := c.callsTo(fn, anchorPred(aRunTransf))
	if len(rt) != 1 {
		c.bad("C19.R7", fn, "input-stage drop is accounted", fn.Pos(), "expected one RunTransforms call")
		return
	}
	// a record dropped here was already counted as input-passed; it must be (re)counted as dropped somewhere on the DROP path
	isCount := func(in ssa.Instruction) bool {
		ci, ok := in.(ssa.CallInstruction)
		if !ok {
			return false
		}
		for _, cal := range c.P.callees(ci) {
			n := anchorName(cal)
			if strings.HasPrefix(n, "base.(*LogInputCounterSet).Count") || strings.HasPrefix(n, "base.(*LogProcessCounterSet).Count") {
				return true
			}
		}
		return false
	}
	ok := true
	for b, si := range dropEdges(rt[0].Value(), true) {
		q := &PathQ{P: c.P, Barrier: isCount}
		if hit, _ := q.Reach(succPoint(b, si), isReturn); hit != nil {
			ok = false
		}
	}
	c.check(ok, "C19.R7", fn, "input-stage drop is accounted", rt[0].Pos(), "the DROP path updates the pass/drop counters",
		"a record dropped by an input-stage (extraction) transform stays counted as input-passed and is never counted by any pipeline: input passed ≠ pipeline passed + dropped")
}

// ---- C19.R2 onInput

func ruleC19R2(c *Ctx) {
	fn := c.P.Fn(aOnInputW)
	rt := c.callsTo(fn, anchorPred(aRunTransf))
	if len(rt) != 1 {
		c.bad("C19.R2", fn, "per-record accounting", fn.Pos(), "expected one RunTransforms call")
		return
	}
	outer := loopOf(fn, rt[0].Block())
	if outer == nil || outer.bodyEntry == nil {
		c.bad("C19.R2", fn, "per-record accounting", fn.Pos(), "RunTransforms is not inside the per-record loop")
		return
	}
	classes := []string{"CountRecordPass", "CountRecordDrop", "Release", "CountStream", "CountChunk", "AcceptChunk"}
	site := func(s ssa.CallInstruction) int {
		if fieldCallOf(s, "base/bsupport.OutputInterface.AcceptChunk") {
			return 5
		}
		return siteClass(c.P, map[string]int{aCountPass: 0, aCountDrop: 1, aRelease: 2, aCountStream: 3, aCountChunk: 4})(s)
	}
	// region 1: from the DROP edge to the next iteration
	okAll := true
	var why []string
	for b, si := range dropEdges(rt[0].Value(), true) {
		cs := &CountSpec{P: c.P, Classes: classes, Site: site}
		for _, o := range cs.Enum(fn, succPoint(b, si), func(in ssa.Instruction) bool { return in == outer.header.Instrs[0] }) {
			if !(o.Counts[0] == 0 && o.Counts[1] == 1 && o.Counts[2] == 1 && o.Counts[3] == 0 && o.Counts[4] == 0 && o.Counts[5] == 0) {
				okAll = false
				why = append(why, "DROP: "+cs.describe(o))
			}
		}
	}
	// region 2: from the PASS edge up to the per-output loop
	var inner *loop
	for _, lp := range naturalLoops(fn) {
		if lp.header != outer.header && outer.blocks[lp.header] && inner == nil {
			inner = lp
		}
	}
	if inner == nil || inner.bodyEntry == nil {
		c.bad("C19.R2", fn, "per-output accounting", fn.Pos(), "no per-output loop inside the per-record loop")
		return
	}
	for b, si := range dropEdges(rt[0].Value(), false) {
		cs := &CountSpec{P: c.P, Classes: classes, Site: site}
		for _, o := range cs.Enum(fn, succPoint(b, si), func(in ssa.Instruction) bool { return in == inner.header.Instrs[0] }) {
			if !(o.Counts[0] == 1 && o.Counts[1] == 0 && o.Counts[2] == 0) {
				okAll = false
				why = append(why, "PASS: "+cs.describe(o))
			}
		}
	}
	// region 3: one iteration of the per-output loop
	cs := &CountSpec{P: c.P, Classes: classes, Site: site}
	for _, o := range cs.Enum(fn, Point{inner.bodyEntry, 0}, func(in ssa.Instruction) bool { return in == inner.header.Instrs[0] }) {
		if !(o.Counts[0] == 0 && o.Counts[1] == 0 && o.Counts[2] == 1 && o.Counts[3] == 1 && o.Counts[4] == o.Counts[5] && o.Counts[4] <= 1) {
			okAll = false
			why = append(why, "per output: "+cs.describe(o))
		}
	}
	c.check(okAll, "C19.R2", fn, "per record: one of pass/drop by the transform result; per output: one stream, one release, chunk counted iff handed on", rt[0].Pos(),
		"DROP edge: drop=1 release=1; PASS edge: pass=1; each output iteration: stream=1 release=1 CountChunk=AcceptChunk≤1", strings.Join(why, "; "))
	// the chunk is counted before it is handed on — wherever the worker hands a chunk on (the per-record path, the flush
	// path, a shared helper of both): in every function of the worker that calls AcceptChunk, CountChunk precedes it on all
	// paths and sees the same chunk
	nAcc := 0
	for _, f := range c.P.universe {
		if relPkg(fnPkgPath(f)) != "base/bsupport" {
			continue
		}
		ac := sitesWhere(f, func(s ssa.CallInstruction) bool { return fieldCallOf(s, "base/bsupport.OutputInterface.AcceptChunk") })
		if len(ac) == 0 {
			continue
		}
		nAcc += len(ac)
		cc := c.callsTo(f, anchorPred(aCountChunk))
		c.checkOrder("C19.R2", f, "CountChunk", callInstrSet(cc), "AcceptChunk", callInstrSet(ac))
		if len(cc) == 1 && len(ac) == 1 {
			same := mentions(ac[0].Common().Args[0], func(v ssa.Value) bool { return v == strip(cc[0].Common().Args[2]) })
			c.check(same, "C19.R2", f, "the chunk counted is the chunk handed on", cc[0].Pos(), "same value", "CountChunk and AcceptChunk see different chunks")
		}
	}
	c.floor("C19.R2", "AcceptChunk sites of the processing worker", nAcc, 1)
}

// ---- C19.R3 = C03.R1 + C03.R9

func ruleC19R3(c *Ctx) {
	ruleC03R1(c)
	ruleC03R9(c)
}

// ---- C19.R4 client metrics

func ruleC19R4(c *Ctx) {
	const mp = "output/baseoutput.(*clientMetrics)."
	// sendChunk: OnForwarding once; OnForwarded exactly when queued (success return)
	sc := c.P.Fn(aSendChunk)
	var sel *ssa.Select
	c.eachInstrR(sc, func(in ssa.Instruction) {
		if s, ok := in.(*ssa.Select); ok {
			sel = s
		}
	})
	cs := &CountSpec{P: c.P, Classes: []string{"OnForwarding", "OnForwarded"}, Site: siteClass(c.P, map[string]int{mp + "OnForwarding": 0, mp + "OnForwarded": 1})}
	outs := cs.Enum(sc, entryOf(sc), nil)
	good := len(outs) >= 2 && sel != nil
	var why []string
	for _, o := range outs {
		want := 0
		if o.Ret == "true" {
			want = 1
		}
		if o.Counts[0] != 1 || o.Counts[1] != want {
			good = false
			why = append(why, cs.describe(o))
		}
	}
	c.check(good, "C19.R4", sc, "OnForwarding once per attempt; OnForwarded exactly when queued for ACK", sc.Pos(), fmt.Sprintf("all %d outcomes: attempts=1, forwarded=1 iff sendChunk returns true", len(outs)), strings.Join(why, "; "))
	// acknowledger: OnAcknowledged exactly with the delivered callback, per iteration
	ra := c.P.Fn(aRunAcker)
	reads := sitesWhere(ra, func(s ssa.CallInstruction) bool { return invokeOf(s, iConn, "ReadChunkAck") })
	if len(reads) == 1 {
		lp := loopOf(ra, reads[0].Block())
		cs2 := &CountSpec{P: c.P, Classes: []string{"onChunkAcked", "OnAcknowledged"}, Site: func(s ssa.CallInstruction) int {
			if fieldCallOf(s, fAcked) {
				return 0
			}
			return siteClass(c.P, map[string]int{mp + "OnAcknowledged": 1})(s)
		}}
		start := entryOf(ra)
		var stop func(ssa.Instruction) bool
		if lp != nil {
			start = Point{lp.header, 0}
			stop = func(in ssa.Instruction) bool { return in == lp.header.Instrs[0] }
		}
		o2 := cs2.Enum(ra, start, stop)
		g2 := len(o2) > 0
		var w2 []string
		seen1 := false
		for _, o := range o2 {
			if o.Counts[0] != o.Counts[1] || o.Counts[0] > 1 {
				g2 = false
				w2 = append(w2, cs2.describe(o))
			}
			if o.Counts[0] == 1 {
				seen1 = true
			}
		}
		c.check(g2 && seen1, "C19.R4", ra, "OnAcknowledged exactly with the delivered callback", reads[0].Pos(), fmt.Sprintf("all %d iteration outcomes count acknowledged iff the callback ran", len(o2)), strings.Join(w2, "; "))
		// same chunk
		acks := sitesWhere(ra, func(s ssa.CallInstruction) bool { return fieldCallOf(s, fAcked) })
		oa := c.callsTo(ra, anchorPred(mp+"OnAcknowledged"))
		if len(acks) == 1 && len(oa) == 1 {
			a1, a2 := strip(acks[0].Common().Args[0]), strip(oa[0].Common().Args[1])
			u1, ok1 := a1.(*ssa.UnOp)
			u2, ok2 := a2.(*ssa.UnOp)
			c.check(ok1 && ok2 && u1.X == u2.X, "C19.R4", ra, "acknowledged metric sees the confirmed chunk", oa[0].Pos(), "both read the same variable", "OnAcknowledged is given a different chunk than the callback")
		}
	} else {
		c.bad("C19.R4", ra, "OnAcknowledged exactly with the delivered callback", ra.Pos(), "expected one ReadChunkAck")
	}
	// leftover popped once per received leftover: resendLeftovers (ok path) and the final loop of run
	for _, a := range []string{aResend, aCWRun} {
		fn := c.P.Fn(a)
		pops := c.callsTo(fn, anchorPred(mp+"OnLeftoverPopped"))
		if len(pops) == 0 {
			// in a private helper of this function (not one that belongs to the other stage)
			for _, s := range c.sitesWhereR(fn, func(s ssa.CallInstruction) bool {
				f := s.Common().StaticCallee()
				return f != nil && isAnchor(f, mp+"OnLeftoverPopped")
			}) {
				if a == aCWRun && ownedBy(s.Parent(), aResend, aSessRun, aCWRunSess) {
					continue
				}
				pops = append(pops, s)
			}
			if len(pops) == 1 {
				fn = pops[0].Parent()
			}
		}
		var recv ssa.Instruction
		for _, op := range chanOps(fn) {
			if op.Kind != "recv" && op.Kind != "range" {
				continue
			}
			if ch, ok := op.Chan.Type().Underlying().(interface{ Elem() interface{} }); ok {
				_ = ch
			}
			if chunkHolderKind(op.Chan.Type()) == "chan" {
				recv = op.In
			}
		}
		if recv == nil || len(pops) != 1 {
			c.bad("C19.R4", fn, "OnLeftoverPopped once per leftover taken", fn.Pos(), fmt.Sprintf("expected one receive from a leftovers channel and one OnLeftoverPopped, found pops=%d", len(pops)))
			continue
		}
		lp := loopOf(fn, pops[0].Block())
		var start Point
		blocked := commaOkFalseEdges(recv)
		if sel, ok := recv.(*ssa.Select); ok {
			idx := -1
			for i, st := range sel.States {
				if chunkHolderKind(st.Chan.Type()) == "chan" {
					idx = i
				}
			}
			start = Point{selectCaseBlock(sel, idx), 0}
			blocked = edgeSet(boolEdges(resultOf(sel, 1), false))
		} else {
			start = after(recv)
		}
		q := &PathQ{P: c.P, Barrier: func(in ssa.Instruction) bool { return in == pops[0].(ssa.Instruction) }, EdgeBlocked: blocked}
		hit, _ := q.Reach(start, func(in ssa.Instruction) bool {
			return isReturn(in) || (lp != nil && in == lp.header.Instrs[0]) || isCallTo(in, c.P, anchorPred(aSendChunk)) || fieldCallOfInstr(in, "output/baseoutput.ClientWorker.onChunkLeft")
		})
		c.check(hit == nil, "C19.R4", fn, "OnLeftoverPopped once per leftover taken", pops[0].Pos(), "every received leftover passes OnLeftoverPopped before it is used", "a leftover is taken without decrementing the leftover gauge")
	}
	// session ended: once per collectLeftovers, operands are the lengths of the merged slices
	cl := c.P.Fn(aCollect)
	cs3 := &CountSpec{P: c.P, Classes: []string{"OnSessionEnded"}, Site: siteClass(c.P, map[string]int{mp + "OnSessionEnded": 0})}
	o3 := cs3.Enum(cl, entryOf(cl), nil)
	g3 := len(o3) > 0
	for _, o := range o3 {
		if o.Counts[0] != 1 {
			g3 = false
		}
	}
	c.check(g3, "C19.R4", cl, "OnSessionEnded once per collectLeftovers", cl.Pos(), fmt.Sprintf("all %d outcomes", len(o3)), "a path of collectLeftovers does not call OnSessionEnded exactly once")
	se := c.callsTo(cl, anchorPred(mp+"OnSessionEnded"))
	nlc := c.callsTo(cl, anchorPred(aNewLeftChan))
	if len(se) == 1 && len(nlc) == 1 {
		srcs := mergedSources(nlc[0].Common().Args[0])
		lenOps := func(v ssa.Value) []ssa.Value {
			var out []ssa.Value
			var walk func(v ssa.Value)
			walk = func(v ssa.Value) {
				v = strip(v)
				switch x := v.(type) {
				case *ssa.BinOp:
					walk(x.X)
					walk(x.Y)
				case *ssa.Call:
					if isBuiltin(x, "len") {
						out = append(out, x.Call.Args[0])
					}
				}
			}
			walk(v)
			return out
		}
		inMerge := func(v ssa.Value) bool {
			for _, s := range srcs {
				if sameValue(s, v) || strip(s) == strip(v) {
					return true
				}
			}
			return false
		}
		args := se[0].Common().Args
		ok0 := len(lenOps(args[1])) == 1 && inMerge(lenOps(args[1])[0])
		l1 := lenOps(args[2])
		ok1 := len(l1) == 2 && inMerge(l1[0]) && inMerge(l1[1]) && strip(l1[0]) != strip(l1[1])
		l2 := lenOps(args[3])
		ok2 := len(l2) == 1 && sameValue(l2[0], nlc[0].Common().Args[0])
		c.check(ok0 && ok1 && ok2, "C19.R4", cl, "OnSessionEnded operands are the lengths of the merged slices", se[0].Pos(),
			"(len(previous), len(ackerChan drain)+len(pending snapshot), len(merged))", "the gauges are adjusted by lengths that are not those of the slices actually merged")
	}
}

func fieldCallOfInstr(in ssa.Instruction, field string) bool {
	ci, ok := in.(ssa.CallInstruction)
	return ok && fieldCallOf(ci, field)
}

// ---- C19.R5 flush of batched counters

func ruleC19R5(c *Ctx) {
	os := c.P.Fn(aOnStop)
	sU := newSumm(c.P, anchorPred(aProcUpdate))
	sU.AllowEmptyGuards, sU.LoopsRunOnce = false, false
	c.mustBeforeReturn("C19.R5", os, entryOf(os), sU, "onStop flushes the process counters", "LogProcessCounterSet.UpdateMetrics", os.Pos(), nil)
	// the last chunk is counted before the counters are written: after every CountChunk that onStop (with its private
	// helpers) can reach, UpdateMetrics is passed before onStop returns
	nCC := 0
	reachesCount := func(s ssa.CallInstruction) bool {
		f := s.Common().StaticCallee()
		if f == nil {
			return false
		}
		if isAnchor(f, aCountChunk) {
			return true
		}
		if !c.P.inUni[f] || f.Blocks == nil {
			return false
		}
		for g := range c.P.reachableFrom([]*ssa.Function{f}, func(x *ssa.Function) bool { return !c.P.inUni[x] }) {
			if isAnchor(g, aCountChunk) {
				return true
			}
		}
		return false
	}
	sUpd := newSumm(c.P, anchorPred(aProcUpdate))
	sUpd.AllowEmptyGuards, sUpd.LoopsRunOnce = false, false
	// in f, after every call that can count a chunk, UpdateMetrics is passed before f returns — directly, through a call
	// that must reach it, or inside the counting callee itself (judged the same way)
	var afterCount func(f *ssa.Function, depth int) (bool, ssa.Instruction, []*ssa.BasicBlock)
	afterCount = func(f *ssa.Function, depth int) (bool, ssa.Instruction, []*ssa.BasicBlock) {
		for _, s := range sitesWhere(f, reachesCount) {
			if f == os {
				nCC++
			}
			if g := s.Common().StaticCallee(); g != nil && !isAnchor(g, aCountChunk) && sUpd.siteMust(s, nil, 0) && depth < 3 {
				if ok, _, _ := afterCount(g, depth+1); ok {
					continue // counted and written inside the callee, in that order
				}
			}
			q := &PathQ{P: c.P, Barrier: func(in ssa.Instruction) bool {
				ci, isCall := in.(ssa.CallInstruction)
				return isCall && in != s.(ssa.Instruction) && sUpd.siteMust(ci, nil, 0)
			}}
			if hit, tr := q.Reach(after(s), isReturn); hit != nil {
				return false, s.(ssa.Instruction), tr
			}
		}
		return true, nil, nil
	}
	okAC, at, tr := afterCount(os, 0)
	pos := os.Pos()
	if at != nil {
		pos = at.Pos()
	}
	c.check(okAC, "C19.R5", os, "last CountChunk before UpdateMetrics", pos, "after a chunk is counted on the stop path UpdateMetrics is passed before the function that counted returns",
		"the stop path can count a chunk without writing the counters afterwards: "+c.P.trailString(tr))
	c.floor("C19.R5", "CountChunk sites reachable in onStop", nCC, 1)
	for _, a := range []string{aSinkFlush, aSinkClose} {
		fn := c.P.Fn(a)
		sI := newSumm(c.P, anchorPred(aInputUpdate))
		sI.AllowEmptyGuards, sI.LoopsRunOnce = false, false
		c.mustBeforeReturn("C19.R5", fn, entryOf(fn), sI, "sink flushes the input counters", "LogInputCounterSet.UpdateMetrics", fn.Pos(), nil)
	}
	// UpdateMetrics of the process counter set flushes every per-key-set input counter and custom counter
	pu := c.P.Fn(aProcUpdate)
	sAll := newSumm(c.P, anchorPred(aInputUpdate))
	c.mustBeforeReturn("C19.R5", pu, entryOf(pu), sAll, "process UpdateMetrics flushes every key set's counters", "LogInputCounterSet.UpdateMetrics for each key set", pu.Pos(), nil)
	// UpdateMetric writes and resets
	um := c.P.Fn("base.(*valueCounterProvider).UpdateMetric")
	add := sitesWhere(um, func(s ssa.CallInstruction) bool { return s.Common().IsInvoke() && s.Common().Method.Name() == "Add" })
	st := storesToField(um, "base.valueCounterProvider.unwrittenValue")
	okU := len(add) == 1 && len(st) == 1 && fieldOf(add[0].Common().Args[0]) == "base.valueCounterProvider.unwrittenValue"
	c.check(okU, "C19.R5", um, "UpdateMetric adds the unwritten value then resets it", um.Pos(), "metric.Add(unwrittenValue); unwrittenValue = 0", "UpdateMetric does not add exactly the unwritten value")
	if okU {
		c.checkOrder("C19.R5", um, "metric.Add(unwrittenValue)", callInstrSet(add), "reset of unwrittenValue", instrSet(st))
	}
}

// ---- C19.R6 attribution

func ruleC19R6(c *Ctx) {
	fn := c.P.Fn(aOnInputW)
	sel := c.callsTo(fn, anchorPred(aSelectKeySet))
	rt := c.callsTo(fn, anchorPred(aRunTransf))
	if len(sel) != 1 || len(rt) != 1 {
		c.bad("C19.R6", fn, "metric key set selected before transforms", fn.Pos(), "expected one SelectMetricKeySet and one RunTransforms")
		return
	}
	lp := loopOf(fn, rt[0].Block())
	ok := lp != nil
	if ok {
		q := &PathQ{P: c.P, Barrier: func(in ssa.Instruction) bool { return in == sel[0].(ssa.Instruction) }}
		hit, _ := q.Reach(Point{lp.header, 0}, func(in ssa.Instruction) bool { return in == rt[0].(ssa.Instruction) })
		ok = hit == nil
	}
	sameRec := ok && sel[0].Common().Args[1] == rt[0].Common().Args[0]
	c.check(ok && sameRec, "C19.R6", fn, "metric key set selected (for the same record) before transforms", sel[0].Pos(),
		"within an iteration SelectMetricKeySet(record) precedes RunTransforms(record)", "transforms can count into the key set of the previous record")
	// pass/drop are counted on the counter returned by the selection
	for _, s := range c.callsTo(fn, func(f *ssa.Function) bool { return isAnchor(f, aCountPass, aCountDrop) }) {
		c.check(s.Common().Args[0] == sel[0].Value(), "C19.R6", fn, "pass/drop counted on the selected key set's counter", s.Pos(), "receiver is SelectMetricKeySet's result", "pass/drop are counted on a counter that was not selected for this record")
	}
}

func init() {
	register("F6DUMP", "dump", func(c *Ctx) {
		var fns []*ssa.Function
		sel := os.Getenv("SLOGCHECK_F6SEL")
		for _, fn := range c.P.universe {
			if sel == "" || strings.Contains(anchorName(fn), sel) {
				fns = append(fns, fn)
			}
		}
		dumpF6(c, fns)
	})
}

// R8: a key set's batched counters are flushed together, and never discarded unflushed. logKeySetCounterPair holds every
// batched counter of one metric key set (enumerated from the struct type). The reference flush, LogProcessCounterSet.
// UpdateMetrics, flushes all of them; any other function that flushes one member of a pair must flush every member
// (siblings must agree), and a function that removes pairs from keySetPairs (delete, clear, re-make) must contain such a
// complete flush.
func init() {
	register("C19", "C19.R8", ruleC19R8)
}

func ruleC19R8(c *Ctx) {
	pairObj := c.P.pkgByRel["base"].Types.Scope().Lookup("logKeySetCounterPair")
	if pairObj == nil {
		broken("C19.R8: type base.logKeySetCounterPair not found")
	}
	st, ok := pairObj.Type().Underlying().(*types.Struct)
	if !ok {
		broken("C19.R8: base.logKeySetCounterPair is not a struct")
	}
	var members []string
	for i := 0; i < st.NumFields(); i++ {
		members = append(members, st.Field(i).Name())
	}
	c.floor("C19.R8", "members of logKeySetCounterPair", len(members), 2)
	const fPairs = "base.LogProcessCounterSet.keySetPairs"
	nFlushers := 0
	for _, fn := range c.P.universe {
		if relPkg(fnPkgPath(fn)) != "base" {
			continue
		}
		flushed := map[string]ssa.Instruction{}
		wholeSet := false
		for _, s := range callsIn(fn) {
			f := s.Common().StaticCallee()
			if f == nil || !(f.Name() == "UpdateMetrics" || f.Name() == "UpdateMetric") || len(s.Common().Args) == 0 {
				continue
			}
			if isAnchor(f, aProcUpdate) {
				wholeSet = true
				continue
			}
			recv := s.Common().Args[0]
			mentions(recv, func(v ssa.Value) bool {
				switch x := v.(type) {
				case *ssa.Field:
					if typeName(x.X.Type()) == "base.logKeySetCounterPair" {
						flushed[st.Field(x.Field).Name()] = s
					}
				case *ssa.FieldAddr:
					if typeName(x.X.Type()) == "base.logKeySetCounterPair" {
						flushed[st.Field(x.Field).Name()] = s
					}
				}
				return false
			})
		}
		removes := []ssa.Instruction{}
		eachInstr(fn, func(in ssa.Instruction) {
			switch x := in.(type) {
			case *ssa.Call:
				if (isBuiltin(x, "delete") || isBuiltin(x, "clear")) && fieldOf(x.Call.Args[0]) == fPairs {
					removes = append(removes, in)
				}
			case *ssa.Store:
				if fa, ok := strip(x.Addr).(*ssa.FieldAddr); ok && fieldName(fa.X.Type(), fa.Field) == fPairs {
					if _, isAlloc := fa.X.(*ssa.Alloc); !isAlloc {
						removes = append(removes, in) // the map is replaced outside a constructor
					}
				}
			}
		})
		if len(flushed) == 0 && len(removes) == 0 {
			continue
		}
		complete := wholeSet || len(flushed) == len(members)
		var missing []string
		for _, m := range members {
			if flushed[m] == nil {
				missing = append(missing, m)
			}
		}
		if len(flushed) > 0 {
			nFlushers++
			var pos ssa.Instruction
			for _, in := range flushed {
				pos = in
			}
			c.check(complete, "C19.R8", fn, "a flush of a key set's counters covers every member of the pair", pos.Pos(),
				fmt.Sprintf("all %d members (%v) are flushed", len(members), members),
				fmt.Sprintf("the pair is flushed only in part: %v not flushed here although the reference flush (LogProcessCounterSet.UpdateMetrics) flushes every member — counts batched in the others are left behind", missing))
		}
		for _, r := range removes {
			c.check(complete, "C19.R8", fn, "key sets are removed only after a complete flush", r.Pos(),
				"the function flushes every member of the pairs it removes",
				fmt.Sprintf("pairs are removed from keySetPairs without a complete flush (%v not flushed): the counts batched since the last tick are lost, the totals never balance again", missing))
		}
	}
	c.floor("C19.R8", "functions flushing members of a key-set pair", nFlushers, 1)
}

// C09.R5: the record carries exactly the facility and the mapped level of its PRI (RFC 5424 6.2.1: PRI = facility * 8 +
// severity). The value stored through fieldFacilityLocator is FacilityNames[p >> 3], the value stored through
// fieldLevelLocator is levelMapping[p & 7] (not p / 8 and p % 8: for a negative PRI text "-5" these give facility 0 and
// index -5, where the shift gives -1 and is rejected), and p is in both cases the strconv.Atoi result of this record's PRI
// text — not a cached, defaulted or otherwise derived number. The two protocol constants are the rule; where the number
// comes from is provenance.
func init() {
	register("C09", "C09.R5", ruleC09R5)
}

func ruleC09R5(c *Ctx) {
	fn := c.P.Fn(aParse)
	type want struct {
		locField, table, what string
		ops                   map[token.Token]int64
	}
	wants := []want{
		{"input/syslogparser.syslogParser.fieldFacilityLocator", "FacilityNames", "facility", map[token.Token]int64{token.SHR: 3}},
		{"input/syslogparser.syslogParser.fieldLevelLocator", "levelMapping", "level", map[token.Token]int64{token.AND: 7}},
	}
	var atois []ssa.Value
	for _, w := range wants {
		n := 0
		for _, s := range c.callsTo(fn, anchorPred(aLocSet)) {
			if fieldOf(s.Common().Args[0]) != w.locField {
				continue
			}
			n++
			val := strip(s.Common().Args[2])
			ok, why := false, "the stored value is not an element of "+w.table
			if u, isU := val.(*ssa.UnOp); isU && u.Op == token.MUL {
				if ia, isIA := strip(u.X).(*ssa.IndexAddr); isIA && strings.Contains(canonOf(ia.X), w.table) {
					why = "the index is not the " + w.what + " part of the parsed PRI: " + canonOf(ia.Index)
					if bo, isB := strip(ia.Index).(*ssa.BinOp); isB {
						if k, isK := constInt(bo.Y); isK && w.ops[bo.Op] == k && k != 0 {
							if ex, isE := strip(bo.X).(*ssa.Extract); isE && ex.Index == 0 {
								if cl, isC := ex.Tuple.(*ssa.Call); isC && cl.Common().StaticCallee() != nil && extName(cl.Common().StaticCallee()) == "strconv.Atoi" {
									ok = true
									atois = append(atois, cl)
								} else {
									why = "the number decomposed is not the strconv.Atoi result of the PRI text"
								}
							} else {
								why = "the number decomposed is not the strconv.Atoi result of the PRI text (" + canonOf(bo.X) + "): a cached or merged value can belong to another record"
							}
						}
					}
				}
			}
			c.check(ok, "C09.R5", fn, "the "+w.what+" stored is that of this record's PRI", s.Pos(),
				w.table+"[Atoi(pri) "+opsStr(w.ops)+"]", why)
		}
		if n == 0 {
			c.bad("C09.R5", fn, "the "+w.what+" stored is that of this record's PRI", fn.Pos(), "no store through "+w.locField+" found in Parse")
		}
	}
	if len(atois) == 2 {
		c.check(atois[0] == atois[1], "C09.R5", fn, "facility and level come from one parsed number", fn.Pos(), "the same strconv.Atoi call feeds both", "facility and level are decomposed from two different numbers")
	}
}

func opsStr(m map[token.Token]int64) string {
	var l []string
	for op, k := range m {
		l = append(l, fmt.Sprintf("%s %d", op, k))
	}
	sort.Strings(l)
	return strings.Join(l, " or ")
}

// C19.R9 (= C09.R6): every message is counted exactly once across the whole input stage. compositeParser.Parse wraps the
// syslog parser (which counts pass or drop, C09.R1) and the extraction transforms; enumerating its paths *through* the
// inner parser, every outcome counts exactly one of {CountRecordPass, CountRecordDrop}. That the count of a record dropped
// by an extraction is "pass" rather than "drop" is the known finding C19.R7; counting it a second time as dropped — the
// obvious repair of that TODO — breaks "counted exactly once" and is reported here.
func init() {
	register("C19", "C19.R9", ruleC19R9)
	register("C09", "C19.R9", ruleC19R9)
}

func ruleC19R9(c *Ctx) {
	fn := c.P.Fn(aCompParse)
	inner := c.P.Fn(aParse)
	cs := &CountSpec{P: c.P, Classes: []string{"CountRecordPass", "CountRecordDrop"},
		Descend: func(f *ssa.Function) bool {
			n := anchorName(f)
			return f == inner || n == aOnMalformed || n == aOnOverflow
		},
		Site: func(s ssa.CallInstruction) int {
			// the inner parser is called through the LogParser interface: resolve it
			for _, cal := range c.P.callees(s) {
				switch {
				case isAnchor(cal, aCountPass):
					return 0
				case isAnchor(cal, aCountDrop):
					return 1
				}
			}
			return -1
		}}
	// calls through the interface are not descended by the enumerator: splice the inner parser's outcomes in by hand
	innerOuts := cs.Enum(inner, entryOf(inner), nil)
	if len(innerOuts) == 0 {
		broken("C19.R9: no path outcomes of syslogParser.Parse")
	}
	var innerCall ssa.CallInstruction
	for _, s := range callsIn(fn) {
		if s.Common().IsInvoke() && s.Common().Method.Name() == "Parse" {
			innerCall = s
		}
	}
	if innerCall == nil {
		broken("C19.R9: compositeParser.Parse no longer calls the wrapped parser")
	}
	outerOuts := cs.Enum(fn, after(innerCall), nil)
	good := len(outerOuts) > 0
	var why []string
	n := 0
	for _, io := range innerOuts {
		for _, oo := range outerOuts {
			// a nil record from the inner parser (dropped there) takes the early-return path of the wrapper only
			if io.Ret == "nil" && (oo.Counts[0]+oo.Counts[1] > 0) {
				continue // infeasible pairing: nothing of the wrapper's own counting runs for a record the parser dropped
			}
			n++
			pass, drop := io.Counts[0]+oo.Counts[0], io.Counts[1]+oo.Counts[1]
			if pass+drop != 1 {
				good = false
				why = append(why, fmt.Sprintf("parser path {%s} then wrapper path {%s}: pass=%d drop=%d", cs.describe(io), cs.describe(oo), pass, drop))
			}
		}
	}
	if len(why) > 3 {
		why = why[:3]
	}
	c.check(good, "C19.R9", fn, "every message is counted exactly once across the input stage", innerCall.Pos(),
		fmt.Sprintf("%d combinations of parser and wrapper paths: exactly one of pass / drop each", n),
		"a message is counted more than once (or not at all) on its way through the parser and the extraction transforms — e.g. counted as passed by the parser and again as dropped by the wrapper: passed + dropped no longer equals the number of messages: "+strings.Join(why, "; "))
}

// ---- C09.R6 (added after seed c09f): the record's private copy is the whole line. Cutting a message is the parser's
// business: it cuts the *message* at InputLogMaxMessageBytes, counts the overflow and warns (R2). A clip of the raw line on
// its way to the parser — in the allocator, "the rest would be cut anyway" — shortens the message by however much the
// header exceeds its allowance, silently: nothing is counted, and a message within the limit loses its tail. So in
// LogAllocator.NewRecord (and its private helpers) the input parameter is never re-sliced.
func init() {
	register("C09", "C09.R6", ruleC09R6)
}

func ruleC09R6(c *Ctx) {
	fn := c.P.Fn("base.(*LogAllocator).NewRecord")
	input := ssa.Value(fn.Params[1])
	n := 0
	var bad ssa.Instruction
	fromInput := func(v ssa.Value) bool {
		seen := map[ssa.Value]bool{}
		var w func(v ssa.Value, d int) bool
		w = func(v ssa.Value, d int) bool {
			v = strip(v)
			if v == input {
				return true
			}
			if seen[v] || d > 6 {
				return false
			}
			seen[v] = true
			switch x := v.(type) {
			case *ssa.Phi:
				for _, e := range x.Edges {
					if w(e, d+1) {
						return true
					}
				}
			case *ssa.Slice:
				return w(x.X, d+1)
			}
			return false
		}
		return w(v, 0)
	}
	c.eachInstrR(fn, func(in ssa.Instruction) {
		switch x := in.(type) {
		case *ssa.Slice:
			if fromInput(x.X) && (x.High != nil || x.Low != nil) && bad == nil {
				bad = in
			}
		case *ssa.Call:
			if isBuiltin(x, "copy") && len(x.Call.Args) == 2 && fromInput(x.Call.Args[1]) {
				n++
			}
			if f := x.Common().StaticCallee(); f != nil && anchorOrExt(f) == "util.DeepCopyStringFromBytes" && fromInput(x.Common().Args[0]) {
				n++
			}
		}
	})
	pos := fn.Pos()
	if bad != nil {
		pos = bad.Pos()
	}
	c.check(bad == nil, "C09.R6", fn, "the record's private copy is the whole input line", pos,
		"the input parameter is copied as it is, never re-sliced",
		"the raw line is clipped before the parser sees it: the parser then finds less message than was sent — a message within the limit loses its tail, an over-long one is cut below the limit, and neither is counted as overflow")
	c.floor("C09.R6", "copies of the input line in NewRecord", n, 1)
}

// ---- C09.R7 (added after seed c09g): the tokenizer consumes exactly the delimiter. Where the header is split at the index
// of a space (strings.IndexByte), the token is x[:i] and the remainder x[j:], the engine must prove j = i + 1: every byte
// of the line is part of a token or is the one delimiter between two tokens. "A run of spaces is one delimiter" eats the
// leading spaces of the message, which is the last "token". strings.Cut with a one-byte separator is the same by
// definition of the library (delegated).
func init() {
	register("C09", "C09.R7", ruleC09R7)
}

func ruleC09R7(c *Ctx) {
	pr := newProver(c)
	n := 0
	for _, fn := range c.P.universe {
		if relPkg(fnPkgPath(fn)) != "input/syslogparser" {
			continue
		}
		for _, site := range callsIn(fn) {
			f := site.Common().StaticCallee()
			if f == nil {
				continue
			}
			switch extName(f) {
			case "strings.Cut", "bytes.Cut":
				if k, ok := site.Common().Args[1].(*ssa.Const); ok && k.Value != nil && len(constant.StringVal(k.Value)) == 1 {
					n++
					c.ok("C09.R7", fn, "token split by strings.Cut with a one-byte separator", site.Pos(), "delegated to the library: before, separator, after")
				}
				continue
			case "strings.IndexByte", "bytes.IndexByte":
			default:
				continue
			}
			idx, ok := site.(*ssa.Call)
			if !ok {
				continue
			}
			x := strip(site.Common().Args[0])
			var heads, tails []*ssa.Slice
			eachInstr(fn, func(in ssa.Instruction) {
				sl, ok := in.(*ssa.Slice)
				if !ok || strip(sl.X) != x {
					return
				}
				uses := func(v ssa.Value) bool {
					return v != nil && mentions(v, func(y ssa.Value) bool { return y == ssa.Value(idx) })
				}
				if sl.High != nil && uses(sl.High) && (sl.Low == nil || !uses(sl.Low)) {
					heads = append(heads, sl)
				}
				if sl.Low != nil && uses(sl.Low) && sl.High == nil {
					tails = append(tails, sl)
				}
			})
			for _, h := range heads {
				for _, t := range tails {
					n++
					okEq := pr.prove(fn, t, valT(t.Low), valT(h.High), 1, nil) && pr.prove(fn, t, valT(h.High), valT(t.Low), -1, nil)
					c.check(okEq, "C09.R7", fn, "the remainder starts one byte after the token: "+canonOf(h)+" / "+canonOf(t), t.Pos(),
						"proved: low bound of the remainder = high bound of the token + 1",
						"the remainder "+canonOf(t)+" is not shown to start exactly one byte after the token "+canonOf(h)+": bytes of the line between two tokens are dropped (or kept twice) — the message, which is the last remainder, loses its leading spaces")
				}
			}
		}
	}
	c.floor("C09.R7", "token splits at a delimiter index", n, 1)
}

// ---- C15.R9 (= C09.R8, added after seed c15e): the UTF-8 cleaner is delegated. Whether a byte sequence is valid UTF-8 is
// value-level; the claims of C15.R3 and C09.R2 ("what is cut passes through the cleaner") rest on util.CleanUTF8 handing
// the part it does not keep as it is to the library (strings.ToValidUTF8 / bytes.ToValidUTF8). A cleaner that decides
// lead and continuation bytes itself fails as UNDECIDED — also a correct one.
func init() {
	register("C15", "C15.R9", ruleCleanerDelegated)
	register("C09", "C15.R9", ruleCleanerDelegated)
}

func ruleCleanerDelegated(c *Ctx) {
	fn := c.P.Fn("util.CleanUTF8")
	param := ssa.Value(fn.Params[0])
	isLib := func(v ssa.Value) bool {
		cl, ok := v.(*ssa.Call)
		if !ok || cl.Common().StaticCallee() == nil {
			return false
		}
		switch extName(cl.Common().StaticCallee()) {
		case "strings.ToValidUTF8", "bytes.ToValidUTF8":
			return c.mentionsR(fn, cl.Common().Args[0], func(y ssa.Value) bool { return y == param }, 0)
		}
		return false
	}
	n := 0
	for _, rv := range returnedValues(fn, 0) {
		n++
		if c.mentionsR(fn, rv.Val, isLib, 0) {
			c.ok("C15.R9", fn, "the cleaned bytes come from the library's ToValidUTF8", rv.At.Pos(), "the returned value derives from strings/bytes.ToValidUTF8 applied to (a part of) the input")
			continue
		}
		// the input itself, only when it is empty
		okEmpty := false
		if strip(rv.Val) == param {
			for b, si := range emptinessGuardEdges(fn, map[ssa.Value]bool{param: true}) {
				if c.onlyViaEdge(fn, rv.At, b, si) {
					okEmpty = true
				}
			}
		}
		c.check(okEmpty, "C15.R9", fn, "the cleaned bytes come from the library's ToValidUTF8", rv.At.Pos(), "the empty input is returned as it is",
			"UNDECIDED (counts as failure): CleanUTF8 returns bytes that did not pass strings/bytes.ToValidUTF8 — which bytes form a complete UTF-8 sequence is decided by the module itself, and this family does not decide that; the clauses 'a cut value is cleaned' (C15.R3, C09.R2) rested on the delegation")
	}
	c.floor("C15.R9", "returns of CleanUTF8", n, 1)
}
