package main

// Linear integer facts and a Fourier-Motzkin refutation procedure for the F6 facts engine.
//
// A fact is  sum(coef_i * term_i) <= c  over terms (SSA integer values and len(value)).
// implies() shows  a - b <= c  by adding the negation  b - a <= -c-1  to the facts that are
// connected to the goal and eliminating every variable: an empty combination with a negative
// constant is a contradiction (rational infeasibility implies integer infeasibility; after
// each combination the constraint is divided by the gcd of its coefficients and its constant
// rounded down, which is valid over the integers). Giving up (size cap, coefficient overflow)
// answers "not implied", never "implied".

import (
	"fmt"
	"sort"
	"strconv"
	"strings"
)

type lin struct {
	t map[term]int64
	c int64
}

func newLin(c int64) lin { return lin{t: map[term]int64{}, c: c} }

func (l lin) add(t term, k int64) {
	if t.v == nil || k == 0 {
		return // the constant zero
	}
	if !t.isLn {
		if kv, ok := constInt(t.v); ok {
			// integer constants are folded into the bound (l is shared by value: the map is, the constant is not)
			panic(fmt.Sprintf("constant term %d not folded", kv))
		}
	}
	l.t[t] += k
	if l.t[t] == 0 {
		delete(l.t, t)
	}
}

func diffLin(a, b term, c int64) lin {
	l := newLin(c)
	l.addF(a, 1)
	l.addF(b, -1)
	return l
}

// addF adds k*t folding integer constants into the bound
func (l *lin) addF(t term, k int64) {
	if t.v != nil && !t.isLn {
		if kv, ok := constInt(t.v); ok {
			l.c -= k * kv
			return
		}
	}
	l.add(t, k)
}

type linRow struct {
	k []int64 // coefficient per variable index
	c int64
}

func gcd64(a, b int64) int64 {
	if a < 0 {
		a = -a
	}
	if b < 0 {
		b = -b
	}
	for b != 0 {
		a, b = b, a%b
	}
	return a
}

func floorDiv(a, b int64) int64 {
	q := a / b
	if (a%b != 0) && ((a < 0) != (b < 0)) {
		q--
	}
	return q
}

func (r *linRow) normalize() {
	var g int64
	for _, k := range r.k {
		if k != 0 {
			g = gcd64(g, k)
		}
	}
	if g > 1 {
		for i := range r.k {
			r.k[i] /= g
		}
		r.c = floorDiv(r.c, g)
	}
}

func (r *linRow) key() string {
	var sb strings.Builder
	for i, k := range r.k {
		if k != 0 {
			sb.WriteString(strconv.Itoa(i))
			sb.WriteByte(':')
			sb.WriteString(strconv.FormatInt(k, 10))
			sb.WriteByte(',')
		}
	}
	return sb.String()
}

const linMaxRows = 4000
const linBig = int64(1) << 40

// infeasible: true when the rows have no rational solution
func infeasible(rows []linRow, nvars int) bool {
	// dedupe keeping the tightest constant per coefficient vector
	dedupe := func(rs []linRow) []linRow {
		best := make(map[uint64][]int, len(rs))
		out := rs[:0:0]
		for _, r := range rs {
			h := uint64(1469598103934665603)
			for i, k := range r.k {
				if k != 0 {
					h = (h ^ uint64(i+1)) * 1099511628211
					h = (h ^ uint64(k)) * 1099511628211
				}
			}
			found := -1
			for _, j := range best[h] {
				same := true
				for i, k := range r.k {
					if out[j].k[i] != k {
						same = false
						break
					}
				}
				if same {
					found = j
					break
				}
			}
			if found >= 0 {
				if r.c < out[found].c {
					out[found].c = r.c
				}
				continue
			}
			best[h] = append(best[h], len(out))
			out = append(out, r)
		}
		return out
	}
	rows = dedupe(rows)
	alive := make([]bool, nvars)
	for i := range alive {
		alive[i] = true
	}
	for {
		// contradiction?
		for _, r := range rows {
			zero := true
			for _, k := range r.k {
				if k != 0 {
					zero = false
					break
				}
			}
			if zero && r.c < 0 {
				return true
			}
		}
		// choose the variable with the cheapest elimination
		bestV, bestCost := -1, int64(0)
		for v := 0; v < nvars; v++ {
			if !alive[v] {
				continue
			}
			var pos, neg int64
			for _, r := range rows {
				if r.k[v] > 0 {
					pos++
				} else if r.k[v] < 0 {
					neg++
				}
			}
			if pos == 0 && neg == 0 {
				alive[v] = false
				continue
			}
			cost := pos*neg - pos - neg
			if bestV == -1 || cost < bestCost {
				bestV, bestCost = v, cost
			}
		}
		if bestV == -1 {
			return false
		}
		v := bestV
		alive[v] = false
		var pos, neg, rest []linRow
		for _, r := range rows {
			switch {
			case r.k[v] > 0:
				pos = append(pos, r)
			case r.k[v] < 0:
				neg = append(neg, r)
			default:
				rest = append(rest, r)
			}
		}
		for _, p := range pos {
			for _, n := range neg {
				// (-n.k[v]) * p + p.k[v] * n
				mp, mn := -n.k[v], p.k[v]
				g := gcd64(mp, mn)
				mp, mn = mp/g, mn/g
				nr := linRow{k: make([]int64, nvars)}
				ok := true
				for i := 0; i < nvars; i++ {
					x := mp*p.k[i] + mn*n.k[i]
					if x > linBig || x < -linBig {
						ok = false
						break
					}
					nr.k[i] = x
				}
				nr.c = mp*p.c + mn*n.c
				if !ok || nr.c > linBig*1024 || nr.c < -linBig*1024 {
					continue // dropping a derived row only weakens the system
				}
				nr.normalize()
				rest = append(rest, nr)
			}
		}
		rows = dedupe(rest)
		if len(rows) > linMaxRows {
			return false
		}
	}
}

// implies: do the facts imply a - b <= c ?
func implies(s *factSet, a, b term, c int64) bool {
	return impliesLin(s, diffLin(a, b, c))
}

func impliesLin(s *factSet, goal lin) bool {
	if len(goal.t) == 0 {
		return 0 <= goal.c
	}
	// facts connected to the goal through shared terms
	facts := s.fs
	used := make([]bool, len(facts))
	rel := map[term]bool{}
	for t := range goal.t {
		rel[t] = true
	}
	for changed := true; changed; {
		changed = false
		for i, f := range facts {
			if used[i] {
				continue
			}
			hit := false
			for t := range f.t {
				if rel[t] {
					hit = true
					break
				}
			}
			if hit || len(f.t) == 0 {
				used[i] = true
				changed = true
				for t := range f.t {
					rel[t] = true
				}
			}
		}
	}
	// variable numbering (deterministic)
	var terms []term
	for t := range rel {
		terms = append(terms, t)
	}
	sort.Slice(terms, func(i, j int) bool { return termKey(terms[i]) < termKey(terms[j]) })
	idx := map[term]int{}
	for i, t := range terms {
		idx[t] = i
	}
	n := len(terms)
	mk := func(l lin) linRow {
		r := linRow{k: make([]int64, n), c: l.c}
		for t, k := range l.t {
			r.k[idx[t]] = k
		}
		return r
	}
	var base []linRow
	for i, f := range facts {
		if used[i] {
			base = append(base, mk(f))
		}
	}
	refute := func(extra ...linRow) bool {
		rows := make([]linRow, 0, len(base)+len(extra))
		for _, r := range base {
			rows = append(rows, linRow{k: append([]int64{}, r.k...), c: r.c})
		}
		rows = append(rows, extra...)
		return infeasible(rows, n)
	}
	negate := func(l lin) linRow {
		r := linRow{k: make([]int64, n), c: -l.c - 1}
		for t, k := range l.t {
			r.k[idx[t]] = -k
		}
		return r
	}
	if refute(negate(goal)) {
		if refute() {
			// the facts themselves are contradictory: the point is unreachable (or a fact is wrong). The goal
			// holds vacuously; the event is counted so that it shows up in the evidence
			vacuousProofs++
		}
		return true
	}
	// sharpen with disequalities x - y != m: if x - y >= m is implied then x - y >= m+1 (and symmetrically)
	added := false
	for _, q := range s.neq {
		if dl := diffLin(q.a, q.b, 0); len(dl.t) == 0 || !allIn(dl, rel) {
			continue
		}
		lower := diffLin(q.b, q.a, -q.c) // b - a <= -m   i.e.  a - b >= m
		upper := diffLin(q.a, q.b, q.c)  // a - b <= m
		if refute(negate(lower)) {
			l := diffLin(q.b, q.a, -q.c-1)
			base = append(base, mk(l))
			added = true
		} else if refute(negate(upper)) {
			l := diffLin(q.a, q.b, q.c-1)
			base = append(base, mk(l))
			added = true
		}
	}
	if added {
		return refute(negate(goal))
	}
	return false
}

var termKeys = map[term]string{}

// termKey: a deterministic ordering key of a term
func termKey(t term) string {
	if k, ok := termKeys[t]; ok {
		return k
	}
	k := ""
	if t.v != nil {
		if f := t.v.Parent(); f != nil {
			k = f.String() + "/"
		}
		k += t.v.Name() + "/" + t.v.String()
	}
	if t.isLn {
		k += "/len"
	}
	termKeys[t] = k
	return k
}

func allIn(l lin, rel map[term]bool) bool {
	for t := range l.t {
		if !rel[t] {
			return false
		}
	}
	return true
}

var vacuousProofs int
