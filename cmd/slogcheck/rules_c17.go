package main

// C17 Configuration reload is safe at any moment: lock discipline, reload
// order and failure path, loader swap authority, close-before-release of the
// client slot.

import (
	"fmt"
	"go/token"
	"os"
	"sort"
	"strings"

	"golang.org/x/tools/go/ssa"
)

const (
	aReload      = "run.(*ReloadableOrchestrator).reload"
	aRNewSink    = "run.(*ReloadableOrchestrator).NewSink"
	aRShutdown   = "run.(*ReloadableOrchestrator).Shutdown"
	aNewReloadO  = "run.NewReloadableOrchestrator"
	aInitReload  = "run.(*Reloader).initiateDownstreamReload"
	aNewReloader = "run.NewReloaderFromConfigFile"
	aNewLoaderCF = "run.NewLoaderFromConfigFile"
	aCheckCompat = "run.checkConfigCompatibility"
	fDownstream  = "run.ReloadableOrchestrator.downstream"
	fDSinks      = "run.ReloadableOrchestrator.downstreamSinks"
	fDAddrs      = "run.ReloadableOrchestrator.downstreamAddrs"
	fDPtr        = "run.ReloadableSink.downstreamPtr"
)

func init() {
	for i, r := range []ruleFn{ruleC17R1, ruleC17R2, ruleC17R3, ruleC17R4, ruleC17R5} {
		register("C17", fmt.Sprintf("C17.R%d", i+1), r)
	}
	propExplanation["C17"] = "Decides lock discipline and ordering, not interleavings: every access to the reloadable orchestrator's downstream / sink slots / addresses (and every dereference of a sink's slot pointer) happens with the RB-mutex held, writes of downstream with the write lock (R1, forward must-dataflow of the lock state); " +
		"reload parses and checks the new configuration before taking the lock, its failure path only logs and counts, and under the lock closes sinks → shuts down → renews → re-creates sinks on the new orchestrator (R2); " +
		"the loader is swapped only inside the completion closure, which is returned only when parsing and the compatibility check succeeded (R3); a connection's sink is closed before the socket descriptor (its slot index) is released (R4); " +
		"slots are written only by NewSink, reload and ReloadableSink.Close (R5). This is lock discipline and ordering, not a linearizability argument."
	propAssumptions["C17"] = []string{"client numbers (socket descriptors) are unique among open sinks as long as the sink is closed before the descriptor", "xsync.RBMutex is a correct reader/writer lock"}
}

func rbLockClass(s ssa.CallInstruction) lockKind {
	f := s.Common().StaticCallee()
	if f == nil {
		return lockNone
	}
	switch extName(f) {
	case "(*github.com/puzpuzpuz/xsync.RBMutex).Lock":
		return lockAcquireW
	case "(*github.com/puzpuzpuz/xsync.RBMutex).RLock":
		return lockAcquireR
	case "(*github.com/puzpuzpuz/xsync.RBMutex).Unlock", "(*github.com/puzpuzpuz/xsync.RBMutex).RUnlock":
		return lockRelease
	}
	return lockNone
}

func ruleC17R1(c *Ctx) {
	n := 0
	for _, fn := range c.P.universe {
		if !strings.HasPrefix(fnPkgPath(fn), modPath+"/run") {
			continue
		}
		var states map[ssa.Instruction]int
		get := func() map[ssa.Instruction]int {
			if states == nil {
				states = c.lockStatesR(fn, rbLockClass)
			}
			return states
		}
		for _, fld := range []string{fDownstream, fDSinks, fDAddrs} {
			for _, in := range fieldAccesses(fn, fld) {
				if anchorName(fn) == aNewReloadO {
					continue // constructor: the object is not shared yet
				}
				n++
				need := 1
				what := "read"
				if fa, ok := in.(*ssa.FieldAddr); ok && fld == fDownstream {
					for _, ref := range *fa.Referrers() {
						if st, ok := ref.(*ssa.Store); ok && st.Addr == fa {
							need, what = 2, "write"
						}
					}
				}
				st := get()[in]
				short := fld[strings.LastIndex(fld, ".")+1:]
				c.check(st >= need, "C17.R1", fn, fmt.Sprintf("%s of %s under downstreamMutex", what, short), in.Pos(),
					fmt.Sprintf("lock state %d ≥ %d on every path to the access", st, need),
					fmt.Sprintf("%s of ReloadableOrchestrator.%s without the %s lock on some path: a reload between this access and its use installs/uses a sink of a shut-down orchestrator", what, short, map[int]string{1: "read", 2: "write"}[need]))
			}
		}
		// dereferences of the slot pointer held by a ReloadableSink
		eachInstr(fn, func(in ssa.Instruction) {
			var addr ssa.Value
			switch x := in.(type) {
			case *ssa.UnOp:
				if x.Op == token.MUL {
					addr = x.X
				}
			case *ssa.Store:
				addr = x.Addr
			}
			if addr == nil {
				return
			}
			if fieldOf(addr) != fDPtr {
				return
			}
			// addr is the load of the field (a *BufferReceiverSink); `in` dereferences it
			if u, ok := strip(addr).(*ssa.UnOp); !ok || u.Op != token.MUL {
				return
			}
			n++
			st := get()[in]
			c.check(st >= 1, "C17.R1", fn, "dereference of the sink's slot pointer under the read lock", in.Pos(), "lock held", "a ReloadableSink touches its slot without the read lock: reload may be replacing it")
		})
	}
	c.floor("C17.R1", "guarded accesses", n, 10)
	// every call on a downstream sink (a value loaded from a slot, in this function or returned by a helper of the
	// run package that loads it) happens while the lock is held: the sink belongs to the orchestrator that a
	// reload shuts down under the write lock
	nCalls := 0
	fromSlot := func(v ssa.Value) bool {
		seen := map[ssa.Value]bool{}
		var w func(v ssa.Value, d int) bool
		w = func(v ssa.Value, d int) bool {
			v = strip(v)
			if v == nil || seen[v] || d > 12 {
				return false
			}
			seen[v] = true
			switch x := v.(type) {
			case *ssa.UnOp:
				if x.Op == token.MUL {
					if fieldOf(x.X) == fDPtr {
						return true
					}
					if u, ok := strip(x.X).(*ssa.UnOp); ok && u.Op == token.MUL && fieldOf(u.X) == fDPtr {
						return true
					}
					if ia, ok := strip(x.X).(*ssa.IndexAddr); ok && fieldOf(ia.X) == fDSinks {
						return true
					}
					if al, ok := strip(x.X).(*ssa.Alloc); ok {
						for _, ref := range *al.Referrers() {
							if st, ok := ref.(*ssa.Store); ok && st.Addr == al && w(st.Val, d+1) {
								return true
							}
						}
					}
				}
			case *ssa.Phi:
				for _, e := range x.Edges {
					if w(e, d+1) {
						return true
					}
				}
			case *ssa.Call:
				if f := x.Common().StaticCallee(); f != nil && strings.HasPrefix(fnPkgPath(f), modPath+"/run") && f.Blocks != nil {
					for _, rv := range returnedValues(f, 0) {
						if w(rv.Val, d+1) {
							return true
						}
					}
				}
			case *ssa.Extract:
				return w(x.Tuple, d+1)
			case *ssa.Next:
				if r, ok := x.Iter.(*ssa.Range); ok && fieldOf(r.X) == fDSinks {
					return true
				}
			}
			return false
		}
		return w(v, 0)
	}
	for _, fn := range c.P.universe {
		if !strings.HasPrefix(fnPkgPath(fn), modPath+"/run") || anchorName(fn) == aNewReloadO {
			continue
		}
		var states map[ssa.Instruction]int
		for _, site := range callsIn(fn) {
			cc := site.Common()
			if !cc.IsInvoke() || typeName(cc.Value.Type()) != "base.BufferReceiverSink" || !fromSlot(cc.Value) {
				continue
			}
			nCalls++
			if states == nil {
				states = lockStates(fn, rbLockClass)
			}
			c.check(states[site] >= 1, "C17.R1", fn, "call of "+cc.Method.Name()+" on a downstream sink under downstreamMutex", site.Pos(),
				"the lock is held at the call", "a downstream sink taken from its slot is used after the lock was released: a reload in between shuts its orchestrator down (send on closed channel / lost flush)")
		}
	}
	c.floor("C17.R1", "calls on downstream sinks", nCalls, 3)
}

func ruleC17R2(c *Ctx) {
	fn := c.P.Fn(aReload)
	init := sitesWhere(fn, func(s ssa.CallInstruction) bool { return fieldCallOf(s, "run.ReloadableOrchestrator.initiateReload") })
	var locks []ssa.CallInstruction
	for _, s := range callsIn(fn) {
		if _, d := s.(*ssa.Defer); !d && rbLockClass(s) == lockAcquireW {
			locks = append(locks, s)
		}
	}
	if len(init) != 1 || len(locks) != 1 {
		c.bad("C17.R2", fn, "new configuration is prepared before the lock", fn.Pos(), fmt.Sprintf("expected one initiateReload call and one Lock, found %d / %d", len(init), len(locks)))
		return
	}
	errv := resultOf(init[0].Value(), 1)
	nilE := nilEdges(errv, true)
	okPre := len(nilE) > 0
	for b, si := range nilE {
		if !c.onlyViaEdge(fn, locks[0], b, si) {
			okPre = false
		}
	}
	c.check(okPre, "C17.R2", fn, "Lock only after initiateReload succeeded", locks[0].Pos(), "the write lock is only reachable through the err == nil edge of initiateReload", "reload takes the lock (and tears things down) before knowing that the new configuration is valid")
	// failure path: only logging and the failure counter
	for b, si := range nilEdges(errv, false) {
		okFail := true
		var offender ssa.Instruction
		q := &PathQ{P: c.P}
		q.Reach(succPoint(b, si), func(in ssa.Instruction) bool {
			ci, ok := in.(ssa.CallInstruction)
			if !ok {
				return false
			}
			cc := ci.Common()
			if f := cc.StaticCallee(); f != nil && strings.Contains(extName(f), "github.com/relex/gotils/logger") {
				return false
			}
			if cc.IsInvoke() && cc.Method.Name() == "Inc" {
				if g, ok := strip(cc.Value).(*ssa.UnOp); ok {
					if gl, ok := g.X.(*ssa.Global); ok && gl.Name() == "reloadFailureCounter" {
						return false
					}
				}
			}
			if cc.IsInvoke() && cc.Method.Name() == "Error" { // err.Error()
				return false
			}
			if recvFieldMutation(in, "run.ReloadableOrchestrator") != "" {
				return false // changing a state field back is R8's business (a failed reload leaves the wrapper as it found it)
			}
			okFail = false
			offender = in
			return true
		})
		pos := fn.Pos()
		if offender != nil {
			pos = offender.Pos()
		}
		c.check(okFail, "C17.R2", fn, "failed reload only logs and counts", pos, "the error path calls nothing but the logger and reloadFailureCounter.Inc", "a failed reload has side effects besides logging and counting")
	}
	// order under the lock
	closes := c.sitesWhereR(fn, func(s ssa.CallInstruction) bool { return invokeOf(s, "base.BufferReceiverSink", "Close") })
	shut := c.sitesWhereR(fn, func(s ssa.CallInstruction) bool { return invokeOf(s, "base.Orchestrator", "Shutdown") })
	var renew []ssa.CallInstruction
	complete := resultOf(init[0].Value(), 0)
	for _, s := range c.callsInR(fn) { // the completion function is a local value of reload, possibly handed to a helper
		if !s.Common().IsInvoke() && s.Common().StaticCallee() == nil && strip(c.resolveR(fn, s.Common().Value)) == strip(complete) {
			renew = append(renew, s)
		}
	}
	stores := c.storesToFieldR(fn, fDownstream)
	news := c.sitesWhereR(fn, func(s ssa.CallInstruction) bool { return invokeOf(s, "base.Orchestrator", "NewSink") })
	c.checkOrder("C17.R2", fn, "Lock", callInstrSet(locks), "closing of old sinks", callInstrSet(closes))
	c.checkOrderL("C17.R2", fn, "closing of every old sink", callInstrSet(closes), "old downstream.Shutdown", callInstrSet(shut))
	c.checkOrder("C17.R2", fn, "old downstream.Shutdown", callInstrSet(shut), "completeRenewal()", callInstrSet(renew))
	c.checkOrder("C17.R2", fn, "completeRenewal()", callInstrSet(renew), "store of the new downstream", instrSet(stores))
	c.checkOrder("C17.R2", fn, "store of the new downstream", instrSet(stores), "re-creation of sinks", callInstrSet(news))
	// the stored downstream is the renewal's result; the re-created sinks are stored into the slots
	okVal := len(stores) == 1 && len(renew) == 1 && strip(stores[0].Val) == renew[0].Value()
	c.check(okVal, "C17.R2", fn, "downstream = completeRenewal()", fn.Pos(), "the new orchestrator is what the completion function returned", "the stored downstream is not the renewal's result")
	for _, s := range news {
		okSlot := false
		v := s.Value()
		if v != nil && v.Referrers() != nil {
			for _, ref := range *v.Referrers() {
				if st, ok := ref.(*ssa.Store); ok {
					if ia, ok := strip(st.Addr).(*ssa.IndexAddr); ok && fieldOf(ia.X) == fDSinks {
						okSlot = true
					}
				}
			}
		}
		c.check(okSlot, "C17.R2", fn, "re-created sink stored into its slot", s.Pos(), "downstreamSinks[i] = downstream.NewSink(addr, i)", "the sink created on the new orchestrator is not stored into the client's slot")
		// with the slot's own address and number
		okArgs := mentions(s.Common().Args[0], isFieldAddrOf(fDAddrs))
		c.check(okArgs, "C17.R2", fn, "re-created sink gets the slot's client address", s.Pos(), "address comes from downstreamAddrs[i]", "the re-created sink is not given the slot's address")
	}
	// every non-nil slot is closed / re-created: loops over the whole array with only a nil guard
	for _, grp := range []struct {
		name  string
		sites []ssa.CallInstruction
	}{{"old sinks closed for every non-nil slot", closes}, {"sinks re-created for every non-nil slot", news}} {
		if len(grp.sites) != 1 {
			c.bad("C17.R2", fn, grp.name, fn.Pos(), "expected exactly one site")
			continue
		}
		s := grp.sites[0]
		lp := loopOf(s.Parent(), s.Block())
		ok := lp != nil && lp.bodyEntry != nil
		if ok {
			q := &PathQ{P: c.P, Barrier: func(in ssa.Instruction) bool { return in == s.(ssa.Instruction) }, EdgeBlocked: edgeSet(emptinessGuardEdges(s.Parent(), rootsOfCall(s)))} // "for every non-nil slot": the nil test of the slot is the rule's own exception
			hit, _ := q.Reach(Point{lp.bodyEntry, 0}, func(in ssa.Instruction) bool {
				return in == lp.header.Instrs[0] || isReturn(in) || (!lp.blocks[in.Block()] && in == in.Block().Instrs[0])
			})
			ok = hit == nil
			// loop bound is the array length (constant) : header compares with a constant equal to the array size
			if iff := lp.exitIf; iff != nil {
				if bo, isBo := iff.Cond.(*ssa.BinOp); isBo {
					if k, isK := bo.Y.(*ssa.Const); !isK || k.Int64() != 262144 {
						// slices or other bounds are fine as long as they derive from the slots field
						if !mentions(bo.Y, isFieldAddrOf(fDSinks)) {
							ok = false
						}
					}
				}
			}
		}
		c.check(ok, "C17.R2", fn, grp.name, s.Pos(), "the loop covers all slots and only skips nil ones", "some registered client slots are skipped during reload")
	}
}

func ruleC17R3(c *Ctx) {
	const fLoader = "run.Reloader.Loader"
	fn := c.P.Fn(aInitReload)
	n := 0
	for _, f := range c.P.universe {
		for _, st := range storesToField(f, fLoader) {
			n++
			ok := anchorName(f) == aNewReloader || (f.Parent() != nil && anchorName(f.Parent()) == aInitReload)
			if !ok && f.Parent() == nil && anchorName(f) != aInitReload && ownedBy(f, aInitReload) {
				// a private helper of the completion function (a closure, or a method value handed out as such) — never a
				// helper that initiateDownstreamReload's own body calls: that runs before the caller has decided to complete
				ok = true
				c.P.onlyCalledFrom(fn, nil) // builds the static call index
				for _, on := range ownerNames(f) {
					if on == aInitReload {
						break
					}
					for _, g := range c.P.universe {
						if anchorName(g) != on {
							continue
						}
						for _, site := range c.P.staticSites[g] {
							if site.Parent() == fn {
								ok = false
							}
						}
					}
				}
			}
			c.check(ok, "C17.R3", f, "store to Reloader.Loader", st.Pos(), "the loader is swapped only by the completion closure (and set by the constructor)", "the active loader is replaced outside the reload completion closure")
		}
	}
	c.floor("C17.R3", "stores to Reloader.Loader", n, 2)
	nl := c.callsTo(fn, anchorPred(aNewLoaderCF))
	cc := c.callsTo(fn, anchorPred(aCheckCompat))
	if len(nl) != 1 || len(cc) != 1 {
		c.bad("C17.R3", fn, "new loader parsed and checked before the closure is handed out", fn.Pos(), "expected one NewLoaderFromConfigFile and one checkConfigCompatibility call")
		return
	}
	e1 := nilEdges(resultOf(nl[0].Value(), 1), true)
	e2 := nilEdges(cc[0].Value(), true)
	for _, rv := range returnedValues(fn, 0) {
		if _, isMC := strip(rv.Val).(*ssa.MakeClosure); !isMC {
			k, isK := rv.Val.(*ssa.Const)
			c.check(isK && k.IsNil(), "C17.R3", fn, "failure returns no completion function", rv.At.Pos(), "nil", "a completion function is returned together with an error")
			continue
		}
		ok := len(e1) > 0 && len(e2) > 0
		for b, si := range e1 {
			if !c.onlyViaEdge(fn, rv.At, b, si) {
				ok = false
			}
		}
		for b, si := range e2 {
			if !c.onlyViaEdge(fn, rv.At, b, si) {
				ok = false
			}
		}
		c.check(ok, "C17.R3", fn, "completion closure only after parse and compatibility check succeeded", rv.At.Pos(),
			"the closure is only returned through the nil-error edges of NewLoaderFromConfigFile and checkConfigCompatibility", "an invalid or incompatible configuration can be completed")
	}
	// compatibility is checked between the current loader and the new one
	okArgs := mentions(cc[0].Common().Args[3], func(v ssa.Value) bool { return v == resultOf(nl[0].Value(), 0) }) &&
		mentions(cc[0].Common().Args[0], isFieldAddrOf(fLoader))
	c.check(okArgs, "C17.R3", fn, "compatibility compares current and new configuration", cc[0].Pos(), "old = reloader.Loader, new = the freshly parsed loader", "checkConfigCompatibility is not comparing the running configuration with the new one")
	// the failure error values are the ones returned
	for _, rv := range returnedValues(fn, 1) {
		if k, isK := rv.Val.(*ssa.Const); isK && k.IsNil() {
			// success return: must be the closure return
			continue
		}
	}
	// the closure starts the orchestrator of the NEW loader
	for _, a := range fn.AnonFuncs {
		so := c.callsTo(a, anchorPred("run.(*Loader).StartOrchestrator"))
		c.check(len(so) == 1, "C17.R3", a, "completion starts the new loader's orchestrator", a.Pos(), "one StartOrchestrator call", "the completion closure does not start exactly one orchestrator")
		// the deallocator (record pool) is carried over so that records in flight are released into the same allocator
		okD := false
		for _, st := range storesToField(a, "base/bconfig.PipelineArgs.Deallocator") {
			if mentions(st.Val, isFieldAddrOf(fLoader)) {
				okD = true
			}
		}
		c.check(okD, "C17.R3", a, "record allocator carried over to the new pipelines", a.Pos(), "newLoader.PipelineArgs.Deallocator = old loader's", "the new pipelines would release records into a different allocator than the inputs use")
	}
}

// R4: the sink is closed before the socket descriptor (= slot index) is released
func ruleC17R4(c *Ctx) {
	for _, fn := range c.P.Fns(aRunConn) {
		var closer []ssa.CallInstruction
		if c18HasFn(c, "input/tcplistener.(*tcpLineListener).launchConnectionCloser") {
			closer = c.callsTo(fn, anchorPred("input/tcplistener.(*tcpLineListener).launchConnectionCloser"))
		}
		if len(closer) > 1 {
			c.bad("C17.R4", fn, "sink closed before the connection is released", fn.Pos(), "expected at most one launchConnectionCloser call")
			continue
		}
		// without a closer goroutine (registry form, C18.R4) the release events are the direct closes of the connection
		var aborter ssa.Value
		if len(closer) == 1 {
			aborter = closer[0].Value()
		}
		// release events: the Signal of the connection closer, and any direct Close of the connection itself
		var connP ssa.Value
		for _, p := range fn.Params {
			if strings.Contains(p.Type().String(), "net.TCPConn") || strings.Contains(p.Type().String(), "net.Conn") {
				connP = p
			}
		}
		if connP == nil {
			broken("C17.R4: runConnection no longer has a connection parameter")
		}
		isSig := func(s ssa.CallInstruction) bool {
			f := s.Common().StaticCallee()
			if f != nil && aborter != nil && extName(f) == aSignal && sameValue(s.Common().Args[0], aborter) {
				return true
			}
			cc := s.Common()
			// a private helper that closes the connection it is handed (releaseConnection)
			if os.Getenv("SLOGCHECK_R4DBG") != "" && f != nil {
				fmt.Fprintf(os.Stderr, "R4DBG site %s callee %s helper=%v args=%d params=%d\n", c.P.pos(s.Pos()), f, c.helpersOf(fn)[f], len(cc.Args), len(f.Params))
			}
			if f != nil && c.helpersOf(fn)[f] {
				for i, a := range cc.Args {
					if i >= len(f.Params) || !mentions(a, func(v ssa.Value) bool { return v == connP }) {
						continue
					}
					prm := f.Params[i]
					closesIt := false
					for _, g := range []*ssa.Function{f} { // the helper's own body: a goroutine it starts is not a release here
						for _, hs := range callsIn(g) {
							if _, isGo := hs.(*ssa.Go); isGo {
								continue
							}
							// a close that only happens once the stop request is seen belongs to the stop path, which R4 is not about
							onStop := false
							for b := hs.Block(); b != nil; b = b.Idom() {
								d := b.Idom()
								if d == nil {
									break
								}
								if iff, ok := d.Instrs[len(d.Instrs)-1].(*ssa.If); ok && len(d.Succs) == 2 && d.Succs[0] == b && len(b.Preds) == 1 &&
									mentions(iff.Cond, isFieldAddrOf("input/tcplistener.tcpLineListener.stopRequest")) {
									onStop = true
								}
							}
							if onStop {
								continue
							}
							hc := hs.Common()
							if hc.IsInvoke() && hc.Method.Name() == "Close" && mentions(hc.Value, func(v ssa.Value) bool { return v == ssa.Value(prm) }) {
								closesIt = true
							}
							if hf := hc.StaticCallee(); hf != nil && hf.Name() == "Close" && len(hc.Args) > 0 && mentions(hc.Args[0], func(v ssa.Value) bool { return v == ssa.Value(prm) }) {
								closesIt = true
							}
						}
					}
					if closesIt {
						return true
					}
				}
			}
			if cc.IsInvoke() {
				return cc.Method.Name() == "Close" && mentions(cc.Value, func(v ssa.Value) bool { return v == connP })
			}
			return f != nil && f.Name() == "Close" && len(cc.Args) > 0 && mentions(cc.Args[0], func(v ssa.Value) bool { return v == connP })
		}
		isClose := func(s ssa.CallInstruction) bool { return invokeOf(s, "base.MessageReceiverSink", "Close") }
		okAll := true
		why := ""
		for _, s := range sitesWhere(fn, isSig) {
			if _, d := s.(*ssa.Defer); d || isClose(s) {
				continue
			}
			// explicit Signal: an explicit Close must precede it on every path
			var cl []ssa.CallInstruction
			for _, x := range sitesWhere(fn, isClose) {
				if _, d := x.(*ssa.Defer); !d {
					cl = append(cl, x)
				}
			}
			if hit, tr := c.precedes(fn, callInstrSet(cl), map[ssa.Instruction]bool{s: true}, nil); hit != nil || len(cl) == 0 {
				okAll = false
				why = "the connection is released (connAborter.Signal / conn.Close) at " + c.P.pos(s.Pos()) + " before the sink is closed (" + c.P.trailString(tr) + "): the descriptor can be reused by a new connection, whose slot the late Close then clears"
			}
		}
		for _, rd := range rundefersOf(fn) {
			order := deferredAt(rd, false)
			ci, si := -1, -1
			for i, d := range order {
				if isClose(d) {
					ci = i
				}
				if isSig(d) && !isClose(d) && si < 0 {
					si = i // the first release in execution order (the sink's own Close mentions the connection too, through NewSink's argument: it is not a release)
				}
			}
			if os.Getenv("SLOGCHECK_R4DBG") != "" {
				fmt.Fprintf(os.Stderr, "R4DBG rundefers order=%d ci=%d si=%d\n", len(order), ci, si)
			}
			if si >= 0 && (ci < 0 || ci > si) {
				// deferred Signal runs before the deferred Close, unless an explicit Close precedes every exit
				okAll = false
				why = "the deferred Signal runs before the sink's Close"
			}
		}
		posR4 := fn.Pos()
		if len(closer) == 1 {
			posR4 = closer[0].Pos()
		}
		c.check(okAll, "C17.R4", fn, "sink closed before the connection is released", posR4,
			"on the non-stop path every Signal of the connection closer follows the sink's Close (deferred calls compared in LIFO order)", why)
	}
}

func ruleC17R5(c *Ctx) {
	allowed := map[string]bool{aRNewSink: true, aReload: true, "run.(*ReloadableSink).Close": true}
	n := 0
	for _, fn := range c.P.universe {
		eachInstr(fn, func(in ssa.Instruction) {
			st, ok := in.(*ssa.Store)
			if !ok {
				return
			}
			slot := false
			if ia, ok := strip(st.Addr).(*ssa.IndexAddr); ok && (fieldOf(ia.X) == fDSinks || fieldOf(ia.X) == fDAddrs) {
				slot = true
			}
			if u, ok := strip(st.Addr).(*ssa.UnOp); ok && u.Op == token.MUL && fieldOf(st.Addr) == fDPtr {
				slot = true
			}
			if !slot {
				return
			}
			n++
			c.check(ownedByAny(fn, allowed), "C17.R5", fn, "write of a client slot", in.Pos(), "slots are written only by NewSink, reload and ReloadableSink.Close", "a client slot is written outside NewSink / reload / ReloadableSink.Close")
		})
	}
	c.floor("C17.R5", "slot writes", n, 4)
}

// R7 (added after seed c17f): client numbers are unique among all open connections of the process. The reloadable
// orchestrator keeps ONE slot table indexed by client number for every input; a number that is unique only within one
// listener (a per-listener counter or free list) lets connections of two inputs share a slot: the later registration
// orphans the earlier sink, a reload re-creates one sink for both, the first close nils the slot under the other. The
// number given to MultiSinkMessageReceiver.NewSink must therefore be the connection's socket descriptor (unique among
// open sockets of the process, util.GetFDFromTCPConnOrPanic) passed along unchanged.
func init() {
	register("C17", "C17.R7", ruleC17R7)
}

func ruleC17R7(c *Ctx) {
	c.P.onlyCalledFrom(c.P.universe[0], nil) // builds the static call index
	n := 0
	for _, fn := range c.P.universe {
		for _, s := range sitesWhere(fn, func(s ssa.CallInstruction) bool {
			return invokeOf(s, "base.MultiSinkMessageReceiver", "NewSink")
		}) {
			n++
			args := s.Common().Args
			num := args[len(args)-1]
			seen := map[ssa.Value]bool{}
			bad := ""
			var walk func(v ssa.Value, d int)
			walk = func(v ssa.Value, d int) {
				v = strip(v)
				if v == nil || seen[v] || bad != "" {
					return
				}
				if d > 10 {
					bad = "a value this analysis cannot trace"
					return
				}
				seen[v] = true
				switch x := v.(type) {
				case *ssa.Convert:
					walk(x.X, d+1)
				case *ssa.Phi:
					for _, e := range x.Edges {
						walk(e, d+1)
					}
				case *ssa.Parameter:
					f := x.Parent()
					idx := -1
					for i, q := range f.Params {
						if q == x {
							idx = i
						}
					}
					sites := c.P.staticSites[f]
					if len(sites) == 0 || c.P.valueUse[f] {
						bad = "the parameter " + x.Name() + " of " + anchorName(f) + ", whose callers are not all known"
						return
					}
					for _, site := range sites {
						if strings.Contains(site.Parent().Synthetic, "wrapper") {
							continue
						}
						if idx < len(site.Common().Args) {
							walk(site.Common().Args[idx], d+1)
						}
					}
				case *ssa.FreeVar:
					for _, mc := range closureBindings(x) {
						walk(mc, d+1)
					}
				case *ssa.Extract:
					walk(x.Tuple, d+1)
				case *ssa.Call:
					if f := x.Common().StaticCallee(); f != nil && isAnchor(f, "util.GetFDFromTCPConnOrPanic") {
						return
					}
					if f := x.Common().StaticCallee(); f != nil {
						if x.Common().Signature().Recv() != nil {
							bad = "the result of " + anchorOrExt(f) + " on " + canonOf(x.Common().Args[0]) + " — an allocator that belongs to one object hands out numbers that are unique within that object only"
							return
						}
						bad = "the result of " + anchorOrExt(f)
						return
					}
					bad = "the result of a dynamic call"
				default:
					bad = canonOf(v)
				}
			}
			walk(num, 0)
			c.check(bad == "", "C17.R7", fn, "client numbers are unique among the open connections of the process", s.Pos(),
				"the number given to NewSink is the connection's socket descriptor (GetFDFromTCPConnOrPanic), passed along unchanged",
				"the client number given to NewSink is "+bad+", not the connection's socket descriptor: with two inputs, connections open at the same time can share a slot of the reloadable orchestrator's sink table (orphaned sink, records delivered to the other connection's sink, slot nil-ed under an open connection)")
		}
	}
	c.floor("C17.R7", "MultiSinkMessageReceiver.NewSink call sites", n, 1)
}

func anchorOrExt(f *ssa.Function) string {
	if strings.HasPrefix(fnPkgPath(f), modPath) {
		return anchorName(f)
	}
	return extName(f)
}

// closureBindings: the values bound to free variable fv where its function is made into a closure
func closureBindings(fv *ssa.FreeVar) []ssa.Value {
	fn := fv.Parent()
	idx := -1
	for i, q := range fn.FreeVars {
		if q == fv {
			idx = i
		}
	}
	var out []ssa.Value
	if fn.Parent() == nil || idx < 0 {
		return out
	}
	eachInstr(fn.Parent(), func(in ssa.Instruction) {
		if mc, ok := in.(*ssa.MakeClosure); ok && mc.Fn == fn && idx < len(mc.Bindings) {
			out = append(out, mc.Bindings[idx])
		}
	})
	return out
}

// ---- C17.R8 (added after seed c17g): a failed reload leaves the wrapper as it found it. Whatever reload() changes in
// the reloadable orchestrator before it knows that the new configuration is good (a state flag, a counter, a "reloading"
// marker set by compare-and-swap) must be changed again on every path of the failure branch — directly, or by a defer
// registered before the test — otherwise one rejected configuration has an effect beyond the error and the failure count
// (every later reload request is discarded).
func init() {
	register("C17", "C17.R8", ruleC17R8)
}

// recvFieldMutation: in writes a field of a struct of the named type — a store, or a mutating method of a sync/atomic
// value held in the field; returns the field
func recvFieldMutation(in ssa.Instruction, typ string) string {
	fieldOfAddr := func(a ssa.Value) string {
		for i := 0; i < 3; i++ {
			switch x := strip(a).(type) {
			case *ssa.FieldAddr:
				if typeName(x.X.Type()) == typ {
					return fieldName(x.X.Type(), x.Field)
				}
				a = x.X
				continue
			case *ssa.IndexAddr:
				a = x.X
				continue
			}
			break
		}
		return ""
	}
	switch x := in.(type) {
	case *ssa.Store:
		return fieldOfAddr(x.Addr)
	case ssa.CallInstruction:
		f := x.Common().StaticCallee()
		if f == nil || f.Pkg == nil || f.Pkg.Pkg.Path() != "sync/atomic" || len(x.Common().Args) == 0 {
			return ""
		}
		switch f.Name() {
		case "Store", "Swap", "CompareAndSwap", "Add", "And", "Or":
			return fieldOfAddr(x.Common().Args[0])
		}
	}
	return ""
}

func ruleC17R8(c *Ctx) {
	fn := c.P.Fn(aReload)
	const typ = "run.ReloadableOrchestrator"
	init := sitesWhere(fn, func(s ssa.CallInstruction) bool { return fieldCallOf(s, "run.ReloadableOrchestrator.initiateReload") })
	if len(init) != 1 {
		broken("C17.R8: reload no longer has exactly one initiateReload call")
	}
	errv := resultOf(init[0].Value(), 1)
	failE := nilEdges(errv, false)
	c.floor("C17.R8", "failure edges of initiateReload", len(failE), 1)
	// a defer whose target changes field F: the change happens at every return after the registration
	deferMutates := func(in ssa.Instruction, field string) bool {
		d, ok := in.(*ssa.Defer)
		if !ok {
			return false
		}
		if recvFieldMutation(d, typ) == field {
			return true
		}
		var tgt *ssa.Function
		if mc, ok := resolve(d.Call.Value).(*ssa.MakeClosure); ok {
			tgt, _ = mc.Fn.(*ssa.Function)
		} else if f := d.Call.StaticCallee(); f != nil && f.Blocks != nil {
			tgt = f
		}
		if tgt == nil {
			return false
		}
		hit := false
		for _, g := range withAnons(tgt) {
			eachInstr(g, func(i2 ssa.Instruction) {
				if recvFieldMutation(i2, typ) == field {
					hit = true
				}
			})
		}
		return hit
	}
	type mut struct {
		in    ssa.Instruction
		field string
	}
	var muts []mut
	c.eachInstrR(fn, func(in ssa.Instruction) {
		if _, isDefer := in.(*ssa.Defer); isDefer {
			return
		}
		if f := recvFieldMutation(in, typ); f != "" {
			muts = append(muts, mut{in, f})
		}
	})
	nPre := 0
	for b, si := range failE {
		test := b.Instrs[len(b.Instrs)-1]
		for _, m := range muts {
			m := m
			// can the change reach the failure test without a restoring defer having been registered?
			qa := c.pq(fn)
			qa.Barrier = func(in ssa.Instruction) bool { return deferMutates(in, m.field) }
			if hit, _ := qa.Reach(after(m.in), func(in ssa.Instruction) bool { return in == test }); hit == nil {
				continue
			}
			nPre++
			qb := c.pq(fn)
			qb.Barrier = func(in ssa.Instruction) bool {
				return recvFieldMutation(in, typ) == m.field || deferMutates(in, m.field)
			}
			hit, trail := qb.Reach(succPoint(b, si), isReturn)
			c.check(hit == nil, "C17.R8", fn, "a failed reload leaves "+m.field+" as it found it", m.in.Pos(),
				"every path of the failure branch changes the field again before returning",
				fmt.Sprintf("%s is changed at %s before the new configuration is known to be good, and the failure branch returns at %s without changing it back (%s): one rejected configuration has a lasting effect on the wrapper", m.field, c.P.pos(m.in.Pos()), func() string {
					if hit != nil {
						return c.P.pos(hit.Pos())
					}
					return "-"
				}(), c.P.trailString(trail)))
		}
	}
	c.count("C17.R8:changes of the wrapper before the configuration is known to be good", nPre)
	if nPre == 0 {
		c.ok("C17.R8", fn, "nothing of the wrapper is changed before initiateReload has succeeded", init[0].Pos(), fmt.Sprintf("%d field mutation(s) in reload's region, none can reach the failure test", len(muts)))
	}
}

// ---- C17.R9 (found by reading, after a note of the agent that wrote seed c17g): what survives a reload was built from
// configuration that the compatibility check compares. The completion closure carries objects of the old loader over to
// the new one (the record allocator shared with the inputs, the input metric factory). Such an object was constructed from
// the OLD configuration file; the new pipelines are built from the NEW one. Every section of run.Config that an argument
// of the carried-over object's constructor derives from must therefore be read from both configurations in
// checkConfigCompatibility — otherwise a valid new file can disagree with the surviving object (a record allocator that
// counts one reference per OLD output while the new pipelines release once per NEW output).
func init() {
	register("C17", "C17.R9", ruleC17R9)
}

func ruleC17R9(c *Ctx) {
	ir := c.P.Fn(aInitReload)
	const cfgT = "run.Config"
	cfgFieldsOf := func(v ssa.Value, out map[string]bool) {
		mentions(v, func(x ssa.Value) bool {
			switch y := x.(type) {
			case *ssa.FieldAddr:
				if typeName(y.X.Type()) == cfgT {
					out[fieldName(y.X.Type(), y.Field)] = true
				}
			case *ssa.Field:
				if typeName(y.X.Type()) == cfgT {
					out[fieldName(y.X.Type(), y.Field)] = true
				}
			}
			// a schema value stands for the schema section it was built from
			if typeName(x.Type()) == "base.LogSchema" {
				out[cfgT+".Schema"] = true
			}
			return false
		})
	}
	// carried-over fields: stores in the completion closure(s) whose value is a load of the same field of another object
	carried := map[string]token.Pos{}
	var completion []*ssa.Function
	for _, g := range c.P.universe {
		if g.Parent() == nil && g.Blocks != nil && (g == ir || ownedBy(g, aInitReload)) {
			completion = append(completion, g)
		}
	}
	for _, g := range completion {
		for _, f := range withAnons(g) {
			eachInstr(f, func(in ssa.Instruction) {
				st, ok := in.(*ssa.Store)
				if !ok {
					return
				}
				dst, ok := strip(st.Addr).(*ssa.FieldAddr)
				if !ok {
					return
				}
				ld, ok := strip(st.Val).(*ssa.UnOp)
				if !ok || ld.Op != token.MUL {
					return
				}
				src, ok := strip(ld.X).(*ssa.FieldAddr)
				if !ok {
					return
				}
				dn, sn := fieldName(dst.X.Type(), dst.Field), fieldName(src.X.Type(), src.Field)
				if dn == sn && resolve(dst.X) != resolve(src.X) {
					carried[dn] = st.Pos()
				}
			})
		}
	}
	c.floor("C17.R9", "objects carried over from the old loader by the completion closure", len(carried), 1)
	// what the compatibility check reads from both configurations
	cc := c.P.Fn(aCheckCompat)
	perParam := map[*ssa.Parameter]map[string]bool{}
	for _, g := range c.regionOf(cc) {
		eachInstr(g, func(in ssa.Instruction) {
			var x ssa.Value
			var name string
			switch y := in.(type) {
			case *ssa.FieldAddr:
				x, name = y.X, fieldName(y.X.Type(), y.Field)
			case *ssa.Field:
				x, name = y.X, fieldName(y.X.Type(), y.Field)
			default:
				return
			}
			if typeName(x.Type()) != cfgT {
				return
			}
			if p, ok := c.resolveR(cc, x).(*ssa.Parameter); ok {
				if perParam[p] == nil {
					perParam[p] = map[string]bool{}
				}
				perParam[p][name] = true
			} else if al, ok := resolve(x).(*ssa.Alloc); ok { // a by-value parameter is spilled into a local
				if sv, ok := singleStore(al); ok {
					if p, ok := c.resolveR(cc, sv).(*ssa.Parameter); ok {
						if perParam[p] == nil {
							perParam[p] = map[string]bool{}
						}
						perParam[p][name] = true
					}
				}
			}
		})
	}
	compared := map[string]bool{}
	if len(perParam) >= 2 {
		first := true
		for _, m := range perParam {
			if first {
				for k := range m {
					compared[k] = true
				}
				first = false
				continue
			}
			for k := range compared {
				if !m[k] {
					delete(compared, k)
				}
			}
		}
	}
	c.floor("C17.R9", "configuration sections read from both files by checkConfigCompatibility", len(compared), 2)
	var names []string
	for n := range carried {
		names = append(names, n)
	}
	sort.Strings(names)
	for _, n := range names {
		// constructions of the carried-over field anywhere in the loader's package
		derived := map[string]bool{}
		nCons := 0
		for _, f := range c.P.universe {
			if fnPkgPath(f) != fnPkgPath(ir) {
				continue
			}
			for _, st := range storesToField(f, n) {
				if ld, ok := strip(st.Val).(*ssa.UnOp); ok && ld.Op == token.MUL {
					if src, ok := strip(ld.X).(*ssa.FieldAddr); ok && fieldName(src.X.Type(), src.Field) == n {
						continue // the carry-over itself
					}
				}
				nCons++
				cfgFieldsOf(st.Val, derived)
			}
		}
		var missing []string
		for d := range derived {
			if !compared[d] {
				missing = append(missing, d)
			}
		}
		sort.Strings(missing)
		var dl []string
		for d := range derived {
			dl = append(dl, d)
		}
		sort.Strings(dl)
		c.check(len(missing) == 0, "C17.R9", ir, "the configuration "+n+" was built from is compared before it is carried over to the new loader", carried[n],
			fmt.Sprintf("%d construction site(s), built from {%s}: every one of these sections is read from the old and the new configuration by checkConfigCompatibility", nCons, strings.Join(dl, ", ")),
			fmt.Sprintf("the object is built from {%s} of the old configuration and survives the reload, but checkConfigCompatibility never compares {%s}: a valid new file that differs there is accepted although the surviving object disagrees with the new pipelines", strings.Join(dl, ", "), strings.Join(missing, ", ")))
	}
}
