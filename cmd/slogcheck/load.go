package main

// Loading of /repo into go/packages -> go/ssa -> VTA call graph, plus the
// indexes every rule uses (functions by anchor name, call edges by site,
// universe membership).

import (
	"fmt"
	"go/token"
	"go/types"
	"os"
	"sort"
	"strings"

	"golang.org/x/tools/go/callgraph"
	"golang.org/x/tools/go/callgraph/cha"
	"golang.org/x/tools/go/callgraph/vta"
	"golang.org/x/tools/go/packages"
	"golang.org/x/tools/go/ssa"
	"golang.org/x/tools/go/ssa/ssautil"
)

const modPath = "github.com/relex/slog-agent"

// packages of the module that are test support, not production: excluded
// from the universe the rules report on (they still take part in the call graph)
var nonUniversePkgs = map[string]bool{
	modPath:                 true, // root main
	modPath + "/cmd":        true,
	modPath + "/test":       true,
	modPath + "/testdata":   true,
	modPath + "/base/btest": true,
}

type Prog struct {
	repo     string
	pkgs     []*packages.Package
	pkgByRel map[string]*packages.Package // "buffer/hybridbuffer" -> pkg
	prog     *ssa.Program
	fset     *token.FileSet
	allFuncs map[*ssa.Function]bool
	cg       *callgraph.Graph
	chaCG    *callgraph.Graph
	// call edges by site (VTA)
	siteCallees map[ssa.CallInstruction][]*ssa.Function
	helperMemo  map[*ssa.Function]map[*ssa.Function]bool
	staticSites map[*ssa.Function][]ssa.CallInstruction
	valueUse    map[*ssa.Function]bool
	valueUsers  map[*ssa.Function]map[*ssa.Function]bool
	// function index by anchor name, e.g. "buffer/hybridbuffer.(*bufferer).Accept"
	byAnchor map[string][]*ssa.Function
	universe []*ssa.Function // module functions with bodies, excluding test support, sorted
	inUni    map[*ssa.Function]bool
	callers  map[*ssa.Function][]ssa.CallInstruction // static+VTA callers (whole program)
}

type brokenErr struct{ msg string }

func broken(format string, args ...interface{}) {
	panic(brokenErr{fmt.Sprintf(format, args...)})
}

func loadProg(repo string, withCHA bool) *Prog {
	env := append(os.Environ(), "GOWORK=off", "GOFLAGS=-mod=mod", "GOPROXY=off", "GOSUMDB=off")
	if v := os.Getenv("SLOGCHECK_GOARCH"); v != "" {
		env = append(env, "GOARCH="+v)
	}
	cfg := &packages.Config{Mode: packages.LoadAllSyntax, Dir: repo, Env: env, Tests: false}
	pkgs, err := packages.Load(cfg, "./...")
	if err != nil {
		broken("packages.Load: %v", err)
	}
	nErr := 0
	packages.Visit(pkgs, nil, func(p *packages.Package) {
		for _, e := range p.Errors {
			if strings.HasPrefix(p.PkgPath, modPath) {
				fmt.Fprintf(os.Stderr, "type error: %v\n", e)
				nErr++
			}
		}
	})
	if nErr > 0 {
		broken("%d load/type errors in module packages", nErr)
	}
	if len(pkgs) < 45 {
		broken("only %d packages loaded from %s (expected >= 45)", len(pkgs), repo)
	}
	P := &Prog{repo: repo, pkgs: pkgs, pkgByRel: map[string]*packages.Package{}}
	for _, p := range pkgs {
		rel := strings.TrimPrefix(strings.TrimPrefix(p.PkgPath, modPath), "/")
		P.pkgByRel[rel] = p
	}
	prog, _ := ssautil.AllPackages(pkgs, ssa.InstantiateGenerics)
	prog.Build()
	P.prog = prog
	P.fset = prog.Fset
	P.allFuncs = ssautil.AllFunctions(prog)
	chaG := cha.CallGraph(prog)
	P.cg = vta.CallGraph(P.allFuncs, chaG)
	if withCHA {
		P.chaCG = chaG
	}
	P.index()
	return P
}

func relPkg(path string) string {
	return strings.TrimPrefix(strings.TrimPrefix(path, modPath), "/")
}

// anchorName gives "rel/pkg.(*T).m", "rel/pkg.F", "rel/pkg.F$1"; generic
// instances are named after their origin.
func anchorName(fn *ssa.Function) string {
	if fn == nil {
		return "<nil>"
	}
	o := fn
	if fn.Origin() != nil {
		o = fn.Origin()
	}
	if o.Parent() != nil {
		// anonymous function: parent anchor + "$n"
		name := o.Name()
		if i := strings.LastIndex(name, "$"); i >= 0 {
			return anchorName(o.Parent()) + name[i:]
		}
		return anchorName(o.Parent()) + "$?"
	}
	pkg := ""
	if o.Pkg != nil {
		pkg = o.Pkg.Pkg.Path()
	} else if o.Object() != nil && o.Object().Pkg() != nil {
		pkg = o.Object().Pkg().Path()
	}
	if strings.HasPrefix(pkg, modPath) {
		pkg = relPkg(pkg)
		if pkg == "" {
			pkg = "main"
		}
	}
	if recv := o.Signature.Recv(); recv != nil {
		t := recv.Type()
		ptr := ""
		if p, ok := t.(*types.Pointer); ok {
			ptr = "*"
			t = p.Elem()
		}
		tn := "?"
		if n, ok := t.(*types.Named); ok {
			tn = n.Obj().Name()
		} else if n, ok := t.(*types.Alias); ok {
			tn = n.Obj().Name()
		}
		return fmt.Sprintf("%s.(%s%s).%s", pkg, ptr, tn, o.Name())
	}
	return pkg + "." + o.Name()
}

func (P *Prog) index() {
	P.byAnchor = map[string][]*ssa.Function{}
	P.inUni = map[*ssa.Function]bool{}
	P.siteCallees = map[ssa.CallInstruction][]*ssa.Function{}
	P.callers = map[*ssa.Function][]ssa.CallInstruction{}
	for fn := range P.allFuncs {
		if fn.Synthetic != "" && fn.Origin() == nil {
			continue // wrappers, thunks, bound methods, package initializers: not anchored
		}
		a := anchorName(fn)
		P.byAnchor[a] = append(P.byAnchor[a], fn)
		if fn.Blocks == nil {
			continue
		}
		pk := fnPkgPath(fn)
		if isUninstantiatedGeneric(fn) {
			continue // analysed through its instances (ssa.InstantiateGenerics)
		}
		if strings.HasPrefix(pk, modPath) && !nonUniversePkgs[pk] {
			// a generic origin has no instantiated body of interest when instances exist; keep both
			P.universe = append(P.universe, fn)
			noteFunctionNames(fn)
			P.inUni[fn] = true
		}
	}
	for _, l := range P.byAnchor {
		sort.Slice(l, func(i, j int) bool { return l[i].String() < l[j].String() })
	}
	P.installReviewedParent()
	sort.Slice(P.universe, func(i, j int) bool {
		a, b := P.universe[i], P.universe[j]
		if a.String() != b.String() {
			return a.String() < b.String()
		}
		return a.Pos() < b.Pos()
	})
	for _, n := range P.cg.Nodes {
		for _, e := range n.Out {
			if e.Site == nil {
				continue
			}
			P.siteCallees[e.Site] = append(P.siteCallees[e.Site], e.Callee.Func)
			P.callers[e.Callee.Func] = append(P.callers[e.Callee.Func], e.Site)
		}
	}
}

func fnPkgPath(fn *ssa.Function) string {
	for f := fn; f != nil; f = f.Parent() {
		o := f
		if f.Origin() != nil {
			o = f.Origin()
		}
		if o.Pkg != nil {
			return o.Pkg.Pkg.Path()
		}
		if o.Object() != nil && o.Object().Pkg() != nil {
			return o.Object().Pkg().Path()
		}
	}
	return ""
}

// Fns resolves an anchor to its functions (several for generic instances);
// unresolved anchors break the check, they never pass silently.
func (P *Prog) Fns(anchor string) []*ssa.Function {
	l := P.byAnchor[anchor]
	var out []*ssa.Function
	for _, f := range l {
		if f.Blocks != nil {
			// skip the uninstantiated generic origin when instances exist
			if f.TypeParams().Len() > 0 && len(f.TypeArgs()) == 0 && len(l) > 1 {
				continue
			}
			out = append(out, f)
		}
	}
	if len(out) == 0 {
		broken("anchor %q does not resolve to a function with a body in %s", anchor, P.repo)
	}
	return out
}

func (P *Prog) Fn(anchor string) *ssa.Function {
	l := P.Fns(anchor)
	return l[0]
}

// TryFns is like Fns but returns nil when unresolved
func (P *Prog) TryFns(anchor string) []*ssa.Function {
	defer func() { recover() }()
	return P.Fns(anchor)
}

func (P *Prog) pos(p token.Pos) string {
	if !p.IsValid() {
		return "-"
	}
	ps := P.fset.Position(p)
	f := strings.TrimPrefix(ps.Filename, P.repo+"/")
	return fmt.Sprintf("%s:%d:%d", f, ps.Line, ps.Column)
}

func (P *Prog) posLine(p token.Pos) (string, int) {
	if !p.IsValid() {
		return "", 0
	}
	ps := P.fset.Position(p)
	return strings.TrimPrefix(ps.Filename, P.repo+"/"), ps.Line
}

// callees of a call site: static callee, else VTA edges. Synthetic wrappers
// ($bound, $thunk, interface-method wrappers) are looked through.
func (P *Prog) callees(site ssa.CallInstruction) []*ssa.Function {
	var raw []*ssa.Function
	if c := site.Common().StaticCallee(); c != nil {
		raw = []*ssa.Function{c}
	} else {
		raw = P.siteCallees[site]
	}
	seen := map[*ssa.Function]bool{}
	var out []*ssa.Function
	var add func(f *ssa.Function, depth int)
	add = func(f *ssa.Function, depth int) {
		if f == nil || seen[f] {
			return
		}
		seen[f] = true
		if isWrapper(f) && depth < 4 {
			inner := wrapperTargets(P, f)
			if len(inner) > 0 {
				for _, g := range inner {
					add(g, depth+1)
				}
				return
			}
		}
		out = append(out, f)
	}
	for _, f := range raw {
		add(f, 0)
	}
	sort.Slice(out, func(i, j int) bool { return out[i].String() < out[j].String() })
	return out
}

func isWrapper(f *ssa.Function) bool {
	if f.Synthetic == "" {
		return false
	}
	s := f.Synthetic
	return strings.HasPrefix(s, "bound method wrapper") || strings.HasPrefix(s, "wrapper for") ||
		strings.HasPrefix(s, "thunk for") || strings.HasPrefix(s, "instantiation wrapper")
}

func wrapperTargets(P *Prog, f *ssa.Function) []*ssa.Function {
	var out []*ssa.Function
	for _, b := range f.Blocks {
		for _, in := range b.Instrs {
			if c, ok := in.(ssa.CallInstruction); ok {
				if sc := c.Common().StaticCallee(); sc != nil {
					out = append(out, sc)
				} else {
					out = append(out, P.siteCallees[c]...)
				}
			}
		}
	}
	return out
}

// isAnchor reports whether fn (or its generic origin) has the given anchor name
func isAnchor(fn *ssa.Function, anchors ...string) bool {
	a := anchorName(fn)
	for _, x := range anchors {
		if a == x {
			return true
		}
	}
	return false
}

// external package function identification, e.g. "sort.Strings", "(*sync.Mutex).Lock"
func extName(fn *ssa.Function) string {
	if fn == nil {
		return ""
	}
	o := fn
	if fn.Origin() != nil {
		o = fn.Origin()
	}
	return o.String()
}

// isUninstantiatedGeneric: a generic function (or a closure / method inside a
// generic) whose body still mentions type parameters
func isUninstantiatedGeneric(fn *ssa.Function) bool {
	for f := fn; f != nil; f = f.Parent() {
		if f.TypeParams().Len() > 0 && len(f.TypeArgs()) == 0 {
			return true
		}
	}
	return false
}
