package main

// Exactly-once analysis (F4): bounded path enumeration over a function's CFG
// (each block at most once per path, i.e. loops are cut at their back edges and
// loop bodies are analysed as regions of their own), with return-correlated
// callee summaries so that `if !f(x) { … }` picks the matching callee outcome.

import (
	"fmt"
	"go/constant"
	"go/token"
	"go/types"
	"sort"
	"strings"

	"golang.org/x/tools/go/ssa"
)

type CountSpec struct {
	P        *Prog
	Classes  []string
	Site     func(site ssa.CallInstruction) int // class index of a direct event, or -1
	Block    func(b *ssa.BasicBlock) int        // class index of an event tied to entering a block, or -1
	Instr    func(in ssa.Instruction) int       // class index of a non-call event instruction, or -1
	Descend  func(f *ssa.Function) bool         // analyse this callee's body
	MaxPaths int
	memo     map[*ssa.Function][]Outcome
	inProg   map[*ssa.Function]bool
	Paths    int
	Funcs    map[*ssa.Function]bool
}

type Outcome struct {
	Counts []int  // per class, capped at 2
	Ret    string // kind of the first bool/error result: true|false|nil|other|"" (none)
	Trail  string // witness
	End    ssa.Instruction
}

func (o Outcome) key() string {
	return fmt.Sprint(o.Counts) + "|" + o.Ret
}

func retKind(v ssa.Value) string {
	if k, ok := v.(*ssa.Const); ok {
		if k.IsNil() {
			return "nil"
		}
		if k.Value != nil && k.Value.Kind() == constant.Bool {
			if constant.BoolVal(k.Value) {
				return "true"
			}
			return "false"
		}
	}
	return "other"
}

// corrIdx: index of the result used for correlation (first bool, else first error), -1 if none
func corrIdx(fn *ssa.Function) int {
	res := fn.Signature.Results()
	for i := 0; i < res.Len(); i++ {
		if b, ok := res.At(i).Type().Underlying().(*types.Basic); ok && b.Kind() == types.Bool {
			return i
		}
	}
	for i := 0; i < res.Len(); i++ {
		if res.At(i).Type().String() == "error" {
			return i
		}
	}
	if res.Len() > 0 {
		switch res.At(0).Type().Underlying().(type) {
		case *types.Pointer, *types.Interface, *types.Slice, *types.Map, *types.Chan:
			return 0 // nil / non-nil
		}
	}
	return -1
}

type pathState struct {
	counts  []int
	known   map[ssa.Value]string // value -> "true"/"false"/"nil"/"nonnil"
	visited map[*ssa.BasicBlock]int
	trail   []*ssa.BasicBlock
}

func (s *pathState) clone() *pathState {
	n := &pathState{counts: append([]int{}, s.counts...), known: map[ssa.Value]string{}, visited: map[*ssa.BasicBlock]int{}}
	for k, v := range s.known {
		n.known[k] = v
	}
	for k, v := range s.visited {
		n.visited[k] = v
	}
	n.trail = append([]*ssa.BasicBlock{}, s.trail...)
	return n
}

func (cs *CountSpec) bump(st *pathState, cls int, n int) {
	if cls < 0 {
		return
	}
	st.counts[cls] += n
	if st.counts[cls] > 2 {
		st.counts[cls] = 2
	}
}

// evalCond: truth of cond under the path's knowledge: "true", "false" or ""
func evalCond(cond ssa.Value, known map[ssa.Value]string) string {
	neg := false
	v := cond
	for {
		if u, ok := v.(*ssa.UnOp); ok && u.Op.String() == "!" {
			v = u.X
			neg = !neg
			continue
		}
		break
	}
	flip := func(s string) string {
		if !neg {
			return s
		}
		switch s {
		case "true":
			return "false"
		case "false":
			return "true"
		}
		return s
	}
	if k, ok := known[v]; ok && (k == "true" || k == "false") {
		return flip(k)
	}
	if bo, ok := v.(*ssa.BinOp); ok {
		if em, ok := asEmptiness(bo); ok {
			if k, ok := known[em.X]; ok {
				isNil := k == "nil"
				if k == "nil" || k == "nonnil" {
					if isNil == em.EmptyOnTrue {
						return flip("true")
					}
					return flip("false")
				}
			}
		}
	}
	return ""
}

// Enum enumerates paths from start until a Return or an instruction satisfying stop.
func (cs *CountSpec) Enum(fn *ssa.Function, start Point, stop func(ssa.Instruction) bool) []Outcome {
	if cs.memo == nil {
		cs.memo = map[*ssa.Function][]Outcome{}
		cs.inProg = map[*ssa.Function]bool{}
		cs.Funcs = map[*ssa.Function]bool{}
	}
	if cs.MaxPaths == 0 {
		cs.MaxPaths = 200000
	}
	cs.Funcs[fn] = true
	outs := map[string]Outcome{}
	ci := corrIdx(fn)
	headers := map[*ssa.BasicBlock]*loop{}
	for _, lp := range naturalLoops(fn) {
		headers[lp.header] = lp
	}
	var walk func(p Point, st *pathState)
	finish := func(st *pathState, end ssa.Instruction, ret string) {
		cs.Paths++
		if cs.Paths > cs.MaxPaths {
			broken("path enumeration exceeded %d paths in %s", cs.MaxPaths, fn)
		}
		o := Outcome{Counts: append([]int{}, st.counts...), Ret: ret, Trail: cs.P.trailString(st.trail), End: end}
		if _, ok := outs[o.key()]; !ok {
			outs[o.key()] = o
		}
	}
	walk = func(p Point, st *pathState) {
		b := p.B
		exitOnly := false
		if p.I == 0 {
			if st.visited[b] >= 1 {
				// back edge: a loop header may be re-entered once, only to leave the loop
				lp := headers[b]
				if lp == nil || lp.exitIf == nil || st.visited[b] >= 2 {
					return
				}
				exitOnly = true
			}
			st.visited[b]++
			st.trail = append(st.trail, b)
			if cs.Block != nil {
				cs.bump(st, cs.Block(b), 1)
			}
		}
		for i := p.I; i < len(b.Instrs); i++ {
			in := b.Instrs[i]
			if stop != nil && stop(in) && !(i == p.I && p == start) {
				finish(st, in, "")
				return
			}
			if cs.P.isNoReturnCall(in) {
				return
			}
			if cs.Instr != nil {
				cs.bump(st, cs.Instr(in), 1)
			}
			switch x := in.(type) {
			case *ssa.Store:
				// result slots spilled because of a defer, and local variables: remember what the path stored
				if al, ok := x.Addr.(*ssa.Alloc); ok {
					if k := retKind(x.Val); k != "other" {
						st.known[al] = k
					} else if k2, ok := st.known[x.Val]; ok {
						st.known[al] = k2
					} else {
						delete(st.known, al)
					}
				}
			case *ssa.UnOp:
				if al, ok := x.X.(*ssa.Alloc); ok && x.Op == token.MUL {
					if k, ok := st.known[al]; ok {
						st.known[x] = k
					}
				}
			case *ssa.Return:
				ret := ""
				if ci >= 0 && ci < len(x.Results) {
					ret = retKind(x.Results[ci])
					if ret == "other" {
						// spilled results or propagated call results: use knowledge if any
						if k, ok := st.known[x.Results[ci]]; ok {
							ret = k
						}
					}
				}
				finish(st, in, ret)
				return
			case *ssa.Panic:
				return
			case *ssa.Call:
				forks := cs.callOutcomes(x)
				if forks == nil {
					if cls := cs.Site(x); cls >= 0 {
						cs.bump(st, cls, 1)
					}
					continue
				}
				for _, o := range forks {
					ns := st.clone()
					for c, n := range o.Counts {
						cs.bump(ns, c, n)
					}
					if o.Ret != "" && o.Ret != "other" {
						callee := x.Common().StaticCallee()
						idx := corrIdx(callee)
						rv := resultOf(x, idx)
						if rv != nil {
							k := o.Ret
							if k == "nil" || k == "true" || k == "false" {
								ns.known[rv] = k
							}
						}
					} else if o.Ret == "other" {
						callee := x.Common().StaticCallee()
						if idx := corrIdx(callee); idx >= 0 && callee.Signature.Results().At(idx).Type().String() == "error" {
							if rv := resultOf(x, idx); rv != nil {
								ns.known[rv] = "nonnil"
							}
						}
					}
					walk(Point{b, i + 1}, ns)
				}
				return
			case *ssa.RunDefers:
				for _, d := range deferredAt(x, true) {
					if cls := cs.Site(d); cls >= 0 {
						cs.bump(st, cls, 1)
					}
				}
			}
		}
		// successors
		if exitOnly {
			lp := headers[b]
			for _, sc := range b.Succs {
				if !lp.blocks[sc] {
					walk(Point{sc, 0}, st)
				}
			}
			return
		}
		if len(b.Succs) == 2 {
			if iff, ok := b.Instrs[len(b.Instrs)-1].(*ssa.If); ok {
				switch evalCond(iff.Cond, st.known) {
				case "true":
					walk(Point{b.Succs[0], 0}, st)
					return
				case "false":
					walk(Point{b.Succs[1], 0}, st)
					return
				}
			}
		}
		for i, s := range b.Succs {
			if i == len(b.Succs)-1 {
				walk(Point{s, 0}, st)
			} else {
				walk(Point{s, 0}, st.clone())
			}
		}
	}
	st := &pathState{counts: make([]int, len(cs.Classes)), known: map[ssa.Value]string{}, visited: map[*ssa.BasicBlock]int{}}
	walk(start, st)
	var l []Outcome
	for _, o := range outs {
		l = append(l, o)
	}
	sort.Slice(l, func(i, j int) bool { return l[i].key() < l[j].key() })
	return l
}

// callOutcomes: nil means "treat the call itself as a (possible) direct event";
// otherwise the outcomes of the statically known callee's body.
func (cs *CountSpec) callOutcomes(call *ssa.Call) []Outcome {
	callee := call.Common().StaticCallee()
	if callee == nil || callee.Blocks == nil {
		return nil
	}
	if cs.Site(call) >= 0 {
		return nil
	}
	if cs.Descend == nil || !cs.Descend(callee) {
		// a private helper of the function being enumerated (region.go) is part of it
		root := call.Parent()
		for root.Parent() != nil {
			root = root.Parent()
		}
		if !cs.P.helpersOf(root)[callee] && !cs.P.helpersOf(call.Parent())[callee] {
			return nil
		}
	}
	if o, ok := cs.memo[callee]; ok {
		return o
	}
	if cs.inProg[callee] {
		return nil
	}
	cs.inProg[callee] = true
	o := cs.Enum(callee, entryOf(callee), nil)
	delete(cs.inProg, callee)
	cs.memo[callee] = o
	return o
}

func (cs *CountSpec) describe(o Outcome) string {
	var parts []string
	for i, c := range cs.Classes {
		n := fmt.Sprint(o.Counts[i])
		if o.Counts[i] >= 2 {
			n = "≥2"
		}
		parts = append(parts, c+"="+n)
	}
	s := strings.Join(parts, " ")
	if o.Ret != "" {
		s += " returning " + o.Ret
	}
	return s + " (" + o.Trail + ")"
}
