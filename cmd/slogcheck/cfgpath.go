package main

// Instruction-granular path queries over a function's SSA control-flow graph.
// Everything here is path-INsensitive except for the explicit edge blocking a
// rule asks for (constant conditions, benign emptiness guards, branch edges).

import (
	"go/constant"
	"go/token"
	"go/types"
	"strconv"
	"strings"

	"golang.org/x/tools/go/ssa"
)

type Point struct {
	B *ssa.BasicBlock
	I int
}

func pointOf(in ssa.Instruction) Point {
	b := in.Block()
	for i, x := range b.Instrs {
		if x == in {
			return Point{b, i}
		}
	}
	broken("instruction not found in its block: %v", in)
	return Point{}
}

func after(in ssa.Instruction) Point {
	p := pointOf(in)
	p.I++
	return p
}

func entryOf(fn *ssa.Function) Point {
	if len(fn.Blocks) == 0 {
		broken("function %s has no body", fn)
	}
	return Point{fn.Blocks[0], 0}
}

// noReturnNames: calls that never return normally (they panic or exit)
func isNoReturnFn(f *ssa.Function) bool {
	if f == nil {
		return false
	}
	s := extName(f)
	switch s {
	case "os.Exit", "log.Fatal", "log.Fatalf", "log.Fatalln", "log.Panic", "log.Panicf", "log.Panicln",
		"github.com/relex/gotils/logger.Exit":
		return true
	}
	if strings.HasPrefix(s, "github.com/relex/gotils/logger.") || strings.HasPrefix(s, "(github.com/relex/gotils/logger.Logger).") {
		n := f.Name()
		return n == "Panic" || n == "Panicf" || n == "Fatal" || n == "Fatalf"
	}
	if strings.HasPrefix(s, "(*github.com/sirupsen/logrus.Entry).") || strings.HasPrefix(s, "(*github.com/sirupsen/logrus.Logger).") {
		n := f.Name()
		return strings.HasPrefix(n, "Panic") || strings.HasPrefix(n, "Fatal")
	}
	return false
}

func (P *Prog) isNoReturnCall(in ssa.Instruction) bool {
	c, ok := in.(*ssa.Call)
	if !ok {
		return false
	}
	if sc := c.Common().StaticCallee(); sc != nil {
		return isNoReturnFn(sc)
	}
	return false
}

// PathQ describes a reachability question inside one function, or — with Into — inside a function and the helpers it
// calls (region.go): a plain static call of a function in Into is followed into the callee's body and back to the
// instruction after the call, with a call stack, so paths are the real interprocedural paths of the region.
type PathQ struct {
	P           *Prog
	Barrier     func(ssa.Instruction) bool                   // a path may not pass this instruction
	EdgeBlocked func(from *ssa.BasicBlock, succIdx int) bool // a path may not take this edge
	PassNoRet   bool                                         // if false (default) panicking/exiting calls end a path
	Into        map[*ssa.Function]bool                       // helpers whose bodies are part of the paths
	Root        *ssa.Function                                // with Into: the function whose returns end a path
}

// frame: where a path continues when a helper returns. R >= 0: inside the RunDefers at B.Instrs[I], at deferred call #R.
type pqFrame struct {
	B    *ssa.BasicBlock
	I    int
	R    int
	Defs []*ssa.Defer // the caller's registered deferred helper calls
}

// Reach: is there a path from start (inclusive) to an instruction satisfying
// target, not passing a barrier or blocked edge? Returns the target reached and
// the block trail as a witness.
func (q *PathQ) Reach(start Point, target func(ssa.Instruction) bool) (ssa.Instruction, []*ssa.BasicBlock) {
	type item struct {
		p     Point
		r     int // >= 0: resume the RunDefers at p with deferred call #r
		stack []pqFrame
		defs  []*ssa.Defer // deferred helper calls registered so far in the current function, in order
		trail []*ssa.BasicBlock
	}
	type vkey struct {
		b     *ssa.BasicBlock
		i, r  int
		stack string
	}
	defsKey := func(ds []*ssa.Defer) string {
		if len(ds) == 0 {
			return ""
		}
		var sb strings.Builder
		for _, d := range ds {
			sb.WriteString(strconv.Itoa(int(d.Pos())))
			sb.WriteByte(',')
		}
		return sb.String()
	}
	stackKey := func(st []pqFrame) string {
		if len(st) == 0 {
			return ""
		}
		var sb strings.Builder
		for _, f := range st {
			sb.WriteString(strconv.Itoa(f.B.Index))
			sb.WriteByte('.')
			sb.WriteString(strconv.Itoa(f.I))
			sb.WriteByte('.')
			sb.WriteString(strconv.Itoa(f.R))
			sb.WriteByte('@')
			sb.WriteString(f.B.Parent().Name())
			sb.WriteByte('[')
			sb.WriteString(defsKey(f.Defs))
			sb.WriteByte(']')
			sb.WriteByte(';')
		}
		return sb.String()
	}
	onStack := func(st []pqFrame, f *ssa.Function) bool {
		for _, fr := range st {
			if fr.B.Parent() == f {
				return true
			}
		}
		return false
	}
	visited := map[vkey]bool{}
	// a start in the middle of a function: the deferred helper calls that may be pending are those registered before
	var startDefs []*ssa.Defer
	if q.Into != nil && !(start.B.Index == 0 && start.I == 0) {
		eachInstr(start.B.Parent(), func(x ssa.Instruction) {
			if d, ok := x.(*ssa.Defer); ok {
				if g := d.Common().StaticCallee(); g != nil && q.Into[g] {
					dp := pointOf(d)
					if (dp.B == start.B && dp.I < start.I) || (dp.B != start.B && dp.B.Dominates(start.B)) {
						startDefs = append(startDefs, d)
					}
				}
			}
		})
	}
	work := []item{{start, -1, nil, startDefs, []*ssa.BasicBlock{start.B}}}
	push := func(it item) { work = append(work, it) }
	enter := func(it item, callee *ssa.Function, ret pqFrame) {
		ret.Defs = it.defs
		st := append(append([]pqFrame{}, it.stack...), ret)
		tr := append(append([]*ssa.BasicBlock{}, it.trail...), callee.Blocks[0])
		push(item{Point{callee.Blocks[0], 0}, -1, st, nil, tr})
	}
	for len(work) > 0 {
		it := work[len(work)-1]
		work = work[:len(work)-1]
		k := vkey{it.p.B, it.p.I, it.r, stackKey(it.stack) + "|" + defsKey(it.defs)}
		if visited[k] {
			continue
		}
		visited[k] = true
		b := it.p.B
		stopped := false
		for i := it.p.I; i < len(b.Instrs) && !stopped; i++ {
			in := b.Instrs[i]
			resume := -1
			if i == it.p.I && it.r >= 0 {
				resume = it.r // back from a deferred helper: go on with the next deferred call
			}
			if resume < 0 {
				if _, isRet := in.(*ssa.Return); isRet && q.Into != nil && b.Parent() != q.Root && q.Root != nil {
					// a helper's return is not an event of the region: go back to the caller
					if n := len(it.stack); n > 0 {
						fr := it.stack[n-1]
						tr := append(append([]*ssa.BasicBlock{}, it.trail...), fr.B)
						push(item{Point{fr.B, fr.I}, fr.R, it.stack[:n-1], fr.Defs, tr})
					} else {
						// started inside the helper: continue after every call of it in the region
						for _, site := range q.regionSitesOf(b.Parent()) {
							sp := pointOf(site)
							if _, isDefer := site.(*ssa.Defer); isDefer {
								eachInstr(site.Parent(), func(x ssa.Instruction) {
									if rd, ok := x.(*ssa.RunDefers); ok {
										rp := pointOf(rd)
										push(item{Point{rp.B, rp.I + 1}, -1, nil, nil, append(append([]*ssa.BasicBlock{}, it.trail...), rp.B)})
									}
								})
								continue
							}
							push(item{Point{sp.B, sp.I + 1}, -1, nil, nil, append(append([]*ssa.BasicBlock{}, it.trail...), sp.B)})
						}
					}
					stopped = true
					break
				}
				if target(in) {
					return in, it.trail
				}
				if q.Barrier != nil && q.Barrier(in) {
					stopped = true
					break
				}
				if !q.PassNoRet && q.P.isNoReturnCall(in) {
					stopped = true
					break
				}
			}
			if q.Into == nil {
				continue
			}
			switch x := in.(type) {
			case *ssa.Call:
				if g := x.Common().StaticCallee(); g != nil && q.Into[g] && len(it.stack) < 5 && !onStack(it.stack, g) && g != b.Parent() {
					enter(it, g, pqFrame{B: b, I: i + 1, R: -1})
					stopped = true
				}
			case *ssa.Defer:
				if g := x.Common().StaticCallee(); g != nil && q.Into[g] {
					it.defs = append(append([]*ssa.Defer{}, it.defs...), x)
				}
			case *ssa.RunDefers:
				// the deferred helper calls registered on this path, last first
				from := 0
				if resume >= 0 {
					from = resume
				}
				for j := from; j < len(it.defs); j++ {
					d := it.defs[len(it.defs)-1-j]
					if g := d.Common().StaticCallee(); g != nil && len(it.stack) < 5 && !onStack(it.stack, g) && g != b.Parent() {
						enter(it, g, pqFrame{B: b, I: i, R: j + 1})
						stopped = true
						break
					}
				}
			}
		}
		if stopped {
			continue
		}
		for si, s := range b.Succs {
			if q.EdgeBlocked != nil && q.EdgeBlocked(b, si) {
				continue
			}
			tr := append(append([]*ssa.BasicBlock{}, it.trail...), s)
			push(item{Point{s, 0}, -1, it.stack, it.defs, tr})
		}
	}
	return nil, nil
}

// regionSitesOf: the call sites of helper g inside the region (root and helpers)
func (q *PathQ) regionSitesOf(g *ssa.Function) []ssa.CallInstruction {
	var out []ssa.CallInstruction
	fns := []*ssa.Function{q.Root}
	for h := range q.Into {
		fns = append(fns, h)
	}
	for _, f := range fns {
		for _, a := range withAnons(f) {
			for _, s := range callsIn(a) {
				if s.Common().StaticCallee() == g {
					out = append(out, s)
				}
			}
		}
	}
	return out
}

func isReturn(in ssa.Instruction) bool {
	_, ok := in.(*ssa.Return)
	return ok
}

func (P *Prog) trailString(tr []*ssa.BasicBlock) string {
	var sb strings.Builder
	lastLine := -1
	for _, b := range tr {
		// first instruction with a position
		for _, in := range b.Instrs {
			if in.Pos().IsValid() {
				_, ln := P.posLine(in.Pos())
				if ln != lastLine {
					if sb.Len() > 0 {
						sb.WriteString("→")
					}
					sb.WriteString(itoa(ln))
					lastLine = ln
				}
				break
			}
		}
	}
	return "lines " + sb.String()
}

func itoa(i int) string { return strconv.Itoa(i) }

// ---- instruction helpers

func eachInstr(fn *ssa.Function, f func(ssa.Instruction)) {
	for _, b := range fn.Blocks {
		for _, in := range b.Instrs {
			f(in)
		}
	}
}

// withAnons yields fn and all (transitively) nested anonymous functions
func withAnons(fn *ssa.Function) []*ssa.Function {
	out := []*ssa.Function{fn}
	for _, a := range fn.AnonFuncs {
		out = append(out, withAnons(a)...)
	}
	return out
}

func callsIn(fn *ssa.Function) []ssa.CallInstruction {
	var out []ssa.CallInstruction
	eachInstr(fn, func(in ssa.Instruction) {
		if c, ok := in.(ssa.CallInstruction); ok {
			out = append(out, c)
		}
	})
	return out
}

// deferred calls executed by a RunDefers instruction, in execution (LIFO) order.
// must=true keeps only those whose defer statement dominates the RunDefers.
func deferredAt(rd *ssa.RunDefers, must bool) []*ssa.Defer {
	fn := rd.Parent()
	var ds []*ssa.Defer
	eachInstr(fn, func(in ssa.Instruction) {
		if d, ok := in.(*ssa.Defer); ok {
			if !must || dominatesInstr(d, rd) {
				ds = append(ds, d)
			}
		}
	})
	// reverse source order (approximation of LIFO for straight-line registration)
	for i, j := 0, len(ds)-1; i < j; i, j = i+1, j-1 {
		ds[i], ds[j] = ds[j], ds[i]
	}
	return ds
}

func dominatesInstr(a, b ssa.Instruction) bool {
	if a.Block() == b.Block() {
		return pointOf(a).I < pointOf(b).I
	}
	return a.Block().Dominates(b.Block())
}

// strip looks through conversions that do not change identity
func strip(v ssa.Value) ssa.Value {
	for {
		switch x := v.(type) {
		case *ssa.ChangeType:
			v = x.X
		case *ssa.ChangeInterface:
			v = x.X
		case *ssa.MakeInterface:
			v = x.X
		case *ssa.Convert:
			// only identity-preserving conversions between named/unnamed of same underlying
			if types.Identical(x.X.Type().Underlying(), x.Type().Underlying()) {
				v = x.X
			} else {
				return v
			}
		default:
			return v
		}
	}
}

// singleStore: if addr is an Alloc (cell) with exactly one Store in its function
// (and its closures), return the stored value.
func singleStore(addr ssa.Value) (ssa.Value, bool) {
	al, ok := addr.(*ssa.Alloc)
	if !ok {
		return nil, false
	}
	var stores []*ssa.Store
	for _, ref := range *al.Referrers() {
		switch r := ref.(type) {
		case *ssa.Store:
			if r.Addr == al {
				stores = append(stores, r)
			} else {
				return nil, false // address escapes by being stored
			}
		case *ssa.MakeClosure:
			// closures may store through the free variable
			for i, b := range r.Bindings {
				if b == al {
					cf := r.Fn.(*ssa.Function)
					if freeVarStored(cf, cf.FreeVars[i]) {
						return nil, false
					}
				}
			}
		case *ssa.UnOp, *ssa.DebugRef, *ssa.FieldAddr, *ssa.IndexAddr:
			// loads / derived addresses: ok (derived stores are not tracked -> conservative below)
			if fa, ok := r.(*ssa.FieldAddr); ok && addrStored(fa) {
				return nil, false
			}
			if ia, ok := r.(*ssa.IndexAddr); ok && addrStored(ia) {
				return nil, false
			}
		case *ssa.Call, *ssa.Go, *ssa.Defer:
			return nil, false
		default:
			return nil, false
		}
	}
	if len(stores) == 1 {
		return stores[0].Val, true
	}
	return nil, false
}

func addrStored(a ssa.Value) bool {
	for _, ref := range *a.Referrers() {
		if st, ok := ref.(*ssa.Store); ok && st.Addr == a {
			return true
		}
	}
	return false
}

func freeVarStored(fn *ssa.Function, fv *ssa.FreeVar) bool {
	for _, ref := range *fv.Referrers() {
		switch r := ref.(type) {
		case *ssa.Store:
			if r.Addr == fv {
				return true
			}
		case *ssa.MakeClosure:
			for i, b := range r.Bindings {
				if b == fv {
					cf := r.Fn.(*ssa.Function)
					if freeVarStored(cf, cf.FreeVars[i]) {
						return true
					}
				}
			}
		}
	}
	return false
}

// resolve looks through loads of single-store cells and free variables bound to
// such cells (closure captured variables), and identity conversions.
func resolve(v ssa.Value) ssa.Value {
	for i := 0; i < 20; i++ {
		v = strip(v)
		switch x := v.(type) {
		case *ssa.UnOp:
			if x.Op != token.MUL {
				return v
			}
			addr := strip(x.X)
			if fv, ok := addr.(*ssa.FreeVar); ok {
				if b := freeVarBinding(fv); b != nil {
					addr = b
				}
			}
			if sv, ok := singleStore(addr); ok {
				v = sv
				continue
			}
			return v
		case *ssa.FreeVar:
			if b := freeVarBinding(x); b != nil {
				v = b
				continue
			}
			return v
		default:
			return v
		}
	}
	return v
}

// freeVarBinding finds the value bound to a free variable when its closure is
// created at exactly one MakeClosure site.
func freeVarBinding(fv *ssa.FreeVar) ssa.Value {
	fn := fv.Parent()
	idx := -1
	for i, f := range fn.FreeVars {
		if f == fv {
			idx = i
		}
	}
	if idx < 0 || fn.Parent() == nil {
		return nil
	}
	var found ssa.Value
	n := 0
	for _, pf := range withAnons(fn.Parent()) {
		eachInstr(pf, func(in ssa.Instruction) {
			if mc, ok := in.(*ssa.MakeClosure); ok && mc.Fn == fn {
				found = mc.Bindings[idx]
				n++
			}
		})
	}
	if n == 1 {
		return found
	}
	return nil
}

// ---- conditions

// nilCompare: v is `x == nil` / `x != nil` (also len(x)==0 forms when lenToo)
type emptiness struct {
	X           ssa.Value // the value tested
	EmptyOnTrue bool      // cond true means "X is nil/empty"
}

func asEmptiness(cond ssa.Value) (emptiness, bool) {
	neg := false
	for {
		if u, ok := cond.(*ssa.UnOp); ok && u.Op == token.NOT {
			cond = u.X
			neg = !neg
			continue
		}
		break
	}
	b, ok := cond.(*ssa.BinOp)
	if !ok {
		return emptiness{}, false
	}
	isZero := func(v ssa.Value) bool {
		c, ok := v.(*ssa.Const)
		if !ok {
			return false
		}
		if c.IsNil() {
			return true
		}
		if c.Value != nil && c.Value.Kind() == constant.Int {
			if i, ok := constant.Int64Val(c.Value); ok && i == 0 {
				return true
			}
		}
		if c.Value != nil && c.Value.Kind() == constant.String && constant.StringVal(c.Value) == "" {
			return true
		}
		return false
	}
	var x ssa.Value
	op := b.Op
	switch {
	case isZero(b.Y):
		x = b.X
	case isZero(b.X):
		x = b.Y
		// mirror the operator
		switch op {
		case token.LSS:
			op = token.GTR
		case token.GTR:
			op = token.LSS
		case token.LEQ:
			op = token.GEQ
		case token.GEQ:
			op = token.LEQ
		}
	default:
		return emptiness{}, false
	}
	// len(y) form
	if c, ok := x.(*ssa.Call); ok {
		if bi, ok := c.Call.Value.(*ssa.Builtin); ok && bi.Name() == "len" {
			x = c.Call.Args[0]
		}
	}
	var emptyOnTrue bool
	switch op {
	case token.EQL, token.LEQ:
		emptyOnTrue = true
	case token.NEQ, token.GTR:
		emptyOnTrue = false
	default:
		return emptiness{}, false
	}
	if neg {
		emptyOnTrue = !emptyOnTrue
	}
	return emptiness{X: x, EmptyOnTrue: emptyOnTrue}, true
}

// roots: backward slice of v down to parameters, free variables, globals,
// allocations, calls and other opaque values. Loads, field selections, index
// expressions, builtin len/cap and arithmetic are looked through.
func roots(v ssa.Value, out map[ssa.Value]bool) {
	seen := map[ssa.Value]bool{}
	var walk func(v ssa.Value)
	walk = func(v ssa.Value) {
		v = resolve(v)
		if seen[v] {
			return
		}
		seen[v] = true
		switch x := v.(type) {
		case *ssa.Const:
		case *ssa.UnOp:
			walk(x.X)
		case *ssa.FieldAddr:
			walk(x.X)
		case *ssa.Field:
			walk(x.X)
		case *ssa.IndexAddr:
			walk(x.X)
		case *ssa.Index:
			walk(x.X)
		case *ssa.Slice:
			walk(x.X)
		case *ssa.BinOp:
			walk(x.X)
			walk(x.Y)
		case *ssa.Extract:
			walk(x.Tuple)
		case *ssa.Phi:
			for _, e := range x.Edges {
				walk(e)
			}
		case *ssa.Call:
			if bi, ok := x.Call.Value.(*ssa.Builtin); ok && (bi.Name() == "len" || bi.Name() == "cap") {
				walk(x.Call.Args[0])
				return
			}
			out[v] = true
		default:
			out[v] = true
		}
	}
	walk(v)
}

func rootsOfCall(c ssa.CallInstruction) map[ssa.Value]bool {
	out := map[ssa.Value]bool{}
	cc := c.Common()
	if cc.IsInvoke() {
		deepRoots(cc.Value, out)
	} else if _, ok := cc.Value.(*ssa.Function); !ok {
		if _, ok := cc.Value.(*ssa.Builtin); !ok {
			deepRoots(cc.Value, out)
		}
	}
	for _, a := range cc.Args {
		deepRoots(a, out)
	}
	return out
}

// emptinessGuardEdges returns, for every If in fn whose condition is a
// nil/empty test of a value whose roots are all within `allowed`, the edge
// (block, succ index) taken when the value IS empty. Rules block these edges
// before asking whether a required call can be bypassed.
func emptinessGuardEdges(fn *ssa.Function, allowed map[ssa.Value]bool) map[*ssa.BasicBlock]int {
	out := map[*ssa.BasicBlock]int{}
	for _, b := range fn.Blocks {
		if len(b.Instrs) == 0 {
			continue
		}
		iff, ok := b.Instrs[len(b.Instrs)-1].(*ssa.If)
		if !ok {
			continue
		}
		em, ok := asEmptiness(iff.Cond)
		if !ok {
			continue
		}
		rs := map[ssa.Value]bool{}
		roots(em.X, rs)
		if len(rs) == 0 {
			continue
		}
		okAll := true
		for r := range rs {
			if !allowed[r] {
				okAll = false
			}
		}
		if !okAll {
			continue
		}
		if em.EmptyOnTrue {
			out[b] = 0
		} else {
			out[b] = 1
		}
	}
	return out
}

// constBool evaluates v to a boolean constant under env (values known constant)
func constBool(v ssa.Value, env map[ssa.Value]bool) (bool, bool) {
	return constBoolD(v, env, map[ssa.Value]bool{})
}

func constBoolD(v ssa.Value, env map[ssa.Value]bool, seen map[ssa.Value]bool) (bool, bool) {
	v = resolve(v)
	if b, ok := env[v]; ok {
		return b, true
	}
	if seen[v] {
		return false, false
	}
	seen[v] = true
	switch x := v.(type) {
	case *ssa.Const:
		if x.Value != nil && x.Value.Kind() == constant.Bool {
			return constant.BoolVal(x.Value), true
		}
	case *ssa.UnOp:
		if x.Op == token.NOT {
			if b, ok := constBoolD(x.X, env, seen); ok {
				return !b, true
			}
		}
	case *ssa.Phi:
		// short-circuit && / ||: all edges known and equal
		var val, have = false, false
		for i, e := range x.Edges {
			// an operand that arrives from a block which the constants make unreachable does not count: in
			// `!flag && cond` with flag = true the block computing cond is entered only on the not-taken edge
			if pb := x.Block().Preds[i]; len(pb.Preds) == 1 {
				q := pb.Preds[0]
				if iff, isIf := q.Instrs[len(q.Instrs)-1].(*ssa.If); isIf && !seen[iff.Cond] {
					if cv, known := constBoolD(iff.Cond, env, seen); known {
						taken := 1
						if cv {
							taken = 0
						}
						if q.Succs[taken] != pb && q.Succs[1-taken] == pb {
							continue
						}
					}
				}
			}
			b, ok := constBoolD(e, env, seen)
			if !ok {
				return false, false
			}
			if have && b != val {
				return false, false
			}
			val, have = b, true
		}
		return val, have
	}
	return false, false
}

// constEdgeBlocker blocks the not-taken edge of every If whose condition is
// constant under env.
func constEdgeBlocker(env map[ssa.Value]bool) func(*ssa.BasicBlock, int) bool {
	return func(b *ssa.BasicBlock, si int) bool {
		iff, ok := b.Instrs[len(b.Instrs)-1].(*ssa.If)
		if !ok {
			return false
		}
		if v, ok := constBool(iff.Cond, env); ok {
			if v {
				return si == 1
			}
			return si == 0
		}
		return false
	}
}

func orEdge(fs ...func(*ssa.BasicBlock, int) bool) func(*ssa.BasicBlock, int) bool {
	return func(b *ssa.BasicBlock, si int) bool {
		for _, f := range fs {
			if f != nil && f(b, si) {
				return true
			}
		}
		return false
	}
}

func edgeSet(m map[*ssa.BasicBlock]int) func(*ssa.BasicBlock, int) bool {
	return func(b *ssa.BasicBlock, si int) bool {
		v, ok := m[b]
		return ok && v == si
	}
}

// derivationChain: v and everything it is derived from by loads, field / element selection, re-slicing, len(), tuple
// extraction and phi edges — the access path of v up to its root
func derivationChain(v ssa.Value) map[ssa.Value]bool {
	out := map[ssa.Value]bool{}
	var walk func(v ssa.Value, d int)
	walk = func(v ssa.Value, d int) {
		if v == nil || d > 30 {
			return
		}
		r := resolve(v)
		if out[r] && out[v] {
			return
		}
		out[v], out[r] = true, true
		switch x := r.(type) {
		case *ssa.UnOp:
			walk(x.X, d+1)
		case *ssa.FieldAddr:
			walk(x.X, d+1)
		case *ssa.Field:
			walk(x.X, d+1)
		case *ssa.IndexAddr:
			walk(x.X, d+1)
		case *ssa.Index:
			walk(x.X, d+1)
		case *ssa.Slice:
			walk(x.X, d+1)
		case *ssa.Extract:
			walk(x.Tuple, d+1)
		case *ssa.Next:
			walk(x.Iter, d+1)
		case *ssa.Range:
			walk(x.X, d+1)
		case *ssa.MakeInterface:
			walk(x.X, d+1)
		case *ssa.ChangeType:
			walk(x.X, d+1)
		case *ssa.Convert:
			walk(x.X, d+1)
		case *ssa.Phi:
			for _, e := range x.Edges {
				walk(e, d+1)
			}
		case *ssa.Call:
			if bi, ok := x.Call.Value.(*ssa.Builtin); ok {
				if bi.Name() == "len" || bi.Name() == "cap" {
					walk(x.Call.Args[0], d+1)
				}
				return
			}
			// a value computed from its arguments (strings.Split(id, ","), a conversion helper): derived from them
			for _, a := range x.Call.Args {
				walk(a, d+1)
			}
			if x.Call.IsInvoke() {
				walk(x.Call.Value, d+1)
			}
		}
	}
	walk(v, 0)
	return out
}

// pathRelated: one of the two values lies on the access path of the other (the tested value is the operand, a part of
// the operand, or what the operand is taken from) — sharing only a root object (two different fields of the receiver)
// does not count
func pathRelated(tested ssa.Value, operand ssa.Value) bool {
	ct, co := derivationChain(tested), derivationChain(operand)
	rt, ro := resolve(tested), resolve(operand)
	isRoot := func(v ssa.Value) bool {
		switch v.(type) {
		case *ssa.Parameter, *ssa.FreeVar, *ssa.Global:
			return true
		}
		return false
	}
	// the operand is (part of) what is tested, or the tested value is (part of) the operand; a bare root on the *tested*
	// side ("recv != nil") is as good as before, a bare root on the operand side relates everything below it and is
	// accepted only when the operand really is that root
	if co[rt] || co[tested] {
		return true
	}
	if ct[ro] || ct[operand] {
		return true
	}
	// the same access path reached through two loads (`if w.onStop != nil { w.onStop() }`): compare canonical paths,
	// bare roots excluded
	canonSet := func(m map[ssa.Value]bool) map[string]bool {
		out := map[string]bool{}
		for v := range m {
			if isRoot(resolve(v)) {
				continue
			}
			if _, isK := v.(*ssa.Const); isK {
				continue
			}
			if s := canonOf(v); s != "" && s != "?" {
				out[s] = true
			}
		}
		return out
	}
	st, so := canonSet(ct), canonSet(co)
	if so[canonOf(tested)] || st[canonOf(operand)] {
		return true
	}
	return false
}

// emptinessGuardEdgesFor is emptinessGuardEdges for the operands of the given calls: the tested value must be path-related
// to an operand of one of them, not merely share its root object
func emptinessGuardEdgesFor(fn *ssa.Function, calls []ssa.CallInstruction) map[*ssa.BasicBlock]int {
	allowed := map[ssa.Value]bool{}
	var operands []ssa.Value
	for _, c := range calls {
		for r := range rootsOfCall(c) {
			allowed[r] = true
		}
		cc := c.Common()
		if cc.IsInvoke() {
			operands = append(operands, cc.Value)
		} else if _, ok := cc.Value.(*ssa.Function); !ok {
			if _, ok := cc.Value.(*ssa.Builtin); !ok {
				operands = append(operands, cc.Value)
			}
		}
		operands = append(operands, cc.Args...)
	}
	coarse := emptinessGuardEdges(fn, allowed)
	out := map[*ssa.BasicBlock]int{}
	for b, si := range coarse {
		iff := b.Instrs[len(b.Instrs)-1].(*ssa.If)
		em, _ := asEmptiness(iff.Cond)
		for _, op := range operands {
			if pathRelated(em.X, op) {
				out[b] = si
				break
			}
		}
	}
	return out
}
