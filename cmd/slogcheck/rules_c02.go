package main

// C02 Upstream client confirms a chunk only after its ACK and never loses one.

import (
	"fmt"
	"go/constant"
	"go/token"
	"go/types"
	"sort"
	"strings"

	"golang.org/x/tools/go/ssa"
)

const (
	aRunAcker    = "output/baseoutput.(*clientSession).runAcknowledger"
	aSessRun     = "output/baseoutput.(*clientSession).Run"
	aResend      = "output/baseoutput.(*clientSession).resendLeftovers"
	aProcInput   = "output/baseoutput.(*clientSession).processInput"
	aSendChunk   = "output/baseoutput.(*clientSession).sendChunk"
	aSendPing    = "output/baseoutput.(*clientSession).sendPing"
	aCollect     = "output/baseoutput.(*clientSession).collectLeftovers"
	aNewLeftChan = "output/baseoutput.newLeftoverChannel"
	aNewSession  = "output/baseoutput.newClientSession"
	aCWRun       = "output/baseoutput.(*ClientWorker).run"
	aCWRunSess   = "output/baseoutput.(*ClientWorker).runSession"
	aNewCW       = "output/baseoutput.NewClientWorker"
	aCollectChan = "util.CollectFromChannel"

	fAcked     = "output/baseoutput.clientSession.onChunkAcked"
	fAckerChan = "output/baseoutput.clientSession.ackerChan"
	fLastChunk = "output/baseoutput.clientSession.lastChunk"
	fUnacked   = "output/baseoutput.clientSession.unacked"
	fAbortConn = "output/baseoutput.clientSession.abortConn"
	fAckerEnd  = "output/baseoutput.clientSession.ackerEnded"
	fAckerAbrt = "output/baseoutput.clientSession.ackerAbort"
	fSessInput = "output/baseoutput.clientSession.inputChannel"
	iConn      = "output/baseoutput.ClientConnection"
)

func init() {
	for i, r := range []ruleFn{ruleC02R1, ruleC02R2, ruleC02R3, ruleC02R4, ruleC02R5, ruleC02R6, ruleC02R7, ruleC02R8, ruleC02R9} {
		register("C02", fmt.Sprintf("C02.R%d", i+1), r)
	}
	propExplanation["C02"] = "Decides, on every path of the forwarding client's functions: the delivered-callback is only called in the acknowledger after a successful ACK read of the same iteration (R1) " +
		"with an argument that is the chunk designated by that ACK (R2); a chunk is queued for ACK only after a nil-error send and is recorded before the ACK read (R3); " +
		"the chunk in flight is remembered until queued (R4); collectLeftovers merges every chunk holder of the session, enumerated from the types (R5); " +
		"every session result is a collectLeftovers result and the stop order close→abort→wait→read holds (R6); leftovers reach the leftover callback before OnFinished (R7); " +
		"resend precedes new input (R8); every I/O error aborts the connection (R9). Not decided: exactly-once under real interleavings, retransmission until acknowledged."
	propAssumptions["C02"] = []string{
		"each goroutine's own paths are analysed; happens-before between sender and acknowledger is only covered through the close/abort/wait order of R6",
		"ClientConnection implementations honour their contract (ReadChunkAck returns the id of an acknowledged chunk or \"\" for in-order)",
	}
}

// mentions: backward walk over everything v is computed from (operands, call
// arguments, values stored into local allocations, phi edges)
func mentions(v ssa.Value, pred func(ssa.Value) bool) bool {
	seen := map[ssa.Value]bool{}
	var walk func(v ssa.Value, d int) bool
	walk = func(v ssa.Value, d int) bool {
		if v == nil || seen[v] || d > 40 {
			return false
		}
		seen[v] = true
		if pred(v) {
			return true
		}
		if al, ok := v.(*ssa.Alloc); ok {
			for _, ref := range *al.Referrers() {
				if st, ok := ref.(*ssa.Store); ok && st.Addr == al {
					if walk(st.Val, d+1) {
						return true
					}
				}
				// stores through derived addresses (array elements / fields)
				if ia, ok := ref.(*ssa.IndexAddr); ok {
					for _, r2 := range *ia.Referrers() {
						if st, ok := r2.(*ssa.Store); ok && st.Addr == ia && walk(st.Val, d+1) {
							return true
						}
					}
				}
			}
		}
		if fv, ok := v.(*ssa.FreeVar); ok {
			if b := freeVarBinding(fv); b != nil {
				return walk(b, d+1)
			}
		}
		in, ok := v.(ssa.Instruction)
		if !ok {
			return false
		}
		var ops []*ssa.Value
		for _, op := range in.Operands(ops) {
			if op != nil && *op != nil && walk(*op, d+1) {
				return true
			}
		}
		return false
	}
	return walk(v, 0)
}

func isFieldAddrOf(field string) func(ssa.Value) bool {
	return func(v ssa.Value) bool {
		if fa, ok := v.(*ssa.FieldAddr); ok {
			return fieldName(fa.X.Type(), fa.Field) == field
		}
		if f, ok := v.(*ssa.Field); ok {
			return fieldName(f.X.Type(), f.Field) == field
		}
		return false
	}
}

// boolEdge: edges taken when boolean value v has the wanted truth value
func boolEdges(v ssa.Value, want bool) map[*ssa.BasicBlock]int {
	out := map[*ssa.BasicBlock]int{}
	var visit func(v ssa.Value, want bool)
	visit = func(v ssa.Value, want bool) {
		if v.Referrers() == nil {
			return
		}
		for _, ref := range *v.Referrers() {
			switch r := ref.(type) {
			case *ssa.If:
				if want {
					out[r.Block()] = 0
				} else {
					out[r.Block()] = 1
				}
			case *ssa.UnOp:
				if r.Op == token.NOT {
					visit(r, !want)
				}
			}
		}
	}
	visit(v, want)
	return out
}

// nilEdges: edges taken when v == nil (want=true) or v != nil (want=false)
func nilEdges(v ssa.Value, wantNil bool) map[*ssa.BasicBlock]int {
	out := map[*ssa.BasicBlock]int{}
	if v == nil || v.Referrers() == nil {
		return out
	}
	for _, ref := range *v.Referrers() {
		bo, ok := ref.(*ssa.BinOp)
		if !ok {
			continue
		}
		em, ok := asEmptiness(bo)
		if !ok {
			continue
		}
		for b, si := range boolEdges(bo, em.EmptyOnTrue == wantNil) {
			out[b] = si
		}
	}
	return out
}

func succPoint(b *ssa.BasicBlock, si int) Point { return Point{b.Succs[si], 0} }

// ---- R1

func ruleC02R1(c *Ctx) {
	// who may touch the callback field
	n := 0
	for _, fn := range c.P.universe {
		for _, in := range fieldAccesses(fn, fAcked) {
			n++
			name := anchorName(fn)
			c.check(name == aRunAcker || name == aNewSession, "C02.R1", fn, "access to clientSession.onChunkAcked", in.Pos(),
				"the delivered-callback is only set in newClientSession and used in runAcknowledger", "clientSession.onChunkAcked accessed outside newClientSession/runAcknowledger")
		}
	}
	c.floor("C02.R1", "accesses of clientSession.onChunkAcked", n, 2)
	fn := c.P.Fn(aRunAcker)
	acks := sitesWhere(fn, func(s ssa.CallInstruction) bool { return fieldCallOf(s, fAcked) })
	reads := sitesWhere(fn, func(s ssa.CallInstruction) bool { return invokeOf(s, iConn, "ReadChunkAck") })
	if len(acks) == 0 || len(reads) != 1 {
		c.bad("C02.R1", fn, "ack callback after successful ReadChunkAck", fn.Pos(), fmt.Sprintf("expected one ReadChunkAck and at least one callback site, found %d / %d", len(reads), len(acks)))
		return
	}
	read := reads[0]
	errv := resultOf(read.Value(), 1)
	nilE := nilEdges(errv, true)
	if len(nilE) == 0 {
		c.bad("C02.R1", fn, "ack callback after successful ReadChunkAck", read.Pos(), "the error result of ReadChunkAck is not tested against nil")
		return
	}
	lp := loopOf(fn, read.Block())
	for _, a := range acks {
		okIter := true
		why := ""
		// (1) in this iteration: no path from the loop header to the callback avoiding the read
		start := entryOf(fn)
		if lp != nil {
			start = Point{lp.header, 0}
		}
		q := &PathQ{P: c.P, Barrier: func(in ssa.Instruction) bool { return in == read.(ssa.Instruction) }}
		if hit, tr := q.Reach(start, func(in ssa.Instruction) bool { return in == a.(ssa.Instruction) }); hit != nil {
			okIter, why = false, "the callback is reachable in an iteration without a ReadChunkAck: "+c.P.trailString(tr)
		}
		// (2) from the read, only through the err == nil edge
		nonNil := map[*ssa.BasicBlock]int{}
		for b, si := range nilE {
			nonNil[b] = 1 - si
		}
		q2 := &PathQ{P: c.P, EdgeBlocked: edgeSet(nilE), Barrier: func(in ssa.Instruction) bool { return lp != nil && in == lp.header.Instrs[0] }}
		if hit, tr := q2.Reach(after(read), func(in ssa.Instruction) bool { return in == a.(ssa.Instruction) }); hit != nil {
			okIter, why = false, "the callback is reachable from ReadChunkAck without taking the err == nil edge: "+c.P.trailString(tr)
		}
		c.check(okIter, "C02.R1", fn, "ack callback after successful ReadChunkAck", a.Pos(),
			"every path to the callback passes ReadChunkAck of the same iteration and its err == nil edge", why)
	}
}

// ---- R2: which chunk is confirmed

func ruleC02R2(c *Ctx) {
	fn := c.P.Fn(aRunAcker)
	acks := sitesWhere(fn, func(s ssa.CallInstruction) bool { return fieldCallOf(s, fAcked) })
	reads := sitesWhere(fn, func(s ssa.CallInstruction) bool { return invokeOf(s, iConn, "ReadChunkAck") })
	if len(acks) != 1 || len(reads) != 1 {
		c.bad("C02.R2", fn, "callback argument provenance", fn.Pos(), "expected exactly one callback site and one ReadChunkAck")
		return
	}
	ack, read := acks[0], reads[0]
	ackedID := resultOf(read.Value(), 0)
	arg := ack.Common().Args[0]
	ld, ok := strip(arg).(*ssa.UnOp)
	var cell *ssa.Alloc
	if ok && ld.Op == token.MUL {
		cell, _ = strip(ld.X).(*ssa.Alloc)
	}
	if cell == nil {
		c.bad("C02.R2", fn, "callback argument provenance", ack.Pos(), "the callback argument is not a load of a local chunk variable")
		return
	}
	// the select that receives from ackerChan
	var sel *ssa.Select
	selIdx := -1
	eachInstr(fn, func(in ssa.Instruction) {
		if s, ok := in.(*ssa.Select); ok {
			for i, st := range s.States {
				if st.Dir == types.RecvOnly && fieldOf(st.Chan) == fAckerChan {
					sel, selIdx = s, i
				}
			}
		}
	})
	if sel == nil {
		c.bad("C02.R2", fn, "callback argument provenance", fn.Pos(), "no select receiving from ackerChan")
		return
	}
	var lookupStore, recvStore *ssa.Store
	allOK := true
	for _, ref := range *cell.Referrers() {
		st, ok := ref.(*ssa.Store)
		if !ok || st.Addr != cell {
			continue
		}
		switch {
		case mentions(st.Val, func(v ssa.Value) bool { return v == ssa.Value(sel) }) && !mentions(st.Val, func(v ssa.Value) bool { _, isL := v.(*ssa.Lookup); return isL }):
			recvStore = st
		case isLookupOf(st.Val, ackedID):
			lookupStore = st
		default:
			allOK = false
			c.bad("C02.R2", fn, "store to the confirmed-chunk variable", st.Pos(), "the chunk variable passed to the callback is assigned from something other than the ackerChan receive or pending[ackedChunkID]")
		}
	}
	_ = selIdx
	if allOK {
		c.check(recvStore != nil && lookupStore != nil, "C02.R2", fn, "stores to the confirmed-chunk variable", cell.Pos(),
			"the variable is assigned only from the ackerChan receive and from pending[ackedChunkID] (id = first result of ReadChunkAck)",
			"expected both the receive store and the pending[ackedChunkID] lookup store")
	}
	if lookupStore == nil || recvStore == nil {
		return
	}
	// the lookup key map is the map the received chunk was inserted into under its own ID
	// (b) on the ackedChunkID != "" path the lookup store intervenes
	var idTest *ssa.BinOp
	if ackedID != nil && ackedID.Referrers() != nil {
		for _, ref := range *ackedID.Referrers() {
			if bo, ok := ref.(*ssa.BinOp); ok {
				if _, ok := asEmptiness(bo); ok {
					idTest = bo
				}
			}
		}
	}
	if idTest == nil {
		c.bad("C02.R2", fn, "explicit ACK id selects the pending chunk", read.Pos(), "the acknowledged id is never tested for emptiness")
		return
	}
	em, _ := asEmptiness(idTest)
	nonEmpty := boolEdges(idTest, !em.EmptyOnTrue)
	okB := len(nonEmpty) > 0
	why := ""
	lp := loopOf(fn, read.Block())
	for b, si := range nonEmpty {
		q := &PathQ{P: c.P, Barrier: func(in ssa.Instruction) bool {
			return in == ssa.Instruction(lookupStore) || (lp != nil && in == lp.header.Instrs[0])
		}}
		if hit, tr := q.Reach(succPoint(b, si), func(in ssa.Instruction) bool { return in == ack.(ssa.Instruction) }); hit != nil {
			okB = false
			why = "with a non-empty acknowledged id the callback is reachable without re-selecting the chunk from the pending map: " + c.P.trailString(tr)
		}
	}
	c.check(okB, "C02.R2", fn, "explicit ACK id selects the pending chunk", idTest.Pos(),
		"on the ackedChunkID != \"\" edge every path to the callback passes the store of pending[ackedChunkID]", why)
	// the lookup's found-flag guards the store
	lk := lookupOf(lookupStore.Val)
	okFound := false
	if lk != nil && lk.CommaOk {
		found := resultOf(lk, 1)
		for b, si := range boolEdges(found, true) {
			if c.onlyViaEdge(fn, lookupStore, b, si) {
				okFound = true
			}
		}
	}
	c.check(okFound, "C02.R2", fn, "unknown ACK id confirms nothing", lookupStore.Pos(),
		"the lookup store is only reachable through the found == true edge", "pending[ackedChunkID] is used without checking that the id exists")
	// delete precedes/accompanies the callback, keyed by the confirmed chunk's ID, in the same map
	var dels []ssa.Instruction
	eachInstr(fn, func(in ssa.Instruction) {
		if cl, ok := in.(*ssa.Call); ok {
			if bi, ok := cl.Call.Value.(*ssa.Builtin); ok && bi.Name() == "delete" {
				keyOK := mentions(cl.Call.Args[1], func(v ssa.Value) bool { return v == ssa.Value(cell) })
				if keyOK {
					dels = append(dels, in)
				}
			}
		}
	})
	okDel := len(dels) == 1
	if okDel {
		q := &PathQ{P: c.P, Barrier: func(in ssa.Instruction) bool { return in == dels[0] || (lp != nil && in == lp.header.Instrs[0]) }}
		if hit, _ := q.Reach(after(read), func(in ssa.Instruction) bool { return in == ack.(ssa.Instruction) }); hit != nil {
			okDel = false
		}
	}
	c.check(okDel, "C02.R2", fn, "delete(pending, confirmed.ID) with the callback", ack.Pos(),
		"exactly one delete keyed by the confirmed chunk's ID, on every path from the ACK read to the callback", "the confirmed chunk is not removed from the pending map (exactly once) before the callback")
}

func lookupOf(v ssa.Value) *ssa.Lookup {
	v = strip(v)
	if ex, ok := v.(*ssa.Extract); ok {
		v = ex.Tuple
	}
	lk, _ := v.(*ssa.Lookup)
	return lk
}

func isLookupOf(v ssa.Value, key ssa.Value) bool {
	lk := lookupOf(v)
	return lk != nil && key != nil && strip(lk.Index) == key
}

// ---- R3: queue for ACK only after a complete send; record before reading the ACK

func ruleC02R3(c *Ctx) {
	fn := c.P.Fn(aSendChunk)
	sends := c.sitesWhereR(fn, func(s ssa.CallInstruction) bool { return invokeOf(s, iConn, "SendChunk") })
	var sel *ssa.Select
	selIdx := -1
	c.eachInstrR(fn, func(in ssa.Instruction) {
		if s, ok := in.(*ssa.Select); ok {
			for i, st := range s.States {
				if st.Dir == types.SendOnly && fieldOf(st.Chan) == fAckerChan {
					sel, selIdx = s, i
				}
			}
		}
	})
	// any plain send on ackerChan elsewhere?
	nSend := 0
	for _, op := range c.chanFieldOps(fAckerChan) {
		if op.Kind == "send" {
			nSend++
			c.check(ownedBy(op.In.Parent(), aSendChunk), "C02.R3", op.In.Parent(), "send on ackerChan", op.In.Pos(),
				"chunks are queued for ACK only in sendChunk", "a chunk is queued for ACK outside sendChunk")
		}
	}
	c.floor("C02.R3", "sends on ackerChan", nSend, 1)
	if len(sends) != 1 || sel == nil {
		c.bad("C02.R3", fn, "queue for ACK only after nil-error SendChunk", fn.Pos(), "expected one SendChunk call and one select sending on ackerChan")
	} else {
		// sendChunk with its private helpers: the write and the queueing may each stand in a helper; the err == nil edge is
		// then the edge on the helper's (equivalent) error in sendChunk, and the select is the call of its helper
		nilE := c.errNilEdgesInRoot(fn, sends[0], 0, true)
		selIn := c.siteInRoot(fn, sel)
		ok := len(nilE) > 0 && selIn != nil
		for b, si := range nilE {
			if selIn == nil || !c.onlyViaEdge(fn, selIn, b, si) {
				ok = false
			}
		}
		c.check(ok, "C02.R3", fn, "queue for ACK only after nil-error SendChunk", sel.Pos(),
			"the select that sends on ackerChan is only reachable through the err == nil edge of conn.SendChunk", "the chunk can be queued for ACK without a successful SendChunk")
		// the value queued is the chunk that was sent
		sameChunk := sameValue(sel.States[selIdx].Send, sends[0].Common().Args[0]) ||
			(c.resolveR(fn, sel.States[selIdx].Send) == c.resolveR(fn, sends[0].Common().Args[0]) && c.resolveR(fn, sel.States[selIdx].Send) != nil)
		c.check(sameChunk, "C02.R3", fn, "the queued chunk is the sent chunk", sel.Pos(), "same value sent on the connection and queued for ACK", "the chunk queued for ACK is not the chunk passed to SendChunk")
	}
	// acknowledger: received chunk enters the pending map before the ACK read and before any return
	ra := c.P.Fn(aRunAcker)
	var rsel *ssa.Select
	ridx := -1
	eachInstr(ra, func(in ssa.Instruction) {
		if s, ok := in.(*ssa.Select); ok {
			for i, st := range s.States {
				if st.Dir == types.RecvOnly && fieldOf(st.Chan) == fAckerChan {
					rsel, ridx = s, i
				}
			}
		}
	})
	if rsel == nil {
		c.bad("C02.R3", ra, "received chunk recorded before the ACK read", ra.Pos(), "no select receiving from ackerChan")
		return
	}
	var upd []ssa.Instruction
	eachInstr(ra, func(in ssa.Instruction) {
		if mu, ok := in.(*ssa.MapUpdate); ok {
			if mentions(mu.Value, func(v ssa.Value) bool { return v == ssa.Value(rsel) }) {
				upd = append(upd, in)
			}
		}
	})
	cb := selectCaseBlock(rsel, ridx)
	okRec := cb != nil && len(upd) > 0
	why := "the chunk received from ackerChan is not stored into the pending map"
	if okRec {
		okEdge := boolEdges(resultOf(rsel, 1), false) // ok == false edges (channel closed: nothing received)
		q := &PathQ{P: c.P, Barrier: func(in ssa.Instruction) bool { return instrSet(upd)[in] }, EdgeBlocked: edgeSet(okEdge)}
		hit, tr := q.Reach(Point{cb, 0}, func(in ssa.Instruction) bool {
			if isReturn(in) {
				return true
			}
			ci, ok := in.(ssa.CallInstruction)
			return ok && invokeOf(ci, iConn, "ReadChunkAck")
		})
		if hit != nil {
			okRec = false
			why = "after receiving a chunk the acknowledger can reach " + c.P.pos(hit.Pos()) + " before recording it in the pending map: " + c.P.trailString(tr)
		}
	}
	c.check(okRec, "C02.R3", ra, "received chunk recorded before the ACK read", rsel.Pos(),
		"on the received (ok) path the chunk is inserted into the pending map before ReadChunkAck and before any return", why)
}

// ---- R4: the chunk in flight is remembered until safely queued

func ruleC02R4(c *Ctx) {
	for _, a := range []string{aResend, aProcInput} {
		fn := c.P.Fn(a)
		sends := c.callsTo(fn, anchorPred(aSendChunk))
		stores := storesToField(fn, fLastChunk)
		var setStores, nilStores []ssa.Instruction
		for _, st := range stores {
			if k, ok := st.Val.(*ssa.Const); ok && k.IsNil() {
				nilStores = append(nilStores, st)
			} else {
				setStores = append(setStores, st)
			}
		}
		// the select receiving the next chunk
		var sel *ssa.Select
		idx := -1
		eachInstr(fn, func(in ssa.Instruction) {
			if s, ok := in.(*ssa.Select); ok {
				for i, st := range s.States {
					if st.Dir != types.RecvOnly {
						continue
					}
					if ch, ok := st.Chan.Type().Underlying().(*types.Chan); ok && typeName(ch.Elem()) == "base.LogChunk" {
						sel, idx = s, i
					}
				}
			}
		})
		if sel == nil || len(sends) == 0 {
			c.bad("C02.R4", fn, "lastChunk typestate", fn.Pos(), "no chunk-receiving select or no sendChunk call found")
			continue
		}
		cb := selectCaseBlock(sel, idx)
		okFalse := boolEdges(resultOf(sel, 1), false)
		q := &PathQ{P: c.P, Barrier: func(in ssa.Instruction) bool { return instrSet(setStores)[in] }, EdgeBlocked: edgeSet(okFalse)}
		hit, tr := q.Reach(Point{cb, 0}, func(in ssa.Instruction) bool {
			return isReturn(in) || callInstrSet(sends)[in]
		})
		c.check(hit == nil && len(setStores) > 0, "C02.R4", fn, "received chunk remembered in lastChunk before send/return", sel.Pos(),
			"after a chunk is received, lastChunk is set before any return or sendChunk",
			"a received chunk can reach a return or sendChunk without being remembered in lastChunk: "+c.P.trailString(tr))
		// the remembered chunk is the received one and the sent one
		for _, st := range setStores {
			okSame := mentions(st.(*ssa.Store).Val, func(v ssa.Value) bool { return v == ssa.Value(sel) })
			c.check(okSame, "C02.R4", fn, "lastChunk points at the received chunk", st.Pos(), "the remembered chunk derives from the receive", "lastChunk is set to something other than the chunk just received")
		}
		for _, s := range sends {
			okSame := mentions(s.Common().Args[1], func(v ssa.Value) bool { return v == ssa.Value(sel) })
			c.check(okSame, "C02.R4", fn, "sendChunk gets the received chunk", s.Pos(), "the chunk sent derives from the receive", "sendChunk is called with something other than the chunk just received")
		}
		// lastChunk = nil only on the ok edge of sendChunk
		for _, ns := range nilStores {
			ok := false
			for _, s := range sends {
				okv := resultOf(s.Value(), 0)
				for b, si := range boolEdges(okv, true) {
					if c.onlyViaEdge(fn, ns, b, si) {
						ok = true
					}
				}
			}
			c.check(ok, "C02.R4", fn, "lastChunk cleared only after sendChunk succeeded", ns.Pos(),
				"the nil store is only reachable through the ok == true edge of sendChunk", "lastChunk is cleared on a path where sendChunk did not report success")
		}
	}
	// lastChunk is cleared nowhere else — except after the chunk was queued for ACK (the acknowledger holds it then)
	for _, f := range c.P.universe {
		nm := anchorName(f)
		if nm == aResend || nm == aProcInput || nm == aNewSession {
			continue
		}
		for _, st := range storesToField(f, fLastChunk) {
			k, isK := st.Val.(*ssa.Const)
			if !isK || !k.IsNil() {
				continue
			}
			ok := false
			eachInstr(f, func(in ssa.Instruction) {
				if sel, isSel := in.(*ssa.Select); isSel {
					for i, stt := range sel.States {
						if stt.Dir == types.SendOnly && fieldOf(stt.Chan) == fAckerChan {
							if c.onlyViaBlock(f, st, selectCaseBlock(sel, i)) {
								ok = true
							}
						}
					}
				}
			})
			c.check(ok, "C02.R4", f, "lastChunk cleared only after the chunk was queued for ACK", st.Pos(),
				"the nil store lies behind the case that sent the chunk on ackerChan", "lastChunk is cleared while the chunk is held by nobody else: a stop or acknowledger exit before it is queued loses the chunk (it is neither resent nor handed back for persistence)")
		}
	}
	// sendChunk returns true only on the path that queued the chunk for ACK
	fn := c.P.Fn(aSendChunk)
	var sel *ssa.Select
	idx := -1
	c.eachInstrR(fn, func(in ssa.Instruction) {
		if s, ok := in.(*ssa.Select); ok {
			for i, st := range s.States {
				if st.Dir == types.SendOnly && fieldOf(st.Chan) == fAckerChan {
					sel, idx = s, i
				}
			}
		}
	})
	if sel == nil {
		c.bad("C02.R4", fn, "sendChunk reports success only when queued", fn.Pos(), "no select sending on ackerChan")
		return
	}
	cb := selectCaseBlock(sel, idx)
	nTrue := 0
	// a non-false first result comes from the case that queued the chunk — in sendChunk itself or in the private helper
	// that holds the select, whose result sendChunk returns
	var judge func(f *ssa.Function, depth int)
	judge = func(f *ssa.Function, depth int) {
		for _, rv := range returnedValues(f, 0) {
			in := rv.At
			k, isK := rv.Val.(*ssa.Const)
			if isK && k.Value != nil && k.Value.Kind() == constant.Bool && !constant.BoolVal(k.Value) {
				continue // returns false
			}
			v := strip(rv.Val)
			if ex, ok := v.(*ssa.Extract); ok && ex.Index == 0 {
				v = ex.Tuple
			}
			if cl, ok := v.(*ssa.Call); ok && depth < 3 {
				if g := cl.Common().StaticCallee(); g != nil && c.helpersOf(fn)[g] {
					judge(g, depth+1)
					continue
				}
			}
			nTrue++
			c.check(f == sel.Parent() && c.onlyViaBlock(f, in, cb), "C02.R4", f, "sendChunk reports success only when queued", in.Pos(),
				"the non-false return is only reachable through the case that sent the chunk on ackerChan",
				"sendChunk can report success without having queued the chunk for ACK")
		}
	}
	judge(fn, 0)
	c.floor("C02.R4", "success returns of sendChunk", nTrue, 1)
}

// ---- R5: collectLeftovers merges every holder

func chunkHolderKind(t types.Type) string {
	switch x := t.Underlying().(type) {
	case *types.Chan:
		if typeName(x.Elem()) == "base.LogChunk" {
			if x.Dir() == types.RecvOnly {
				return "recvchan"
			}
			return "chan"
		}
	case *types.Map:
		if typeName(x.Elem()) == "base.LogChunk" {
			return "map"
		}
	case *types.Slice:
		if typeName(x.Elem()) == "base.LogChunk" {
			return "slice"
		}
	case *types.Pointer:
		if typeName(x.Elem()) == "base.LogChunk" {
			return "ptr"
		}
	case *types.Struct:
		// atomic.Pointer[[]LogChunk]
		if strings.Contains(t.String(), "atomic.Pointer[") && strings.Contains(t.String(), "base.LogChunk") {
			return "atomicptr"
		}
	}
	if typeName(t) == "base.LogChunk" {
		return "value"
	}
	return ""
}

// mergedSources: values appended into the slice v (through append chains, phis)
func mergedSources(v ssa.Value) []ssa.Value {
	var out []ssa.Value
	seen := map[ssa.Value]bool{}
	var walk func(v ssa.Value)
	walk = func(v ssa.Value) {
		v = strip(v)
		if v == nil || seen[v] {
			return
		}
		seen[v] = true
		switch x := v.(type) {
		case *ssa.Phi:
			for _, e := range x.Edges {
				walk(e)
			}
		case *ssa.Call:
			if bi, ok := x.Call.Value.(*ssa.Builtin); ok && bi.Name() == "append" {
				walk(x.Call.Args[0])
				out = append(out, x.Call.Args[1])
				return
			}
			out = append(out, v)
		case *ssa.UnOp:
			if x.Op == token.MUL {
				if al, ok := strip(x.X).(*ssa.Alloc); ok {
					for _, ref := range *al.Referrers() {
						if st, ok := ref.(*ssa.Store); ok && st.Addr == al {
							walk(st.Val)
						}
					}
					return
				}
			}
			out = append(out, v)
		case *ssa.MakeSlice:
		case *ssa.Slice:
			walk(x.X)
		default:
			out = append(out, v)
		}
	}
	walk(v)
	return out
}

func ruleC02R5(c *Ctx) {
	fn := c.P.Fn(aCollect)
	nlcs := c.callsTo(fn, anchorPred(aNewLeftChan))
	if len(nlcs) == 0 {
		c.bad("C02.R5", fn, "merge into newLeftoverChannel", fn.Pos(), "no newLeftoverChannel call")
		return
	}
	sessT := fn.Params[0].Type().(*types.Pointer).Elem()
	st := sessT.Underlying().(*types.Struct)
	prev := fn.Params[1]
	for i, nlc := range nlcs {
		tag := ""
		if len(nlcs) > 1 {
			tag = fmt.Sprintf(" (merge site %d of %d)", i+1, len(nlcs))
		}
		srcs := mergedSources(nlc.Common().Args[0])
		c.count("C02.R5:merged sources", len(srcs))
		has := func(pred func(ssa.Value) bool) bool {
			for _, s := range srcs {
				if c.mentionsR(fn, s, pred, 0) { // also through the result of a private helper of collectLeftovers
					return true
				}
			}
			return false
		}
		// holders from the session type
		nHold := 0
		for i := 0; i < st.NumFields(); i++ {
			k := chunkHolderKind(st.Field(i).Type())
			if k == "" {
				continue
			}
			fname := fieldName(sessT, i)
			if k == "recvchan" {
				c.assumed("C02.R5", fn, "holder "+fname, fn.Pos(), "receive-only input channel: owned by the bufferer, drained by outputFeeder.saveEverything (C01.R7)")
				continue
			}
			nHold++
			c.check(has(isFieldAddrOf(fname)), "C02.R5", fn, "holder "+fname+tag, nlc.Pos(),
				"the holder's contents flow into the slice given to newLeftoverChannel", "chunks held in "+fname+" are not merged into the leftovers returned from this site")
		}
		c.floor("C02.R5", "chunk-holding fields of clientSession", nHold, 3)
		// the previous leftovers parameter
		c.check(has(func(v ssa.Value) bool { return v == ssa.Value(prev) }), "C02.R5", fn, "holder parameter "+prev.Name()+tag, nlc.Pos(),
			"unsent leftovers of the previous session are merged", "the previous leftovers parameter is not merged into the new leftovers")
	}
	// the result returned is a channel built from a merge
	okRet := true
	for _, rv := range returnedValues(fn, 0) {
		one := false
		for _, nlc := range nlcs {
			if sameValue(rv.Val, nlc.Value()) {
				one = true
			}
		}
		if !one {
			okRet = false
		}
	}
	c.check(okRet, "C02.R5", fn, "returns the merged channel", nlcs[0].Pos(), "every return yields a newLeftoverChannel result", "collectLeftovers returns something other than the merged leftovers channel")

	// acknowledger side: the deferred snapshot covers the pending map and precedes the ended signal
	ra := c.P.Fn(aRunAcker)
	var deferred *ssa.Function
	var deferInstr *ssa.Defer
	eachInstr(ra, func(in ssa.Instruction) {
		if d, ok := in.(*ssa.Defer); ok {
			// a deferred literal, or a deferred named function / method of the module
			var f *ssa.Function
			if mc, ok := resolve(d.Call.Value).(*ssa.MakeClosure); ok {
				f = mc.Fn.(*ssa.Function)
			} else if sc := d.Call.StaticCallee(); sc != nil && sc.Blocks != nil && c.P.inUni[sc] {
				f = sc
			}
			if f != nil && len(c.callsTo(f, extPred(aSignal))) > 0 {
				deferred, deferInstr = f, d
			}
		}
	})
	// a value of the deferred function seen from runAcknowledger: itself (captured), or the argument bound to a parameter
	outer := func(v ssa.Value) ssa.Value {
		r := resolve(v)
		if prm, ok := r.(*ssa.Parameter); ok && deferred != nil && prm.Parent() == deferred {
			for i, q := range deferred.Params {
				if q == prm && i < len(deferInstr.Call.Args) && len(deferInstr.Call.Args) == len(deferred.Params) {
					return resolve(deferInstr.Call.Args[i])
				}
			}
		}
		return r
	}
	if deferred == nil {
		c.bad("C02.R5", ra, "deferred snapshot of the pending map", ra.Pos(), "no deferred closure signalling ackerEnded")
		return
	}
	c.check(deferInstr.Block() == ra.Blocks[0], "C02.R5", ra, "snapshot is deferred unconditionally", deferInstr.Pos(), "the defer is registered in the entry block", "the snapshot defer is registered conditionally")
	// locals of runAcknowledger that hold chunks across iterations: maps
	nMap := 0
	eachInstr(ra, func(in ssa.Instruction) {
		mm, ok := in.(*ssa.MakeMap)
		if !ok || chunkHolderKind(mm.Type()) != "map" {
			return
		}
		nMap++
		// the deferred closure ranges over it
		ranged := false
		eachInstr(deferred, func(x ssa.Instruction) {
			if r, ok := x.(*ssa.Range); ok && outer(r.X) == ssa.Value(mm) {
				ranged = true
			}
		})
		c.check(ranged, "C02.R5", ra, "pending map snapshotted at exit", mm.Pos(), "the deferred closure ranges over the pending map", "the deferred closure does not iterate the pending map")
	})
	c.floor("C02.R5", "chunk maps in runAcknowledger", nMap, 1)
	var stores []ssa.CallInstruction
	for _, s := range callsIn(deferred) {
		if f := s.Common().StaticCallee(); f != nil && fnBaseName(f) == "Store" && len(s.Common().Args) > 0 && fieldOf(s.Common().Args[0]) == fUnacked {
			stores = append(stores, s)
		}
	}
	var sigs []ssa.CallInstruction
	for _, s := range c.callsTo(deferred, extPred(aSignal)) {
		if fieldOf(s.Common().Args[0]) == fAckerEnd {
			sigs = append(sigs, s)
		}
	}
	c.checkOrder("C02.R5", deferred, "unacked.Store(snapshot)", callInstrSet(stores), "ackerEnded.Signal()", callInstrSet(sigs))
	sSt := siteSumm(c.P, func(s ssa.CallInstruction) bool { return callInstrSet(stores)[s] })
	sSt.AllowEmptyGuards, sSt.LoopsRunOnce = false, false
	c.mustBeforeReturn("C02.R5", deferred, entryOf(deferred), sSt, "snapshot always stored", "unacked.Store", deferred.Pos(), nil)
	// the stored snapshot is what was collected from the range
	if len(stores) == 1 {
		var rng ssa.Value
		eachInstr(deferred, func(x ssa.Instruction) {
			if r, ok := x.(*ssa.Range); ok {
				rng = r
			}
		})
		c.check(rng != nil && mentions(stores[0].Common().Args[1], func(v ssa.Value) bool {
			if n, ok := v.(*ssa.Next); ok {
				return n.Iter == rng
			}
			return false
		}), "C02.R5", deferred, "snapshot contains the map's values", stores[0].Pos(), "the stored slice is built from the range over the pending map", "the stored snapshot is not built from the pending map's values")
	}
}

// ---- R6: every session result is a collectLeftovers result; stop order; at most once

// collectWrappers: functions of the session whose leftovers result (result #0) is, on every return, what collectLeftovers
// (or another such function) returned — "end the session for this reason" helpers shared by the two stages
func collectWrappers(c *Ctx) map[*ssa.Function]bool {
	col := c.P.Fn(aCollect)
	w := map[*ssa.Function]bool{}
	fromCollect := func(v ssa.Value) bool {
		v = strip(v)
		if ex, ok := v.(*ssa.Extract); ok && ex.Index == 0 {
			v = ex.Tuple
		}
		cl, ok := v.(*ssa.Call)
		if !ok || cl.Common().StaticCallee() == nil {
			return false
		}
		f := cl.Common().StaticCallee()
		return f == col || w[f]
	}
	for changed := true; changed; {
		changed = false
		for _, f := range c.P.universe {
			if w[f] || f == col || f.Parent() != nil || f.Blocks == nil || fnPkgPath(f) != fnPkgPath(col) || f.Signature.Results().Len() == 0 ||
				isAnchor(f, aResend) || isAnchor(f, aProcInput) || isAnchor(f, aSessRun) {
				continue
			}
			if !types.Identical(f.Signature.Results().At(0).Type(), col.Signature.Results().At(0).Type()) || f.Object() == nil || f.Object().Exported() {
				continue
			}
			rvs := returnedValues(f, 0)
			all := len(rvs) > 0
			for _, rv := range rvs {
				if !fromCollect(rv.Val) {
					all = false
				}
			}
			if all {
				w[f] = true
				changed = true
			}
		}
	}
	return w
}

func ruleC02R6(c *Ctx) {
	wrappers := collectWrappers(c)
	isCollect := func(v ssa.Value) bool {
		v = strip(v)
		if ex, ok := v.(*ssa.Extract); ok && ex.Index == 0 {
			v = ex.Tuple
		}
		cl, ok := v.(*ssa.Call)
		return ok && cl.Common().StaticCallee() != nil && (isAnchor(cl.Common().StaticCallee(), aCollect) || wrappers[cl.Common().StaticCallee()])
	}
	// processInput: all returns are collectLeftovers(...)
	pi := c.P.Fn(aProcInput)
	for _, rv := range returnedValues(pi, 0) {
		c.check(isCollect(rv.Val), "C02.R6", pi, "return value is collectLeftovers(...)", rv.At.Pos(), "the returned leftovers come from collectLeftovers", "processInput returns leftovers that were not produced by collectLeftovers")
	}
	// resendLeftovers: collectLeftovers(...) or nil; nil only while no chunk is in flight
	rs := c.P.Fn(aResend)
	stores := storesToField(rs, fLastChunk)
	var setStores, nilStores []ssa.Instruction
	for _, st := range stores {
		if k, ok := st.Val.(*ssa.Const); ok && k.IsNil() {
			nilStores = append(nilStores, st)
		} else {
			setStores = append(setStores, st)
		}
	}
	for _, rv := range returnedValues(rs, 0) {
		in := rv.At
		if isCollect(rv.Val) {
			c.ok("C02.R6", rs, "return value is collectLeftovers(...)", in.Pos(), "the returned leftovers come from collectLeftovers")
			continue
		}
		k, isK := rv.Val.(*ssa.Const)
		if !isK || !k.IsNil() {
			c.bad("C02.R6", rs, "return value is collectLeftovers(...) or nil", in.Pos(), "resendLeftovers returns leftovers not produced by collectLeftovers")
			continue
		}
		// nil return: not reachable from a lastChunk-set store without passing a clearing store
		bad := false
		var tr []*ssa.BasicBlock
		for _, s := range setStores {
			q := &PathQ{P: c.P, Barrier: func(x ssa.Instruction) bool { return instrSet(nilStores)[x] }}
			if hit, t := q.Reach(after(s), func(x ssa.Instruction) bool { return x == in }); hit != nil {
				bad, tr = true, t
			}
		}
		c.check(!bad, "C02.R6", rs, "nil result only with no chunk in flight", in.Pos(),
			"the nil return is not reachable while lastChunk is set", "resendLeftovers can return nil leftovers while a chunk is in flight: "+c.P.trailString(tr))
	}
	// Run: result is resendLeftovers' (when non-nil) or processInput's
	run := c.P.Fn(aSessRun)
	rsCalls := c.callsTo(run, anchorPred(aResend))
	piCalls := c.callsTo(run, anchorPred(aProcInput))
	okRun := len(rsCalls) == 1 && len(piCalls) == 1
	if okRun {
		for _, rv := range returnedValues(run, 0) {
			v := strip(rv.Val)
			ex, isEx := v.(*ssa.Extract)
			if !isEx || ex.Index != 0 || (ex.Tuple != rsCalls[0].Value() && ex.Tuple != piCalls[0].Value()) {
				okRun = false
			}
		}
		// processInput only when resendLeftovers returned nil
		first := resultOf(rsCalls[0].Value(), 0)
		via := false
		for b, si := range nilEdges(first, true) {
			if c.onlyViaEdge(run, piCalls[0], b, si) {
				via = true
			}
		}
		okRun = okRun && via
	}
	c.check(okRun, "C02.R6", run, "Run returns resendLeftovers' or processInput's leftovers", run.Pos(),
		"Run's first result is always the first result of resendLeftovers (non-nil) or processInput, and processInput only runs when resend returned nil",
		"Run can return leftovers that bypass collectLeftovers, or runs processInput after an interrupted resend")
	// at most one collectLeftovers per call: after the call the function returns
	for _, fn := range []*ssa.Function{pi, rs} {
		for _, s := range c.callsTo(fn, anchorPred(aCollect)) {
			q := &PathQ{P: c.P}
			hit, _ := q.Reach(after(s), func(x ssa.Instruction) bool {
				ci, ok := x.(ssa.CallInstruction)
				return ok && x != s.(ssa.Instruction) && len(ci.Common().Args) > 0 && isCallTo(x, c.P, anchorPred(aCollect, aSendChunk))
			})
			c.check(hit == nil, "C02.R6", fn, "collectLeftovers ends the session", s.Pos(), "no further collectLeftovers/sendChunk is reachable after collecting", "after collectLeftovers the session goes on sending or collecting again")
		}
	}
	allowedCollect := []string{aResend, aProcInput}
	var wnames []string
	for wf := range wrappers {
		wnames = append(wnames, anchorName(wf))
	}
	sort.Strings(wnames)
	allowedCollect = append(allowedCollect, wnames...)
	n := len(c.whoMayCall("C02.R6", "collectLeftovers", anchorPred(aCollect), allowedCollect...))
	c.floor("C02.R6", "collectLeftovers sites", n, 3)
	// a wrapper is only used by the two stages (and other wrappers)
	for _, wn := range wnames {
		c.whoMayCall("C02.R6", wn, anchorPred(wn), allowedCollect...)
	}
	// the recovery stage hands ITS leftovers channel to collectLeftovers on every way there: what still waits in the channel
	// is merged into the new leftovers. A nil (right for the input stage, which has no such channel) reached from
	// resendLeftovers — through a shared "end the session" helper — drops every chunk still queued for resending.
	{
		col := c.P.Fn(aCollect)
		var walk func(f *ssa.Function, bind map[*ssa.Parameter]ssa.Value, depth int, via string)
		walk = func(f *ssa.Function, bind map[*ssa.Parameter]ssa.Value, depth int, via string) {
			val := func(v ssa.Value) ssa.Value {
				v = resolve(v)
				if p, ok := v.(*ssa.Parameter); ok && bind != nil {
					if b, ok := bind[p]; ok {
						return b
					}
				}
				return v
			}
			for _, g := range c.regionOf(f) {
				for _, a := range withAnons(g) {
					for _, site := range callsIn(a) {
						callee := site.Common().StaticCallee()
						if callee == nil {
							continue
						}
						switch {
						case callee == col:
							arg := val(site.Common().Args[1])
							okArg := arg == ssa.Value(rs.Params[1])
							c.check(okArg, "C02.R6", a, "the recovery stage hands its leftovers channel to collectLeftovers"+via, site.Pos(),
								"the first argument is resendLeftovers' own leftovers parameter",
								"collectLeftovers is reached from the recovery stage"+via+" with "+canonOf(arg)+" instead of the leftovers channel being resent: the chunks still waiting in it are neither resent nor handed back")
						case wrappers[callee] && depth < 3:
							nb := map[*ssa.Parameter]ssa.Value{}
							for i, prm := range callee.Params {
								if i < len(site.Common().Args) {
									nb[prm] = val(site.Common().Args[i])
								}
							}
							walk(callee, nb, depth+1, via+" via "+callee.Name())
						}
					}
				}
			}
		}
		walk(rs, nil, 0, "")
	}

	// order inside collectLeftovers
	cl := c.P.Fn(aCollect)
	var closes, aborts, abortSig, waits, loads, collectAck []ssa.Instruction
	for _, op := range c.chanOpsR(cl) {
		if op.Kind == "close" && fieldOf(op.Chan) == fAckerChan {
			closes = append(closes, op.In)
		}
	}
	for _, s := range c.callsInR(cl) {
		cc := s.Common()
		switch {
		case fieldCallOf(s, fAbortConn):
			aborts = append(aborts, s)
		case cc.StaticCallee() != nil && extName(cc.StaticCallee()) == aSignal && fieldOf(cc.Args[0]) == fAckerAbrt:
			abortSig = append(abortSig, s)
		case cc.StaticCallee() != nil && fnBaseName(cc.StaticCallee()) == "Wait" && mentions(cc.Args[0], isFieldAddrOf(fAckerEnd)):
			waits = append(waits, s)
		case cc.StaticCallee() != nil && fnBaseName(cc.StaticCallee()) == "Load" && fieldOf(cc.Args[0]) == fUnacked:
			loads = append(loads, s)
		case cc.StaticCallee() != nil && isAnchor(cc.StaticCallee(), aCollectChan) && fieldOf(cc.Args[0]) == fAckerChan:
			collectAck = append(collectAck, s)
		}
	}
	// the last wait is the one that follows the abort
	var finalWaits []ssa.Instruction
	for _, w := range waits {
		q := c.pq(cl)
		if hit, _ := q.Reach(after(w), func(x ssa.Instruction) bool { return instrSet(abortSig)[x] }); hit == nil {
			finalWaits = append(finalWaits, w)
		}
	}
	c.checkOrder("C02.R6", cl, "close(ackerChan)", instrSet(closes), "final ackerEnded.Wait", instrSet(finalWaits))
	c.checkOrder("C02.R6", cl, "ackerAbort.Signal()", instrSet(abortSig), "final ackerEnded.Wait", instrSet(finalWaits))
	c.checkOrder("C02.R6", cl, "abortConn(...)", instrSet(aborts), "final ackerEnded.Wait", instrSet(finalWaits))
	c.checkOrder("C02.R6", cl, "final ackerEnded.Wait", instrSet(finalWaits), "unacked.Load()", instrSet(loads))
	c.checkOrder("C02.R6", cl, "final ackerEnded.Wait", instrSet(finalWaits), "CollectFromChannel(ackerChan)", instrSet(collectAck))
	// close(ackerChan) happens on every path exactly once (a second close panics)
	sCl := siteSumm(c.P, func(s ssa.CallInstruction) bool { return instrSet(closes)[s] })
	sCl.AllowEmptyGuards, sCl.LoopsRunOnce = false, false
	c.mustBeforeReturn("C02.R6", cl, entryOf(cl), sCl, "ackerChan closed on every path", "close(ackerChan)", cl.Pos(), nil)
	dbl := false
	for _, x := range closes {
		q := c.pq(cl)
		if hit, _ := q.Reach(after(x), func(y ssa.Instruction) bool { return instrSet(closes)[y] }); hit != nil {
			dbl = true
		}
	}
	c.check(!dbl, "C02.R6", cl, "ackerChan closed at most once", cl.Pos(), "no path passes two close(ackerChan)", "a path closes ackerChan twice (panic)")
}

// ---- R7: at worker stop, leftovers go to the leftover callback, then OnFinished

func ruleC02R7(c *Ctx) {
	const fLeft = "output/baseoutput.ClientWorker.onChunkLeft"
	const fFin = "output/baseoutput.ClientWorker.onFinished"
	fn := c.P.Fn(aCWRun)
	// who may call the leftover callback
	n := 0
	for _, f := range c.P.universe {
		for _, s := range sitesWhere(f, func(s ssa.CallInstruction) bool { return fieldCallOf(s, fLeft) }) {
			n++
			c.check(ownedBy(f, aCWRun), "C02.R7", f, "call of onChunkLeft", s.Pos(), "the leftover callback is only called from ClientWorker.run", "onChunkLeft called outside ClientWorker.run")
		}
	}
	c.floor("C02.R7", "onChunkLeft call sites", n, 1)
	left := c.sitesWhereR(fn, func(s ssa.CallInstruction) bool { return fieldCallOf(s, fLeft) })
	if len(left) != 1 {
		c.bad("C02.R7", fn, "final leftover loop", fn.Pos(), "expected exactly one onChunkLeft call in run (or its private helpers)")
		return
	}
	loopFn := left[0].Parent() // run itself, or the private helper that drains the leftovers
	lp := loopOf(loopFn, left[0].Block())
	// receive in that loop from the leftovers variable
	var recv ssa.Instruction
	if lp != nil {
		for _, op := range chanOps(loopFn) {
			if (op.Kind == "recv" || op.Kind == "range") && lp.blocks[op.In.Block()] {
				recv = op.In
			}
		}
	}
	if recv == nil {
		c.bad("C02.R7", fn, "final leftover loop", left[0].Pos(), "onChunkLeft is not inside a loop receiving from the leftovers channel")
		return
	}
	q := &PathQ{P: c.P, Barrier: func(in ssa.Instruction) bool { return in == left[0].(ssa.Instruction) }, EdgeBlocked: commaOkFalseEdges(recv)}
	hit, tr := q.Reach(after(recv), func(in ssa.Instruction) bool {
		return (in.Block() == lp.header && in == lp.header.Instrs[0]) || isReturn(in) || (!lp.blocks[in.Block()] && in == in.Block().Instrs[0])
	})
	c.check(hit == nil, "C02.R7", fn, "every final leftover reaches onChunkLeft", recv.Pos(),
		"each chunk received in the final loop is handed to the leftover callback", "a chunk received in the final loop can skip onChunkLeft: "+c.P.trailString(tr))
	c.check(mentions(left[0].Common().Args[0], func(v ssa.Value) bool { return v == recv.(ssa.Value) }), "C02.R7", fn, "onChunkLeft gets the received chunk", left[0].Pos(), "argument derives from the receive", "onChunkLeft is called with something other than the received chunk")
	// the loop is reached on every path to return (the session loop exits into it)
	var recvCh ssa.Value
	switch x := recv.(type) {
	case *ssa.UnOp:
		recvCh = x.X
	case *ssa.Range:
		recvCh = x.X
	}
	// close(leftovers) of the same variable precedes the loop
	var closes []ssa.Instruction
	for _, op := range chanOps(loopFn) {
		if op.Kind == "close" && sameCell(op.Chan, recvCh) {
			closes = append(closes, op.In)
		}
	}
	c.checkOrder("C02.R7", fn, "close(leftovers)", instrSet(closes), "final leftover loop", map[ssa.Instruction]bool{recv: true})
	sLoop := siteSumm(c.P, func(s ssa.CallInstruction) bool { return false })
	_ = sLoop
	qr := c.pq(fn)
	qr.Barrier = func(in ssa.Instruction) bool { return in == recv }
	hit2, tr2 := qr.Reach(entryOf(fn), isReturn)
	c.check(hit2 == nil, "C02.R7", fn, "run cannot return without the final leftover loop", fn.Pos(), "every path to return passes the final receive loop", "run can return without draining the final leftovers: "+c.P.trailString(tr2))
	// the channel drained is what the last runSession returned: followed through local cells, phis and helper functions
	// (their results, and their parameters back to the arguments at their call sites); a fresh channel is the initial value
	sawSession := false
	var prov func(v ssa.Value, d int, seen map[ssa.Value]bool) bool
	prov = func(v ssa.Value, d int, seen map[ssa.Value]bool) bool {
		v = strip(v)
		if v == nil || d > 12 {
			return false
		}
		if seen[v] {
			return true
		}
		seen[v] = true
		switch x := v.(type) {
		case *ssa.MakeChan:
			return true
		case *ssa.Phi:
			for _, e := range x.Edges {
				if !prov(e, d+1, seen) {
					return false
				}
			}
			return true
		case *ssa.UnOp:
			if al, ok := x.X.(*ssa.Alloc); ok {
				n := 0
				for _, ref := range *al.Referrers() {
					if st, ok := ref.(*ssa.Store); ok && st.Addr == ssa.Value(al) {
						n++
						if !prov(st.Val, d+1, seen) {
							return false
						}
					}
					// the cell is captured by a function literal that assigns it
					if mc, ok := ref.(*ssa.MakeClosure); ok {
						lit := mc.Fn.(*ssa.Function)
						for i, b := range mc.Bindings {
							if b != ssa.Value(al) || i >= len(lit.FreeVars) {
								continue
							}
							fv := lit.FreeVars[i]
							if fv.Referrers() == nil {
								continue
							}
							for _, r2 := range *fv.Referrers() {
								if st, ok := r2.(*ssa.Store); ok && st.Addr == ssa.Value(fv) {
									n++
									if !prov(st.Val, d+1, seen) {
										return false
									}
								}
							}
						}
					}
				}
				return n > 0
			}
			if fv, ok := x.X.(*ssa.FreeVar); ok {
				if b := freeVarBinding(fv); b != nil {
					return prov(&loadOf{b}, d+1, seen) || prov(b, d+1, seen)
				}
			}
			return false
		case *ssa.Extract:
			if x.Index != 0 {
				return false
			}
			return prov(x.Tuple, d+1, seen)
		case *ssa.Call:
			g := x.Common().StaticCallee()
			if g == nil || g.Blocks == nil {
				return false
			}
			if isAnchor(g, aCWRunSess) {
				sawSession = true
				return true
			}
			if !c.P.inUni[g] {
				return false
			}
			rvs := returnedValues(g, 0)
			if len(rvs) == 0 {
				return false
			}
			for _, rv := range rvs {
				if !prov(rv.Val, d+1, seen) {
					return false
				}
			}
			return true
		case *ssa.Parameter:
			g := x.Parent()
			idx := -1
			for i, q := range g.Params {
				if q == x {
					idx = i
				}
			}
			sites := c.callSitesOf(func(f *ssa.Function) bool { return f == g })
			if len(sites) == 0 {
				return false
			}
			for _, site := range sites {
				args := site.Common().Args
				ai := idx - (len(g.Params) - len(args))
				if ai < 0 || ai >= len(args) || !prov(args[ai], d+1, seen) {
					return false
				}
			}
			return true
		}
		return false
	}
	asg := recvCh != nil && prov(recvCh, 0, map[ssa.Value]bool{}) && sawSession
	c.check(asg, "C02.R7", fn, "drained channel is the last session's leftovers", recv.Pos(), "runSession's first result is stored into the variable that the final loop drains", "the final loop does not drain the leftovers returned by the last session")
	// OnFinished deferred, after the loop
	okFin := true
	for _, rd := range rundefersOf(fn) {
		f := false
		for _, d := range deferredAt(rd, true) {
			if fieldCallOf(d, fFin) {
				f = true
			}
		}
		if !f {
			okFin = false
		}
	}
	c.check(okFin && len(rundefersOf(fn)) > 0, "C02.R7", fn, "OnFinished runs at exit (deferred)", fn.Pos(), "every exit runs the deferred onFinished after the leftover loop", "an exit of run does not run onFinished")
	// non-deferred onFinished calls would run before the loop: none allowed
	for _, s := range sitesWhere(fn, func(s ssa.CallInstruction) bool { _, d := s.(*ssa.Defer); return !d && fieldCallOf(s, fFin) }) {
		c.bad("C02.R7", fn, "OnFinished only at exit", s.Pos(), "onFinished is called before the leftovers are handed back")
	}
	// runSession hands back what it was given or what the session returned
	rsf := c.P.Fn(aCWRunSess)
	runCalls := c.callsTo(rsf, anchorPred(aSessRun))
	for _, rv := range returnedValues(rsf, 0) {
		v := strip(rv.Val)
		okv := v == ssa.Value(rsf.Params[1])
		if ex, isEx := v.(*ssa.Extract); isEx && ex.Index == 0 && len(runCalls) == 1 && ex.Tuple == runCalls[0].Value() {
			okv = true
		}
		c.check(okv, "C02.R7", rsf, "runSession returns its leftovers parameter or the session's result", rv.At.Pos(), "leftovers are passed through unchanged or come from clientSession.Run", "runSession drops or replaces the leftovers")
	}
	// Run gets the leftovers
	for _, s := range runCalls {
		c.check(s.Common().Args[1] == ssa.Value(rsf.Params[1]), "C02.R7", rsf, "session receives the previous leftovers", s.Pos(), "Run is called with the leftovers parameter", "clientSession.Run is not given the previous leftovers")
	}
}

// loadOf wraps an address so sameCell can compare "the variable stored to" with "the variable loaded from"
type loadOf struct{ addr ssa.Value }

func (l *loadOf) Name() string                  { return "load" }
func (l *loadOf) String() string                { return "load" }
func (l *loadOf) Type() types.Type              { return nil }
func (l *loadOf) Parent() *ssa.Function         { return nil }
func (l *loadOf) Referrers() *[]ssa.Instruction { return nil }
func (l *loadOf) Pos() token.Pos                { return token.NoPos }

// sameCell: both values are loads of the same variable (alloc, possibly via a closure's free variable)
func sameCell(a, b ssa.Value) bool {
	cell := func(v ssa.Value) ssa.Value {
		if v == nil {
			return nil
		}
		if l, ok := v.(*loadOf); ok {
			v = l.addr
		} else {
			u, ok := strip(v).(*ssa.UnOp)
			if !ok || u.Op != token.MUL {
				return strip(v)
			}
			v = u.X
		}
		v = strip(v)
		if fv, ok := v.(*ssa.FreeVar); ok {
			if bnd := freeVarBinding(fv); bnd != nil {
				v = strip(bnd)
			}
		}
		return v
	}
	ca, cb := cell(a), cell(b)
	return ca != nil && ca == cb
}

// ---- R8: resend before new input

func ruleC02R8(c *Ctx) {
	// Stated over the session body (Run and its private helpers — resendLeftovers and processInput today), not over the
	// names of its stages: (1) no select offers the leftovers of the previous session and new input at the same time
	// (select picks at random among ready cases: a newer chunk would overtake an older, still undelivered one); (2) new
	// input is only taken after the leftovers channel was tried on every path; (3) new input is only taken inside the
	// session body.
	run := c.P.Fn(aSessRun)
	// the leftovers channel: a channel of chunks that is a parameter of the session body, possibly re-assigned to nil
	isLeftovers := func(ch ssa.Value) bool {
		if chunkHolderKind(ch.Type()) != "chan" {
			return false
		}
		seen := map[ssa.Value]bool{}
		param, other := false, false
		var walk func(v ssa.Value, d int)
		walk = func(v ssa.Value, d int) {
			v = strip(v)
			if seen[v] || d > 8 {
				return
			}
			seen[v] = true
			switch x := v.(type) {
			case *ssa.Parameter:
				param = true
			case *ssa.Const:
				if !x.IsNil() {
					other = true
				}
			case *ssa.Phi:
				for _, e := range x.Edges {
					walk(e, d+1)
				}
			case *ssa.UnOp:
				if al, ok := x.X.(*ssa.Alloc); ok && x.Op == token.MUL {
					for _, ref := range *al.Referrers() {
						if st, ok := ref.(*ssa.Store); ok && st.Addr == ssa.Value(al) {
							walk(st.Val, d+1)
						}
					}
					return
				}
				other = true
			default:
				other = true
			}
		}
		walk(ch, 0)
		return param && !other
	}
	isInput := func(ch ssa.Value) bool { return fieldOf(resolve(ch)) == fSessInput || fieldOf(ch) == fSessInput }
	var lefts, inputs []ssa.Instruction
	mixed := ssa.Instruction(nil)
	c.eachInstrR(run, func(in ssa.Instruction) {
		l, i := false, false
		switch x := in.(type) {
		case *ssa.Select:
			for _, st := range x.States {
				if st.Dir != types.RecvOnly {
					continue
				}
				l = l || isLeftovers(st.Chan)
				i = i || isInput(st.Chan)
			}
		case *ssa.UnOp:
			if x.Op == token.ARROW {
				l, i = isLeftovers(x.X), isInput(x.X)
			}
		}
		if l {
			lefts = append(lefts, in)
		}
		if i {
			inputs = append(inputs, in)
		}
		if l && i {
			mixed = in
		}
	})
	pos := run.Pos()
	if mixed != nil {
		pos = mixed.Pos()
	}
	c.check(mixed == nil, "C02.R8", run, "leftovers and new input are never offered in one select", pos,
		"no select of the session body receives from both the leftovers channel and the input channel",
		"a select receives from the leftovers channel and from the input channel: when both are ready Go picks at random, so new chunks are sent ahead of older, undelivered leftovers")
	c.checkOrder("C02.R8", run, "receive from the previous session's leftovers", instrSet(lefts), "receive of new input", instrSet(inputs))
	body := map[string]bool{}
	for _, g := range c.regionOf(run) {
		body[anchorName(g)] = true
	}
	n := 0
	for _, op := range c.chanFieldOps(fSessInput) {
		n++
		c.check(body[anchorName(op.In.Parent())], "C02.R8", op.In.Parent(), op.Kind+" on clientSession.inputChannel", op.In.Pos(),
			"new chunks are only taken in the session body (Run and its private helpers)", "the session's input channel is used outside the session body")
	}
	c.floor("C02.R8", "operations on clientSession.inputChannel", n, 1)
	for _, op := range c.chanFieldOps("output/baseoutput.ClientWorker.inputChannel") {
		c.bad("C02.R8", op.In.Parent(), op.Kind+" on ClientWorker.inputChannel", op.In.Pos(), "the worker itself must not consume the input channel")
	}
}

// ---- R9: every I/O error aborts the connection

func ruleC02R9(c *Ctx) {
	n := 0
	for _, fn := range c.P.universe {
		for _, s := range sitesWhere(fn, func(s ssa.CallInstruction) bool {
			return invokeOf(s, iConn, "SendChunk") || invokeOf(s, iConn, "SendPing") || invokeOf(s, iConn, "ReadChunkAck")
		}) {
			n++
			errIdx := 0
			if s.Common().Method.Name() == "ReadChunkAck" {
				errIdx = 1
			}
			errv := resultOf(s.Value(), errIdx)
			ne := nilEdges(errv, false)
			if len(ne) == 0 {
				c.bad("C02.R9", fn, "error of "+s.Common().Method.Name()+" aborts the connection", s.Pos(), "the error result is not tested")
				continue
			}
			sAb := siteSumm(c.P, func(x ssa.CallInstruction) bool { return fieldCallOf(x, fAbortConn) })
			sAb.AllowEmptyGuards, sAb.LoopsRunOnce = false, false
			for b, si := range ne {
				c.mustBeforeReturn("C02.R9", fn, succPoint(b, si), sAb, "error of "+s.Common().Method.Name()+" aborts the connection", "abortConn", s.Pos(), nil)
			}
		}
	}
	c.floor("C02.R9", "connection I/O call sites", n, 3)
	// abortConn wraps conn.Close through RunOnce
	ns := c.P.Fn(aNewSession)
	ok := false
	for _, s := range c.callsTo(ns, anchorPred("util.NewRunOnce")) {
		if mc, isMC := resolve(s.Common().Args[0]).(*ssa.MakeClosure); isMC {
			for _, t := range wrapperTargets(c.P, mc.Fn.(*ssa.Function)) {
				if t.Name() == "Close" {
					ok = true
				}
			}
			// bound interface method: wrapper body invokes Close
			eachInstr(mc.Fn.(*ssa.Function), func(in ssa.Instruction) {
				if ci, isC := in.(ssa.CallInstruction); isC && ci.Common().IsInvoke() && ci.Common().Method.Name() == "Close" {
					ok = true
				}
			})
		}
	}
	c.check(ok, "C02.R9", ns, "abortConn = RunOnce(conn.Close)", ns.Pos(), "abortConn closes the connection exactly once", "abortConn is not built from conn.Close via NewRunOnce")
}

// ---- R11 (added after seed c02f): an anonymous ACK is only given by a connection that confirms in SendChunk itself.
// ReadChunkAck may return an empty id, which the acknowledger credits to the OLDEST outstanding chunk (R2). That is right
// only when nothing can complete out of send order: the connection's SendChunk has performed the whole exchange before it
// returns (no goroutine is started on its behalf) and ReadChunkAck has nothing of its own to report (it does not wait on a
// channel for somebody else's result). A connection that sends concurrently and reports completions as they arrive must
// name the chunk in every ACK.
func init() {
	register("C02", "C02.R11", ruleC02R11)
	register("C01", "C02.R11", ruleC02R11)
}

func ruleC02R11(c *Ctx) {
	n := 0
	for _, fn := range c.P.universe {
		if fn.Name() != "ReadChunkAck" || fn.Signature.Recv() == nil || fn.Blocks == nil || fn.Parent() != nil {
			continue
		}
		if strings.Contains(fn.Synthetic, "wrapper") {
			continue
		}
		n++
		anonymous := false
		for _, rv := range returnedValues(fn, 0) {
			if k, ok := strip(rv.Val).(*ssa.Const); ok && k.Value != nil && k.Value.Kind() == constant.String && constant.StringVal(k.Value) == "" {
				// together with a nil error?
				r, isRet := rv.At.(*ssa.Return)
				if !isRet || len(r.Results) < 2 || !certainlyNonNilError(r.Results[1]) {
					anonymous = true
				}
			}
		}
		if !anonymous {
			c.ok("C02.R11", fn, "ACKs name their chunk", fn.Pos(), "no successful return with an empty chunk id")
			continue
		}
		// the same receiver's SendChunk
		recvT := fn.Signature.Recv().Type()
		var send *ssa.Function
		for _, g := range c.P.universe {
			if g.Name() == "SendChunk" && g.Signature.Recv() != nil && types.Identical(g.Signature.Recv().Type(), recvT) && g.Blocks != nil && !strings.Contains(g.Synthetic, "wrapper") {
				send = g
			}
		}
		if send == nil {
			c.bad("C02.R11", fn, "anonymous ACK only from a synchronous connection", fn.Pos(), "UNDECIDED: no SendChunk method of the same type found")
			continue
		}
		why := ""
		// (a) SendChunk and what it calls in its package start no goroutine
		seen := map[*ssa.Function]bool{}
		var scan func(f *ssa.Function, d int)
		scan = func(f *ssa.Function, d int) {
			if seen[f] || d > 4 || f.Blocks == nil || why != "" {
				return
			}
			seen[f] = true
			for _, a := range withAnons(f) {
				for _, s := range callsIn(a) {
					if _, isGo := s.(*ssa.Go); isGo {
						why = "SendChunk starts a goroutine (" + c.P.pos(s.Pos()) + ") and returns before the exchange is over: requests complete in any order"
						return
					}
					if g := s.Common().StaticCallee(); g != nil && fnPkgPath(g) == fnPkgPath(send) {
						scan(g, d+1)
					}
				}
			}
		}
		scan(send, 0)
		// (b) ReadChunkAck reports nothing that was produced elsewhere
		if why == "" {
			for _, a := range withAnons(fn) {
				for _, op := range chanOps(a) {
					if op.Kind == "recv" || op.Kind == "range" || op.Kind == "select" {
						why = "ReadChunkAck takes a result from a channel (" + c.P.pos(op.In.Pos()) + "): what it reports was completed elsewhere, in completion order"
					}
				}
				eachInstr(a, func(in ssa.Instruction) {
					if _, ok := in.(*ssa.Select); ok && why == "" {
						why = "ReadChunkAck waits in a select (" + c.P.pos(in.Pos()) + "): what it reports was completed elsewhere, in completion order"
					}
				})
			}
		}
		c.check(why == "", "C02.R11", fn, "anonymous ACK only from a synchronous connection", fn.Pos(),
			"the connection returns an empty id, SendChunk ("+anchorName(send)+") starts no goroutine and ReadChunkAck waits for nothing: every chunk was confirmed or failed inside its own SendChunk",
			"ReadChunkAck returns an empty chunk id, which the acknowledger credits to the oldest outstanding chunk, but "+why+" — a chunk is reported delivered because of another chunk's response; if its own request then fails the failure is blamed on the next chunk and the chunk is never retransmitted")
	}
	c.floor("C02.R11", "ReadChunkAck implementations", n, 2)
}
