package main

// C05 Arrival order is preserved per connection and key set.

import (
	"fmt"
	"go/constant"
	"go/token"
	"go/types"
	"regexp"
	"strings"

	"golang.org/x/tools/go/ssa"
)

const (
	aCIBAppend   = "orchestrate/obykeyset.(*channelInputBuffer).Append"
	aNewPipeline = "orchestrate/obykeyset.(*byKeySetOrchestrator).newPipeline"
	aWorkerStart = "base/bsupport.(*PipelineWorkerBase).Start"
	aGenerate    = "output/shared.(*chunkIDGenerator).Generate"
	aCopyLogBuf  = "base/bsupport.CopyLogBuffer"
	fBaseInput   = "base/bsupport.PipelineWorkerBase._baseInput"
	fCIBChannel  = "orchestrate/obykeyset.channelInputBuffer.Channel"
	fCIBPending  = "orchestrate/obykeyset.channelInputBuffer.PendingLogs"
)

func init() {
	for i, r := range []ruleFn{ruleC05R1, ruleC05R2, ruleC05R3} {
		register("C05", fmt.Sprintf("C05.R%d", i+1), r)
	}
	register("C05", "C02.R8", ruleC02R8)
	register("C05", "C03.R7", ruleC03R7)
	register("C05", "C01.R8", ruleC01R8)
	register("C05", "C03.R6", ruleC03R6)
	register("C05", "C05.R6", ruleC05R6)
	propExplanation["C05"] = "Decides the structural carriers of ordering: every FIFO on the path has one producer role and one consumer (who-may-send/receive over channel-typed fields, one goroutine per worker/feeder) (R1, C03.R6); " +
		"a buffer flush sends a copy taken before the truncation, once, and Append only appends at the end (R2); every leftovers channel is built by newLeftoverChannel where a sort by ID dominates the fill loop and duplicates are skipped (R3); " +
		"leftovers are resent before new input (C02.R8); recovery is sorted and enqueued before feeder and worker start (C03.R7, C01.R8); chunk ids only come from the generator, whose counters are updated under its mutex and formatted fixed-width (R6). " +
		"Not decided: wall-clock monotonicity of ids, order across connections, the interleavings themselves."
	propAssumptions["C05"] = []string{"Go channels are FIFO", "time.Now().UnixNano() does not go backwards between two chunks of one pipeline"}
}

func ruleC05R1(c *Ctx) {
	// pipeline input channel: received only by the worker main loop
	n := 0
	// the worker body: _baseRun and its private helpers (_baseProcessMain today)
	workerBody := map[string]bool{}
	for _, f := range c.P.Fns(aBaseRun) {
		for _, g := range c.regionOf(f) {
			workerBody[anchorName(g)] = true
		}
	}
	for _, op := range c.chanFieldOps(fBaseInput) {
		n++
		c.check(workerBody[anchorName(op.In.Parent())] && op.Kind == "recv", "C05.R1", op.In.Parent(), op.Kind+" on PipelineWorkerBase._baseInput", op.In.Pos(),
			"the pipeline channel is consumed only by the worker goroutine's body (_baseRun and its private helpers)", "a second consumer (or a producer) of the pipeline input channel reorders records")
	}
	c.floor("C05.R1", "operations on _baseInput", n, 1)
	n = 0
	for _, op := range c.chanFieldOps(fCIBChannel) {
		n++
		c.check(ownedBy(op.In.Parent(), aCIBFlush) && op.Kind == "send", "C05.R1", op.In.Parent(), op.Kind+" on channelInputBuffer.Channel", op.In.Pos(),
			"records enter a pipeline channel only through channelInputBuffer.Flush", "the pipeline channel is written outside channelInputBuffer.Flush")
	}
	c.floor("C05.R1", "operations on channelInputBuffer.Channel", n, 1)
	// one goroutine per worker
	ng := 0
	for _, fn := range c.P.universe {
		for _, s := range callsIn(fn) {
			g, ok := s.(*ssa.Go)
			if !ok {
				continue
			}
			for _, cal := range c.P.callees(g) {
				if isAnchor(cal, aBaseRun) {
					ng++
					c.check(ownedBy(fn, aWorkerStart), "C05.R1", fn, "go _baseRun", g.Pos(), "the worker goroutine is launched only by Start", "a second worker goroutine on the same channel reorders records")
				}
			}
		}
	}
	c.floor("C05.R1", "go _baseRun sites", ng, 1)
	for _, st := range c.P.Fns(aWorkerStart) {
		cnt := 0
		for _, s := range callsIn(st) {
			if _, ok := s.(*ssa.Go); ok {
				cnt++
			}
		}
		c.check(cnt == 1 && len(naturalLoops(st)) == 0, "C05.R1", st, "Start launches exactly one goroutine", st.Pos(), "one go statement, no loop", "Start launches several worker goroutines")
	}
	// one worker per pipeline: exactly one NewLogProcessingWorker and one Start on every path of the starter
	starter := returnedClosure(c.P.Fn(aPrepPipe))
	cs := &CountSpec{P: c.P, Classes: []string{"NewLogProcessingWorker", "procWorker.Start"}, Site: func(s ssa.CallInstruction) int {
		if f := s.Common().StaticCallee(); f != nil {
			if isAnchor(f, aNewLPW) {
				return 0
			}
			if isAnchor(f, aWorkerStart) {
				return 1
			}
		}
		return -1
	}}
	outs := cs.Enum(starter, entryOf(starter), nil)
	good := len(outs) > 0
	var why []string
	for _, o := range outs {
		if o.Counts[0] != 1 || o.Counts[1] != 1 {
			good = false
			why = append(why, cs.describe(o))
		}
	}
	c.check(good, "C05.R1", starter, "one processing worker per pipeline", starter.Pos(), fmt.Sprintf("all %d path outcomes create and start exactly one worker", len(outs)), "a path creates "+strings.Join(why, "; "))
	// the worker reads the channel the orchestrator made: input parameter flows into NewLogProcessingWorker
	okFlow := false
	for _, s := range c.callsTo(starter, anchorPred(aNewLPW)) {
		if p, ok := resolve(s.Common().Args[1]).(*ssa.Parameter); ok && len(starter.Params) == 6 && p == starter.Params[2] {
			okFlow = true
		}
	}
	c.check(okFlow, "C05.R1", starter, "worker consumes the starter's input channel", starter.Pos(), "NewLogProcessingWorker gets the input parameter", "the worker is not given the pipeline's input channel")
	np := c.P.Fn(aNewPipeline)
	var mk *ssa.MakeChan
	eachInstr(np, func(in ssa.Instruction) {
		if m, ok := in.(*ssa.MakeChan); ok {
			mk = m
		}
	})
	okNP := false
	if mk != nil {
		started, returned := false, false
		for _, s := range callsIn(np) {
			if fieldCallOf(s, "orchestrate/obykeyset.byKeySetOrchestrator.startPipeline") {
				for _, a := range s.Common().Args {
					if mentions(a, func(v ssa.Value) bool { return v == ssa.Value(mk) }) {
						started = true
					}
				}
			}
		}
		for _, rv := range returnedValues(np, 0) {
			if mentions(rv.Val, func(v ssa.Value) bool { return v == ssa.Value(mk) }) {
				returned = true
			}
		}
		okNP = started && returned
	}
	c.check(okNP, "C05.R1", np, "one channel per pipeline: made, given to startPipeline, returned to the map", np.Pos(), "the make(chan) value is both the worker's input and the map's entry", "newPipeline does not hand the same channel to the worker and to the orchestrator map")
	// ackerChan: received only by the acknowledger (and drained after it ended)
	for _, op := range c.chanFieldOps(fAckerChan) {
		if op.Kind == "recv" || op.Kind == "range" {
			c.check(ownedBy(op.In.Parent(), aRunAcker), "C05.R1", op.In.Parent(), op.Kind+" on ackerChan", op.In.Pos(), "only the acknowledger receives from ackerChan", "a second receiver of ackerChan breaks ACK order")
		}
	}
}

func ruleC05R2(c *Ctx) {
	fn := c.P.Fn(aCIBFlush)
	// a fresh copy of a slice: the module's CopyLogBuffer / CopySlice, slices.Clone, or append to nil / to a new slice
	type cpy struct {
		val, src ssa.Value
	}
	var copies []cpy
	for _, s := range callsIn(fn) {
		cl, ok := s.(*ssa.Call)
		if !ok {
			continue
		}
		if f := cl.Common().StaticCallee(); f != nil && len(cl.Common().Args) >= 1 {
			if isAnchor(f, aCopyLogBuf) || extName(f) == "slices.Clone" || anchorName(f) == "util.CopySlice" {
				copies = append(copies, cpy{cl, cl.Common().Args[0]})
			}
			continue
		}
		if isBuiltin(cl, "append") && len(cl.Call.Args) == 2 {
			fresh := false
			switch b := strip(cl.Call.Args[0]).(type) {
			case *ssa.Const:
				fresh = b.IsNil()
			case *ssa.MakeSlice:
				fresh = true
			}
			if _, isSlice := cl.Call.Args[1].Type().Underlying().(*types.Slice); fresh && isSlice {
				copies = append(copies, cpy{cl, cl.Call.Args[1]})
			}
		}
	}
	appendCheck := func() {
		ap := c.P.Fn(aCIBAppend)
		okAp := false
		for _, s := range storesToField(ap, fCIBPending) {
			if cl, ok := strip(s.Val).(*ssa.Call); ok && isBuiltin(cl, "append") && fieldOf(cl.Call.Args[0]) == fCIBPending &&
				mentions(cl.Call.Args[1], func(v ssa.Value) bool { return v == ssa.Value(ap.Params[1]) }) {
				okAp = true
			}
		}
		c.check(okAp, "C05.R2", ap, "Append appends the record at the end", ap.Pos(), "PendingLogs = append(PendingLogs, record)", "Append does not add the record at the end of PendingLogs")
	}
	var sel *ssa.Select
	var sendVal ssa.Value
	nSend := 0
	type sendSite struct {
		in      ssa.Instruction
		val     ssa.Value
		success *ssa.BasicBlock // where control goes when this send happened (nil: the instruction itself is the send)
	}
	var sites []sendSite
	eachInstr(fn, func(in ssa.Instruction) {
		if s, ok := in.(*ssa.Select); ok {
			for i, st := range s.States {
				if st.Dir == types.SendOnly && fieldOf(st.Chan) == fCIBChannel {
					sel, sendVal = s, st.Send
					nSend++
					sites = append(sites, sendSite{in, st.Send, selectCaseBlock(s, i)})
				}
			}
		}
		if s, ok := in.(*ssa.Send); ok && fieldOf(s.Chan) == fCIBChannel {
			nSend++
			sendVal = s.X
			sites = append(sites, sendSite{in, s.X, nil})
		}
	})
	if len(copies) == 0 && nSend == 1 && fieldOf(sendVal) == fCIBPending {
		// hand-over instead of a copy: the pending slice itself is sent and the sink keeps nothing of it — every store to
		// PendingLogs in Flush installs a new slice (or nil). A retained or recycled buffer would be refilled while the
		// worker still reads the batch.
		okNew := true
		var bad ssa.Instruction
		sts := storesToField(fn, fCIBPending)
		for _, st := range sts {
			switch b := strip(st.Val).(type) {
			case *ssa.MakeSlice:
			case *ssa.Const:
				if !b.IsNil() {
					okNew, bad = false, st
				}
			default:
				okNew, bad = false, st
			}
		}
		pos := fn.Pos()
		if bad != nil {
			pos = bad.Pos()
		}
		c.check(okNew && len(sts) > 0, "C05.R2", fn, "the batch sent is not refilled: a copy is sent, or the pending slice is handed over and replaced by a new one", pos,
			"PendingLogs is sent as it is and replaced by a newly made slice", "PendingLogs is sent as it is, and what replaces it is not a new slice (a retained or recycled buffer is refilled while the worker may still read the batch it was sent as: later records overtake earlier ones)")
		if len(naturalLoops(fn)) > 0 {
			c.bad("C05.R2", fn, "one send per flush", fn.Pos(), "Flush contains a loop around its send")
		}
		appendCheck()
		return
	}
	if len(copies) != 1 || nSend < 1 {
		c.bad("C05.R2", fn, "flush sends one copy of the pending records", fn.Pos(), fmt.Sprintf("expected one fresh copy of the pending records (CopyLogBuffer, slices.Clone, append to nil) and at least one send, found %d / %d", len(copies), nSend))
		return
	}
	if nSend > 1 {
		// several send sites (a non-blocking fast path before the timed one): each sends the same copy, and once one of
		// them has sent, no other is reachable — at most one send per flush
		okOnce := true
		why := ""
		for _, a := range sites {
			if !sameValue(a.val, copies[0].val) {
				okOnce, why = false, "a send site sends something other than the one copy"
			}
			var start Point
			switch {
			case a.success != nil:
				start = Point{a.success, 0}
			case a.in.Block() != nil:
				if _, isSel := a.in.(*ssa.Select); isSel {
					okOnce, why = false, "the success branch of a select send could not be identified"
					continue
				}
				start = after(a.in)
			}
			for _, b := range sites {
				if b.in == a.in {
					continue
				}
				q := &PathQ{P: c.P}
				if hit, _ := q.Reach(start, func(in ssa.Instruction) bool { return in == b.in }); hit != nil {
					okOnce, why = false, "after one send succeeded another send site is still reachable: the batch can be delivered twice"
				}
			}
		}
		c.check(okOnce, "C05.R2", fn, "at most one send per flush over several send sites", fn.Pos(), fmt.Sprintf("%d send sites, all of the one copy, mutually exclusive once one has sent", nSend), why)
		if !okOnce {
			return
		}
	}
	cp := copies[0]
	okVal := sameValue(sendVal, cp.val) && fieldOf(cp.src) == fCIBPending
	pos := fn.Pos()
	if sel != nil {
		pos = sel.Pos()
	}
	c.check(okVal, "C05.R2", fn, "the value sent is CopyLogBuffer(PendingLogs)", pos, "the send carries the copy of the pending buffer", "the flush does not send a copy of PendingLogs (the reused backing array would be overwritten by later records)")
	// the slice header copied was loaded before the truncating store (the local keeps the full length)
	st := storesToField(fn, fCIBPending)
	if ld, ok := strip(cp.src).(*ssa.UnOp); ok {
		c.checkOrder("C05.R2", fn, "load of PendingLogs that is copied", map[ssa.Instruction]bool{ld: true}, "truncating store to PendingLogs", instrSet(st))
	}
	if len(naturalLoops(fn)) > 0 {
		c.bad("C05.R2", fn, "one send per flush", fn.Pos(), "Flush contains a loop around its send")
	}
	appendCheck()
}

func ruleC05R3(c *Ctx) {
	fn := c.P.Fn(aNewLeftChan)
	sorts := c.callsTo(fn, extPred("sort.Slice", "sort.SliceStable", "slices.SortFunc", "slices.SortStableFunc"))
	var sends []ssa.Instruction
	eachInstr(fn, func(in ssa.Instruction) {
		if s, ok := in.(*ssa.Send); ok {
			if ch, ok := s.Chan.Type().Underlying().(*types.Chan); ok && typeName(ch.Elem()) == "base.LogChunk" {
				sends = append(sends, in)
			}
		}
	})
	c.checkOrder("C05.R3", fn, "sort by ID", callInstrSet(sorts), "fill of the leftovers channel", instrSet(sends))
	// comparator compares .ID with <
	okCmp := false
	for _, s := range sorts {
		for _, cf := range closureArgs(s) {
			eachInstr(cf, func(in ssa.Instruction) {
				if bo, ok := in.(*ssa.BinOp); ok && (bo.Op == token.LSS || bo.Op == token.GTR) && fieldOf(bo.X) == "base.LogChunk.ID" && fieldOf(bo.Y) == "base.LogChunk.ID" {
					okCmp = true
				}
			})
			// cmp.Compare / strings.Compare on IDs
			for _, cc := range callsIn(cf) {
				if f := cc.Common().StaticCallee(); f != nil && (extName(f) == "strings.Compare" || strings.HasPrefix(extName(f), "cmp.Compare")) {
					if fieldOf(cc.Common().Args[0]) == "base.LogChunk.ID" && fieldOf(cc.Common().Args[1]) == "base.LogChunk.ID" {
						okCmp = true
					}
				}
			}
		}
	}
	c.check(okCmp, "C05.R3", fn, "comparator orders by chunk ID", fn.Pos(), "the sort's less function compares LogChunk.ID", "the leftovers are not sorted by chunk ID")
	// what is sorted is the parameter and the fill loop iterates it
	okIter := false
	for _, s := range sends {
		if mentions(s.(*ssa.Send).X, func(v ssa.Value) bool {
			ia, ok := v.(*ssa.IndexAddr)
			return ok && mentions(ia.X, func(x ssa.Value) bool { return x == ssa.Value(fn.Params[0]) })
		}) {
			okIter = true
		}
	}
	// the WHOLE parameter slice is sorted (a sorted prefix + sorted rest is not sorted)
	okSorted := false
	for _, s := range sorts {
		arg := resolve(s.Common().Args[0])
		if arg == ssa.Value(fn.Params[0]) {
			okSorted = true
		}
	}
	c.check(okIter && okSorted, "C05.R3", fn, "the sorted slice is what fills the channel", fn.Pos(), "sort and fill both work on the parameter slice, in index order", "the channel is not filled from the sorted slice")
	// duplicates skipped: equality test against the previously sent ID guards the send
	okDup := false
	eachInstr(fn, func(in ssa.Instruction) {
		bo, ok := in.(*ssa.BinOp)
		if !ok || bo.Op != token.EQL || fieldOf(bo.X) != "base.LogChunk.ID" {
			return
		}
		for b, si := range boolEdges(bo, true) {
			lp := loopOf(fn, b)
			q := &PathQ{P: c.P, Barrier: func(x ssa.Instruction) bool { return lp != nil && x == lp.header.Instrs[0] }}
			if hit, _ := q.Reach(succPoint(b, si), func(x ssa.Instruction) bool { return instrSet(sends)[x] }); hit == nil {
				okDup = true
			}
		}
	})
	c.check(okDup, "C05.R3", fn, "equal IDs are sent once", fn.Pos(), "an ID equal to the previous one skips the send", "duplicates (a chunk both in the previous leftovers and in the pending map) are not removed")
	// the channel has room for everything it is filled with (the fill must not block)
	okCap := false
	eachInstr(fn, func(in ssa.Instruction) {
		if m, ok := in.(*ssa.MakeChan); ok {
			if cl, ok := strip(m.Size).(*ssa.Call); ok && isBuiltin(cl, "len") && mentions(cl.Call.Args[0], func(x ssa.Value) bool { return x == ssa.Value(fn.Params[0]) }) {
				okCap = true
			}
		}
	})
	c.check(okCap, "C05.R3", fn, "channel capacity = len(chunks)", fn.Pos(), "make(chan, len(chunks))", "the leftovers channel may be smaller than its contents (the fill would block forever)")
	// every function of the client that returns a chunk channel gets it from newLeftoverChannel / collectLeftovers / its parameter
	n := 0
	for _, f := range c.P.universe {
		if !strings.HasPrefix(fnPkgPath(f), modPath+"/output/baseoutput") || f.Signature.Results().Len() == 0 {
			continue
		}
		if chunkHolderKind(f.Signature.Results().At(0).Type()) != "chan" {
			continue
		}
		n++
		// inductive: the channel-returning functions of the client form a closed set — each returns nil, a channel it was
		// given, the result of another member (which is checked in its turn), or, in newLeftoverChannel only, a new channel
		member := func(sc *ssa.Function) bool {
			return sc != nil && sc.Blocks != nil && strings.HasPrefix(fnPkgPath(sc), modPath+"/output/baseoutput") &&
				sc.Signature.Results().Len() > 0 && chunkHolderKind(sc.Signature.Results().At(0).Type()) == "chan"
		}
		var fromMember func(v ssa.Value, seen map[ssa.Value]bool) bool
		fromMember = func(v ssa.Value, seen map[ssa.Value]bool) bool {
			v = strip(v)
			if seen[v] {
				return true
			}
			seen[v] = true
			switch x := v.(type) {
			case *ssa.Const:
				return x.IsNil()
			case *ssa.Parameter:
				return true
			case *ssa.Call:
				return member(x.Common().StaticCallee())
			case *ssa.Extract:
				if cl, isC := x.Tuple.(*ssa.Call); isC && x.Index == 0 {
					return member(cl.Common().StaticCallee())
				}
			case *ssa.MakeChan:
				return anchorName(f) == aNewLeftChan
			case *ssa.Phi:
				for _, e := range x.Edges {
					if !fromMember(e, seen) {
						return false
					}
				}
				return true
			}
			return false
		}
		for _, rv := range returnedValues(f, 0) {
			ok := fromMember(rv.Val, map[ssa.Value]bool{})
			c.check(ok, "C05.R3", f, "returned chunk channel comes from newLeftoverChannel", rv.At.Pos(), "the channel is nil, passed through, or built by newLeftoverChannel/collectLeftovers", "a leftovers channel is built without sorting by ID")
		}
	}
	c.floor("C05.R3", "functions returning a chunk channel", n, 3)
}

var zeroPadVerbs = regexp.MustCompile(`%0[0-9]+d`)
var anyVerb = regexp.MustCompile(`%[^%]`)

func ruleC05R6(c *Ctx) {
	// who writes LogChunk.ID
	n := 0
	allowed := map[string]bool{
		aScan: true,
		"output/fluentdforward.(*intermediateChunk).FinalizeChunk": true,
		"output/datadog.(*intermediateChunk).FinalizeChunk":        true,
	}
	for _, fn := range c.P.universe {
		for _, st := range storesToField(fn, "base.LogChunk.ID") {
			n++
			c.check(ownedByAny(fn, allowed), "C05.R6", fn, "store to LogChunk.ID", st.Pos(), "chunk ids are only assigned by the chunk finalizers (from the generator) and by the recovery scan (from the file name)", "a chunk ID is assigned outside the finalizers / recovery scan")
		}
	}
	c.floor("C05.R6", "stores to LogChunk.ID", n, 3)
	// finalizers use the intermediate chunk's id, which is the factory's generated id
	for _, pkg := range []string{"output/fluentdforward", "output/datadog"} {
		f := c.P.Fn(pkg + ".(*intermediateChunk).FinalizeChunk")
		okID := false
		for _, st := range storesToField(f, "base.LogChunk.ID") {
			if fieldOf(st.Val) == pkg+".intermediateChunk.id" {
				okID = true
			}
		}
		c.check(okID, "C05.R6", f, "LogChunk.ID = intermediateChunk.id", f.Pos(), "the finalized chunk carries the id it was created with", "the finalized chunk's ID is not the intermediate chunk's id")
		bf := c.P.Fn(pkg + ".buildNewChunkFunc")
		okStore := false
		for _, a := range bf.AnonFuncs {
			for _, st := range storesToField(a, pkg+".intermediateChunk.id") {
				if p, ok := resolve(st.Val).(*ssa.Parameter); ok && p == a.Params[0] {
					okStore = true
				}
			}
		}
		c.check(okStore, "C05.R6", bf, "intermediateChunk.id = id parameter", bf.Pos(), "the chunk constructor stores the id it is given", "the chunk constructor does not store its id parameter")
	}
	nc := c.P.Fn("output/shared.(*IntermediateChunkFactory).NewChunk")
	okGen := false
	for _, s := range callsIn(nc) {
		if fieldCallOf(s, "output/shared.IntermediateChunkFactory.newChunkFunc") {
			if cl, ok := strip(s.Common().Args[0]).(*ssa.Call); ok && cl.Common().StaticCallee() != nil && isAnchor(cl.Common().StaticCallee(), aGenerate) {
				okGen = true
			}
		}
	}
	c.check(okGen, "C05.R6", nc, "new chunks get Generate() as id", nc.Pos(), "newChunkFunc(idGenerator.Generate(), …)", "new chunks are not given a generated id")
	// generator: counters only under its mutex
	gen := c.P.Fn(aGenerate)
	mutexClass := func(s ssa.CallInstruction) lockKind {
		switch extName(s.Common().StaticCallee()) {
		case "(*sync.Mutex).Lock":
			return lockAcquireW
		case "(*sync.Mutex).Unlock":
			return lockRelease
		}
		return lockNone
	}
	// Generate and its private helpers; a helper starts in the lock state of its call sites
	genBody := map[*ssa.Function]map[ssa.Instruction]int{}
	for _, g := range c.regionOf(gen) {
		genBody[g] = c.lockStatesR(g, mutexClass)
	}
	na := 0
	for _, fld := range []string{"output/shared.chunkIDGenerator.epochNano", "output/shared.chunkIDGenerator.sequence"} {
		for _, f := range c.P.universe {
			for _, in := range fieldAccesses(f, fld) {
				if anchorName(f) == "output/shared.newChunkIDGenerator" {
					continue // constructor: not yet shared
				}
				na++
				c.check(genBody[f] != nil && genBody[f][in] == 2, "C05.R6", f, "access to "+fld+" under the generator's mutex", in.Pos(), "the access is inside Lock/Unlock", "the id counters are accessed without the generator's mutex (duplicate or unordered ids)")
			}
		}
	}
	c.floor("C05.R6", "accesses of the id counters", na, 3)
	// fixed-width, zero-padded format so that string order = (time, sequence) order
	okFmt := false
	whyFmt := "chunk ids are not fixed-width: sorting them as strings (recovery, leftovers) no longer gives creation order"
	for _, s := range c.sitesWhereR(gen, func(s ssa.CallInstruction) bool {
		f := s.Common().StaticCallee()
		return f != nil && extName(f) == "fmt.Sprintf"
	}) {
		mentions(s.Common().Args[0], func(v ssa.Value) bool {
			if k, ok := v.(*ssa.Const); ok && k.Value != nil && k.Value.Kind() == constant.String {
				f := constant.StringVal(k.Value)
				verbs := anyVerb.FindAllString(f, -1)
				if len(verbs) >= 2 && len(zeroPadVerbs.FindAllString(f, -1)) == len(verbs) && strings.HasPrefix(f, "%0") {
					okFmt = true
				}
				// a leading %s is accepted when it is a timestamp rendered by (time.Time).Format with a fixed-width,
				// most-significant-first layout, in UTC (local time goes backwards when the offset drops)
				nPad := len(zeroPadVerbs.FindAllString(f, -1))
				trailingSuffix := strings.HasSuffix(f, "%s") && len(verbs) >= 3
				if len(verbs) >= 2 && verbs[0] == "%s" && strings.HasPrefix(f, "%s") && nPad >= 1 && (nPad == len(verbs)-1 || (trailingSuffix && nPad == len(verbs)-2)) {
					elems := varargElems(s.Common().Args[1])
					for _, e := range elems {
						cl, ok := strip(unbox(e)).(*ssa.Call)
						if !ok || cl.Common().StaticCallee() == nil || extName(cl.Common().StaticCallee()) != "(time.Time).Format" {
							continue
						}
						lay, isK := cl.Common().Args[1].(*ssa.Const)
						if !isK || lay.Value == nil || !fixedWidthTimeLayout(constant.StringVal(lay.Value)) {
							whyFmt = "the timestamp part of the id is rendered with a layout that is not fixed-width and most-significant-first"
							continue
						}
						utc := mentions(cl.Common().Args[0], func(x ssa.Value) bool {
							c2, ok := x.(*ssa.Call)
							return ok && c2.Common().StaticCallee() != nil && extName(c2.Common().StaticCallee()) == "(time.Time).UTC"
						})
						// the rendering must not be coarser than what the sequence logic compares: the counters restart when the
						// nanosecond value grows, so anything short of nine fraction digits gives two chunks of one
						// millisecond (or second) the same id
						if fracDigits(constant.StringVal(lay.Value)) != 9 {
							whyFmt = fmt.Sprintf("the timestamp part of the id has %d fraction digits, but the sequence number restarts whenever the nanosecond clock value grows: two chunks created within one unit of the rendered resolution get the same id — the second buffer file overwrites the first, the pending-ACK map holds one entry for two chunks", fracDigits(constant.StringVal(lay.Value)))
							continue
						}
						if !utc {
							whyFmt = "the timestamp part of the id is rendered in the local zone (no .UTC() before Format): ids go backwards when the host's UTC offset drops (end of DST), and the two sorts by id then put newer chunks ahead of older ones"
							continue
						}
						okFmt = true
					}
				}
			}
			return false
		})
	}
	c.check(okFmt, "C05.R6", gen, "id format is fixed-width zero-padded", gen.Pos(), "every integer verb of the format is %0Nd and the id starts with the timestamp (a number, or a fixed-width UTC rendering)", whyFmt)
}

// unbox: the value put into an interface
func unbox(v ssa.Value) ssa.Value {
	if mi, ok := strip(v).(*ssa.MakeInterface); ok {
		return mi.X
	}
	return v
}

// fixedWidthTimeLayout: only zero-padded numeric elements from the year down, in that order, with literal separators
func fixedWidthTimeLayout(l string) bool {
	order := []string{"2006", "01", "02", "15", "04", "05"}
	pos := 0
	rest := l
	for _, el := range order {
		i := strings.Index(rest, el)
		if i < 0 {
			return false
		}
		for _, ch := range rest[:i] {
			if ch >= '0' && ch <= '9' || ch >= 'a' && ch <= 'z' || ch == '_' {
				return false
			}
		}
		rest = rest[i+len(el):]
		pos++
	}
	// optional fixed fraction ".000…" / ",000…"
	if len(rest) > 0 {
		if rest[0] != '.' && rest[0] != ',' {
			return false
		}
		for _, ch := range rest[1:] {
			if ch != '0' {
				return false
			}
		}
	}
	return pos == len(order)
}

// fracDigits: number of fixed fraction digits of a time layout (".000" -> 3), 0 if none
func fracDigits(l string) int {
	i := strings.LastIndexAny(l, ".,")
	if i < 0 {
		return 0
	}
	n := 0
	for _, ch := range l[i+1:] {
		if ch != '0' {
			return 0
		}
		n++
	}
	return n
}
