package main

import (
	"fmt"
	"os"
	"time"

	"golang.org/x/tools/go/callgraph/cha"
	"golang.org/x/tools/go/callgraph/vta"
	"golang.org/x/tools/go/packages"
	"golang.org/x/tools/go/ssa"
	"golang.org/x/tools/go/ssa/ssautil"
)

func main() {
	t0 := time.Now()
	cfg := &packages.Config{Mode: packages.LoadAllSyntax, Dir: "/repo", Env: append(os.Environ(), "GOWORK=off")}
	pkgs, err := packages.Load(cfg, "./...")
	if err != nil {
		panic(err)
	}
	fmt.Println("pkgs", len(pkgs), time.Since(t0))
	prog, _ := ssautil.AllPackages(pkgs, ssa.InstantiateGenerics)
	prog.Build()
	fmt.Println("ssa", time.Since(t0))
	cg := vta.CallGraph(ssautil.AllFunctions(prog), cha.CallGraph(prog))
	fmt.Println("cg nodes", len(cg.Nodes), time.Since(t0))
}
