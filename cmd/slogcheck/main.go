// slogcheck: repository-specific static checker for relex/slog-agent.
//
//	slogcheck -repo /repo -property C03 -tier quick
//	slogcheck -repo /repo -replay evidence/replay/C03-1.json
//	slogcheck -repo /repo -dump 'buffer/hybridbuffer.(*bufferer).Accept'
package main

import (
	"encoding/json"
	"flag"
	"fmt"
	"go/token"
	"os"
	"path/filepath"
	"runtime/debug"
	"runtime/pprof"
	"sort"
	"strconv"
	"strings"
	"time"
)

type ruleFn func(c *Ctx)

// registry: property -> rules (filled by the init functions of rules_*.go)
var registry = map[string][]struct {
	name string
	fn   ruleFn
}{}

func register(prop, name string, fn ruleFn) {
	registry[prop] = append(registry[prop], struct {
		name string
		fn   ruleFn
	}{name, fn})
}

func main() {
	repo := flag.String("repo", "/repo", "repository to analyse")
	prop := flag.String("property", "", "property id (C01..C19), or 'all'")
	tier := flag.String("tier", "", "quick|thorough (default: $VERIF_TIER or quick)")
	replay := flag.String("replay", "", "replay file of one violated obligation")
	dump := flag.String("dump", "", "dump SSA of the function with this anchor name")
	list := flag.Bool("list", false, "list anchor names matching -dump substring")
	verif := flag.String("verif", "", "verif directory (default: directory above the binary's dir, or cwd)")
	flag.Parse()
	// the loaded program is a large, long-lived heap: collect less often (the facts engine allocates many small slices)
	debug.SetGCPercent(400)
	if pf := os.Getenv("SLOGCHECK_PROF"); pf != "" {
		if f, err := os.Create(pf); err == nil {
			pprof.StartCPUProfile(f)
			defer pprof.StopCPUProfile()
			profStop = pprof.StopCPUProfile
		}
	}

	if *tier == "" {
		*tier = os.Getenv("VERIF_TIER")
	}
	if *tier != "thorough" {
		*tier = "quick"
	}
	seed := 0
	if s := os.Getenv("VERIF_SEED"); s != "" {
		seed, _ = strconv.Atoi(s)
	}
	vdir := *verif
	if vdir == "" {
		if exe, err := os.Executable(); err == nil {
			vdir = filepath.Dir(filepath.Dir(exe))
		}
		if _, err := os.Stat(filepath.Join(vdir, "properties.jsonl")); err != nil {
			vdir, _ = os.Getwd()
		}
	}
	abs, _ := filepath.Abs(*repo)
	*repo = abs

	code := 0
	func() {
		defer func() {
			if r := recover(); r != nil {
				if be, ok := r.(brokenErr); ok {
					fmt.Printf("CHECK-BROKEN: %s\n", be.msg)
				} else {
					fmt.Printf("CHECK-BROKEN: internal panic: %v\n%s\n", r, debug.Stack())
				}
				code = 2
			}
		}()
		t0 := time.Now()
		replayID := ""
		if *replay != "" {
			b, err := os.ReadFile(*replay)
			if err != nil {
				broken("replay: %v", err)
			}
			var o Obligation
			if err := json.Unmarshal(b, &o); err != nil {
				broken("replay: %v", err)
			}
			*prop = o.Property
			replayID = o.ID
		}
		P := loadProg(*repo, *tier == "thorough")
		if *dump != "" {
			dumpFns(P, *dump, *list)
			return
		}
		var props []string
		if *prop == "all" {
			for p := range registry {
				props = append(props, p)
			}
			sort.Strings(props)
		} else {
			if _, ok := registry[*prop]; !ok {
				broken("no rules registered for property %q", *prop)
			}
			props = []string{*prop}
		}
		for _, p := range props {
			c := newCtx(P, p, *tier)
			for _, r := range registry[p] {
				c.rulesRun = append(c.rulesRun, r.name)
				runRule(c, r.name, r.fn)
			}
			if rc := c.finish(vdir, t0, seed, replayID); rc > code {
				code = rc
			}
			t0 = time.Now()
		}
	}()
	profStop()
	os.Exit(code)
}

func dumpFns(P *Prog, pat string, list bool) {
	var names []string
	for a := range P.byAnchor {
		if strings.Contains(a, pat) {
			names = append(names, a)
		}
	}
	sort.Strings(names)
	for _, a := range names {
		if list {
			fmt.Println(a)
			continue
		}
		if a != pat {
			continue
		}
		for _, f := range P.byAnchor[a] {
			if f.Blocks != nil {
				f.WriteTo(os.Stdout)
			}
		}
	}
}

var profStop = func() {}

// runRule runs one rule. A rule that cannot be decided on this tree (an anchor it was written for is gone, fewer
// instances than confirmed by hand, an internal panic on an unexpected shape) fails as a violated obligation of that
// rule: undecided never passes, and the other rules of the property still run and report.
func runRule(c *Ctx, name string, fn ruleFn) {
	defer func() {
		if rec := recover(); rec != nil {
			msg := ""
			if be, ok := rec.(brokenErr); ok {
				msg = be.msg
			} else {
				msg = fmt.Sprintf("internal panic: %v", rec)
				if os.Getenv("SLOGCHECK_VERBOSE") != "" {
					msg += "\n" + string(debug.Stack())
				}
			}
			fmt.Printf("CHECK-BROKEN: %s\n", msg)
			c.add("violated", name, "-", "the rule is decidable on this tree", token.NoPos,
				"UNDECIDED (counts as failure): "+msg+". The code this rule was confirmed against has changed shape, so the property is not shown to hold", true)
		}
	}()
	fn(c)
}
