package main

// F8: configuration verifier / constructor agreement (sibling cross-check).
//
// For a configuration type, P = the set of checks whose failure makes a
// constructor panic (Must*-style calls, `if err != nil { panic }`, fatal
// defaults of switches), V = the set of checks whose failure makes the
// verifier return an error. Both are expressed as (kind, function, canonical
// provenance of the configuration-derived arguments). The rule is P ⊆ V, with
// fallible helpers unfolded into the checks they consist of, nested
// configuration values handled as delegation obligations, and enumerations as
// "accepted set" comparisons.

import (
	"fmt"
	"go/constant"
	"go/token"
	"sort"
	"strings"

	"golang.org/x/tools/go/ssa"
)

type f8Item struct {
	Kind     string // check | delegate | cond | enum
	Fn       string
	Args     string
	Pos      token.Pos
	In       *ssa.Function
	Via      string
	Unfold   map[string]f8Item // for check items on module functions: the checks the callee consists of
	Complete bool              // the unfolding lost nothing (all inner checks have configuration-derived arguments)
}

func (i f8Item) key() string { return i.Kind + "|" + i.Fn + "|" + i.Args }

type f8 struct {
	c       *Ctx
	assumed []string // parameter contracts / invariants seen (reported as assumed obligations)
}

var f8Delegates = map[string]string{
	"base/bsupport.NewTransformsFromConfig":     "base/bsupport.VerifyTransformConfigs",
	"base/bsupport.NewRewritersFromConfig":      "base/bsupport.VerifyRewriterConfigs",
	"base/bmatch.(LogMatcherConfig).NewMatcher": "base/bmatch.(LogMatcherConfig).VerifyConfig",
}

var f8VerifyDelegates = map[string]bool{
	"base/bsupport.VerifyTransformConfigs":        true,
	"base/bsupport.VerifyRewriterConfigs":         true,
	"base/bmatch.(LogMatcherConfig).VerifyConfig": true,
	"base/bsupport.VerifyInputConfigs":            true,
}

// interface-typed configuration values: any constructor-role method obliges the interface's VerifyConfig
var f8ConfigIfaces = map[string]bool{
	"base/bconfig.LogTransformConfig": true, "base/bconfig.LogRewriterConfig": true, "base/bconfig.LogInputConfig": true,
	"base/bconfig.OrchestratorConfig": true, "base/bconfig.ChunkBufferConfig": true, "base/bconfig.LogOutputConfig": true,
}

var f8NonCtorMethods = map[string]bool{"VerifyConfig": true, "GetType": true, "DecodeChunkToJSON": true}

func isConfigDerived(s string) bool {
	return strings.Contains(s, "recv") || strings.Contains(s, "CONF") || strings.Contains(s, "ARGS")
}

var f8Rewrites = []struct{ from, to string }{
	{"ARGS.TransformConfigs", "CONF.Transformations"},
	{"ARGS.OutputBufferPairs", "CONF.OutputBuffersPairs"},
	{"LOADER.Config.", "CONF."},
	{"LOADER.PipelineArgs.", "ARGS."},
}

func f8Norm(s string) string {
	for i := 0; i < 3; i++ {
		for _, r := range f8Rewrites {
			s = strings.ReplaceAll(s, r.from, r.to)
		}
	}
	return s
}

func (w *f8) argsKey(cc *canonCtx, site ssa.CallInstruction) (string, bool) {
	c := site.Common()
	var parts []string
	all := true
	add := func(v ssa.Value) {
		s := f8Norm(cc.of(v))
		if isConfigDerived(s) {
			parts = append(parts, s)
		}
	}
	if c.IsInvoke() {
		add(c.Value)
	}
	for _, a := range c.Args {
		add(a)
	}
	if len(parts) == 0 {
		all = false
	}
	return strings.Join(parts, ","), all
}

func subCanon(outer *canonCtx, inherit bool) *canonCtx {
	n := newCanon()
	if inherit && outer != nil {
		for k, v := range outer.subst {
			n.subst[k] = v
		}
	}
	return n
}

func (w *f8) calleeCanon(cc *canonCtx, site ssa.CallInstruction, callee *ssa.Function) *canonCtx {
	n := subCanon(cc, false)
	c := site.Common()
	args := c.Args
	params := callee.Params
	if c.IsInvoke() && len(params) == len(args)+1 {
		n.subst[params[0]] = f8Norm(cc.of(c.Value))
		params = params[1:]
	}
	if len(params) == len(args) {
		for i, a := range args {
			n.subst[params[i]] = f8Norm(cc.of(a))
		}
	}
	return n
}

// errorUsed: the error result of the call is nil-tested, returned or otherwise consumed
func errorResult(site ssa.CallInstruction) ssa.Value {
	v := site.Value()
	if v == nil {
		return nil
	}
	sig := site.Common().Signature()
	n := sig.Results().Len()
	if n == 0 {
		return nil
	}
	if sig.Results().At(n-1).Type().String() != "error" {
		return nil
	}
	return resultOf(v, n-1)
}

func hasRealRef(v ssa.Value) bool {
	if v == nil || v.Referrers() == nil {
		return false
	}
	for _, r := range *v.Referrers() {
		if _, ok := r.(*ssa.DebugRef); !ok {
			return true
		}
	}
	return false
}

// errLeadsToPanic: from the err != nil edge no return is reachable (the path ends in panic / fatal)
func (w *f8) errLeadsToPanic(fn *ssa.Function, errv ssa.Value) bool {
	if errv == nil {
		return false
	}
	ne := nilEdges(errv, false)
	if len(ne) == 0 {
		return false
	}
	for b, si := range ne {
		q := &PathQ{P: w.c.P}
		if hit, _ := q.Reach(succPoint(b, si), isReturn); hit != nil {
			return false
		}
	}
	return true
}

func isPanicSite(P *Prog, in ssa.Instruction) bool {
	if _, ok := in.(*ssa.Panic); ok {
		return true
	}
	return P.isNoReturnCall(in)
}

// controlling condition of an instruction: the closest If with an edge through which alone the instruction is reachable
func (w *f8) controllingIf(fn *ssa.Function, in ssa.Instruction) (*ssa.If, int) {
	for b := in.Block(); b != nil; b = b.Idom() {
		for _, p := range b.Preds {
			iff, ok := p.Instrs[len(p.Instrs)-1].(*ssa.If)
			if !ok {
				continue
			}
			for si := range p.Succs {
				if p.Succs[si] == b && w.c.onlyViaEdge(fn, in, p, si) {
					return iff, si
				}
			}
		}
	}
	return nil, 0
}

// enumOf: a chain of `x == const` tests; returns canon(x) and the constants tested
func enumChain(cc *canonCtx, iff *ssa.If) (string, map[string]*ssa.If) {
	consts := map[string]*ssa.If{}
	subject := ""
	cur := iff
	for i := 0; i < 40 && cur != nil; i++ {
		bo, ok := cur.Cond.(*ssa.BinOp)
		if !ok || bo.Op != token.EQL {
			break
		}
		k, ok := bo.Y.(*ssa.Const)
		if !ok || k.Value == nil || k.Value.Kind() != constant.String {
			break
		}
		s := f8Norm(cc.of(bo.X))
		if subject == "" {
			subject = s
		} else if subject != s {
			break
		}
		consts[constant.StringVal(k.Value)] = cur
		// previous test in the chain: the If whose false edge leads to this block
		var prev *ssa.If
		for _, p := range cur.Block().Preds {
			if pi, ok := p.Instrs[len(p.Instrs)-1].(*ssa.If); ok && len(p.Succs) == 2 && p.Succs[1] == cur.Block() {
				prev = pi
			}
		}
		cur = prev
	}
	// and the tests that follow on the false edges (the chain is the same whichever test one starts from)
	cur = iff
	for i := 0; i < 40 && cur != nil && subject != ""; i++ {
		nb := cur.Block().Succs[1]
		ni, ok := nb.Instrs[len(nb.Instrs)-1].(*ssa.If)
		if !ok || len(nb.Preds) != 1 {
			break
		}
		bo, ok := ni.Cond.(*ssa.BinOp)
		if !ok || bo.Op != token.EQL {
			break
		}
		k, ok := bo.Y.(*ssa.Const)
		if !ok || k.Value == nil || k.Value.Kind() != constant.String || f8Norm(cc.of(bo.X)) != subject {
			break
		}
		consts[constant.StringVal(k.Value)] = ni
		cur = ni
	}
	return subject, consts
}

// ---------------------------------------------------------------- constructor side

func (w *f8) ctor(fn *ssa.Function, cc *canonCtx, depth int, out map[string]f8Item, via string, visiting map[*ssa.Function]bool) {
	if fn == nil || fn.Blocks == nil || depth > 8 || visiting[fn] {
		return
	}
	visiting[fn] = true
	defer delete(visiting, fn)
	w.c.seen(fn)
	add := func(it f8Item) {
		if _, ok := out[it.key()]; !ok {
			out[it.key()] = it
		}
	}
	handledPanics := map[ssa.Instruction]bool{}
	for _, site := range callsIn(fn) {
		if _, ok := site.(*ssa.Go); ok {
			continue
		}
		c := site.Common()
		// higher-order iteration helpers: closure(elem)
		if f := c.StaticCallee(); f != nil && (extName(f) == "github.com/samber/lo.Map" || extName(f) == "github.com/samber/lo.ForEach") && len(c.Args) == 2 {
			for _, cl := range closureArgs(site) {
				sub := subCanon(cc, true)
				if len(cl.Params) > 0 {
					sub.subst[cl.Params[0]] = "elem(" + f8Norm(cc.of(c.Args[0])) + ")"
				}
				w.ctor(cl, sub, depth+1, out, via, visiting)
			}
			continue
		}
		// interface-typed nested configuration value
		if c.IsInvoke() {
			if f8ConfigIfaces[typeName(c.Value.Type())] && !f8NonCtorMethods[c.Method.Name()] {
				x := f8Norm(cc.of(c.Value))
				if isConfigDerived(x) {
					add(f8Item{Kind: "delegate", Fn: typeName(c.Value.Type()) + ".VerifyConfig", Args: x, Pos: site.Pos(), In: fn, Via: via})
				}
			}
			continue
		}
		callee := c.StaticCallee()
		if callee == nil {
			// locally created closure invoked directly
			if mc, ok := resolve(c.Value).(*ssa.MakeClosure); ok {
				w.ctor(mc.Fn.(*ssa.Function), subCanon(cc, true), depth+1, out, via, visiting)
			}
			continue
		}
		name := extName(callee)
		inModule := strings.HasPrefix(fnPkgPath(callee), modPath)
		if inModule {
			name = anchorName(callee)
		}
		if callee.Parent() != nil && inModule {
			w.ctor(callee, subCanon(cc, true), depth+1, out, via, visiting)
			continue
		}
		if v, ok := f8Delegates[name]; ok {
			x := f8Norm(cc.of(c.Args[0]))
			if isConfigDerived(x) {
				add(f8Item{Kind: "delegate", Fn: v, Args: x, Pos: site.Pos(), In: fn, Via: via})
			}
			continue
		}
		if name == "regexp.MustCompile" {
			x := f8Norm(cc.of(c.Args[0]))
			if isConfigDerived(x) {
				add(f8Item{Kind: "check", Fn: "regexp.Compile", Args: x, Pos: site.Pos(), In: fn, Via: via, Complete: true})
			}
			continue
		}
		errv := errorResult(site)
		panics := errv != nil && w.errLeadsToPanic(fn, errv)
		if panics {
			for b, si := range nilEdges(errv, false) {
				q := &PathQ{P: w.c.P, PassNoRet: true}
				q.Reach(succPoint(b, si), func(in ssa.Instruction) bool {
					if isPanicSite(w.c.P, in) {
						handledPanics[in] = true
					}
					return false
				})
			}
		}
		if inModule && callee.Blocks != nil && !nonUniversePkgs[fnPkgPath(callee)] {
			sub := w.calleeCanon(cc, site, callee)
			if panics {
				args, _ := w.argsKey(cc, site)
				if args != "" {
					it := f8Item{Kind: "check", Fn: name, Args: args, Pos: site.Pos(), In: fn, Via: via, Unfold: map[string]f8Item{}}
					it.Complete = w.verify(callee, sub, depth+1, it.Unfold, name, map[*ssa.Function]bool{})
					add(it)
				}
			}
			// nested panics inside the callee (Must-wrappers, constructors of sub-objects)
			w.ctor(callee, sub, depth+1, out, via+"→"+name, visiting)
			continue
		}
		if panics {
			args, _ := w.argsKey(cc, site)
			if args != "" {
				add(f8Item{Kind: "check", Fn: name, Args: args, Pos: site.Pos(), In: fn, Via: via, Complete: true})
			}
		}
	}
	// direct panic sites not explained by an error of a call
	eachInstr(fn, func(in ssa.Instruction) {
		if !isPanicSite(w.c.P, in) || handledPanics[in] {
			return
		}
		iff, si := w.controllingIf(fn, in)
		if iff == nil {
			// unconditional panic in a function: only meaningful through its callers' conditions
			return
		}
		// error nil-check handled at the call
		if em, ok := asEmptiness(iff.Cond); ok {
			if ex, ok := strip(em.X).(*ssa.Extract); ok {
				if _, isCall := ex.Tuple.(*ssa.Call); isCall && ex.Type().String() == "error" {
					return
				}
			}
			if cl, ok := strip(em.X).(*ssa.Call); ok && cl.Type().String() == "error" {
				return
			}
		}
		// enumeration default
		if subj, consts := enumChain(cc, iff); subj != "" && si == 1 && isConfigDerived(subj) {
			var names []string
			for k := range consts {
				names = append(names, k)
			}
			sort.Strings(names)
			add(f8Item{Kind: "enum", Fn: subj, Args: strings.Join(names, ","), Pos: in.Pos(), In: fn, Via: via})
			return
		}
		cond := f8Norm(cc.of(iff.Cond))
		if si == 1 {
			cond = "!" + cond
		}
		if isConfigDerived(cond) {
			add(f8Item{Kind: "cond", Fn: cond, Pos: in.Pos(), In: fn, Via: via})
		} else {
			w.assumed = append(w.assumed, fmt.Sprintf("%s: panic under %s (parameter contract / invariant, not configuration-derived)", anchorName(fn), cond))
		}
	})
}

// ---------------------------------------------------------------- verifier side

// verify collects the checks whose failure makes fn return a non-nil error;
// returns false when something could not be expressed (unfolding incomplete)
func (w *f8) verify(fn *ssa.Function, cc *canonCtx, depth int, out map[string]f8Item, via string, visiting map[*ssa.Function]bool) bool {
	if fn == nil || fn.Blocks == nil || depth > 8 || visiting[fn] {
		return false
	}
	visiting[fn] = true
	defer delete(visiting, fn)
	w.c.seen(fn)
	complete := true
	add := func(it f8Item) {
		if _, ok := out[it.key()]; !ok {
			out[it.key()] = it
		}
	}
	for _, site := range callsIn(fn) {
		if _, ok := site.(*ssa.Go); ok {
			continue
		}
		c := site.Common()
		if f := c.StaticCallee(); f != nil && (extName(f) == "github.com/samber/lo.Map" || extName(f) == "github.com/samber/lo.ForEach") && len(c.Args) == 2 {
			for _, cl := range closureArgs(site) {
				sub := subCanon(cc, true)
				if len(cl.Params) > 0 {
					sub.subst[cl.Params[0]] = "elem(" + f8Norm(cc.of(c.Args[0])) + ")"
				}
				w.verify(cl, sub, depth+1, out, via, visiting)
			}
			continue
		}
		errv := errorResult(site)
		used := hasRealRef(errv)
		if c.IsInvoke() {
			if f8ConfigIfaces[typeName(c.Value.Type())] && c.Method.Name() == "VerifyConfig" && used {
				x := f8Norm(cc.of(c.Value))
				add(f8Item{Kind: "delegate", Fn: typeName(c.Value.Type()) + ".VerifyConfig", Args: x, Pos: site.Pos(), In: fn, Via: via})
			}
			continue
		}
		callee := c.StaticCallee()
		if callee == nil {
			if mc, ok := resolve(c.Value).(*ssa.MakeClosure); ok {
				if !w.verify(mc.Fn.(*ssa.Function), subCanon(cc, true), depth+1, out, via, visiting) {
					complete = false
				}
			}
			continue
		}
		name := extName(callee)
		inModule := strings.HasPrefix(fnPkgPath(callee), modPath)
		if inModule {
			name = anchorName(callee)
		}
		if f8VerifyDelegates[name] && used {
			x := f8Norm(cc.of(c.Args[0]))
			add(f8Item{Kind: "delegate", Fn: name, Args: x, Pos: site.Pos(), In: fn, Via: via})
			if name != "base/bsupport.VerifyInputConfigs" {
				continue
			}
		}
		if !used {
			// a constructor-like call made only for its error is still "used"; an ignored error verifies nothing
			if inModule && callee.Blocks != nil && errv == nil && !nonUniversePkgs[fnPkgPath(callee)] {
				// helper without error result: may contain nested verification (rare) — descend
				w.verify(callee, w.calleeCanon(cc, site, callee), depth+1, out, via+"→"+name, visiting)
			}
			continue
		}
		if callee.Parent() != nil && inModule {
			// function literal called in place: its checks are this function's checks
			if !w.verify(callee, subCanon(cc, true), depth+1, out, via, visiting) {
				complete = false
			}
			continue
		}
		args, _ := w.argsKey(cc, site)
		if args == "" {
			// a check that does not depend on this configuration value
			if inModule && callee.Blocks != nil && !nonUniversePkgs[fnPkgPath(callee)] {
				complete = false
			}
			continue
		}
		it := f8Item{Kind: "check", Fn: name, Args: args, Pos: site.Pos(), In: fn, Via: via, Complete: true}
		add(it)
		if inModule && callee.Blocks != nil && !nonUniversePkgs[fnPkgPath(callee)] {
			if !w.verify(callee, w.calleeCanon(cc, site, callee), depth+1, out, via+"→"+name, visiting) {
				// the callee has parts that cannot be expressed: the direct item stands for them
			}
		}
	}
	// conditions leading only to error returns, and enumerations
	idx := fn.Signature.Results().Len() - 1
	if idx < 0 || fn.Signature.Results().At(idx).Type().String() != "error" {
		return complete
	}
	var errRets []ssa.Instruction
	for _, rv := range returnedValues(fn, idx) {
		if k, ok := rv.Val.(*ssa.Const); ok && k.IsNil() {
			continue
		}
		errRets = append(errRets, rv.At)
	}
	seenIf := map[*ssa.If]bool{}
	for _, r := range errRets {
		iff, si := w.controllingIf(fn, r)
		if iff == nil || seenIf[iff] {
			continue
		}
		seenIf[iff] = true
		if em, ok := asEmptiness(iff.Cond); ok {
			if ex, ok := strip(em.X).(*ssa.Extract); ok && ex.Type().String() == "error" {
				continue
			}
			if cl, ok := strip(em.X).(*ssa.Call); ok && cl.Type().String() == "error" {
				continue
			}
		}
		if subj, consts := enumChain(cc, iff); subj != "" && isConfigDerived(subj) {
			// accepted constants: those whose true edge does not lead only to error returns
			var names []string
			for k, ci := range consts {
				q := &PathQ{P: w.c.P, Barrier: func(in ssa.Instruction) bool { return false }}
				// does the true edge reach a nil-error return?
				okRet := false
				for _, rv := range returnedValues(fn, idx) {
					if kk, isK := rv.Val.(*ssa.Const); isK && kk.IsNil() {
						if hit, _ := q.Reach(succPoint(ci.Block(), 0), func(in ssa.Instruction) bool { return in == rv.At }); hit != nil {
							// and not via another error return first: approximate by requiring the true successor not to be an error-return block
							okRet = true
						}
					}
				}
				onlyErr := true
				qq := &PathQ{P: w.c.P, Barrier: func(in ssa.Instruction) bool { return instrSet(errRets)[in] }}
				if hit, _ := qq.Reach(succPoint(ci.Block(), 0), isReturn); hit != nil {
					onlyErr = false
				}
				if okRet && !onlyErr {
					names = append(names, k)
				}
			}
			sort.Strings(names)
			add(f8Item{Kind: "enum", Fn: subj, Args: strings.Join(names, ","), Pos: iff.Pos(), In: fn, Via: via})
			continue
		}
		cond := f8Norm(cc.of(iff.Cond))
		if si == 1 {
			cond = "!" + cond
		}
		if isConfigDerived(cond) {
			add(f8Item{Kind: "cond", Fn: cond, Pos: iff.Pos(), In: fn, Via: via})
		} else {
			complete = false
		}
	}
	return complete
}

// ---------------------------------------------------------------- matching

func f8Match(p f8Item, V map[string]f8Item) (bool, string) {
	if _, ok := V[p.key()]; ok {
		return true, "the verifier performs the same check on the same configuration value"
	}
	switch p.Kind {
	case "enum":
		// all switches of the verifier over the same value must accept a value for the configuration to pass:
		// the accepted set is their intersection (keys sorted: the verdict must not depend on map order)
		var keys []string
		for k, v := range V {
			if v.Kind == "enum" && v.Fn == p.Fn {
				keys = append(keys, k)
			}
		}
		if len(keys) == 0 {
			return false, "the verifier has no switch over the same value"
		}
		sort.Strings(keys)
		var accepted map[string]bool
		for _, k := range keys {
			set := map[string]bool{}
			for _, x := range strings.Split(V[k].Args, ",") {
				if x != "" {
					set[x] = true
				}
			}
			if accepted == nil {
				accepted = set
				continue
			}
			for x := range accepted {
				if !set[x] {
					delete(accepted, x)
				}
			}
		}
		have := map[string]bool{}
		for _, k := range strings.Split(p.Args, ",") {
			have[k] = true
		}
		var acc []string
		for x := range accepted {
			acc = append(acc, x)
		}
		sort.Strings(acc)
		for _, x := range acc {
			if !have[x] {
				return false, fmt.Sprintf("the verifier accepts %q which the constructor's switch does not handle", x)
			}
		}
		return true, "every value the verifier accepts is handled by the constructor's switch"
	case "check":
		if len(p.Unfold) > 0 && p.Complete {
			var missing []string
			for _, u := range p.Unfold {
				if ok, _ := f8Match(u, V); !ok {
					missing = append(missing, u.key())
				}
			}
			if len(missing) == 0 {
				return true, fmt.Sprintf("the verifier performs all %d checks this helper consists of", len(p.Unfold))
			}
			sort.Strings(missing)
			return false, "the verifier neither calls it nor performs its parts: missing " + strings.Join(missing, "; ")
		}
	case "cond":
		// the same condition, possibly written with the opposite polarity of a comparison
		for _, v := range V {
			if v.Kind == "cond" && (v.Fn == p.Fn || v.Fn == "!"+p.Fn || "!"+v.Fn == p.Fn) {
				return true, "the verifier tests the same condition"
			}
		}
	}
	return false, "no matching check in the verifier"
}
