package main

// F13: cross-record state. The documented result of a transform, a matcher and the syslog parser is a function of the
// record in hand (and of immutable configuration). Every piece of state that per-record code both writes and reads
// makes the result of one record depend on earlier records. Such state is enumerated from the code (fields of
// long-lived objects stored in the call trees of the Transform implementations and of the parser, and read there) and
// each item must be
//   - a key-determined cache: a map whose every stored value derives only from the key stored with it (+ constants,
//     immutable configuration, other accepted caches): a hit returns what a fresh computation would return; or
//   - a whole-input memo: a value field V stored together with a string key field K, where V derives only from the
//     value K was copied from, and every read of V is guarded by a comparison of K; or
//   - an entry of the reviewed inventory (scratch buffers that are written before they are read, counters, the
//     documented sampling state), keyed by field.
// Anything else — a memo keyed by part of what its value depends on, a "hot case" index, a last-seen value — is
// reported.

import (
	"fmt"
	"go/token"
	"go/types"
	"os"
	"sort"
	"strings"

	"golang.org/x/tools/go/ssa"
)

var stateReviewed = map[string]string{
	"base.logCustomCounterImpl.unwrittenCount":        "batched metric counter: accumulated per record and flushed to Prometheus by UpdateMetrics; read only to be added to and flushed, never consulted for a record's fields or filter result",
	"base.logCustomCounterImpl.unwrittenLength":       "batched metric counter, as unwrittenCount",
	"base.valueCounterProvider.unwrittenValue":        "batched metric counter: accumulated per record and flushed by UpdateMetrics; never consulted for a record's fields or filter result",
	"transform/taddfields.addFieldsTransform.buffer":  "scratch buffer: RunWithBuffer truncates it to zero length before appending and returns a copy of the expansion (C12.R4/R7); only its capacity survives from record to record",
	"transform/tdrop.dropTransform.totalDropped":      "the documented sampling state of `drop` with a rate: the keep/drop decision is defined over the running totals (C15.R4 decides the bookkeeping)",
	"transform/tdrop.dropTransform.totalMatched":      "the documented sampling state of `drop` with a rate, as totalDropped",
	"base.FieldSetExtractor.fieldSetBuffer":           "scratch slice: Extract overwrites every element (one per locator, the slice is made with len(locators)) before it returns it; nothing of the previous record survives",
	"base.LogProcessCounterSet.mergeKeyBuffer":        "scratch buffer: stored back truncated to zero length; only its capacity survives from record to record",
	"output/fluentdforward.eventSerializer.buffer":    "serialization scratch buffer: SerializeRecord writes from position 0 and returns buffer[:position]; position only advances over bytes this call wrote (the encoders return the new position, C10.R1, C07.R4c), so nothing of an earlier record is inside the returned prefix; the stream is consumed before the next call (C12.R4)",
	"base.LogProcessCounterSet.currentCustomCounters": "the selection made for the record in hand: SelectMetricKeySet stores it unconditionally on every call, from the pair looked up by this record's keys, and runs before any transform can count (C19.R6)",
}

func init() {
	register("C15", "C15.R6", ruleStateF13)
	register("C13", "C15.R6", ruleStateF13)
	register("C09", "C15.R6", ruleStateF13)
	register("C19", "C15.R6", ruleStateF13)
	register("C10", "C15.R6", ruleStateF13)
	register("C12", "C15.R6", ruleStateF13) // "the output depends only on that record and the configuration"
	register("C19", "C12.R6", ruleC12R6)    // attribution: the label values a record is counted under are keyed by strings of the record
}

type stateField struct {
	name   string
	stores []ssa.Instruction // Store / MapUpdate writing the field or its content
	reads  []ssa.Instruction
}

func ruleStateF13(c *Ctx) {
	leavesHelpers = func(caller, callee *ssa.Function) bool {
		root := caller
		for root.Parent() != nil {
			root = root.Parent()
		}
		return c.helpersOf(root)[callee] || c.helpersOf(caller)[callee]
	}
	leavesHelperArgs = func(p *ssa.Parameter) ([]ssa.Value, bool) {
		g := p.Parent()
		if g == nil || g.Parent() != nil || !c.P.onlyCalledFrom(g, c.P.allFuncs) {
			return nil, false
		}
		idx := -1
		for i, q := range g.Params {
			if q == p {
				idx = i
			}
		}
		var args []ssa.Value
		for _, site := range c.P.staticSites[g] {
			if strings.Contains(site.Parent().Synthetic, "wrapper") {
				continue
			}
			if _, isCall := site.(*ssa.Call); !isCall || idx < 0 || idx >= len(site.Common().Args) || !leavesHelpers(site.Parent(), g) {
				return nil, false
			}
			args = append(args, site.Common().Args[idx])
		}
		return args, len(args) > 0
	}
	defer func() { leavesHelpers, leavesHelperArgs = nil, nil }()
	var roots []*ssa.Function
	roots = append(roots, transformImpls(c)...)
	roots = append(roots, c.P.Fn(aParse))
	// metric attribution: which counters a record is counted under is decided by SelectMetricKeySet from the record's keys
	roots = append(roots, c.P.Fn(aSelectKeySet))
	// serialization: the event emitted for a record is a function of that record (C10)
	for _, fn := range c.P.universe {
		if fn.Signature.Recv() == nil {
			continue
		}
		switch fn.Name() {
		case "SerializeRecord", "WriteFieldBody", "MaxFieldLength":
			roots = append(roots, fn)
		}
	}
	reach := c.P.reachableFrom(roots, func(f *ssa.Function) bool {
		return !c.P.inUni[f] || isConstructionBoundary(f)
	})
	var fns []*ssa.Function
	for f := range reach {
		if c.P.inUni[f] && f.Blocks != nil && !isConstructionBoundary(f) {
			fns = append(fns, f)
		}
	}
	sort.Slice(fns, func(i, j int) bool { return anchorName(fns[i]) < anchorName(fns[j]) })
	c.floor("C15.R6", "functions in the call trees of the transforms and the parser", len(fns), 40)

	// owner of a field address: is the struct a long-lived object (reached from a parameter, captured variable or
	// global), and not the record?
	longOwner := func(fa *ssa.FieldAddr) bool {
		if typeName(fa.X.Type()) == "base.LogRecord" {
			return false
		}
		o := resolve(fa.X)
		for i := 0; i < 8; i++ {
			switch y := o.(type) {
			case *ssa.Parameter, *ssa.FreeVar, *ssa.Global:
				return true
			case *ssa.FieldAddr:
				if typeName(y.X.Type()) == "base.LogRecord" {
					return false
				}
				o = resolve(y.X)
				continue
			case *ssa.UnOp:
				o = resolve(y.X)
				continue
			case *ssa.IndexAddr:
				o = resolve(y.X)
				continue
			}
			break
		}
		return false
	}
	fields := map[string]*stateField{}
	get := func(n string) *stateField {
		f := fields[n]
		if f == nil {
			f = &stateField{name: n}
			fields[n] = f
		}
		return f
	}
	callIdx := map[*ssa.Function][]ssa.CallInstruction{}
	for _, fn := range c.P.universe {
		for _, site := range callsIn(fn) {
			for _, cal := range c.P.callees(site) {
				callIdx[cal] = append(callIdx[cal], site)
			}
		}
	}
	var fieldOfLoadedD func(v ssa.Value, depth int) (string, bool)
	fieldOfLoadedD = func(v ssa.Value, depth int) (string, bool) {
		// v is the content of a field (a map / slice loaded from it), possibly handed down as a parameter
		v = strip(v)
		if u, ok := v.(*ssa.UnOp); ok && u.Op == token.MUL {
			if fa, ok := strip(u.X).(*ssa.FieldAddr); ok && longOwner(fa) {
				return fieldName(fa.X.Type(), fa.Field), true
			}
		}
		if p, ok := v.(*ssa.Parameter); ok && depth < 3 {
			fn := p.Parent()
			idx := -1
			for i, q := range fn.Params {
				if q == p {
					idx = i
				}
			}
			for _, site := range callIdx[fn] {
				if !reachHas(reach, site.Parent()) {
					continue
				}
				args := site.Common().Args
				ai := idx - (len(fn.Params) - len(args))
				if ai >= 0 && ai < len(args) {
					if n, ok := fieldOfLoadedD(args[ai], depth+1); ok {
						return n, true
					}
				}
			}
		}
		return "", false
	}
	fieldOfLoaded := func(v ssa.Value) (string, bool) { return fieldOfLoadedD(v, 0) }
	for _, fn := range fns {
		eachInstr(fn, func(in ssa.Instruction) {
			switch x := in.(type) {
			case *ssa.Store:
				switch a := strip(x.Addr).(type) {
				case *ssa.FieldAddr:
					if longOwner(a) {
						f := get(fieldName(a.X.Type(), a.Field))
						f.stores = append(f.stores, in)
					}
				case *ssa.IndexAddr:
					if n, ok := fieldOfLoaded(a.X); ok {
						f := get(n)
						f.stores = append(f.stores, in)
					}
				}
			case *ssa.MapUpdate:
				if n, ok := fieldOfLoaded(x.Map); ok {
					f := get(n)
					f.stores = append(f.stores, in)
				}
			}
		})
	}
	// reads of the written fields
	for _, fn := range fns {
		eachInstr(fn, func(in ssa.Instruction) {
			u, ok := in.(*ssa.UnOp)
			if !ok || u.Op != token.MUL {
				return
			}
			fa, ok := strip(u.X).(*ssa.FieldAddr)
			if !ok || !longOwner(fa) {
				return
			}
			n := fieldName(fa.X.Type(), fa.Field)
			if f := fields[n]; f != nil && len(f.stores) > 0 {
				f.reads = append(f.reads, in)
			}
		})
	}
	var names []string
	for n, f := range fields {
		if len(f.stores) > 0 && len(f.reads) > 0 {
			names = append(names, n)
		}
	}
	sort.Strings(names)
	nCache, nMemo, nRev := 0, 0, 0
	verdict := map[string]string{} // field -> reason it is accepted
	fail := map[string]string{}
	accepted := map[string]bool{}
	for _, n := range names {
		if why, ok := stateReviewed[n]; ok {
			verdict[n] = "reviewed: " + why
			accepted[n] = true // a reviewed item is not a channel from earlier records into a result
			nRev++
		}
	}
	// caches first (a cache may use another accepted cache), then memos (which may use caches)
	for changed := true; changed; {
		changed = false
		for _, n := range names {
			if verdict[n] != "" {
				continue
			}
			if ok, why := c.keyDeterminedCache(fields[n], fields, accepted); ok {
				verdict[n], accepted[n], changed = "key-determined cache: "+why, true, true
				nCache++
			} else if why != "" {
				fail[n] = why
			}
		}
	}
	for _, n := range names {
		if verdict[n] != "" {
			continue
		}
		ok, why, key := c.wholeInputMemo(fields[n], fields, accepted)
		if ok {
			verdict[n] = "whole-input memo: " + why
			nMemo++
			if verdict[key] == "" {
				verdict[key] = "key of the whole-input memo " + n
			}
		} else if why != "" {
			fail[n] = why
		}
	}
	// diagnostics-only state: what is remembered decides only whether something is *logged* (repeated warnings omitted)
	nDiag := 0
	for _, n := range names {
		if verdict[n] != "" {
			continue
		}
		if ok, why := c.diagnosticsOnlyState(fields[n], n); ok {
			verdict[n] = "diagnostics-only state: " + why
			nDiag++
		} else if why != "" && fail[n] == "" {
			fail[n] = why
		}
	}
	c.count("C15.R6:diagnostics-only state items", nDiag)
	for _, n := range names {
		f := fields[n]
		fn := f.stores[0].Parent()
		construct := "cross-record state " + n
		if v := verdict[n]; v != "" {
			if strings.HasPrefix(v, "reviewed: ") {
				c.assumed("C15.R6", fn, construct, f.stores[0].Pos(), v)
			} else {
				c.ok("C15.R6", fn, construct, f.stores[0].Pos(), v)
			}
			continue
		}
		if os.Getenv("SLOGCHECK_F6KEYS") != "" {
			fmt.Printf("STATEKEY %q: \"\", // stores %d reads %d, first store %s\n", n, len(f.stores), len(f.reads), c.P.pos(f.stores[0].Pos()))
		}
		why := fail[n]
		if why != "" {
			why = " (" + why + ")"
		}
		c.bad("C15.R6", fn, construct, f.stores[0].Pos(),
			fmt.Sprintf("the field is written (%d site(s), first %s) and read (%d site(s), first %s) by per-record code and is neither a key-determined cache, a whole-input memo nor a reviewed item%s: the result for one record can depend on the records before it",
				len(f.stores), c.P.pos(f.stores[0].Pos()), len(f.reads), c.P.pos(f.reads[0].Pos()), why))
	}
	c.count("C15.R6:cross-record state fields", len(names))
	c.count("C15.R6:key-determined caches", nCache)
	c.count("C15.R6:whole-input memos", nMemo)
	c.count("C15.R6:reviewed state items", nRev)
}

// leavesWithin: every leaf of the backward slice of v is a constant, immutable configuration, or one of the allowed
// values. Calls are followed through their arguments (callees in the module are assumed to read only their arguments
// and state that this rule examines separately).
// hooks into the region machinery, set by ruleStateF13
var leavesHelpers func(caller, callee *ssa.Function) bool
var leavesHelperArgs func(p *ssa.Parameter) ([]ssa.Value, bool)

func leavesWithin(v ssa.Value, allowed map[ssa.Value]bool, mutable map[string]*stateField, okFields map[string]bool) (bool, string) {
	seen := map[ssa.Value]bool{}
	bad := ""
	var walk func(v ssa.Value, d int) bool
	walk = func(v ssa.Value, d int) bool {
		if v == nil || seen[v] {
			return true
		}
		if d > 60 {
			bad = "slice too deep"
			return false
		}
		seen[v] = true
		if allowed[v] {
			return true
		}
		switch x := v.(type) {
		case *ssa.Const, *ssa.Function, *ssa.Builtin:
			return true
		case *ssa.Global:
			return true // package-level tables; written per record they would be reported as state themselves
		case *ssa.Parameter:
			// a parameter of a private helper stands for the arguments of its call sites
			if leavesHelperArgs != nil {
				if args, isHelper := leavesHelperArgs(x); isHelper {
					for _, a := range args {
						if !walk(a, d+1) {
							return false
						}
					}
					return true
				}
			}
			bad = "parameter " + x.Name()
			return false
		case *ssa.FreeVar:
			bad = "captured " + x.Name()
			return false
		case *ssa.Alloc:
			// everything stored into the local, also field by field / element by element (a composite literal is built
			// by stores through FieldAddr / IndexAddr of the local)
			var intoLocal func(addr ssa.Value, dd int) bool
			intoLocal = func(addr ssa.Value, dd int) bool {
				if addr.Referrers() == nil || dd > 4 {
					return true
				}
				for _, ref := range *addr.Referrers() {
					switch r := ref.(type) {
					case *ssa.Store:
						if r.Addr == addr && !walk(r.Val, d+1) {
							return false
						}
					case *ssa.FieldAddr:
						if r.X == addr && !intoLocal(r, dd+1) {
							return false
						}
					case *ssa.IndexAddr:
						if r.X == addr && !intoLocal(r, dd+1) {
							return false
						}
					}
				}
				return true
			}
			return intoLocal(x, 0)
		case *ssa.Call:
			// a private helper of this function (region.go): what it returns, with its parameters standing for the arguments
			if g := x.Common().StaticCallee(); g != nil && leavesHelpers != nil && leavesHelpers(x.Parent(), g) && d < 40 {
				for ri := 0; ri < g.Signature.Results().Len(); ri++ {
					for _, rv := range returnedValues(g, ri) {
						if !walk(rv.Val, d+1) {
							return false
						}
					}
				}
				return true // the helper's parameters are mapped to the arguments where the walk meets them
			}
		case *ssa.UnOp:
			if x.Op == token.MUL {
				if fa, ok := strip(x.X).(*ssa.FieldAddr); ok {
					n := fieldName(fa.X.Type(), fa.Field)
					if typeName(fa.X.Type()) == "base.LogRecord" {
						bad = "the record (" + n + ")"
						return false
					}
					if f := mutable[n]; f != nil && len(f.stores) > 0 && !okFields[n] {
						bad = "mutable field " + n
						return false
					}
					return true // immutable configuration, or an accepted cache
				}
			}
		case *ssa.Phi:
			// the choice between the edges is made by the branch conditions of the predecessors' dominators
			for _, e := range x.Edges {
				if !walk(e, d+1) {
					return false
				}
			}
			for _, p := range x.Block().Preds {
				for b := p; b != nil; b = b.Idom() {
					if iff, ok := b.Instrs[len(b.Instrs)-1].(*ssa.If); ok {
						if !walk(iff.Cond, d+1) {
							return false
						}
					}
					if b == x.Block().Idom() {
						break
					}
				}
			}
			return true
		}
		in, ok := v.(ssa.Instruction)
		if !ok {
			return true
		}
		var ops []*ssa.Value
		for _, op := range in.Operands(ops) {
			if op != nil && *op != nil && !walk(*op, d+1) {
				return false
			}
		}
		return true
	}
	ok := walk(v, 0)
	return ok, bad
}

// copySource: the value a stored key was copied from (through DeepCopyString / strings.Clone / string conversions)
func copySource(v ssa.Value) ssa.Value {
	for i := 0; i < 6; i++ {
		v = strip(v)
		cl, ok := v.(*ssa.Call)
		if !ok || cl.Common().StaticCallee() == nil {
			return v
		}
		n := extName(cl.Common().StaticCallee())
		if strings.HasPrefix(fnPkgPath(cl.Common().StaticCallee()), modPath) {
			n = anchorName(cl.Common().StaticCallee())
		}
		switch n {
		case "util.DeepCopyString", "strings.Clone", "util.DeepCopyStringFromBytes", "util.DeepCopyStrings", "slices.Clone", "golang.org/x/exp/slices.Clone":
			v = cl.Common().Args[0]
			continue
		}
		return v
	}
	return v
}

func (c *Ctx) keyDeterminedCache(f *stateField, all map[string]*stateField, accepted map[string]bool) (bool, string) {
	n := 0
	for _, st := range f.stores {
		mu, ok := st.(*ssa.MapUpdate)
		if !ok {
			return false, ""
		}
		n++
		key := copySource(mu.Key)
		allowed := map[ssa.Value]bool{key: true, mu.Key: true}
		// a merged key that is an injective encoding of a list of strings (C06.R1: length-prefixed) determines that list:
		// a value derived from the list is derived from the key
		for _, src := range c.injectiveKeySources(key) {
			allowed[src] = true
		}
		if ok, bad := leavesWithin(mu.Value, allowed, all, withField(accepted, f.name)); !ok {
			return false, "a stored value depends on " + bad + ", which is not the key"
		}
	}
	if n == 0 {
		return false, ""
	}
	if _, isMap := fieldType(f).(*types.Map); !isMap {
		return false, ""
	}
	return true, fmt.Sprintf("every value stored (%d site(s)) derives only from the key stored with it", n)
}

func fieldType(f *stateField) types.Type {
	for _, in := range f.stores {
		switch x := in.(type) {
		case *ssa.MapUpdate:
			return x.Map.Type().Underlying()
		case *ssa.Store:
			if fa, ok := strip(x.Addr).(*ssa.FieldAddr); ok {
				return fa.Type().Underlying().(*types.Pointer).Elem().Underlying()
			}
		}
	}
	return nil
}

// wholeInputMemo: f is the value V of a memo. In every function that stores V a string field K of the same object is
// stored too, V's stored value derives only from what K was copied from, and every read of V is dominated by the true
// edge of a comparison involving a load of K.
func (c *Ctx) wholeInputMemo(f *stateField, all map[string]*stateField, accepted map[string]bool) (bool, string, string) {
	keyName := ""
	for _, st := range f.stores {
		s, ok := st.(*ssa.Store)
		if !ok {
			return false, "", ""
		}
		if _, ok := strip(s.Addr).(*ssa.FieldAddr); !ok {
			return false, "", ""
		}
		// the key stores of the same function
		var keySrc []ssa.Value
		kn := ""
		eachInstr(st.Parent(), func(in ssa.Instruction) {
			s2, ok := in.(*ssa.Store)
			if !ok || s2 == s {
				return
			}
			fa, ok := strip(s2.Addr).(*ssa.FieldAddr)
			if !ok || !(isStringType(s2.Val.Type()) || isStringSlice(s2.Val.Type())) {
				return
			}
			n := fieldName(fa.X.Type(), fa.Field)
			if n == f.name || all[n] == nil {
				return
			}
			kn = n
			keySrc = append(keySrc, copySource(s2.Val), s2.Val)
			// append(K[:0], src...) copies the elements of src
			if cl, ok := strip(s2.Val).(*ssa.Call); ok && isBuiltin(cl, "append") && len(cl.Call.Args) == 2 {
				keySrc = append(keySrc, cl.Call.Args[1], strip(cl.Call.Args[1]))
			}
		})
		if kn == "" || (keyName != "" && keyName != kn) {
			return false, "", ""
		}
		keyName = kn
		allowed := map[ssa.Value]bool{}
		for _, k := range keySrc {
			allowed[k] = true
		}
		if ok, bad := leavesWithin(s.Val, allowed, all, withField(withField(accepted, f.name), kn)); !ok {
			return false, "stored next to the key " + kn + ", but the stored value depends on " + bad + ", which that key does not cover", ""
		}
	}
	if keyName == "" {
		return false, "", ""
	}
	// reads guarded by a comparison of the key
	for _, rd := range f.reads {
		guarded := false
		fn := rd.Parent()
		// "is the memo populated at all": the loaded value is only compared with nil
		if rv, ok := rd.(ssa.Value); ok && rv.Referrers() != nil {
			onlyNil, n := true, 0
			for _, ref := range *rv.Referrers() {
				switch r := ref.(type) {
				case *ssa.DebugRef:
				case *ssa.BinOp:
					n++
					k, isK := r.Y.(*ssa.Const)
					if r.X == rv && isK && k.IsNil() && (r.Op == token.EQL || r.Op == token.NEQ) {
						continue
					}
					k, isK = r.X.(*ssa.Const)
					if r.Y == rv && isK && k.IsNil() && (r.Op == token.EQL || r.Op == token.NEQ) {
						continue
					}
					onlyNil = false
				default:
					onlyNil = false
				}
			}
			if onlyNil && n > 0 {
				continue
			}
		}
		isKeyLoad := func(v ssa.Value) bool {
			u, ok := strip(v).(*ssa.UnOp)
			if !ok || u.Op != token.MUL {
				return false
			}
			fa, ok := strip(u.X).(*ssa.FieldAddr)
			return ok && fieldName(fa.X.Type(), fa.Field) == keyName
		}
		eachInstr(fn, func(in ssa.Instruction) {
			var eq []bedge
			switch bo := in.(type) {
			case *ssa.BinOp:
				if guarded || (bo.Op != token.EQL && bo.Op != token.NEQ) || (!isKeyLoad(bo.X) && !isKeyLoad(bo.Y)) {
					return
				}
				eq = boolEdgesList(bo, bo.Op == token.EQL)
			case *ssa.Call:
				// slices.Equal(input, key)
				f := bo.Common().StaticCallee()
				if guarded || f == nil || !strings.HasSuffix(strings.SplitN(f.String(), "[", 2)[0], "slices.Equal") || len(bo.Common().Args) != 2 {
					return
				}
				if !isKeyLoad(bo.Common().Args[0]) && !isKeyLoad(bo.Common().Args[1]) {
					return
				}
				eq = boolEdgesList(bo, true)
			default:
				return
			}
			for _, e := range eq {
				if e.b.Succs[e.si] == rd.Block() || e.b.Succs[e.si].Dominates(rd.Block()) {
					guarded = true
				}
			}
			if guarded {
				return
			}
			// `v := memo; if key != input { v = compute() }`: the loaded value is only used through phis, on edges that
			// are taken when the key is equal
			rv, isVal := rd.(ssa.Value)
			if !isVal || rv.Referrers() == nil {
				return
			}
			all := true
			n := 0
			for _, ref := range *rv.Referrers() {
				switch r := ref.(type) {
				case *ssa.DebugRef:
				case *ssa.Phi:
					for i, ev := range r.Edges {
						if ev != rv {
							continue
						}
						n++
						pred := r.Block().Preds[i]
						okEdge := false
						for _, e := range eq {
							if (e.b == pred && e.b.Succs[e.si] == r.Block()) || e.b.Succs[e.si] == pred || e.b.Succs[e.si].Dominates(pred) {
								okEdge = true
							}
						}
						if !okEdge {
							all = false
						}
					}
				default:
					all = false
				}
			}
			if all && n > 0 {
				guarded = true
			}
		})
		if !guarded {
			return false, "a read of the memo value is not guarded by an equality test of its key " + keyName, ""
		}
	}
	return true, "stored together with key " + keyName + ", derives only from the value the key was copied from, reads guarded by an equality test of the key", keyName
}

type bedge struct {
	b  *ssa.BasicBlock
	si int
}

func boolEdgesList(cond ssa.Value, want bool) []bedge {
	var out []bedge
	for b, si := range boolEdges(cond, want) {
		out = append(out, bedge{b, si})
	}
	return out
}

func reachHas(reach map[*ssa.Function]*ssa.Function, f *ssa.Function) bool {
	_, ok := reach[f]
	return ok
}

func withField(m map[string]bool, n string) map[string]bool {
	out := map[string]bool{n: true}
	for k, v := range m {
		out[k] = v
	}
	return out
}

// Cross-registrations found with tools/seed_matrix.sh (every stored seed against every property): a rule that carries a
// clause of another property's statement is run for that property too.
func init() {
	register("C01", "C02.R2", ruleC02R2) // "never lost": the chunk confirmed (and deleted) is the chunk the ACK names
	register("C01", "C11.R1", ruleC11R1) // "never lost": every stream is written into a chunk exactly once
	register("C05", "C11.R1", ruleC11R1) // after seed c05h: chunks leave the chunk maker in the order their streams arrived (the chunk returned is the one that was open)
	register("C01", "C04.R1", ruleC04R1) // "never … altered": short writes
	register("C01", "C04.R2", ruleC04R2) // "never … altered": atomic publish
	register("C01", "C04.R5", ruleC04R5) // "never … altered": a failed write is not reported as saved
	register("C03", "C04.R1", ruleC04R1) // "byte-for-byte unchanged"
	register("C03", "C04.R2", ruleC04R2)
	register("C03", "C04.R5", ruleC04R5)
	register("C02", "C05.R3", ruleC05R3)   // "retransmitted, oldest first": leftovers are sorted by id
	register("C19", "C03.R10", ruleC03R10) // the persistent byte gauge moves only with the files
}

// injectiveKeySources: if key is the accumulator of a key-building loop over a []string that C06.R1 accepts as injective
// (directly, or as the result of a helper that returns such an accumulator), the []string it encodes
func (c *Ctx) injectiveKeySources(key ssa.Value) []ssa.Value {
	var out []ssa.Value
	key = strip(key)
	for i := 0; i < 4; i++ {
		if cv, ok := key.(*ssa.Convert); ok {
			key = strip(cv.X)
			continue
		}
		if sl, ok := key.(*ssa.Slice); ok {
			key = strip(sl.X)
			continue
		}
		break
	}
	if c.keyLoopsMemo == nil {
		c.keyLoopsMemo = findKeyLoops(c)
	}
	for _, kl := range c.keyLoopsMemo {
		if ok, _ := lengthPrefixed(kl); !ok {
			continue
		}
		if ssa.Value(kl.acc) == key {
			out = append(out, kl.source)
		}
		// the helper form: key = helper(buf, list) where the helper returns the accumulator of its loop over a parameter
		if cl, ok := key.(*ssa.Call); ok && cl.Common().StaticCallee() == kl.fn {
			if prm, ok := kl.source.(*ssa.Parameter); ok {
				for pi, q := range kl.fn.Params {
					if q == prm && pi < len(cl.Common().Args) {
						out = append(out, strip(cl.Common().Args[pi]))
					}
				}
			}
		}
	}
	return out
}

// isPlainLogCall: a call that only writes a log line (and returns): the leveled methods of the gotils logger below Panic
func isPlainLogCall(ci ssa.CallInstruction) bool {
	f := ci.Common().StaticCallee()
	if f == nil {
		return false
	}
	s := extName(f)
	if !strings.HasPrefix(s, "github.com/relex/gotils/logger.") && !strings.HasPrefix(s, "(github.com/relex/gotils/logger.Logger).") {
		return false
	}
	switch f.Name() {
	case "Debug", "Debugf", "Info", "Infof", "Warn", "Warnf", "Error", "Errorf", "WithField", "WithFields":
		return true
	}
	return false
}

// isPureStringHelper: calls whose only effect is their result
func isPureStringHelper(ci ssa.CallInstruction) bool {
	if cl, ok := ci.(*ssa.Call); ok {
		if b, ok := cl.Call.Value.(*ssa.Builtin); ok {
			switch b.Name() {
			case "len", "cap", "min", "max":
				return true
			}
			return false
		}
	}
	if ci.Common().IsInvoke() {
		return ci.Common().Method.Name() == "Error" && ci.Common().Method.Type().(*types.Signature).Params().Len() == 0
	}
	f := ci.Common().StaticCallee()
	if f == nil {
		return false
	}
	switch extName(f) {
	case modPath + "/util.DeepCopyString", "strings.Clone", "fmt.Sprintf", "fmt.Sprint", "strconv.Itoa", "strconv.Quote":
		return true
	}
	return false
}

// diagnosticsOnlyState: every read of the field flows — as data and as control — only into plain log calls and into the
// field's own updates. Data: the loaded value and what is computed from it reaches nothing but comparisons, log-call
// arguments, pure string helpers and stores to the same field. Control: a branch on such a value may only decide blocks
// that consist of log calls, pure helpers and stores to the same field — no return, no other call, no other store — and
// a value merged after the branch (phi) is followed like the loaded value itself. Then no result, counter or record
// field can differ between a run with and a run without the remembered value.
func (c *Ctx) diagnosticsOnlyState(f *stateField, name string) (bool, string) {
	if len(f.reads) == 0 {
		return false, ""
	}
	sameField := func(addr ssa.Value) bool {
		fa, ok := strip(addr).(*ssa.FieldAddr)
		return ok && fieldName(fa.X.Type(), fa.Field) == name
	}
	for _, st := range f.stores {
		if _, ok := st.(*ssa.Store); !ok {
			return false, "" // map / element updates: not a plain remembered value
		}
	}
	// a slot of an object allocated in this function that is handed to nothing but log calls and pure helpers (the
	// argument array of a variadic log call)
	freshLocal := func(addr ssa.Value, fn *ssa.Function) bool {
		for i := 0; i < 4; i++ {
			switch x := addr.(type) {
			case *ssa.IndexAddr:
				addr = x.X
				continue
			case *ssa.FieldAddr:
				addr = x.X
				continue
			}
			break
		}
		al, ok := addr.(*ssa.Alloc)
		if !ok || al.Parent() != fn || al.Referrers() == nil {
			return false
		}
		for _, ref := range *al.Referrers() {
			switch x := ref.(type) {
			case *ssa.IndexAddr, *ssa.FieldAddr, *ssa.DebugRef:
			case *ssa.Slice:
				if x.Referrers() == nil {
					continue
				}
				for _, r2 := range *x.Referrers() {
					ci, ok := r2.(ssa.CallInstruction)
					if !ok || !(isPlainLogCall(ci) || isPureStringHelper(ci)) {
						return false
					}
				}
			default:
				return false
			}
		}
		return true
	}
	for _, r := range f.reads {
		v, ok := r.(ssa.Value)
		if !ok {
			return false, ""
		}
		fn := r.Parent()
		tainted := map[ssa.Value]bool{v: true}
		work := []ssa.Value{v}
		checkedIf := map[*ssa.If]bool{}
		harmlessBlock := func(b *ssa.BasicBlock) (bool, string) {
			for _, in := range b.Instrs {
				switch x := in.(type) {
				case *ssa.Return, *ssa.Panic, *ssa.Go, *ssa.Defer, *ssa.Send, *ssa.MapUpdate, *ssa.Select, *ssa.RunDefers:
					return false, fmt.Sprintf("the remembered value decides whether %s at %s is executed", strings.ToLower(strings.TrimPrefix(fmt.Sprintf("%T", x), "*ssa.")), c.P.pos(in.Pos()))
				case *ssa.Store:
					if !sameField(x.Addr) && !freshLocal(x.Addr, b.Parent()) {
						return false, "the remembered value decides whether the store at " + c.P.pos(in.Pos()) + " is executed"
					}
				case ssa.CallInstruction:
					if !isPlainLogCall(x) && !isPureStringHelper(x) {
						return false, "the remembered value decides whether the call at " + c.P.pos(in.Pos()) + " is executed"
					}
				}
			}
			return true, ""
		}
		for len(work) > 0 {
			cur := work[len(work)-1]
			work = work[:len(work)-1]
			refs := cur.Referrers()
			if refs == nil {
				continue
			}
			for _, ref := range *refs {
				add := func(x ssa.Value) {
					if !tainted[x] {
						tainted[x] = true
						work = append(work, x)
					}
				}
				switch x := ref.(type) {
				case *ssa.BinOp, *ssa.Convert, *ssa.ChangeType, *ssa.MakeInterface, *ssa.Slice, *ssa.Phi, *ssa.Extract, *ssa.Lookup, *ssa.Index, *ssa.ChangeInterface:
					add(x.(ssa.Value))
				case *ssa.UnOp:
					if x.Op == token.MUL || x.Op == token.ARROW {
						return false, ""
					}
					add(x)
				case *ssa.DebugRef:
				case *ssa.Store:
					if x.Val != cur || !sameField(x.Addr) {
						// a varargs slot of a log call is an element store into a fresh array: followed through the array
						if ia, ok := x.Addr.(*ssa.IndexAddr); ok && x.Val == cur {
							if al, ok := ia.X.(*ssa.Alloc); ok && !al.Heap || ok {
								add(al)
								continue
							}
						}
						return false, "the remembered value is stored elsewhere at " + c.P.pos(x.Pos())
					}
				case *ssa.IndexAddr:
					// the address of a varargs slot being filled: harmless by itself
				case ssa.CallInstruction:
					if isPlainLogCall(x) {
						continue
					}
					if isPureStringHelper(x) {
						if xv, ok := x.(ssa.Value); ok {
							add(xv)
						}
						continue
					}
					return false, "the remembered value is passed to the call at " + c.P.pos(x.Pos())
				case *ssa.If:
					if checkedIf[x] {
						continue
					}
					checkedIf[x] = true
					ib := x.Block()
					reachFrom := func(start *ssa.BasicBlock) map[*ssa.BasicBlock]bool {
						seen := map[*ssa.BasicBlock]bool{}
						var walk func(b *ssa.BasicBlock)
						walk = func(b *ssa.BasicBlock) {
							if seen[b] || b == ib {
								return
							}
							seen[b] = true
							for _, sc := range b.Succs {
								walk(sc)
							}
						}
						walk(start)
						return seen
					}
					r0, r1 := reachFrom(ib.Succs[0]), reachFrom(ib.Succs[1])
					excl := map[*ssa.BasicBlock]bool{}
					for b := range r0 {
						if !r1[b] {
							excl[b] = true
						}
					}
					for b := range r1 {
						if !r0[b] {
							excl[b] = true
						}
					}
					for _, b := range fn.Blocks {
						if !excl[b] {
							continue
						}
						if ok, why := harmlessBlock(b); !ok {
							return false, why
						}
					}
					// values merged after the decided blocks carry the decision
					for _, b := range fn.Blocks {
						if excl[b] {
							continue
						}
						for _, in := range b.Instrs {
							ph, ok := in.(*ssa.Phi)
							if !ok {
								break
							}
							var first ssa.Value
							differ := false
							for i, pr := range b.Preds {
								if !excl[pr] && pr != ib {
									continue
								}
								if first == nil {
									first = ph.Edges[i]
								} else if first != ph.Edges[i] {
									differ = true
								}
							}
							if differ {
								add(ph)
							}
						}
					}
				default:
					return false, fmt.Sprintf("the remembered value reaches %s at %s", strings.TrimPrefix(fmt.Sprintf("%T", ref), "*ssa."), c.P.pos(ref.Pos()))
				}
			}
		}
	}
	return true, fmt.Sprintf("all %d read(s) flow only into log calls and the field's own updates (data and control): no result, counter or record field can depend on it", len(f.reads))
}
