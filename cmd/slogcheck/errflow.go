package main

// F5b: a failed call is never reported as success. For a call whose last result is an error E, assume E != nil right
// after the call and explore the function's CFG path-sensitively in exactly that one fact: a phi takes the fact from the
// edge it is entered by, `x != nil` / `x == nil` tests of a value known non-nil have one feasible edge, comparisons of
// constants are folded. If a success return (nil error, or the constant true of a bool-only result) is reachable, the
// failure is swallowed. Re-reaching the call itself ends the path: the failure was answered by a retry.
// This is what separates `n, werr := write(…)` shadowing an outer werr (the outer test is `nil != nil`) from the same
// loop written with `n, werr = write(…)`.

import (
	"fmt"
	"go/constant"
	"go/token"
	"go/types"
	"os"
	"sort"
	"strings"

	"golang.org/x/tools/go/ssa"
)

func isErrorType(t types.Type) bool {
	return t.String() == "error"
}

// errResultOf: the error value of a call (last result), nil if the call returns no error
func errResultOf(s ssa.CallInstruction) ssa.Value {
	v := s.Value()
	if v == nil {
		return nil
	}
	sig := s.Common().Signature()
	n := sig.Results().Len()
	if n == 0 || !isErrorType(sig.Results().At(n-1).Type()) {
		return nil
	}
	return resultOf(v, n-1)
}

type errPathState struct {
	b   *ssa.BasicBlock
	i   int
	key string
}

// failureSwallowed explores the function from its entry, learning nil / non-nil facts from the branches it takes; when it
// executes the call s it assumes its error e non-nil (when e is used at all) and from then on looks for a return that may
// report success. It returns that return and the blocks of a witness path.
func failureSwallowed(fn *ssa.Function, s ssa.CallInstruction, e ssa.Value) (ssa.Instruction, []*ssa.BasicBlock) {
	var def ssa.Instruction = s.(ssa.Instruction)
	if e != nil {
		if d, ok := e.(ssa.Instruction); ok {
			def = d
		}
	}
	nres := fn.Signature.Results().Len()
	keyOf := func(m map[ssa.Value]int, passed bool) string {
		var l []string
		for v, k := range m {
			if k > 0 {
				l = append(l, v.Name()+"+")
			} else {
				l = append(l, v.Name()+"-")
			}
		}
		sort.Strings(l)
		if passed {
			l = append(l, "!")
		}
		return strings.Join(l, ",")
	}
	seen := map[errPathState]bool{}
	var hit ssa.Instruction
	var trail []*ssa.BasicBlock
	type walkFn = func(b *ssa.BasicBlock, i int, nn map[ssa.Value]int, passed bool, path []*ssa.BasicBlock) bool
	var walk walkFn
	edge := func(from, to *ssa.BasicBlock, nn map[ssa.Value]int, passed bool, path []*ssa.BasicBlock) bool {
		idx := -1
		for i, p := range to.Preds {
			if p == from {
				idx = i
			}
		}
		n2 := copyWithout(nn, nil)
		for _, in := range to.Instrs {
			phi, ok := in.(*ssa.Phi)
			if !ok {
				break
			}
			delete(n2, phi)
			if idx >= 0 {
				if f := nn[phi.Edges[idx]]; f != 0 {
					n2[phi] = f
				} else if k, ok := phi.Edges[idx].(*ssa.Const); ok && k.IsNil() {
					n2[phi] = -1
				} else if certainlyNonNilError(phi.Edges[idx]) {
					n2[phi] = 1
				}
			}
		}
		return walk(to, 0, n2, passed, path)
	}
	walk = func(b *ssa.BasicBlock, i int, nn map[ssa.Value]int, passed bool, path []*ssa.BasicBlock) bool {
		st := errPathState{b, i, keyOf(nn, passed)}
		if seen[st] || len(seen) > 40000 {
			return false
		}
		seen[st] = true
		path = append(path, b)
		for ; i < len(b.Instrs); i++ {
			in := b.Instrs[i]
			if _, isPhi := in.(*ssa.Phi); isPhi {
				continue // decided on the edge
			}
			if in == s.(ssa.Instruction) && passed {
				return false // the call is made again: the failure was answered by a retry
			}
			if v, ok := in.(ssa.Value); ok && nn[v] != 0 {
				nn = copyWithout(nn, v) // redefinition on a loop iteration
			}
			if in == def {
				passed = true
				if e != nil {
					nn = copyWithout(nn, nil)
					nn[e] = 1
				}
				continue
			}
			switch x := in.(type) {
			case *ssa.Call:
				// a helper that hands back the error it was given (`return cleanupAfter(…, err)`): nil exactly when that is
				if g := x.Common().StaticCallee(); g != nil && g != fn {
					if pi, ok := errPassThrough(g); ok && pi < len(x.Common().Args) {
						a := x.Common().Args[pi]
						switch {
						case nn[a] != 0:
							nn = copyWithout(nn, nil)
							nn[x] = nn[a]
						case certainlyNonNilError(a):
							nn = copyWithout(nn, nil)
							nn[x] = 1
						}
					}
				}
			case *ssa.Store:
				// a spilled result or local error variable
				if al, ok := x.Addr.(*ssa.Alloc); ok && isErrorType(x.Val.Type()) {
					nn = copyWithout(nn, al)
					switch {
					case nn[x.Val] != 0:
						nn[al] = nn[x.Val]
					case certainlyNonNilError(x.Val):
						nn[al] = 1
					default:
						if k, ok := x.Val.(*ssa.Const); ok && k.IsNil() {
							nn[al] = -1
						}
					}
				}
			case *ssa.UnOp:
				if al, ok := x.X.(*ssa.Alloc); ok && x.Op == token.MUL && nn[al] != 0 {
					nn = copyWithout(nn, nil)
					nn[x] = nn[al]
				}
			case *ssa.Return:
				if !passed || nres == 0 {
					return false
				}
				last := x.Results[nres-1]
				if nn[last] > 0 {
					return false // a non-nil error is returned
				}
				if nn[last] < 0 || returnsSuccess(fn, x) {
					hit, trail = x, append([]*ssa.BasicBlock{}, path...)
					return true
				}
				return false
			case *ssa.Panic:
				return false
			case *ssa.If:
				feasible := []int{0, 1}
				switch c := x.Cond.(type) {
				case *ssa.Const:
					if c.Value != nil && c.Value.Kind() == constant.Bool {
						if constant.BoolVal(c.Value) {
							feasible = []int{0}
						} else {
							feasible = []int{1}
						}
					}
				case *ssa.BinOp:
					if c.Op == token.EQL || c.Op == token.NEQ {
						var xv ssa.Value
						kx, okx := c.X.(*ssa.Const)
						ky, oky := c.Y.(*ssa.Const)
						switch {
						case okx && oky && kx.IsNil() && ky.IsNil():
							// nil == nil: a never-assigned variable
							if c.Op == token.EQL {
								feasible = []int{0}
							} else {
								feasible = []int{1}
							}
						case oky && ky.IsNil():
							xv = c.X
						case okx && kx.IsNil():
							xv = c.Y
						}
						if xv != nil {
							nonNilEdge, nilEdge := 0, 1 // edge 0 is taken when the comparison is true
							if c.Op == token.EQL {
								nonNilEdge, nilEdge = 1, 0
							}
							switch {
							case nn[xv] > 0 || certainlyNonNilError(xv):
								feasible = []int{nonNilEdge}
							case nn[xv] < 0:
								feasible = []int{nilEdge}
							default:
								for _, si := range []int{0, 1} {
									n2 := copyWithout(nn, nil)
									if si == nonNilEdge {
										n2[xv] = 1
									} else {
										n2[xv] = -1
									}
									if edge(b, b.Succs[si], n2, passed, path) {
										return true
									}
								}
								return false
							}
						}
					}
				}
				for _, si := range feasible {
					if edge(b, b.Succs[si], nn, passed, path) {
						return true
					}
				}
				return false
			case *ssa.Jump:
				return edge(b, b.Succs[0], nn, passed, path)
			}
		}
		return false
	}
	if len(fn.Blocks) > 0 {
		walk(fn.Blocks[0], 0, map[ssa.Value]int{}, false, nil)
	}
	return hit, trail
}

func copyWithout(m map[ssa.Value]int, v ssa.Value) map[ssa.Value]int {
	out := map[ssa.Value]int{}
	for k, f := range m {
		if k != v {
			out[k] = f
		}
	}
	return out
}

// ---- C04.R5: in the persistence call tree no failed call is reported as success

var c04R5Reviewed = map[string]string{
	"util.ReadFileAt|golang.org/x/sys/unix.Close|discarded": "close of a descriptor opened read-only after all stat.Size bytes were read: there are no delayed writes whose error close could report, and the data already in the buffer is complete (C04.R4)",
}

func init() {
	register("C04", "C04.R5", ruleC04R5)
}

func ruleC04R5(c *Ctx) {
	seenFn := map[*ssa.Function]bool{}
	var fns []*ssa.Function
	for _, root := range []string{aUnloadChunk, aLoadChunk, aRemoveChunk, aScan} {
		for _, f := range persistTree(c, root) {
			if !seenFn[f] {
				seenFn[f] = true
				fns = append(fns, f)
			}
		}
	}
	sort.Slice(fns, func(i, j int) bool { return anchorName(fns[i]) < anchorName(fns[j]) })
	n := 0
	for _, fn := range fns {
		for _, s := range callsIn(fn) {
			if _, isCall := s.(*ssa.Call); !isCall {
				continue
			}
			if !callReturnsError(s) || neverNilError(s.Value()) {
				continue // not a call that can fail: no error result, or an error constructor
			}
			e := errResultOf(s)
			used := false
			if e != nil && e.Referrers() != nil {
				for _, r := range *e.Referrers() {
					if _, ok := r.(*ssa.DebugRef); !ok {
						used = true
					}
				}
			}
			n++
			callee := "?"
			if f := s.Common().StaticCallee(); f != nil {
				callee = extName(f)
				if strings.HasPrefix(fnPkgPath(f), modPath) {
					callee = anchorName(f)
				}
			} else if s.Common().IsInvoke() {
				callee = s.Common().Method.Name()
			}
			key := anchorName(fn) + "|" + callee
			construct := "a failure of " + callee + " is not reported as success"
			if !used {
				// the error is discarded: accepted only on a path that already reports a failure (clean-up after an error)
				// or as a reviewed best-effort call
				key += "|discarded"
				if why, ok := c04R5Reviewed[key]; ok {
					c.assumed("C04.R5", fn, "the discarded error of "+callee, s.Pos(), "reviewed: "+why)
					continue
				}
				succ, _ := failureSwallowed(fn, s, nil)
				if succ != nil && failureOnlyHelper(c, fn) {
					c.ok("C04.R5", fn, "the discarded error of "+callee, s.Pos(), "the function only hands back the error it was given, and every call of it is reached through the non-nil edge of that error: clean-up after a failure")
					continue
				}
				if os.Getenv("SLOGCHECK_F6KEYS") != "" && succ != nil {
					fmt.Printf("R5KEY04 %q: \"\",\n", key)
				}
				c.check(succ == nil, "C04.R5", fn, "the discarded error of "+callee, s.Pos(),
					"the call sits on a path that only returns failures (clean-up after an error)",
					"the error of this call is discarded and a success return is reachable after it: a failure here is reported as success")
				continue
			}
			if why, ok := c04R5Reviewed[key]; ok {
				c.assumed("C04.R5", fn, construct, s.Pos(), "reviewed: "+why)
				continue
			}
			hit, tr := failureSwallowed(fn, s, e)
			c.check(hit == nil, "C04.R5", fn, construct, s.Pos(),
				"with the error assumed non-nil no success return is reachable (path-sensitive in that fact; a retry of the call ends the path)",
				"with the error of this call non-nil a success return is still reachable — the error is tested on a variable that does not carry it (shadowing), overwritten, or dropped: "+c.P.trailString(tr))
		}
	}
	c.floor("C04.R5", "error-returning calls in the persistence tree", n, 8)
}

// ---- C16.R7: in the loading / verification tree no failed check is reported as success

var c16R7Reviewed = map[string]string{}

func init() {
	register("C16", "C16.R7", ruleC16R7)
}

func ruleC16R7(c *Ctx) {
	var rootsF []*ssa.Function
	rootsF = append(rootsF, c.P.Fns("run.ParseConfigFile")...)
	rootsF = append(rootsF, c.P.Fns(aNewLoaderCF)...)
	for _, fn := range c.P.universe {
		if fn.Name() == "UnmarshalYAML" || strings.HasPrefix(fn.Name(), "UnmarshalYAML[") {
			rootsF = append(rootsF, fn)
		}
	}
	reach := c.P.reachableFrom(rootsF, func(f *ssa.Function) bool { return !c.P.inUni[f] })
	var fns []*ssa.Function
	for f := range reach {
		if c.P.inUni[f] && f.Blocks != nil {
			fns = append(fns, f)
		}
	}
	sort.Slice(fns, func(i, j int) bool { return anchorName(fns[i]) < anchorName(fns[j]) })
	n := 0
	for _, fn := range fns {
		nres := fn.Signature.Results().Len()
		if nres == 0 || !isErrorType(fn.Signature.Results().At(nres-1).Type()) {
			continue // only functions that can report a failure themselves
		}
		for _, s := range callsIn(fn) {
			if _, isCall := s.(*ssa.Call); !isCall {
				continue
			}
			if !callReturnsError(s) || neverNilError(s.Value()) {
				continue // not a call that can fail: no error result, or an error constructor
			}
			e := errResultOf(s)
			used := false
			if e != nil && e.Referrers() != nil {
				for _, r := range *e.Referrers() {
					if _, ok := r.(*ssa.DebugRef); !ok {
						used = true
					}
				}
			}
			n++
			callee := "?"
			if f := s.Common().StaticCallee(); f != nil {
				callee = extName(f)
				if strings.HasPrefix(fnPkgPath(f), modPath) {
					callee = anchorName(f)
				}
			} else if s.Common().IsInvoke() {
				callee = s.Common().Method.Name()
			} else {
				callee = canonOf(s.Common().Value)
			}
			key := anchorName(fn) + "|" + callee
			construct := "a failure of " + callee + " is not reported as success"
			if !used {
				key += "|discarded"
				if why, ok := c16R7Reviewed[key]; ok {
					c.assumed("C16.R7", fn, "the discarded error of "+callee, s.Pos(), "reviewed: "+why)
					continue
				}
				succ, _ := failureSwallowed(fn, s, nil)
				if os.Getenv("SLOGCHECK_F6KEYS") != "" && succ != nil {
					fmt.Printf("R7KEY16 %q: \"\",\n", key)
				}
				c.check(succ == nil, "C16.R7", fn, "the discarded error of "+callee, s.Pos(),
					"the call sits on a path that only returns failures",
					"the error of this call is discarded and a nil-error return is reachable after it: a configuration this check rejects is accepted")
				continue
			}
			if why, ok := c16R7Reviewed[key]; ok {
				c.assumed("C16.R7", fn, construct, s.Pos(), "reviewed: "+why)
				continue
			}
			hit, tr := failureSwallowed(fn, s, e)
			if hit != nil && os.Getenv("SLOGCHECK_F6KEYS") != "" {
				fmt.Printf("R7KEY16 %q: \"\",\n", key)
			}
			c.check(hit == nil, "C16.R7", fn, construct, s.Pos(),
				"with the error assumed non-nil no nil-error return is reachable",
				"with the error of this call non-nil a nil-error return is still reachable — the error is tested on a variable that does not carry it (shadowing), overwritten, or dropped: a configuration the check rejects is accepted: "+c.P.trailString(tr))
		}
	}
	c.floor("C16.R7", "error-returning calls in the loading / verification tree", n, 60)
}

// returnsSuccess: the return reports success — a nil constant as the error result, or the constant true of a bool-only result
func returnsSuccess(fn *ssa.Function, r *ssa.Return) bool {
	nres := fn.Signature.Results().Len()
	if nres == 0 {
		return false
	}
	last := r.Results[nres-1]
	if isErrorType(fn.Signature.Results().At(nres - 1).Type()) {
		return !certainlyNonNilError(last)
	}
	if b, ok := fn.Signature.Results().At(nres - 1).Type().Underlying().(*types.Basic); ok && b.Kind() == types.Bool && nres == 1 {
		k, ok := last.(*ssa.Const)
		return ok && k.Value != nil && k.Value.Kind() == constant.Bool && constant.BoolVal(k.Value)
	}
	return false
}

func callReturnsError(s ssa.CallInstruction) bool {
	sig := s.Common().Signature()
	n := sig.Results().Len()
	return n > 0 && isErrorType(sig.Results().At(n-1).Type())
}

// certainlyNonNilError: an error value that cannot be nil by construction — fmt.Errorf / errors.New results, a concrete
// value boxed into the interface, a package-level error variable. Anything else (nil itself, the error of another call
// that is returned as it is) may be nil, i.e. may report success.
func certainlyNonNilError(v ssa.Value) bool {
	if neverNilError(v) {
		return true
	}
	switch x := v.(type) {
	case *ssa.Const:
		return !x.IsNil()
	case *ssa.UnOp:
		if _, ok := x.X.(*ssa.Global); ok && x.Op == token.MUL {
			return true
		}
	case *ssa.Phi:
		for _, e := range x.Edges {
			if !certainlyNonNilError(e) {
				return false
			}
		}
		return true
	}
	return false
}

// ---- C02.R10: in the output clients no failed call is reported as success (an I/O error must abort the connection)

var c02R10Reviewed = map[string]string{}

func init() {
	register("C02", "C02.R10", ruleC02R10)
}

func ruleC02R10(c *Ctx) {
	var fns []*ssa.Function
	for _, fn := range c.P.universe {
		rel := relPkg(fnPkgPath(fn))
		if !(strings.HasPrefix(rel, "output/") || rel == "output") || fn.Blocks == nil {
			continue
		}
		nres := fn.Signature.Results().Len()
		if nres == 0 || !isErrorType(fn.Signature.Results().At(nres-1).Type()) {
			continue
		}
		// construction / configuration is C16's business
		if strings.Contains(fn.Name(), "VerifyConfig") || strings.Contains(fn.Name(), "UnmarshalYAML") {
			continue
		}
		fns = append(fns, fn)
	}
	sort.Slice(fns, func(i, j int) bool { return anchorName(fns[i]) < anchorName(fns[j]) })
	n := 0
	for _, fn := range fns {
		for _, s := range callsIn(fn) {
			if _, isCall := s.(*ssa.Call); !isCall {
				continue
			}
			if !callReturnsError(s) || neverNilError(s.Value()) {
				continue
			}
			e := errResultOf(s)
			used := false
			if e != nil && e.Referrers() != nil {
				for _, r := range *e.Referrers() {
					if _, ok := r.(*ssa.DebugRef); !ok {
						used = true
					}
				}
			}
			n++
			callee := "?"
			if f := s.Common().StaticCallee(); f != nil {
				callee = extName(f)
				if strings.HasPrefix(fnPkgPath(f), modPath) {
					callee = anchorName(f)
				}
			} else if s.Common().IsInvoke() {
				callee = s.Common().Method.Name()
			} else {
				callee = canonOf(s.Common().Value)
			}
			key := anchorName(fn) + "|" + callee
			if !used {
				key += "|discarded"
				e = nil
			}
			construct := "a failure of " + callee + " is not reported as success"
			if why, ok := c02R10Reviewed[key]; ok {
				c.assumed("C02.R10", fn, construct, s.Pos(), "reviewed: "+why)
				continue
			}
			hit, tr := failureSwallowed(fn, s, e)
			if hit != nil && os.Getenv("SLOGCHECK_F6KEYS") != "" {
				fmt.Printf("R10KEY02 %q: \"\", // %s\n", key, c.P.pos(s.Pos()))
			}
			c.check(hit == nil, "C02.R10", fn, construct, s.Pos(),
				"with the error assumed non-nil (or discarded) no success return is reachable",
				"a failure of this call can be reported as success: the session goes on with a connection in an unknown state, and a chunk can be queued for ACK or confirmed although it was not transmitted: "+c.P.trailString(tr))
		}
	}
	c.floor("C02.R10", "fallible calls in error-returning functions of the output packages", n, 30)
}

// errPassThrough: g's error result is, on every return, one and the same error parameter: its index
func errPassThrough(g *ssa.Function) (int, bool) {
	if g == nil || g.Blocks == nil {
		return 0, false
	}
	nres := g.Signature.Results().Len()
	if nres == 0 || !isErrorType(g.Signature.Results().At(nres-1).Type()) {
		return 0, false
	}
	idx := -1
	for _, rv := range returnedValues(g, nres-1) {
		p, ok := resolve(rv.Val).(*ssa.Parameter)
		if !ok || p.Parent() != g {
			return 0, false
		}
		pi := -1
		for i, q := range g.Params {
			if q == p {
				pi = i
			}
		}
		if pi < 0 || (idx >= 0 && idx != pi) {
			return 0, false
		}
		idx = pi
	}
	return idx, idx >= 0
}

// failureOnlyHelper: fn hands back the error it was given and is only ever called on the non-nil edge of that error
func failureOnlyHelper(c *Ctx, fn *ssa.Function) bool {
	pi, ok := errPassThrough(fn)
	if !ok || !c.P.onlyCalledFrom(fn, c.P.allFuncs) {
		return false
	}
	n := 0
	for _, site := range c.P.staticSites[fn] {
		if strings.Contains(site.Parent().Synthetic, "wrapper") {
			continue
		}
		n++
		if pi >= len(site.Common().Args) {
			return false
		}
		a := site.Common().Args[pi]
		via := false
		for b, si := range nilEdges(a, false) {
			if c.onlyViaEdge(site.Parent(), site.(ssa.Instruction), b, si) {
				via = true
			}
		}
		if !via && !certainlyNonNilError(a) {
			return false
		}
	}
	return n > 0
}
