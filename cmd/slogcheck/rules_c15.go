package main

// C15 (composition clauses only) and C12 Records are isolated despite pooling.

import (
	"fmt"
	"go/constant"
	"go/token"
	"go/types"
	"os"
	"sort"
	"strings"

	"golang.org/x/tools/go/ssa"
)

func init() {
	for i, r := range []ruleFn{ruleC15R1, ruleC15R2, ruleC15R3, ruleC15R4} {
		register("C15", fmt.Sprintf("C15.R%d", i+1), r)
	}
	propExplanation["C15"] = "The equality with a reference interpreter is value-level and NOT decided. Decided are the parts of the documented semantics that are control-flow shape, on every path: the transform chain returns DROP at the first DROP without running a further step and PASS only after the loop (R1); " +
		"container transforms (if/switch/block, found as the Transform implementations whose call tree reaches RunTransforms) return exactly what their nested chain returned on the matched path, switch stops at the first matching case, every other transform except drop returns PASS on all paths (R2); " +
		"truncate stores OverwriteNTruncate(bytes, len(CleanUTF8(bytes[:maxLength])), suffix) under the guard len(value) > maxLength+len(suffix) (R3); drop touches no counter when unmatched, exactly one of dropped/retained when matched, totalMatched once per sampled record and totalDropped only with a DROP (R4). " +
		"Constructor inputs are verified (C16.R1) and index safety is decided under C07. Not decided: templates, extraction boundaries, match operators, the percentage arithmetic, unescape/replace results."
	propAssumptions["C15"] = []string{"only composition/bookkeeping clauses are claimed; the per-value results of each transform are not"}

	for i, r := range []ruleFn{ruleC12R1, ruleC12R2, ruleC12R3, ruleC12R4, ruleC12R5} {
		register("C12", fmt.Sprintf("C12.R%d", i+1), r)
	}
	propExplanation["C12"] = "Decides the structural side of isolation: every field of LogRecord (enumerated from the struct type) is cleared on the recycle path or assigned by every producer before the record escapes (R1); a record is not used after the release that ends its life on drop paths, new records add the output count to the reference count (R2); " +
		"transient strings (extractor results, field values, buffer-backed strings) reach long-lived maps, label values and pipeline constructors only through a deep copy (R3); per-instance scratch buffers never escape into results without a copy and serialized streams are not retained by the chunk makers (R4); nothing reachable from serialization or rewriting stores into a LogRecord (R5). " +
		"Not decided: sync.Pool behaviour, the stateful sampling counters."
	propAssumptions["C12"] = []string{"producers outside production code (test helpers) are ignored"}
}

// ---------------------------------------------------------------- C15

func ruleC15R1(c *Ctx) {
	fn := c.P.Fn(aRunTransf)
	var calls []ssa.CallInstruction
	for _, s := range callsIn(fn) {
		if s.Common().IsInvoke() || s.Common().StaticCallee() != nil {
			continue
		}
		if _, isB := s.Common().Value.(*ssa.Builtin); isB {
			continue
		}
		calls = append(calls, s)
	}
	if len(calls) != 1 {
		c.bad("C15.R1", fn, "first DROP wins", fn.Pos(), fmt.Sprintf("expected one dynamic transform call, found %d", len(calls)))
		return
	}
	call := calls[0]
	c.check(sameValue(call.Common().Args[0], fn.Params[0]), "C15.R1", fn, "each step gets the record", call.Pos(), "transformFunc(record)", "a step is run on something other than the record")
	drop := dropEdges(call.Value(), true)
	okD := len(drop) > 0
	why := "the step's result is not compared with DROP"
	for b, si := range drop {
		q := &PathQ{P: c.P}
		if hit, _ := q.Reach(succPoint(b, si), func(in ssa.Instruction) bool { return in == call.(ssa.Instruction) }); hit != nil {
			okD, why = false, "after a DROP a further step can still run"
		}
		for _, rv := range returnedValues(fn, 0) {
			qq := &PathQ{P: c.P}
			if hit, _ := qq.Reach(succPoint(b, si), func(in ssa.Instruction) bool { return in == rv.At }); hit != nil && retKind(rv.Val) != "false" {
				okD, why = false, "a DROP of a step does not make the chain return DROP"
			}
		}
	}
	c.check(okD, "C15.R1", fn, "first DROP wins", call.Pos(), "the DROP edge returns DROP without running a further step", why)
	// PASS only after all steps: a PASS return is not reachable from inside the loop body except through the header's exit
	lp := loopOf(fn, call.Block())
	okP := lp != nil
	for _, rv := range returnedValues(fn, 0) {
		if retKind(rv.Val) != "true" {
			continue
		}
		if lp == nil || lp.blocks[rv.At.Block()] {
			okP = false
		}
		// every path to it passes the loop header's exit edge
		if lp != nil && lp.exitIf != nil {
			q := &PathQ{P: c.P, Barrier: func(in ssa.Instruction) bool { return in == ssa.Instruction(lp.exitIf) }}
			if hit, _ := q.Reach(entryOf(fn), func(in ssa.Instruction) bool { return in == rv.At }); hit != nil {
				okP = false
			}
		}
	}
	c.check(okP, "C15.R1", fn, "PASS only after all steps ran", fn.Pos(), "the PASS return lies behind the loop's exit", "the chain can return PASS before all steps ran")
	// the loop iterates the whole transforms parameter from the start
	okIter := false
	eachInstr(fn, func(in ssa.Instruction) {
		if ia, ok := in.(*ssa.IndexAddr); ok && ia.X == ssa.Value(fn.Params[1]) {
			okIter = true
		}
	})
	c.check(okIter, "C15.R1", fn, "steps are the transforms parameter in order", fn.Pos(), "range over the parameter", "the loop does not range over the transforms parameter")
}

func transformImpls(c *Ctx) []*ssa.Function {
	var out []*ssa.Function
	for _, fn := range c.P.universe {
		if fn.Name() != "Transform" || fn.Signature.Recv() == nil || fn.Signature.Params().Len() != 1 || fn.Signature.Results().Len() != 1 {
			continue
		}
		if typeName(fn.Signature.Results().At(0).Type()) != "base.FilterResult" {
			continue
		}
		out = append(out, fn)
	}
	sort.Slice(out, func(i, j int) bool { return out[i].String() < out[j].String() })
	return out
}

func ruleC15R2(c *Ctx) {
	impls := transformImpls(c)
	c.floor("C15.R2", "LogTransform implementations", len(impls), 8)
	sRT := newSumm(c.P, anchorPred(aRunTransf))
	nCont := 0
	for _, fn := range impls {
		name := anchorName(fn)
		if sRT.fnMay(fn) {
			nCont++
			// container: every return is PASS or the nested chain's result
			for _, rv := range returnedValues(fn, 0) {
				k := retKind(rv.Val)
				if k == "true" {
					continue
				}
				fromChain := mentions(rv.Val, func(v ssa.Value) bool {
					cl, ok := v.(*ssa.Call)
					if !ok || cl.Common().StaticCallee() == nil {
						return false
					}
					return isAnchor(cl.Common().StaticCallee(), aRunTransf) || sRT.fnMay(cl.Common().StaticCallee())
				})
				// and nothing else mixed in: the value is the call result or an extract of it
				v := strip(rv.Val)
				direct := false
				switch x := v.(type) {
				case *ssa.Call:
					direct = true
				case *ssa.Extract:
					_, direct = x.Tuple.(*ssa.Call)
				}
				c.check(fromChain && direct, "C15.R2", fn, "container returns the nested chain's result", rv.At.Pos(), "the value returned is exactly what RunTransforms (or the case's apply) returned", "a container transform returns something other than PASS or its nested chain's result (a nested DROP would be lost or invented)")
			}
			// matched ⇒ nested chain; unmatched ⇒ PASS
			for _, m := range sitesWhere(fn, func(s ssa.CallInstruction) bool {
				f := s.Common().StaticCallee()
				return f != nil && isAnchor(f, "base/bmatch.(LogMatcher).Match")
			}) {
				for b, si := range boolEdges(m.Value(), true) {
					// what is returned on the matched path is the chain's result, not a constant
					for _, rv := range returnedValues(fn, 0) {
						q := &PathQ{P: c.P}
						if hit, _ := q.Reach(succPoint(b, si), func(in ssa.Instruction) bool { return in == rv.At }); hit != nil {
							_, isConst := rv.Val.(*ssa.Const)
							c.check(!isConst, "C15.R2", fn, "the matched path returns the nested chain's result", rv.At.Pos(), "not a constant", "on the matched path a constant is returned instead of the nested chain's result: a nested DROP is swallowed")
						}
					}
					sCh := newSumm(c.P, anchorPred(aRunTransf))
					sCh.AllowEmptyGuards, sCh.LoopsRunOnce = false, false
					c.mustBeforeReturn("C15.R2", fn, succPoint(b, si), sCh, "a match runs the nested steps", "RunTransforms", m.Pos(), nil)
				}
				for b, si := range boolEdges(m.Value(), false) {
					q := &PathQ{P: c.P}
					hit, _ := q.Reach(succPoint(b, si), func(in ssa.Instruction) bool { return isCallTo(in, c.P, anchorPred(aRunTransf)) })
					c.check(hit == nil, "C15.R2", fn, "no match runs nothing", m.Pos(), "the unmatched edge does not reach RunTransforms", "nested steps run although the matcher did not match")
				}
			}
			continue
		}
		if strings.HasPrefix(name, "transform/tdrop.") {
			continue // R4
		}
		all := true
		for _, rv := range returnedValues(fn, 0) {
			if retKind(rv.Val) != "true" {
				all = false
			}
		}
		c.check(all, "C15.R2", fn, "non-filtering transform always returns PASS", fn.Pos(), "all returns are the constant PASS", "a transform that is documented as non-filtering can drop records")
	}
	c.floor("C15.R2", "container transforms", nCont, 3)
	// switch: first matching case ends the switch; apply reports (matched, status)
	sw := c.P.Fn("transform/tswitch.(*switchTransform).Transform")
	ap := c.callsTo(sw, anchorPred("transform/tswitch.(*switchCase).apply"))
	if len(ap) == 1 {
		matched := resultOf(ap[0].Value(), 0)
		status := resultOf(ap[0].Value(), 1)
		lp := loopOf(sw, ap[0].Block())
		ok := lp != nil
		for b, si := range boolEdges(matched, true) {
			q := &PathQ{P: c.P}
			if hit, _ := q.Reach(succPoint(b, si), func(in ssa.Instruction) bool { return in == ap[0].(ssa.Instruction) }); hit != nil {
				ok = false
			}
			for _, rv := range returnedValues(sw, 0) {
				qq := &PathQ{P: c.P}
				if hit, _ := qq.Reach(succPoint(b, si), func(in ssa.Instruction) bool { return in == rv.At }); hit != nil && strip(rv.Val) != status {
					ok = false
				}
			}
		}
		c.check(ok, "C15.R2", sw, "switch stops at the first matching case with its status", ap[0].Pos(), "matched ⇒ return the case's status, no further case is tried", "after a matching case further cases are tried, or its status is not what is returned")
		for b, si := range boolEdges(matched, false) {
			for _, rv := range returnedValues(sw, 0) {
				if strip(rv.Val) == status {
					qq := &PathQ{P: c.P, Barrier: func(in ssa.Instruction) bool { return lp != nil && in == lp.header.Instrs[0] }}
					hit, _ := qq.Reach(succPoint(b, si), func(in ssa.Instruction) bool { return in == rv.At })
					c.check(hit == nil, "C15.R2", sw, "an unmatched case does not decide the result", ap[0].Pos(), "unmatched ⇒ next case", "the status of a case that did not match is returned")
				}
			}
		}
	} else {
		c.bad("C15.R2", sw, "switch stops at the first matching case", sw.Pos(), "expected one apply call")
	}
	apf := c.P.Fn("transform/tswitch.(*switchCase).apply")
	okAp := true
	for _, rv := range returnedValues(apf, 0) {
		st := ""
		for _, rv1 := range returnedValues(apf, 1) {
			if rv1.At == rv.At {
				st = retKind(rv1.Val)
				if retKind(rv.Val) == "true" {
					if cl, ok := strip(rv1.Val).(*ssa.Call); !ok || cl.Common().StaticCallee() == nil || !isAnchor(cl.Common().StaticCallee(), aRunTransf) {
						okAp = false
					}
				}
			}
		}
		if retKind(rv.Val) == "false" && st != "true" {
			okAp = false
		}
	}
	c.check(okAp, "C15.R2", apf, "apply returns (false, PASS) or (true, nested result)", apf.Pos(), "as documented", "switchCase.apply reports a match without the nested result (or a non-match with a non-PASS status)")
}

func ruleC15R3(c *Ctx) {
	fn := c.P.Fn("transform/ttruncate.(*truncateTransform).Transform")
	const pfx = "transform/ttruncate.truncateTransform."
	calleeIs := func(p FnPred) func(ssa.CallInstruction) bool {
		return func(s ssa.CallInstruction) bool { f := s.Common().StaticCallee(); return f != nil && p(f) }
	}
	sets := c.sitesWhereR(fn, calleeIs(anchorPred(aLocSet)))
	cleans := c.sitesWhereR(fn, calleeIs(anchorPred(aCleanUTF8)))
	ows := c.sitesWhereR(fn, calleeIs(anchorPred("util.OverwriteNTruncate")))
	if len(sets) != 1 || len(cleans) != 1 || len(ows) != 1 {
		c.bad("C15.R3", fn, "UTF-8-safe cut", fn.Pos(), fmt.Sprintf("expected one Set, CleanUTF8 and OverwriteNTruncate, found %d/%d/%d", len(sets), len(cleans), len(ows)))
		return
	}
	set, clean, ow := sets[0], cleans[0], ows[0]
	// guard
	okG := false
	eachInstr(fn, func(in ssa.Instruction) {
		bo, ok := in.(*ssa.BinOp)
		if !ok || bo.Op != token.GTR {
			return
		}
		l, isLen := strip(bo.X).(*ssa.Call)
		if !isLen || !isBuiltin(l, "len") {
			return
		}
		sum, isSum := strip(bo.Y).(*ssa.BinOp)
		if !isSum || sum.Op != token.ADD || !mentions(sum, isFieldAddrOf(pfx+"maxLength")) || !mentions(sum, isFieldAddrOf(pfx+"suffix")) {
			return
		}
		for b, si := range boolEdges(bo, true) {
			sIn, cIn := c.siteInRoot(fn, set), c.siteInRoot(fn, clean)
			if sIn != nil && cIn != nil && c.onlyViaEdge(fn, sIn, b, si) && c.onlyViaEdge(fn, cIn, b, si) {
				okG = true
			}
		}
	})
	c.check(okG, "C15.R3", fn, "cut only when len(value) > maxLength + len(suffix)", fn.Pos(), "guard dominates the rewrite", "the value is rewritten without room for the suffix (OverwriteNTruncate would overrun or the result could grow)")
	// clean input = bytes[:maxLength]
	sl, isSl := strip(clean.Common().Args[0]).(*ssa.Slice)
	okC := isSl && sl.Low == nil && sl.High != nil && fieldOf(sl.High) == pfx+"maxLength"
	c.check(okC, "C15.R3", fn, "CleanUTF8(bytes[:maxLength])", clean.Pos(), "the cut is at maxLength and cleaned", "the value is not cut at maxLength before the UTF-8 clean-up")
	// overwrite(bytes, len(cleaned), suffix)
	okO := false
	if okC {
		lenArg, isLen := strip(ow.Common().Args[1]).(*ssa.Call)
		okO = isLen && isBuiltin(lenArg, "len") && strip(lenArg.Call.Args[0]) == clean.Value() &&
			fieldOf(ow.Common().Args[2]) == pfx+"suffix" && strip(ow.Common().Args[0]) == strip(sl.X)
	}
	c.check(okO, "C15.R3", fn, "OverwriteNTruncate(bytes, len(cleaned), suffix)", ow.Pos(), "the suffix is pasted at the cleaned end of the same bytes", "the suffix is not pasted at the end of the cleaned prefix (a broken UTF-8 sequence or a gap would remain)")
	okS := c.mentionsR(fn, set.Common().Args[2], func(v ssa.Value) bool { return v == ow.Value() }, 0)
	c.check(okS, "C15.R3", fn, "the stored value is the overwritten bytes", set.Pos(), "Set(fields, StringFromBytes(overwritten))", "the field is set to something other than the truncated value")
}

func ruleC15R4(c *Ctx) {
	fn := c.P.Fn("transform/tdrop.(*dropTransform).Transform")
	const pfx = "transform/tdrop.dropTransform."
	cs := &CountSpec{P: c.P, Classes: []string{"countDropped", "countRetained", "totalMatched++", "totalDropped++"},
		Site: func(s ssa.CallInstruction) int {
			if fieldCallOf(s, pfx+"countDropped") {
				return 0
			}
			if fieldCallOf(s, pfx+"countRetained") {
				return 1
			}
			return -1
		},
		Instr: func(in ssa.Instruction) int {
			st, ok := in.(*ssa.Store)
			if !ok {
				return -1
			}
			switch fieldOf(st.Addr) {
			case pfx + "totalMatched":
				return 2
			case pfx + "totalDropped":
				return 3
			}
			return -1
		}}
	outs := cs.Enum(fn, entryOf(fn), nil)
	allowed := map[string]bool{"[0 0 0 0]|true": true, "[1 0 0 0]|false": true, "[1 0 1 1]|false": true, "[0 1 1 0]|true": true}
	good := len(outs) >= 3
	var why []string
	for _, o := range outs {
		if !allowed[o.key()] {
			good = false
			why = append(why, cs.describe(o))
		}
	}
	c.check(good, "C15.R4", fn, "sampling bookkeeping once per record", fn.Pos(),
		fmt.Sprintf("all %d path outcomes are one of: untouched+PASS, dropped+DROP (100%%), dropped+matched+totalDropped+DROP, retained+matched+PASS", len(outs)), "unexpected bookkeeping: "+strings.Join(why, "; "))
	// increments are by one
	for _, f := range []string{"totalMatched", "totalDropped"} {
		for _, st := range storesToField(fn, pfx+f) {
			bo, ok := strip(st.Val).(*ssa.BinOp)
			c.check(ok && bo.Op == token.ADD && fieldOf(bo.X) == pfx+f && isConstInt(bo.Y, 1), "C15.R4", fn, f+" incremented by one", st.Pos(), f+"++", f+" is not incremented by exactly one")
		}
	}
	// unmatched path touches nothing: the matcher's false edge returns PASS (covered by outcome [0 0 0 0]|true) and is the only such outcome
	// countRetained only where it was set
	nt := c.P.Fn("transform/tdrop.(*Config).NewTransform")
	okSet := false
	for _, st := range storesToField(nt, pfx+"countRetained") {
		if k, isK := st.Val.(*ssa.Const); isK && k.IsNil() {
			continue
		}
		eachInstr(nt, func(in ssa.Instruction) {
			bo, ok := in.(*ssa.BinOp)
			if ok && bo.Op == token.LSS && fieldOf(bo.X) == pfx+"targetRate" && isConstInt(bo.Y, 100) {
				for b, si := range boolEdges(bo, true) {
					if c.onlyViaEdge(nt, st, b, si) {
						okSet = true
					}
				}
			}
		})
	}
	okUse := true
	for _, s := range sitesWhere(fn, func(s ssa.CallInstruction) bool { return fieldCallOf(s, pfx+"countRetained") }) {
		via := false
		eachInstr(fn, func(in ssa.Instruction) {
			bo, ok := in.(*ssa.BinOp)
			if ok && bo.Op == token.EQL && fieldOf(bo.X) == pfx+"targetRate" && isConstInt(bo.Y, 100) {
				for b, si := range boolEdges(bo, false) {
					if c.onlyViaEdge(fn, s, b, si) {
						via = true
					}
				}
			}
		})
		if !via {
			okUse = false
		}
	}
	c.check(okSet && okUse, "C15.R4", fn, "countRetained is only called where it was set", fn.Pos(), "set iff targetRate < 100, called only behind targetRate != 100", "the retained counter can be called when it is nil (rate 100) — nil function call")
}

// ---------------------------------------------------------------- C12

func ruleC12R1(c *Ctx) {
	recT := c.P.pkgByRel["base"].Types.Scope().Lookup("LogRecord").Type()
	st := recT.Underlying().(*types.Struct)
	rel := c.P.Fn(aRelease)
	// the recycle path: from Release to the sync.Pool.Put that takes the record itself, through whatever helpers
	isRecordPut := func(s ssa.CallInstruction) bool {
		f := s.Common().StaticCallee()
		if f == nil || extName(f) != "(*sync.Pool).Put" || len(s.Common().Args) < 2 {
			return false
		}
		a := strip(s.Common().Args[1])
		if mi, ok := a.(*ssa.MakeInterface); ok {
			a = strip(mi.X)
		}
		return typeName(a.Type()) == "base.LogRecord"
	}
	type step struct {
		fn     *ssa.Function
		target ssa.CallInstruction
	}
	var chain []step
	var findChain func(fn *ssa.Function, depth int) []step
	findChain = func(fn *ssa.Function, depth int) []step {
		if depth > 4 {
			return nil
		}
		for _, s := range callsIn(fn) {
			if isRecordPut(s) {
				return []step{{fn, s}}
			}
		}
		for _, s := range callsIn(fn) {
			g := s.Common().StaticCallee()
			if g == nil || g.Blocks == nil || !c.P.inUni[g] {
				continue
			}
			if rest := findChain(g, depth+1); rest != nil {
				return append([]step{{fn, s}}, rest...)
			}
		}
		return nil
	}
	chain = findChain(rel, 0)
	if len(chain) == 0 {
		c.bad("C12.R1", rel, "recycle path", rel.Pos(), "no sync.Pool.Put of the record is reachable from Release")
		return
	}
	// the recycle path is the ONLY way into the pool (added after seed c12h): every Put of a record is the one at the end
	// of the chain, and each function of the chain below Release is called only by the function above it — a second entry
	// (a "discard" that skips Release) recycles a record with its fields, length and time still set
	inChain := map[*ssa.Function]int{}
	for i, stp := range chain {
		inChain[stp.fn] = i
	}
	for _, fn := range c.P.universe {
		for _, s := range callsIn(fn) {
			if isRecordPut(s) {
				c.check(s == chain[len(chain)-1].target, "C12.R1", fn, "a record goes back to the pool only at the end of the recycle path", s.Pos(),
					"the Put at the end of Release's chain", "a record is put back into the pool outside the recycle path that starts in Release (its fields are not cleared there)")
			}
		}
	}
	for i := 1; i < len(chain); i++ {
		g := chain[i].fn
		for _, s := range c.callSitesOf(func(f *ssa.Function) bool { return f == g }) {
			c.check(s.Parent() == chain[i-1].fn, "C12.R1", s.Parent(), "the recycle helper "+fnBaseName(g)+" is entered only from the recycle path", s.Pos(),
				"called by "+fnBaseName(chain[i-1].fn), "the record reaches the pool through "+fnBaseName(g)+" without passing Release: whatever Release clears (fields, length, time) survives into the next record that takes this object")
		}
	}
	recCalls := []ssa.CallInstruction{chain[0].target}
	// producers: universe functions calling NewRecord
	var producers []*ssa.Function
	for _, s := range c.callSitesOf(anchorPred(aNewRecord)) {
		producers = append(producers, s.Parent())
	}
	c.floor("C12.R1", "record producers in production code", len(producers), 1)
	for i := 0; i < st.NumFields(); i++ {
		f := st.Field(i)
		fname := "base.LogRecord." + f.Name()
		construct := "field " + f.Name() + " does not carry over to the next record"
		// (a) cleared before the record goes back to the pool
		cleared := false
		why := ""
		var mustClear func(fn *ssa.Function, depth int) bool
		var check func(fn *ssa.Function, target ssa.Instruction, depth int) bool
		mustClear = func(fn *ssa.Function, depth int) bool {
			if depth > 3 || fn.Blocks == nil {
				return false
			}
			okAll := false
			for _, b := range fn.Blocks {
				for _, in := range b.Instrs {
					if r, isRet := in.(*ssa.Return); isRet {
						if !check(fn, r, depth+1) {
							return false
						}
						okAll = true
					}
				}
			}
			return okAll
		}
		check = func(fn *ssa.Function, target ssa.Instruction, depth int) bool {
			var clears []ssa.Instruction
			// calls to module helpers that clear the field on all their paths
			for _, s := range callsIn(fn) {
				if s.(ssa.Instruction) == target {
					continue
				}
				if g := s.Common().StaticCallee(); g != nil && c.P.inUni[g] && g != fn && relPkg(fnPkgPath(g)) == "base" && mustClear(g, depth+1) {
					clears = append(clears, s)
				}
			}
			eachInstr(fn, func(in ssa.Instruction) {
				stI, ok := in.(*ssa.Store)
				if !ok {
					return
				}
				if fieldOf(stI.Addr) == fname {
					clears = append(clears, in)
				}
				// element-wise clearing of a slice field inside a loop
				if ia, ok := strip(stI.Addr).(*ssa.IndexAddr); ok && fieldOf(ia.X) == fname {
					clears = append(clears, in)
				}
			})
			if len(clears) == 0 {
				return false
			}
			ev := instrSet(clears)
			addLoopEvents(c.P, fn, ev, nil)
			// "already nil/empty, nothing to clear" guards on the field itself are not bypasses
			empty := map[*ssa.BasicBlock]int{}
			for _, b := range fn.Blocks {
				if iff, ok := b.Instrs[len(b.Instrs)-1].(*ssa.If); ok {
					if em, ok := asEmptiness(iff.Cond); ok && fieldOf(em.X) == fname {
						if em.EmptyOnTrue {
							empty[b] = 0
						} else {
							empty[b] = 1
						}
					}
				}
			}
			q := &PathQ{P: c.P, Barrier: func(in ssa.Instruction) bool { return ev[in] }, EdgeBlocked: edgeSet(empty)}
			hit, _ := q.Reach(entryOf(fn), func(in ssa.Instruction) bool { return in == target })
			return hit == nil
		}
		for _, st := range chain {
			if check(st.fn, st.target, 0) {
				cleared, why = true, "cleared in "+anchorName(st.fn)+" (directly or by a helper that clears it on all paths) on every path to the record's Pool.Put"
				break
			}
		}
		if !cleared && f.Name() == "_refCount" {
			// zero by construction when recycled: recycleRecord only behind the `_refCount > 0` false edge and the `< 0` panic
			okZero := false
			eachInstr(rel, func(in ssa.Instruction) {
				bo, ok := in.(*ssa.BinOp)
				if ok && bo.Op == token.GTR && fieldOf(bo.X) == fname && isConstInt(bo.Y, 0) {
					for b, si := range boolEdges(bo, false) {
						if c.onlyViaEdge(rel, recCalls[0], b, si) {
							okZero = true
						}
					}
				}
			})
			okNeg := false
			eachInstr(rel, func(in ssa.Instruction) {
				bo, ok := in.(*ssa.BinOp)
				if ok && bo.Op == token.LSS && fieldOf(bo.X) == fname && isConstInt(bo.Y, 0) {
					for b, si := range boolEdges(bo, true) {
						q := &PathQ{P: c.P}
						if hit, _ := q.Reach(succPoint(b, si), func(x ssa.Instruction) bool { return x == recCalls[0].(ssa.Instruction) }); hit == nil {
							okNeg = true
						}
					}
				}
			})
			if okZero && okNeg {
				cleared, why = true, "zero when recycled: recycleRecord is only reachable with _refCount neither > 0 nor < 0"
			}
		}
		if !cleared {
			// (b) assigned by every producer on every path on which the record escapes
			all := len(producers) > 0
			for _, p := range producers {
				nr := c.callsTo(p, anchorPred(aNewRecord))
				recV := resultOf(nr[0].Value(), 0)
				var assigns []ssa.Instruction
				for _, s := range storesToField(p, fname) {
					assigns = append(assigns, s)
				}
				for _, rv := range returnedValues(p, 0) {
					if strip(rv.Val) != recV {
						continue
					}
					q := &PathQ{P: c.P, Barrier: func(in ssa.Instruction) bool { return instrSet(assigns)[in] }}
					if hit, _ := q.Reach(after(nr[0]), func(in ssa.Instruction) bool { return in == rv.At }); hit != nil || len(assigns) == 0 {
						all = false
					}
				}
			}
			if all {
				cleared, why = true, fmt.Sprintf("assigned by all %d producers on every path that returns the record", len(producers))
			}
		}
		c.check(cleared, "C12.R1", rel, construct, rel.Pos(), why, "LogRecord."+f.Name()+" is neither reset on the recycle path nor assigned by every producer: its value leaks from one record into the next one taken from the pool")
	}
	c.floor("C12.R1", "fields of LogRecord", st.NumFields(), 6)
}

func ruleC12R2(c *Ctx) {
	nr := c.P.Fn(aNewRecord)
	okAdd := false
	for _, st := range storesToField(nr, "base.LogRecord._refCount") {
		if bo, ok := strip(st.Val).(*ssa.BinOp); ok && bo.Op == token.ADD && fieldOf(bo.X) == "base.LogRecord._refCount" && fieldOf(bo.Y) == "base.LogAllocator.initialRefCount" {
			okAdd = true
		}
	}
	c.check(okAdd, "C12.R2", nr, "a new record holds one reference per output", nr.Pos(), "_refCount += initialRefCount", "NewRecord does not add the number of outputs to the reference count")
	nl := c.P.Fn(aNewLoaderCF)
	okCnt := false
	for _, s := range c.callsTo(nl, anchorPred("base.NewLogAllocator")) {
		if cl, ok := strip(s.Common().Args[1]).(*ssa.Call); ok && isBuiltin(cl, "len") && strings.HasSuffix(canonOf(cl.Call.Args[0]), "OutputBuffersPairs") {
			okCnt = true
		}
	}
	c.check(okCnt, "C12.R2", nl, "reference count = number of outputs", nl.Pos(), "NewLogAllocator(schema, len(config.OutputBuffersPairs))", "the allocator's reference count is not the number of configured outputs")
	// no use after the release that ends the record's life
	type site struct {
		fn      string
		release FnPred
	}
	n := 0
	for _, s := range []site{{aParse, anchorPred(aOnMalformed)}, {aCompParse, anchorPred(aRelease)}, {aOnInputW, anchorPred(aRelease)}} {
		fn := c.P.Fn(s.fn)
		for _, r := range c.callsTo(fn, s.release) {
			recV := r.Common().Args[1]
			// in onInput only the DROP-branch release ends the life (the per-output release keeps other references)
			if s.fn == aOnInputW {
				rt := c.callsTo(fn, anchorPred(aRunTransf))
				isDrop := false
				if len(rt) == 1 {
					for b, si := range dropEdges(rt[0].Value(), true) {
						if c.onlyViaEdge(fn, r, b, si) {
							isDrop = true
						}
					}
				}
				if !isDrop {
					continue
				}
			}
			n++
			lp := loopOf(fn, r.Block())
			q := &PathQ{P: c.P, Barrier: func(in ssa.Instruction) bool { return lp != nil && in == lp.header.Instrs[0] }}
			hit, _ := q.Reach(after(r), func(in ssa.Instruction) bool {
				if _, isDbg := in.(*ssa.DebugRef); isDbg {
					return false
				}
				if ret, isRet := in.(*ssa.Return); isRet {
					for _, x := range ret.Results {
						if strip(x) == strip(recV) {
							return true
						}
					}
					return false
				}
				var ops []*ssa.Value
				for _, op := range in.Operands(ops) {
					if op != nil && *op != nil && strip(*op) == strip(recV) {
						return true
					}
				}
				return false
			})
			pos := r.Pos()
			why := ""
			if hit != nil {
				why = "the record is used at " + c.P.pos(hit.Pos()) + " after the release that may have returned it to the pool"
			}
			c.check(hit == nil, "C12.R2", fn, "no use of the record after its final release", pos, "nothing touches the record between the release and the return / next iteration", why)
		}
	}
	c.floor("C12.R2", "final-release sites", n, 5)
}

// transient-string taint: does v derive from a transient source without passing a deep copy?
func transientTaint(v ssa.Value) (bool, string) {
	return taintWalk(v, taintCfg{
		sanitizer: func(name string) bool {
			switch name {
			case "util.DeepCopyString", "util.DeepCopyStrings", "util.DeepCopyStringFromBytes", "strings.Clone", "fmt.Sprintf", "fmt.Sprint", "strings.Repeat":
				return true // always a new string
			}
			return false
		},
		convertCopies: true,
	})
}

type taintCfg struct {
	sanitizer     func(name string) bool                       // call results that are clean whatever the arguments
	convertCopies bool                                         // string <-> []byte conversions make a copy (true for aliasing, irrelevant for content)
	callersOf     func(fn *ssa.Function) []ssa.CallInstruction // when set: a parameter is tainted if some caller passes a tainted argument
	paramDepth    int
	// sourceFn, when set, replaces the built-in record-backed sources: it decides for a static call whether its result is a
	// source (and names it). mode keys the summary cache of such a configuration.
	sourceFn func(call *ssa.Call, name string) (string, bool)
	mode     string
	// identity: calls whose result has the content of their arguments (copies): analysed as their arguments, not by body.
	// Needed for content questions (is it valid UTF-8?), where a deep copy neither cleans nor taints.
	identity func(name string) bool
	// cutBreaks: a byte-offset re-slice of a string undoes a content sanitizer applied before it (it may split a multi-byte
	// sequence): the slice is tainted whenever its operand derives from a source at all
	cutBreaks bool
}

// taintWalk: does v derive from bytes of a log record (FieldSetExtractor.Extract, LogFieldLocator.Get, StringFromBytes,
// LogRecord.Fields, parameters named temp*) without passing a sanitizer? Elements stored into a slice taint the slice;
// string functions that may return their argument (strings.ToValidUTF8, Trim*, Join of one element, ToLower, Replace …)
// and module functions that return a parameter propagate.
func taintWalk(v ssa.Value, cfg taintCfg) (bool, string) {
	seen := map[ssa.Value]bool{}
	src := ""
	var walk func(v ssa.Value, d int) bool
	elemStores := func(x ssa.Value, d int) bool {
		if x.Referrers() == nil {
			return false
		}
		for _, ref := range *x.Referrers() {
			switch r := ref.(type) {
			case *ssa.IndexAddr:
				for _, r2 := range *r.Referrers() {
					if st, ok := r2.(*ssa.Store); ok && st.Addr == ssa.Value(r) && walk(st.Val, d+1) {
						return true
					}
				}
			case *ssa.Slice:
				// a re-slice shares the elements
				if r.X == x {
					for _, r2 := range *r.Referrers() {
						if ia, ok := r2.(*ssa.IndexAddr); ok {
							for _, r3 := range *ia.Referrers() {
								if st, ok := r3.(*ssa.Store); ok && st.Addr == ssa.Value(ia) && walk(st.Val, d+1) {
									return true
								}
							}
						}
					}
				}
			}
		}
		return false
	}
	walk = func(v ssa.Value, d int) bool {
		if v == nil || seen[v] || d > 40 {
			return false
		}
		seen[v] = true
		switch x := v.(type) {
		case *ssa.Call:
			if bi, ok := x.Common().Value.(*ssa.Builtin); ok {
				if bi.Name() == "append" {
					return walk(x.Common().Args[0], d+1) || walk(x.Common().Args[1], d+1)
				}
				return false
			}
			f := x.Common().StaticCallee()
			if f == nil {
				return false
			}
			n := extName(f)
			if strings.HasPrefix(fnPkgPath(f), modPath) {
				n = anchorName(f)
			}
			if cfg.sanitizer != nil && cfg.sanitizer(n) {
				return false
			}
			if n == "util.StringFromBytes" && reallocatedExclusive(x) {
				return false // the string is the only owner of an array append has just allocated: as good as a copy
			}
			if cfg.identity != nil && cfg.identity(n) {
				for _, a := range x.Common().Args {
					if walk(a, d+1) {
						return true
					}
				}
				return false
			}
			if cfg.sourceFn != nil {
				if s2, ok := cfg.sourceFn(x, n); ok {
					src = s2
					return true
				}
			} else {
				switch n {
				case "base.(*FieldSetExtractor).Extract", "util.StringFromBytes", "base.(LogFieldLocator).Get":
					src = n
					return true
				}
			}
			args := x.Common().Args
			if strings.HasPrefix(n, "strings.") || strings.HasPrefix(n, "bytes.") || strings.HasPrefix(n, "golang.org/x/exp/slices.") || strings.HasPrefix(n, "slices.") {
				// may return (part of) an argument: Trim*, ToValidUTF8, ToLower, Replace, Join of one element, Clone of a slice …
				for _, a := range args {
					if walk(a, d+1) {
						return true
					}
				}
				return false
			}
			if strings.HasPrefix(fnPkgPath(f), modPath) && f.Blocks != nil && d < 30 {
				// a module function: tainted if a tainted argument may flow to its result
				for i, prm := range f.Params {
					if i < len(args) && returnsParam(f, prm, cfg, 0) && walk(args[i], d+1) {
						return true
					}
				}
				// … or if it returns something that is record-backed by itself (NewRecord returns StringFromBytes(backbuf))
				if returnsSource(f, cfg, 0) {
					src = anchorName(f)
					return true
				}
			}
			return false
		case *ssa.Convert:
			if cfg.convertCopies {
				return false // string([]byte) and []byte(string) copy
			}
		case *ssa.Slice:
			if cfg.cutBreaks && isStringType(x.Type()) && (x.Low != nil || x.High != nil) {
				sub := cfg
				sub.sanitizer = nil
				sub.mode = cfg.mode + "+raw"
				if t, s2 := taintWalk(x.X, sub); t {
					src = s2 + ", re-sliced by byte offset after any sanitising"
					return true
				}
				return false
			}
		case *ssa.BinOp:
			if x.Op == token.ADD && !cfg.cutBreaks {
				return false // concatenation allocates
			}
		case *ssa.Parameter:
			if cfg.sourceFn == nil && strings.HasPrefix(x.Name(), "temp") {
				src = "parameter " + x.Name() + " (transient by contract)"
				return true
			}
			if cfg.callersOf != nil && cfg.paramDepth < 4 && (isSeqType(x.Type()) || isStringSlice(x.Type())) {
				fn := x.Parent()
				idx := -1
				for i, q := range fn.Params {
					if q == x {
						idx = i
					}
				}
				sub := cfg
				sub.paramDepth++
				for _, site := range cfg.callersOf(fn) {
					args := site.Common().Args
					if site.Common().IsInvoke() {
						// receiver is not among Args for invokes: parameters are shifted by one
						if idx-1 >= 0 && idx-1 < len(args) {
							if t, s2 := taintWalk(args[idx-1], sub); t {
								src = s2 + " via " + anchorName(site.Parent())
								return true
							}
						}
						continue
					}
					if idx >= 0 && idx < len(args) {
						if t, s2 := taintWalk(args[idx], sub); t {
							src = s2 + " via " + anchorName(site.Parent())
							return true
						}
					}
				}
			}
			return false
		case *ssa.MakeSlice:
			return elemStores(x, d)
		case *ssa.UnOp:
			if fa, ok := strip(x.X).(*ssa.FieldAddr); ok && cfg.sourceFn == nil && fieldName(fa.X.Type(), fa.Field) == "base.LogRecord.Fields" {
				src = "LogRecord.Fields"
				return true
			}
		case *ssa.Alloc:
			for _, ref := range *x.Referrers() {
				if st, ok := ref.(*ssa.Store); ok && st.Addr == x && walk(st.Val, d+1) {
					return true
				}
			}
			return elemStores(x, d)
		}
		in, ok := v.(ssa.Instruction)
		if !ok {
			return false
		}
		if elemStores(v, d) {
			return true
		}
		var ops []*ssa.Value
		for _, op := range in.Operands(ops) {
			if op != nil && *op != nil && walk(*op, d+1) {
				return true
			}
		}
		return false
	}
	return walk(v, 0), src
}

type retSrcKey struct {
	f    *ssa.Function
	mode string
}

var returnsSourceCache = map[retSrcKey]int{} // 0 unknown, 1 yes, 2 no, 3 in progress

// returnsSource: some string / byte-slice result of f derives from a record-backed source inside f
func returnsSource(f *ssa.Function, cfg taintCfg, depth int) bool {
	key := retSrcKey{f, cfg.mode}
	switch returnsSourceCache[key] {
	case 1:
		return true
	case 2, 3:
		return false
	}
	if depth > 4 {
		return false
	}
	returnsSourceCache[key] = 3
	found := false
	eachInstr(f, func(in ssa.Instruction) {
		r, ok := in.(*ssa.Return)
		if !ok || found {
			return
		}
		for _, res := range r.Results {
			if !(isSeqType(res.Type()) || isStringSlice(res.Type())) {
				continue
			}
			if t, _ := taintWalk(res, cfg); t {
				// parameters named temp* are the caller's business (handled by returnsParam)
				found = true
			}
		}
	})
	if found {
		returnsSourceCache[key] = 1
	} else {
		returnsSourceCache[key] = 2
	}
	return found
}

// returnsParam: may (part of) parameter prm flow to a result of f ?
func returnsParam(f *ssa.Function, prm *ssa.Parameter, cfg taintCfg, depth int) bool {
	if depth > 3 || !(isSeqType(prm.Type()) || isStringSlice(prm.Type())) {
		return false
	}
	found := false
	eachInstr(f, func(in ssa.Instruction) {
		r, ok := in.(*ssa.Return)
		if !ok || found {
			return
		}
		for _, res := range r.Results {
			type vk struct {
				v   ssa.Value
				raw bool
			}
			seen := map[vk]bool{}
			raw := false // set once a byte-offset cut was passed (cutBreaks): sanitizers before the cut no longer count
			var w func(v ssa.Value, d int) bool
			w = func(v ssa.Value, d int) bool {
				if v == nil || seen[vk{v, raw}] || d > 25 {
					return false
				}
				seen[vk{v, raw}] = true
				if v == ssa.Value(prm) {
					return true
				}
				switch x := v.(type) {
				case *ssa.Slice:
					if cfg.cutBreaks && isStringType(x.Type()) && (x.Low != nil || x.High != nil) && !raw {
						raw = true
						r := w(x.X, d+1)
						raw = false
						return r
					}
				case *ssa.Call:
					if bi, ok := x.Common().Value.(*ssa.Builtin); ok && bi.Name() != "append" {
						return false
					}
					if g := x.Common().StaticCallee(); g != nil {
						n := extName(g)
						if strings.HasPrefix(fnPkgPath(g), modPath) {
							n = anchorName(g)
						}
						if cfg.sanitizer != nil && cfg.sanitizer(n) && !raw {
							return false
						}
					}
				case *ssa.Convert:
					if cfg.convertCopies {
						return false
					}
				case *ssa.BinOp:
					return false
				case *ssa.MakeSlice, *ssa.Alloc:
					// elements stored
					if v.Referrers() != nil {
						for _, ref := range *v.Referrers() {
							if ia, ok := ref.(*ssa.IndexAddr); ok {
								for _, r2 := range *ia.Referrers() {
									if st, ok := r2.(*ssa.Store); ok && w(st.Val, d+1) {
										return true
									}
								}
							}
							if st, ok := ref.(*ssa.Store); ok && st.Addr == v && w(st.Val, d+1) {
								return true
							}
						}
					}
					return false
				}
				if i2, ok := v.(ssa.Instruction); ok {
					var ops []*ssa.Value
					for _, op := range i2.Operands(ops) {
						if op != nil && *op != nil && w(*op, d+1) {
							return true
						}
					}
				}
				return false
			}
			if w(res, 0) {
				found = true
			}
		}
	})
	return found
}

func ruleC12R3(c *Ctx) {
	n := 0
	for _, a := range []string{aGetOrCreate, aSelectKeySet, aNewPipeline} {
		for _, fn := range c.P.Fns(a) {
			eachInstr(fn, func(in ssa.Instruction) {
				switch x := in.(type) {
				case *ssa.MapUpdate:
					n++
					t, src := transientTaint(x.Key)
					c.check(!t, "C12.R3", fn, "map key stored is a permanent copy", x.Pos(), "the key does not derive from a transient string (or passes a deep copy)", "a transient string ("+src+") is stored as a map key: the record's buffer is recycled and the key changes under the map")
				case ssa.CallInstruction:
					cc := x.Common()
					name := ""
					if cc.IsInvoke() {
						name = cc.Method.Name()
					} else if f := cc.StaticCallee(); f != nil {
						name = fnBaseName(f)
					} else {
						name = fieldOf(cc.Value)
					}
					long := false
					switch {
					case name == "WithLabelValues" || name == "AddOrGetPrefix" || name == "getOrCreate":
						long = true
					case strings.HasSuffix(name, ".createObject") || strings.HasSuffix(name, ".startPipeline") || strings.HasSuffix(name, ".wrapObject"):
						long = true
					case name == "Build" && anchorName(fn) == aNewPipeline:
						long = false // returns a copy (R4)
					}
					if !long {
						return
					}
					for _, a := range cc.Args {
						if _, isStr := a.Type().Underlying().(*types.Basic); !isStr {
							if sl, isSl := a.Type().Underlying().(*types.Slice); !isSl || sl.Elem().String() != "string" {
								continue
							}
						}
						n++
						t, src := transientTaint(a)
						c.check(!t, "C12.R3", fn, "argument of long-lived "+name+" is a permanent copy", x.Pos(), "no transient string reaches it", "a transient string ("+src+") is handed to "+name+", which keeps it beyond the record's life")
					}
				}
			})
		}
	}
	c.floor("C12.R3", "long-lived sinks checked", n, 8)
	// the contract of the global constructor: keys are the permanent copy
	for _, fn := range c.P.Fns(aGetOrCreate) {
		ok := false
		for _, s := range callsIn(fn) {
			if f := s.Common().StaticCallee(); f != nil && fnBaseName(f) == "getOrCreate" {
				if cl, isC := strip(s.Common().Args[1]).(*ssa.Call); isC && cl.Common().StaticCallee() != nil && isAnchor(cl.Common().StaticCallee(), "util.DeepCopyStrings") {
					ok = true
				}
			}
		}
		c.check(ok, "C12.R3", fn, "pipelines are created from DeepCopyStrings(tempKeys)", fn.Pos(), "getOrCreate(permanentKeys, …)", "the pipeline constructor receives the transient key slice")
	}
}

func ruleC12R4(c *Ctx) {
	// template expansion never returns a string backed by the scratch buffer
	for _, a := range []string{"util/stringtemplate.(Expander).RunWithBuffer", "util/stringtemplate.(Expander).Run"} {
		fn := c.P.Fn(a)
		ok := true
		for _, rv := range returnedValues(fn, 0) {
			if mentions(rv.Val, func(v ssa.Value) bool {
				cl, isC := v.(*ssa.Call)
				return isC && cl.Common().StaticCallee() != nil && isAnchor(cl.Common().StaticCallee(), "util.StringFromBytes") && !reallocatedExclusive(cl)
			}) {
				ok = false
			}
			// multi-part results are deep copies
			if cl, isC := strip(rv.Val).(*ssa.Call); isC && cl.Common().StaticCallee() != nil {
				if isAnchor(cl.Common().StaticCallee(), "util.DeepCopyStringFromBytes") {
					continue
				}
			}
		}
		c.check(ok, "C12.R4", fn, "expanded template is not backed by the scratch buffer", fn.Pos(), "no result derives from StringFromBytes(buffer)", "the expanded value aliases the reusable buffer: the next record's expansion overwrites this record's field")
	}
	// serialized streams are consumed, not retained, by chunk makers
	for _, pkg := range []string{"output/fluentdforward", "output/datadog"} {
		fn := c.P.Fn(pkg + ".(*intermediateChunk).Write")
		data := fn.Params[1]
		kept := false
		var where ssa.Instruction
		eachInstr(fn, func(in ssa.Instruction) {
			uses := func(v ssa.Value) bool {
				return v != nil && mentions(v, func(x ssa.Value) bool { return x == ssa.Value(data) })
			}
			switch x := in.(type) {
			case *ssa.Store:
				if uses(x.Val) {
					if _, isLen := strip(x.Val).(*ssa.BinOp); !isLen { // numBytes += len(data)
						kept, where = true, in
					}
				}
			case *ssa.MapUpdate:
				if uses(x.Value) || uses(x.Key) {
					kept, where = true, in
				}
			case *ssa.Send:
				if uses(x.X) {
					kept, where = true, in
				}
			case *ssa.MakeClosure:
				for _, b := range x.Bindings {
					if uses(b) {
						kept, where = true, in
					}
				}
			case *ssa.Go:
				kept, where = true, in
			}
		})
		pos := fn.Pos()
		if where != nil {
			pos = where.Pos()
		}
		c.check(!kept, "C12.R4", fn, "the serialized stream is not retained", pos, "data is only written (copied) and measured", "the chunk keeps a reference to the serializer's reused buffer")
	}
	ws := c.P.Fn(aWriteStream)
	keptW := false
	eachInstr(ws, func(in ssa.Instruction) {
		if st, ok := in.(*ssa.Store); ok {
			v := strip(st.Val)
			if sl, isSl := v.(*ssa.Slice); isSl {
				v = strip(sl.X)
			}
			if v == ssa.Value(ws.Params[1]) {
				keptW = true
			}
		}
	})
	c.check(!keptW, "C12.R4", ws, "the packer does not retain the stream", ws.Pos(), "not stored", "the packer stores the stream slice, which aliases the serializer's reused buffer")
}

// R5 = C10.R4: nothing reachable from serialization / rewriting writes a LogRecord
func ruleC12R5(c *Ctx) {
	var rootsF []*ssa.Function
	for _, fn := range c.P.universe {
		if fn.Signature.Recv() == nil {
			continue
		}
		switch fn.Name() {
		case "SerializeRecord", "MaxFieldLength", "WriteFieldBody":
			rootsF = append(rootsF, fn)
		}
	}
	c.floor("C10.R4", "serializer / rewriter entry points", len(rootsF), 8)
	reach := c.P.reachableFrom(rootsF, func(f *ssa.Function) bool { return !c.P.inUni[f] })
	n := 0
	for f := range reach {
		if !c.P.inUni[f] {
			continue
		}
		n++
		c.seen(f)
		eachInstr(f, func(in ssa.Instruction) {
			st, ok := in.(*ssa.Store)
			if !ok {
				return
			}
			fld := fieldOf(st.Addr)
			isRec := strings.HasPrefix(fld, "base.LogRecord.")
			if ia, ok := strip(st.Addr).(*ssa.IndexAddr); ok && fieldOf(ia.X) == "base.LogRecord.Fields" {
				isRec, fld = true, "base.LogRecord.Fields[i]"
			}
			if isRec {
				c.bad("C10.R4", f, "store to "+fld+" during serialization", st.Pos(), "serialization/rewriting modifies the record: it is serialized once per output, so the second output sees a different record; reached via "+chainTo(reach, f))
			}
		})
	}
	c.ok("C10.R4", rootsF[0], "serialization is read-only on records", rootsF[0].Pos(), fmt.Sprintf("%d universe functions reachable from %d serializer/rewriter entry points were scanned for stores into LogRecord", n, len(rootsF)))
}

var _ = constant.MakeBool

// C12.R6: no record-backed (transient) string is stored into an object that outlives the record: a field of a
// parameter / receiver / loaded object other than the record itself, a map held by such an object, or a global.
// Sources and sanitizers as in R3. Universe-wide over the functions that run per record.
func init() {
	register("C12", "C12.R6", ruleC12R6)
	// a parser / transform that keeps a view of a recycled buffer parses later lines against stale bytes:
	// the same rule is a necessary condition of faithful header parsing (C09) and of exact timestamps (C13)
	register("C09", "C12.R6", ruleC12R6)
	register("C13", "C12.R6", ruleC12R6)
	register("C10", "C12.R6", ruleC12R6) // the serializer keeps nothing of a record (a cached block keyed by record strings decodes to another record's fields)
}

var c12R6Reviewed = map[string]string{
	"base.(*FieldSetExtractor).Extract|element of field base.FieldSetExtractor.fieldSetBuffer of parameter ex": "the extractor's scratch slice is transient by contract: Extract overwrites every element on each call and hands the slice out as a transient value — it is itself a taint source of this rule family (FieldSetExtractor.Extract), so whoever keeps an element is reported there",
}

func ruleC12R6(c *Ctx) {
	_, fns := c.runtimeSet()
	nSinks := 0
	callIdx := map[*ssa.Function][]ssa.CallInstruction{}
	for _, fn := range c.P.universe {
		for _, site := range callsIn(fn) {
			for _, cal := range c.P.callees(site) {
				callIdx[cal] = append(callIdx[cal], site)
			}
		}
	}
	cfg := taintCfg{
		sanitizer: func(name string) bool {
			switch name {
			case "util.DeepCopyString", "util.DeepCopyStrings", "util.DeepCopyStringFromBytes", "strings.Clone", "fmt.Sprintf", "fmt.Sprint", "strings.Repeat":
				return true
			}
			return false
		},
		convertCopies: true,
		callersOf:     func(fn *ssa.Function) []ssa.CallInstruction { return callIdx[fn] },
	}
	taint := func(v ssa.Value) (bool, string) { return taintWalk(v, cfg) }
	longLived := func(base ssa.Value) (bool, string) {
		b := resolve(base)
		for i := 0; i < 6; i++ {
			switch x := b.(type) {
			case *ssa.Parameter:
				return true, "parameter " + x.Name()
			case *ssa.Global:
				return true, "global " + x.Name()
			case *ssa.FreeVar:
				return true, "captured " + x.Name()
			case *ssa.FieldAddr:
				b = resolve(x.X)
				continue
			case *ssa.UnOp:
				b = resolve(x.X)
				continue
			case *ssa.IndexAddr:
				b = resolve(x.X)
				continue
			}
			break
		}
		return false, ""
	}
	strLike := func(v ssa.Value) bool {
		return isStringType(v.Type()) || isStringSlice(v.Type())
	}
	for _, fn := range fns {
		eachInstr(fn, func(in ssa.Instruction) {
			var val ssa.Value
			where := ""
			switch x := in.(type) {
			case *ssa.Store:
				if !strLike(x.Val) {
					return
				}
				switch a := strip(x.Addr).(type) {
				case *ssa.FieldAddr:
					if typeName(a.X.Type()) == "base.LogRecord" {
						return // the record's own fields live as long as the record
					}
					if ok, w := longLived(a.X); ok {
						val, where = x.Val, "field "+fieldName(a.X.Type(), a.Field)+" of "+w
					}
				case *ssa.Global:
					val, where = x.Val, "global "+a.Name()
				case *ssa.IndexAddr:
					// an element of a slice / array held in a field of a long-lived object
					if u, ok := strip(a.X).(*ssa.UnOp); ok && u.Op == token.MUL {
						if fa, ok := strip(u.X).(*ssa.FieldAddr); ok && typeName(fa.X.Type()) != "base.LogRecord" {
							if ok, w := longLived(fa.X); ok {
								val, where = x.Val, "element of field "+fieldName(fa.X.Type(), fa.Field)+" of "+w
							}
						}
					}
				}
			case *ssa.MapUpdate:
				if ok, w := longLived(x.Map); ok {
					if strLike(x.Key) {
						nSinks++
						if t, src := taint(x.Key); t {
							reportR6(c, fn, in, "map key in "+canonOf(x.Map)+" ("+w+")", src)
						}
					}
					if strLike(x.Value) {
						val, where = x.Value, "map value in "+canonOf(x.Map)+" ("+w+")"
					}
				}
			}
			if val == nil {
				return
			}
			nSinks++
			if t, src := taint(val); t {
				reportR6(c, fn, in, where, src)
			}
		})
	}
	c.floor("C12.R6", "stores of strings into long-lived objects in per-record code", nSinks, 3)
	c.ok("C12.R6", nil, "transient strings do not reach long-lived fields, maps or globals", 0, fmt.Sprintf("%d string stores into long-lived objects examined in %d per-record functions", nSinks, len(fns)))
}

func reportR6(c *Ctx, fn *ssa.Function, in ssa.Instruction, where, src string) {
	key := anchorName(fn) + "|" + where
	if reason, ok := lookupReviewed(c12R6Reviewed, key); ok {
		c.assumed("C12.R6", fn, "transient string stored into "+where, in.Pos(), "reviewed: "+reason)
		return
	}
	if os.Getenv("SLOGCHECK_F6KEYS") != "" {
		fmt.Printf("R6KEY %q: \"\",\n", key)
	}
	c.bad("C12.R6", fn, "transient string stored into "+where, in.Pos(),
		"a string backed by the record's (pooled, recycled) buffer ("+src+") is kept in an object that outlives the record: after the buffer is reused the stored string silently changes")
}

// C12.R7: no record field aliases a long-lived scratch buffer. Every value stored into LogRecord.Fields (through
// LogFieldLocator.Set or an indexed store) is walked backwards; if it can derive from StringFromBytes(b) where b is
// (a slice of) a byte buffer held in a field of a long-lived object or in a global, the field of this record changes
// when the buffer is reused for the next record. Buffers of the record itself (its pooled backing buffer, in-place
// rewrites of its own field bytes) and fresh allocations are fine.
func init() {
	register("C12", "C12.R7", ruleC12R7)
}

// longLivedBytes: does the byte slice b (possibly re-sliced, appended to, passed through module functions that return
// a parameter) come from a field of a non-record object owned by a parameter / captured variable / global?
func longLivedBytes(b ssa.Value, cfg taintCfg) (string, bool) {
	return longLivedBytesD(b, cfg, 0)
}

func longLivedBytesD(b ssa.Value, cfg taintCfg, pdepth int) (string, bool) {
	seen := map[ssa.Value]bool{}
	var walk func(v ssa.Value, d int) (string, bool)
	walk = func(v ssa.Value, d int) (string, bool) {
		if v == nil || seen[v] || d > 30 {
			return "", false
		}
		seen[v] = true
		switch x := v.(type) {
		case *ssa.Slice:
			return walk(x.X, d+1)
		case *ssa.Phi:
			for _, e := range x.Edges {
				if s, ok := walk(e, d+1); ok {
					return s, true
				}
			}
		case *ssa.Convert:
			return walk(x.X, d+1)
		case *ssa.ChangeType:
			return walk(x.X, d+1)
		case *ssa.Extract:
			return walk(x.Tuple, d+1)
		case *ssa.Call:
			if bi, ok := x.Common().Value.(*ssa.Builtin); ok {
				if bi.Name() == "append" {
					return walk(x.Common().Args[0], d+1)
				}
				return "", false
			}
			f := x.Common().StaticCallee()
			if f == nil || f.Blocks == nil || !strings.HasPrefix(fnPkgPath(f), modPath) {
				return "", false
			}
			for i, prm := range f.Params {
				if i < len(x.Common().Args) && resultAliasesParam(f, prm, 0) {
					if s, ok := walk(x.Common().Args[i], d+1); ok {
						return s, true
					}
				}
			}
			// a module function handing out its own long-lived buffer
			if d < 6 {
				for _, rv := range returnedValues(f, 0) {
					if isSeqType(rv.Val.Type()) {
						if s, ok := walk(rv.Val, d+10); ok {
							return s, true
						}
					}
				}
			}
		case *ssa.Parameter:
			// a buffer parameter: long-lived if some caller passes a long-lived buffer
			if cfg.callersOf == nil || pdepth >= 3 {
				return "", false
			}
			fn := x.Parent()
			idx := -1
			for i, q := range fn.Params {
				if q == x {
					idx = i
				}
			}
			for _, site := range cfg.callersOf(fn) {
				args := site.Common().Args
				ai := idx - (len(fn.Params) - len(args))
				if ai >= 0 && ai < len(args) {
					if s, ok := longLivedBytesD(args[ai], cfg, pdepth+1); ok {
						return s + " (passed by " + anchorName(site.Parent()) + ")", true
					}
				}
			}
		case *ssa.Global:
			return "global " + x.Name(), true
		case *ssa.Alloc:
			for _, ref := range *x.Referrers() {
				if st, ok := ref.(*ssa.Store); ok && st.Addr == ssa.Value(x) {
					if s, ok := walk(st.Val, d+1); ok {
						return s, true
					}
				}
			}
		case *ssa.UnOp:
			if x.Op != token.MUL {
				return "", false
			}
			switch a := x.X.(type) {
			case *ssa.FieldAddr:
				if typeName(a.X.Type()) == "base.LogRecord" {
					return "", false
				}
				o := resolve(a.X)
				for i := 0; i < 6; i++ {
					switch y := o.(type) {
					case *ssa.Parameter, *ssa.FreeVar, *ssa.Global:
						return "field " + fieldName(a.X.Type(), a.Field), true
					case *ssa.FieldAddr:
						o = resolve(y.X)
						continue
					case *ssa.UnOp:
						o = resolve(y.X)
						continue
					}
					break
				}
			case *ssa.Global:
				return "global " + a.Name(), true
			default:
				return walk(x.X, d+1)
			}
		}
		return "", false
	}
	return walk(b, 0)
}

// resultAliasesParam: some result of f is the byte slice / string parameter prm itself, re-sliced, appended to, or passed
// through another module function of that kind (memory identity, not content dependence)
func resultAliasesParam(f *ssa.Function, prm *ssa.Parameter, depth int) bool {
	if depth > 3 || !isSeqType(prm.Type()) {
		return false
	}
	seen := map[ssa.Value]bool{}
	var w func(v ssa.Value, d int) bool
	w = func(v ssa.Value, d int) bool {
		if v == nil || seen[v] || d > 25 {
			return false
		}
		seen[v] = true
		if v == ssa.Value(prm) {
			return true
		}
		switch x := v.(type) {
		case *ssa.Slice:
			return w(x.X, d+1)
		case *ssa.Phi:
			for _, e := range x.Edges {
				if w(e, d+1) {
					return true
				}
			}
		case *ssa.ChangeType:
			return w(x.X, d+1)
		case *ssa.Extract:
			return w(x.Tuple, d+1)
		case *ssa.Alloc:
			for _, ref := range *x.Referrers() {
				if st, ok := ref.(*ssa.Store); ok && st.Addr == ssa.Value(x) && w(st.Val, d+1) {
					return true
				}
			}
		case *ssa.UnOp:
			if _, ok := x.X.(*ssa.Alloc); ok && x.Op == token.MUL {
				return w(x.X, d+1)
			}
		case *ssa.Call:
			if bi, ok := x.Common().Value.(*ssa.Builtin); ok {
				return bi.Name() == "append" && w(x.Common().Args[0], d+1)
			}
			g := x.Common().StaticCallee()
			if g == nil || g.Blocks == nil {
				// unsafe string<->bytes helpers of the module are static; anything else does not alias
				return false
			}
			if strings.HasPrefix(fnPkgPath(g), modPath) {
				for i, q := range g.Params {
					if i < len(x.Common().Args) && resultAliasesParam(g, q, depth+1) && w(x.Common().Args[i], d+1) {
						return true
					}
				}
			}
		}
		return false
	}
	found := false
	eachInstr(f, func(in ssa.Instruction) {
		if r, ok := in.(*ssa.Return); ok && !found {
			for _, res := range r.Results {
				if w(res, 0) {
					found = true
				}
			}
		}
	})
	return found
}

func ruleC12R7(c *Ctx) {
	_, fns := c.runtimeSet()
	callIdx := map[*ssa.Function][]ssa.CallInstruction{}
	for _, fn := range c.P.universe {
		for _, site := range callsIn(fn) {
			for _, cal := range c.P.callees(site) {
				callIdx[cal] = append(callIdx[cal], site)
			}
		}
	}
	cfg := taintCfg{
		mode:          "scratch",
		convertCopies: true,
		callersOf:     func(fn *ssa.Function) []ssa.CallInstruction { return callIdx[fn] },
		sanitizer: func(name string) bool {
			switch name {
			case "util.DeepCopyString", "util.DeepCopyStrings", "util.DeepCopyStringFromBytes", "strings.Clone", "fmt.Sprintf", "fmt.Sprint", "strings.Repeat":
				return true
			}
			return false
		},
	}
	cfg.sourceFn = func(call *ssa.Call, name string) (string, bool) {
		if name != "util.StringFromBytes" || len(call.Common().Args) != 1 {
			return "", false
		}
		if s, ok := longLivedBytes(call.Common().Args[0], cfg); ok {
			return "StringFromBytes of " + s, true
		}
		return "", false
	}
	nSinks := 0
	check := func(fn *ssa.Function, in ssa.Instruction, v ssa.Value) {
		nSinks++
		if t, src := taintWalk(v, cfg); t {
			c.bad("C12.R7", fn, "record field aliases a long-lived buffer", in.Pos(),
				"the value stored into the record ("+src+") is backed by a buffer that outlives the record and is reused: the field of this record changes when the next record is processed (records of one batch are alive together in the input stage)")
		}
	}
	for _, fn := range fns {
		eachInstr(fn, func(in ssa.Instruction) {
			switch x := in.(type) {
			case ssa.CallInstruction:
				if f := x.Common().StaticCallee(); f != nil && isAnchor(f, aLocSet) && len(x.Common().Args) == 3 {
					check(fn, in, x.Common().Args[2])
				}
			case *ssa.Store:
				if ia, ok := strip(x.Addr).(*ssa.IndexAddr); ok && isStringType(x.Val.Type()) {
					if fieldOf(ia.X) == "base.LogRecord.Fields" || typeName(ia.X.Type()) == "base.LogFields" {
						check(fn, in, x.Val)
					}
				}
			}
		})
	}
	// the rule recognises aliasing conversions by the module's helper: no other file may reach for package unsafe
	nUnsafe := 0
	runtimePkgs := map[string]bool{}
	for _, fn := range fns {
		runtimePkgs[relPkg(fnPkgPath(fn))] = true
	}
	for rel, pkg := range c.P.pkgByRel {
		if !runtimePkgs[rel] {
			continue // packages with no per-record code (configuration loading, vendored YAML internals)
		}
		for _, file := range pkg.Syntax {
			for _, imp := range file.Imports {
				if imp.Path.Value != "\"unsafe\"" {
					continue
				}
				nUnsafe++
				fname := c.P.fset.Position(file.Pos()).Filename
				ok := rel == "util" && strings.HasSuffix(fname, "/util/strings.go")
				if !ok {
					c.add("violated", "C12.R7", rel, "package unsafe is imported only by util/strings.go", imp.Pos(),
						"this file imports unsafe: a string/byte-slice alias made here is invisible to the aliasing rules (C12.R3/R6/R7), which key on util.StringFromBytes / util.BytesFromString", true)
				}
			}
		}
	}
	c.floor("C12.R7", "files importing unsafe", nUnsafe, 1)
	c.floor("C12.R7", "stores into record fields in per-record code", nSinks, 8)
	c.ok("C12.R7", nil, "no record field aliases a long-lived scratch buffer", 0, fmt.Sprintf("%d stores into record fields examined in %d per-record functions", nSinks, len(fns)))
}

// C15.R7: the value matchers are the primitives their tags name. What a matcher matches is value-level and not decided by
// this family; the claim "matchers behave as documented" therefore rests on each tag being *delegated* to the one
// primitive its documentation names — a Go operator on (value, operand) or a standard / library function applied to them.
// The rule checks that delegation per tag of bmatch.valueMatcherConstructors: on the success path of the constructor the
// match function is a closure whose every return is exactly that primitive of its parameter and the constructor's
// operand, or the bound library method of the value compiled from the operand. Anything else — a fast path, a cache,
// a pre-filter — is UNDECIDED here, and undecided fails, also when the deviation happens to be correct.
func init() {
	register("C15", "C15.R7", ruleC15R7)
}

type matcherSpec struct {
	kind string // binop | call | bound
	op   token.Token
	fn   string // call: external function; bound: method
	ctor string // bound: the compile function applied to the operand
	lenV bool   // binop over len(v) and the converted operand
}

var matcherTable = map[string]matcherSpec{
	"!!str":         {kind: "binop", op: token.EQL},
	"!!str-eq":      {kind: "binop", op: token.EQL},
	"!!str-not":     {kind: "binop", op: token.NEQ},
	"!!str-any":     {kind: "binop", op: token.GTR, lenV: true},
	"!!str-start":   {kind: "call", fn: "strings.HasPrefix"},
	"!!str-end":     {kind: "call", fn: "strings.HasSuffix"},
	"!!str-contain": {kind: "call", fn: "strings.Contains"},
	"!!glob":        {kind: "bound", fn: "Match", ctor: "github.com/gobwas/glob.Compile"},
	"!!regex":       {kind: "bound", fn: "(*regexp.Regexp).MatchString", ctor: "regexp.Compile"},
	"!!len-gt":      {kind: "binop", op: token.GTR, lenV: true},
	"!!len-lt":      {kind: "binop", op: token.LSS, lenV: true},
}

func ruleC15R7(c *Ctx) {
	// the constructor of each tag, from the initializer of the table
	ctors := map[string]*ssa.Function{}
	var inits []*ssa.Function
	if sp := c.P.prog.Package(c.P.pkgByRel["base/bmatch"].Types); sp != nil {
		if f := sp.Func("init"); f != nil {
			inits = append(inits, f)
		}
	}
	for _, fn := range inits {
		eachInstr(fn, func(in ssa.Instruction) {
			mu, ok := in.(*ssa.MapUpdate)
			if !ok {
				return
			}
			k, ok := mu.Key.(*ssa.Const)
			if !ok || k.Value == nil || k.Value.Kind() != constant.String {
				return
			}
			var f *ssa.Function
			switch v := strip(mu.Value).(type) {
			case *ssa.Function:
				f = v
			case *ssa.MakeClosure:
				f, _ = v.Fn.(*ssa.Function)
			}
			if f != nil && strings.HasPrefix(f.Name(), "createValueMatcher") {
				ctors[constant.StringVal(k.Value)] = f
			}
		})
	}
	c.floor("C15.R7", "value-matcher tags", len(ctors), 8)
	var tags []string
	for t := range ctors {
		tags = append(tags, t)
	}
	sort.Strings(tags)
	for _, tag := range tags {
		ctor := ctors[tag]
		spec, known := matcherTable[tag]
		construct := "matcher " + tag + " is the primitive its tag names"
		if !known {
			c.bad("C15.R7", ctor, construct, ctor.Pos(), "UNDECIDED: a value-matcher tag this analysis has no documented primitive for")
			continue
		}
		operand := ssa.Value(ctor.Params[0])
		// the match function stored on the success path
		var matchVals []ssa.Value
		for _, st := range storesToField(ctor, "base/bmatch.valueMatch.match") {
			matchVals = append(matchVals, st.Val)
		}
		if len(matchVals) != 1 {
			c.bad("C15.R7", ctor, construct, ctor.Pos(), fmt.Sprintf("UNDECIDED: %d stores of the match function (one expected)", len(matchVals)))
			continue
		}
		var mc *ssa.MakeClosure
		var mf *ssa.Function
		switch x := strip(matchVals[0]).(type) {
		case *ssa.MakeClosure:
			mc = x
			mf = x.Fn.(*ssa.Function)
		case *ssa.Function:
			mf = x // a literal that captures nothing
			mc = &ssa.MakeClosure{Fn: x}
		default:
			c.bad("C15.R7", ctor, construct, matchVals[0].Pos(), "UNDECIDED: the match function is not a function literal / bound method built here")
			continue
		}
		// binding of a free variable of the closure to a constructor value
		bound := func(v ssa.Value) ssa.Value {
			v = strip(v)
			if u, ok := v.(*ssa.UnOp); ok && u.Op == token.MUL {
				v = u.X
			}
			fv, ok := v.(*ssa.FreeVar)
			if !ok {
				return nil
			}
			for i, f := range mf.FreeVars {
				if f == fv && i < len(mc.Bindings) {
					b := strip(mc.Bindings[i])
					if al, ok := b.(*ssa.Alloc); ok {
						if sv, ok := singleStore(al); ok {
							return strip(sv)
						}
					}
					return b
				}
			}
			return nil
		}
		isOperand := func(v ssa.Value) bool {
			b := bound(v)
			if b == nil {
				return false
			}
			if b == operand {
				return true
			}
			// the operand converted once at construction (strconv.Atoi(expr))
			if ex, ok := b.(*ssa.Extract); ok && ex.Index == 0 {
				if cl, ok := ex.Tuple.(*ssa.Call); ok && cl.Common().StaticCallee() != nil && extName(cl.Common().StaticCallee()) == "strconv.Atoi" && strip(cl.Common().Args[0]) == operand {
					return true
				}
			}
			return false
		}
		good, why := false, ""
		switch spec.kind {
		case "bound":
			// (*T).Method$bound with the receiver compiled from the operand
			if mf.Synthetic != "" && strings.Contains(mf.Name(), "$bound") && len(mc.Bindings) == 1 {
				okM := strings.HasSuffix(strings.TrimSuffix(mf.Name(), "$bound"), strings.TrimPrefix(spec.fn, "(*regexp.Regexp)."))
				recv := strip(mc.Bindings[0])
				okC := false
				if ex, ok := recv.(*ssa.Extract); ok && ex.Index == 0 {
					if cl, ok := ex.Tuple.(*ssa.Call); ok && cl.Common().StaticCallee() != nil && extName(cl.Common().StaticCallee()) == spec.ctor && strip(cl.Common().Args[0]) == operand {
						okC = true
					}
				}
				good = okM && okC
				if !good {
					why = "the bound method is not " + spec.fn + " of " + spec.ctor + "(operand)"
				}
			} else {
				why = "the match function is not the bound library method (" + spec.fn + ")"
			}
		default:
			if len(mf.Params) != 1 || mf.Synthetic != "" {
				why = "the match function is not a one-parameter function literal"
				break
			}
			v := ssa.Value(mf.Params[0])
			good = true
			nRet := 0
			eachInstr(mf, func(in ssa.Instruction) {
				r, ok := in.(*ssa.Return)
				if !ok || len(r.Results) != 1 {
					return
				}
				nRet++
				res := strip(r.Results[0])
				switch spec.kind {
				case "call":
					cl, ok := res.(*ssa.Call)
					if !ok || cl.Common().StaticCallee() == nil || extName(cl.Common().StaticCallee()) != spec.fn || len(cl.Common().Args) != 2 ||
						strip(cl.Common().Args[0]) != v || !isOperand(cl.Common().Args[1]) {
						good, why = false, "a return is not "+spec.fn+"(value, operand): "+canonOf(res)
					}
				case "binop":
					bo, ok := res.(*ssa.BinOp)
					if !ok || bo.Op != spec.op {
						good, why = false, "a return is not `value "+spec.op.String()+" operand`: "+canonOf(res)
						return
					}
					if spec.lenV {
						lc, ok := strip(bo.X).(*ssa.Call)
						if !ok || !isBuiltin(lc, "len") || strip(lc.Call.Args[0]) != v {
							good, why = false, "the left side is not len(value)"
							return
						}
						if k, isK := constInt(bo.Y); isK {
							if !(tag == "!!str-any" && k == 0) {
								good, why = false, "the right side is a constant"
							}
						} else if !isOperand(bo.Y) {
							good, why = false, "the right side is not the configured number"
						}
					} else if strip(bo.X) != v || !isOperand(bo.Y) {
						good, why = false, "the operands are not (value, operand)"
					}
				}
			})
			if nRet != 1 && good {
				good, why = false, fmt.Sprintf("%d returns (one expected)", nRet)
			}
		}
		c.check(good, "C15.R7", ctor, construct, matchVals[0].Pos(),
			"the match function is exactly the documented primitive applied to (value, operand)",
			"UNDECIDED (counts as failure): "+why+". What a matcher matches is not decided by this analysis; the claim rests on the tag being delegated to the primitive its documentation names, and this constructor no longer does that (a fast path, cache or pre-filter needs a value-level argument this family cannot give)")
	}
}

// R8 (added after seed c15d): whether `extract` applies to a record is decided by the pattern alone. The documented
// behaviour is "match the key field against the pattern; the named captures that took part override the destination
// fields" — also for an empty key field, which a pattern may well match (all-optional groups, `[0-9]*`): the captures
// then clear their destinations. A shortcut that returns before the pattern is consulted (empty value, unset field, a
// length test) replaces the regexp's decision by the module's own and leaves stale values. So in extractTransform.Transform
// every path from the entry passes the pattern's FindStringSubmatchIndex on the key field's value; no guard is tolerated.
func init() {
	register("C15", "C15.R8", ruleC15R8)
}

func ruleC15R8(c *Ctx) {
	fn := c.P.Fn("transform/textract.(*extractTransform).Transform")
	isFind := func(s ssa.CallInstruction) bool {
		f := s.Common().StaticCallee()
		return f != nil && strings.HasPrefix(extName(f), "(*regexp.Regexp).Find") && fieldOf(s.Common().Args[0]) == "transform/textract.extractTransform.pattern"
	}
	sF := siteSumm(c.P, isFind)
	sF.AllowEmptyGuards, sF.LoopsRunOnce = false, false
	c.mustBeforeReturn("C15.R8", fn, entryOf(fn), sF, "every record's key field is matched against the pattern", "(*regexp.Regexp).Find…SubmatchIndex on extractTransform.pattern", fn.Pos(), nil)
	// what is matched is the key field's value
	for _, s := range c.sitesWhereR(fn, isFind) {
		okArg := false
		if len(s.Common().Args) > 1 {
			if cl, ok := resolve(s.Common().Args[1]).(*ssa.Call); ok && cl.Common().StaticCallee() != nil && anchorOrExt(cl.Common().StaticCallee()) == "base.(LogFieldLocator).Get" {
				okArg = fieldOf(cl.Common().Args[0]) == "transform/textract.extractTransform.keyLocator"
			}
		}
		c.check(okArg, "C15.R8", fn, "the pattern is applied to the key field's value", s.Pos(), "pattern.Find…(keyLocator.Get(fields))", "the pattern is not applied to the value of the configured key field as it is")
	}
}

// reallocatedExclusive: call is util.StringFromBytes(v) where v is the result of an append chain begun on some base buffer,
// the call is only reached through the edge "cap(v) > cap(base)" — append has moved the bytes into a new array — and nothing
// else of v's chain leaves the function (no other result derives from it, it is not stored, sent or captured): the string is
// the new array's only owner, which is as good as a copy. With "return StringFromBytes(buf), buf[:0]" the second result
// hands the same array out for reuse and the call stays an alias of a reusable buffer.
func reallocatedExclusive(call *ssa.Call) bool {
	if len(call.Common().Args) != 1 {
		return false
	}
	fn := call.Parent()
	chain := map[ssa.Value]bool{}
	roots := map[ssa.Value]bool{}
	var walk func(v ssa.Value, d int)
	walk = func(v ssa.Value, d int) {
		v = strip(v)
		if d > 12 || chain[v] || roots[v] {
			return
		}
		switch x := v.(type) {
		case *ssa.Phi:
			chain[v] = true
			for _, e := range x.Edges {
				walk(e, d+1)
			}
		case *ssa.Call:
			if isBuiltin(x, "append") {
				chain[v] = true
				walk(x.Call.Args[0], d+1)
				return
			}
			roots[v] = true
		case *ssa.Slice:
			inner := strip(x.X)
			walk(inner, d+1)
			if chain[inner] {
				chain[v] = true
			} else {
				roots[v] = true
			}
		default:
			roots[v] = true
		}
	}
	arg := strip(call.Common().Args[0])
	walk(arg, 0)
	if !chain[arg] {
		return false
	}
	isCapOf := func(v ssa.Value, set map[ssa.Value]bool) bool {
		cl, ok := strip(v).(*ssa.Call)
		return ok && isBuiltin(cl, "cap") && set[strip(cl.Call.Args[0])]
	}
	// dominated by the "capacity grew" edge
	grown := false
	for b := call.Block(); b != nil; b = b.Idom() {
		d := b.Idom()
		if d == nil {
			break
		}
		iff, ok := d.Instrs[len(d.Instrs)-1].(*ssa.If)
		if !ok || len(d.Succs) != 2 {
			continue
		}
		bo, ok := iff.Cond.(*ssa.BinOp)
		if !ok {
			continue
		}
		viaTrue := d.Succs[0] == b && len(b.Preds) == 1
		viaFalse := d.Succs[1] == b && len(b.Preds) == 1
		switch {
		case bo.Op == token.GTR && isCapOf(bo.X, chain) && isCapOf(bo.Y, roots) && viaTrue,
			bo.Op == token.LSS && isCapOf(bo.Y, chain) && isCapOf(bo.X, roots) && viaTrue,
			bo.Op == token.NEQ && (isCapOf(bo.X, chain) && isCapOf(bo.Y, roots) || isCapOf(bo.Y, chain) && isCapOf(bo.X, roots)) && viaTrue,
			bo.Op == token.LEQ && isCapOf(bo.X, chain) && isCapOf(bo.Y, roots) && viaFalse,
			bo.Op == token.EQL && (isCapOf(bo.X, chain) && isCapOf(bo.Y, roots) || isCapOf(bo.Y, chain) && isCapOf(bo.X, roots)) && viaFalse:
			grown = true
		}
	}
	if !grown {
		return false
	}
	// nothing else of the chain leaves the function
	inChain := func(v ssa.Value) bool {
		return v != nil && mentions(v, func(y ssa.Value) bool { return chain[y] && y != ssa.Value(call) })
	}
	escapes := false
	// only what lies on a common path with the call counts: the sibling branch (capacity did not grow) deals with the old array
	reach := func(from *ssa.BasicBlock) map[*ssa.BasicBlock]bool {
		seen := map[*ssa.BasicBlock]bool{}
		var w func(b *ssa.BasicBlock)
		w = func(b *ssa.BasicBlock) {
			if seen[b] {
				return
			}
			seen[b] = true
			for _, sc := range b.Succs {
				w(sc)
			}
		}
		w(from)
		return seen
	}
	after := reach(call.Block())
	onPath := func(b *ssa.BasicBlock) bool { return after[b] || reach(b)[call.Block()] }
	eachInstr(fn, func(in ssa.Instruction) {
		if !onPath(in.Block()) {
			return
		}
		switch x := in.(type) {
		case *ssa.Return:
			for _, r := range x.Results {
				if strip(r) == ssa.Value(call) || mentions(r, func(y ssa.Value) bool { return y == ssa.Value(call) }) {
					continue
				}
				if inChain(r) {
					escapes = true
				}
			}
		case *ssa.Store:
			if inChain(x.Val) {
				escapes = true
			}
		case *ssa.MapUpdate:
			if inChain(x.Value) || inChain(x.Key) {
				escapes = true
			}
		case *ssa.Send:
			if inChain(x.X) {
				escapes = true
			}
		case *ssa.MakeClosure:
			for _, bnd := range x.Bindings {
				if inChain(bnd) {
					escapes = true
				}
			}
		}
	})
	return !escapes
}
