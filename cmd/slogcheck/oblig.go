package main

import (
	"encoding/json"
	"fmt"
	"go/token"
	"os"
	"path/filepath"
	"sort"
	"strings"
	"time"

	"golang.org/x/tools/go/ssa"
)

type Obligation struct {
	ID         string `json:"id"`
	Property   string `json:"property"`
	Rule       string `json:"rule"`
	Function   string `json:"function"`
	Construct  string `json:"construct"`
	Pos        string `json:"pos"`
	Verdict    string `json:"verdict"` // discharged | violated | assumed | known
	Why        string `json:"why"`
	Nontrivial bool   `json:"nontrivial"`
}

type KnownFinding struct {
	Property  string `json:"property"`
	Rule      string `json:"rule"`
	Function  string `json:"function"`
	Construct string `json:"construct"`
	Status    string `json:"status"` // known | fixed
	Commit    string `json:"commit,omitempty"`
	What      string `json:"what"`
}

type Ctx struct {
	P        *Prog
	Prop     string
	Tier     string
	obs      []*Obligation
	byID     map[string]*Obligation
	analysed map[string]int // counters: functions, call sites, paths, ...
	fnsSeen  map[*ssa.Function]bool
	notes    []string
	rulesRun []string

	keyLoopsMemo []keyLoop
}

func newCtx(P *Prog, prop, tier string) *Ctx {
	return &Ctx{P: P, Prop: prop, Tier: tier, byID: map[string]*Obligation{}, analysed: map[string]int{}, fnsSeen: map[*ssa.Function]bool{}}
}

func (c *Ctx) add(verdict, rule, fn, construct string, pos token.Pos, why string, nontrivial bool) *Obligation {
	id := rule + "|" + fn + "|" + construct
	if o, ok := c.byID[id]; ok {
		// same obligation evaluated again (e.g. generic instances): keep the worst verdict
		if verdict == "violated" && o.Verdict != "violated" {
			o.Verdict, o.Why, o.Pos = verdict, why, c.P.pos(pos)
		}
		return o
	}
	o := &Obligation{ID: id, Property: c.Prop, Rule: rule, Function: fn, Construct: construct, Pos: c.P.pos(pos),
		Verdict: verdict, Why: why, Nontrivial: nontrivial}
	c.obs = append(c.obs, o)
	c.byID[id] = o
	return o
}

func (c *Ctx) ok(rule string, fn *ssa.Function, construct string, pos token.Pos, why string) {
	c.seen(fn)
	c.add("discharged", rule, anchorName(fn), construct, pos, why, true)
}

func (c *Ctx) bad(rule string, fn *ssa.Function, construct string, pos token.Pos, why string) {
	c.seen(fn)
	c.add("violated", rule, anchorName(fn), construct, pos, why, true)
}

func (c *Ctx) assumed(rule string, fn *ssa.Function, construct string, pos token.Pos, why string) {
	c.seen(fn)
	c.add("assumed", rule, anchorName(fn), construct, pos, why, false)
}

// check records ok when cond holds, bad otherwise
func (c *Ctx) check(cond bool, rule string, fn *ssa.Function, construct string, pos token.Pos, okWhy, badWhy string) bool {
	if cond {
		c.ok(rule, fn, construct, pos, okWhy)
	} else {
		c.bad(rule, fn, construct, pos, badWhy)
	}
	return cond
}

func (c *Ctx) seen(fns ...*ssa.Function) {
	for _, f := range fns {
		if f != nil && c.P.inUni[f] {
			c.fnsSeen[f] = true
		}
	}
}

func (c *Ctx) count(key string, n int) { c.analysed[key] += n }

func (c *Ctx) note(format string, args ...interface{}) {
	c.notes = append(c.notes, fmt.Sprintf(format, args...))
}

// floor: a rule that matched fewer instances than confirmed by hand is broken
func (c *Ctx) floor(rule, what string, got, min int) {
	if got < min {
		broken("%s: %s matched %d instance(s), fewer than the confirmed floor %d — the rule no longer sees the code it was written for", rule, what, got, min)
	}
	c.count(rule+":"+what, got)
}

// ---------------------------------------------------------------- output

func loadKnown(verifDir string) []KnownFinding {
	b, err := os.ReadFile(filepath.Join(verifDir, "known-findings.json"))
	if err != nil {
		if os.IsNotExist(err) {
			return nil
		}
		broken("known-findings.json: %v", err)
	}
	var l struct {
		Findings []KnownFinding `json:"findings"`
	}
	if err := json.Unmarshal(b, &l); err != nil {
		broken("known-findings.json: %v", err)
	}
	return l.Findings
}

type evidence struct {
	PropertyID  string                 `json:"property_id"`
	Tier        string                 `json:"tier"`
	Seed        int                    `json:"seed"`
	Level       string                 `json:"level"`
	Coverage    map[string]interface{} `json:"coverage"`
	Assumptions []string               `json:"assumptions"`
	WallS       float64                `json:"wall_s"`
	Violations  int                    `json:"violations"`
}

var propExplanation = map[string]string{}

// propExplanationMore: rules added after the first rule set (each after an independently seeded change was missed)
var propExplanationMore = map[string]string{
	"C01": " Added: the final flush of a connection walks exactly the map that Accept fills — Append receivers come from workerMap.GetOrCreate, Close must-reaches Walk on the same immutable field, the Walk closure flushes its entry, the local map is append-only and Walk/GetOrCreate agree on it (R9); recovery is an ordinary call in Start, not a goroutine (R8); the typestate of the chunk in flight (C02.R3/R4) is also run for this property; every Timer.Reset is preceded by stop-and-drain while go.mod is below 1.23 (R10: a stale tick makes a timed hand-over give up at once).",
	"C03": " Added: a chunk is queued still loaded only through the below-threshold edge of the window comparison, threshold at most the limit (R11); the persistent gauges move at most once per chunk event, count and bytes together (R12); recovered chunks are queued before Start returns (C01.R8).",
	"C04": " Added (R5): no failed call of the persistence tree is reported as success — the call's error is assumed non-nil and the CFG is explored path-sensitively in nil / non-nil facts (shadowed error variables, overwritten or discarded errors are found; a retry ends the path).",
	"C05": " Added: recovered chunks are queued by an ordinary call in Start (not a goroutine), so Accept cannot overtake them (C01.R8); a timestamp rendered into the chunk id must be fixed-width and in UTC (R6).",
	"C06": " Added: the permanent key slice is followed from GetOrCreate through every function that receives it; no element of it is ever rewritten, so identity is built from the values the record was routed by (R6); the directory hash is taken of the id itself, never of the sanitised name (R5).",
	"C07": " R3 is a content taint: deep copies are identity, helpers are followed, a byte-offset cut after the cleaner re-taints.",
	"C09": " Added: cross-record state of the parser (C15.R6) and universe-wide transient-string stores (C12.R6); the facility / level stored are FacilityNames[p>>3] / levelMapping[p&7] of the Atoi result of this record's PRI text (R5).",
	"C10": " Added: the serializer keeps nothing of a record — no transient string is stored into its fields or their elements (C12.R6), no cross-record state other than the reviewed scratch buffer (C15.R6); constructor wiring of encoder and buffer stays intact (C11.R9).",
	"C11": " Added (R9): constructor-wired field pairs (a helper built on a buffer / channel kept in a sibling field) are enumerated from all constructors; the wired field is stored nowhere else.",
	"C12": " R1 finds the recycle path as the call chain from Release to the record's Pool.Put (helper names do not matter). Added: universe-wide transient-string store rule over per-record code (R6); no record field aliases a long-lived scratch buffer, and per-record packages do not import unsafe outside util/strings.go (R7); the cross-record state rule (C15.R6) is run for this property: the call trees of the transforms, the parser, the key-set selection and the serializer carry no state from record to record other than key-determined caches, whole-input memos and the reviewed inventory.",
	"C13": " Added: cross-record state (C15.R6): timezoneCache is proved a key-determined cache; a memo must be keyed by everything its value depends on. R2 accepts a memo field that only ever holds the parser's result under err == nil. R5: the zone offset arithmetic is delegated to package time (FixedZone of time.Parse(...).Zone()); offsets computed by the module are UNDECIDED, which fails.",
	"C15": " Added (R6): every field that per-record code of the transforms and the parser both writes and reads is a key-determined cache, a whole-input memo or a reviewed item (batched counters, scratch buffers, the documented sampling totals). R7: each value-matcher tag is exactly the primitive its documentation names (operator, strings function, bound glob/regexp method of the compiled operand); anything else is UNDECIDED and fails.",
	"C16": " C07.R1 (run-time index safety of what an accepted configuration builds) is run for this property too. Added: index safety of the loading / verification tree itself (R5); no check receives a never-assigned (shadowed) variable that it reads (R6); no failed check is reported as success (R7, the failure walker of C04.R5).",
	"C17": " R1 also requires every call on a sink value taken from a slot to run with the lock held; R4 treats a direct Close of the connection as a release of the slot key.",
	"C19": " Added: the persistent-chunk gauges move at most once per chunk event (C03.R12); attribution: no transient string is kept as a key of the selected key set (C12.R6) and SelectMetricKeySet carries no cross-record state other than key-determined caches and reviewed items (C15.R6); a key set's batched counters are flushed together and never removed unflushed (R8).",
}
var propAssumptions = map[string][]string{}

// finish prints the report, writes evidence, replay files; returns exit code
func (c *Ctx) finish(verifDir string, t0 time.Time, seed int, replayID string) int {
	known := loadKnown(verifDir)
	sort.SliceStable(c.obs, func(i, j int) bool { return c.obs[i].ID < c.obs[j].ID })
	nViol, nKnown, nDis, nAss, nNontriv := 0, 0, 0, 0, 0
	var violated []*Obligation
	for _, o := range c.obs {
		if o.Verdict == "violated" {
			for _, k := range known {
				if k.Status == "known" && k.Rule == o.Rule && k.Function == o.Function && k.Construct == o.Construct {
					o.Verdict = "known"
					fmt.Printf("KNOWN-FINDING: property=%s %s [%s %s %s at %s]\n", c.Prop, k.What, o.Rule, o.Function, o.Construct, o.Pos)
					break
				}
			}
		}
		switch o.Verdict {
		case "violated":
			nViol++
			violated = append(violated, o)
		case "known":
			nKnown++
		case "discharged":
			nDis++
		case "assumed":
			nAss++
		}
		if o.Nontrivial {
			nNontriv++
		}
	}
	// report
	fmt.Printf("slogcheck property=%s tier=%s repo=%s\n", c.Prop, c.Tier, c.P.repo)
	fmt.Printf("  rules: %s\n", strings.Join(c.rulesRun, " "))
	fmt.Printf("  analysed: %d functions", len(c.fnsSeen))
	var keys []string
	for k := range c.analysed {
		keys = append(keys, k)
	}
	sort.Strings(keys)
	for _, k := range keys {
		fmt.Printf(", %s=%d", k, c.analysed[k])
	}
	fmt.Println()
	fmt.Printf("  obligations=%d discharged=%d assumed(reviewed table)=%d known=%d violated=%d\n", len(c.obs), nDis, nAss, nKnown, nViol)
	verbose := os.Getenv("SLOGCHECK_VERBOSE") != ""
	for _, o := range c.obs {
		if o.Verdict == "violated" || o.Verdict == "known" || verbose {
			fmt.Printf("  [%s] %s %s :: %s @ %s\n      %s\n", o.Verdict, o.Rule, o.Function, o.Construct, o.Pos, o.Why)
		}
	}
	for _, n := range c.notes {
		fmt.Printf("  note: %s\n", n)
	}

	if replayID != "" {
		o := c.byID[replayID]
		if o == nil {
			fmt.Printf("replay: obligation %q no longer exists on this tree\n", replayID)
			return 0
		}
		fmt.Printf("replay: %s -> %s\n  %s %s :: %s @ %s\n  %s\n", replayID, o.Verdict, o.Rule, o.Function, o.Construct, o.Pos, o.Why)
		if o.Verdict == "violated" {
			return 1
		}
		return 0
	}

	// replay files + VIOLATION lines
	rdir := filepath.Join(verifDir, "evidence", "replay")
	os.MkdirAll(rdir, 0o755)
	old, _ := filepath.Glob(filepath.Join(rdir, c.Prop+"-*.json"))
	for _, f := range old {
		os.Remove(f)
	}
	for i, o := range violated {
		path := filepath.Join(rdir, fmt.Sprintf("%s-%d.json", c.Prop, i+1))
		b, _ := json.MarshalIndent(o, "", " ")
		os.WriteFile(path, b, 0o644)
		fmt.Printf("VIOLATION property=%s replay=%s\n", c.Prop, path)
	}

	// evidence
	var samples []interface{}
	for _, o := range violated {
		samples = append(samples, o)
	}
	step := 1
	if len(c.obs) > 40 {
		step = len(c.obs) / 40
	}
	for i := 0; i < len(c.obs); i += step {
		if c.obs[i].Verdict != "violated" {
			samples = append(samples, c.obs[i])
		}
	}
	var fnNames []string
	for f := range c.fnsSeen {
		fnNames = append(fnNames, anchorName(f))
	}
	sort.Strings(fnNames)
	cov := map[string]interface{}{
		"explanation":         propExplanation[c.Prop] + propExplanationMore[c.Prop],
		"obligations":         len(c.obs),
		"discharged":          nDis + nAss,
		"evaluations":         len(c.obs),
		"distinct_nontrivial": nNontriv,
		"rule": "obligations are enumerated from /repo's type-checked SSA (go/packages+go/ssa+VTA call graph) by the rules named in 'rules'; " +
			"an obligation is distinct by rule+function+construct and non-trivial when its decision visited at least one real construct of the code (reviewed-table entries are not counted)",
		"samples":            samples,
		"checker_cmd":        fmt.Sprintf("bin/slogcheck -repo %s -property %s -tier %s", c.P.repo, c.Prop, c.Tier),
		"trusted_base":       []string{"go/types", "golang.org/x/tools/go/ssa v0.29.0", "VTA call graph over CHA (sound modulo reflection/unsafe)", "Go channel/defer/select semantics as encoded in the rules", "reviewed-table entries listed as 'assumed' obligations"},
		"exhaustive":         true,
		"rules":              c.rulesRun,
		"functions_analysed": fnNames,
		"counters":           c.analysed,
		"known_findings":     nKnown,
		"assumed":            nAss,
		"notes":              c.notes,
		"packages_loaded":    len(c.P.pkgs),
		"universe_functions": len(c.P.universe),
	}
	ev := evidence{PropertyID: c.Prop, Tier: c.Tier, Seed: seed, Level: "other", Coverage: cov,
		Assumptions: propAssumptions[c.Prop], WallS: time.Since(t0).Seconds(), Violations: nViol}
	if ev.Assumptions == nil {
		ev.Assumptions = []string{}
	}
	b, err := json.MarshalIndent(ev, "", " ")
	if err != nil {
		broken("evidence: %v", err)
	}
	os.MkdirAll(filepath.Join(verifDir, "evidence"), 0o755)
	if err := os.WriteFile(filepath.Join(verifDir, "evidence", c.Prop+".json"), b, 0o644); err != nil {
		broken("evidence: %v", err)
	}
	if nViol > 0 {
		return 1
	}
	return 0
}
