package main

// C18 Shutdown always completes in bounded time: every blocking primitive of
// production code is bounded by rule or by a reviewed-table entry (F11), abort
// wiring, deadlines, close-then-wait, signal-once.

import (
	"fmt"
	"go/token"
	"go/types"
	"strings"

	"golang.org/x/tools/go/ssa"
)

func init() {
	for i, r := range []ruleFn{ruleC18R1, ruleC18R2, ruleC18R3, ruleC18R4} {
		register("C18", fmt.Sprintf("C18.R%d", i+1), r)
	}
	register("C18", "C01.R7", ruleC01R7)
	register("C18", "C02.R4", ruleC02R4)
	register("C18", "C02.R5", ruleC02R5)
	register("C18", "C02.R7", ruleC02R7)
	register("C18", "C18.R6", ruleC18R6)
	propExplanation["C18"] = "Enumerates every blocking primitive in production functions (bare send/receive, blocking select, range over channel, waits, network I/O, dial, HTTP) and requires each to be bounded by a rule — a timer / ticker / stop-signal case in the select, receive-until-closed on a channel that is closed on the stop path, Wait(timeout), I/O preceded by a deadline or with a timeout argument — or by a reviewed-table entry stating what bounds it (R1, R3); " +
		"the stop signal aborts the active client session (R2); the bufferer closes its queue and signals before it waits, with a timeout, listener and connections are closed on stop (R4); nothing is left only in memory: the feeder saves every holder (C01.R7), the client remembers the chunk in flight until it is queued for ACK, merges every holder at session end and hands the leftovers back before OnFinished (C02.R4/R5/R7); no Signal/close can run twice on one object along a path (R6). " +
		"Not decided: the numeric bound, blocking inside a syscall that has a deadline, mutex waits (critical sections contain no blocking primitive other than those listed)."
	propAssumptions["C18"] = []string{
		"disk syscalls and mutex acquisitions return",
		"reviewed-table entries (verdict 'assumed') are bounded for the stated reason",
		"test-only helpers compiled into production packages (testdump.go, test_helpers.go) are outside the stop path",
	}
}

// channel field aliases established by other rules (same channel object under two field names)
var chanAlias = map[string]string{
	fFeedIn: fBufIn, // C03.R6: one make(chan) flows into both
	"buffer/hybridbuffer.outputFeeder.inputClosed": "buffer/hybridbuffer.bufferer.inputClosed",
	// the consumer's stop signal is the feeder's outputClosed (wiring checked by C18.R2)
	"output/baseoutput.ClientWorker.inputClosed":  "buffer/hybridbuffer.outputFeeder.outputClosed",
	"output/baseoutput.clientSession.inputClosed": "buffer/hybridbuffer.outputFeeder.outputClosed",
}

func canonField(f string) string {
	if a, ok := chanAlias[f]; ok {
		return a
	}
	return f
}

type reviewed struct {
	fn, kind, reason string
}

var c18Reviewed = []reviewed{
	{"input/tcplistener.(*tcpLineListener).launchConnectionCloser$1", "wait", "closer goroutine: it waits FOR the stop request or the connection's own abort signal; runConnection signals it on every exit (deferred, C17.R4)"},
	{"input/tcplistener.(*tcpLineListener).run$1", "wait", "listener-closer goroutine: it waits FOR the stop request or the listener abort; run signals abort on every accept error (R4)"},
	{"input/tcplistener.(*tcpLineListener).run", "wait", "AcceptTCP returns with an error once the listener socket is closed, which run$1 does on the stop request (R4)"},
	{"orchestrate/osingleton.(*singletonOrchestrator).Shutdown", "wait", "stopSignal is the pipeline's onStopped, called after the timed bufferer.Destroy in the worker's stop continuation (C01.R5)"},
	{"output/baseoutput.(*ClientWorker).runSession$1", "send", "connection-opening goroutine: if runSession already returned on the stop signal this goroutine blocks forever, but nobody joins it (the dial itself is bounded by R3)"},
	{"output/baseoutput.newLeftoverChannel", "send", "the channel is made with capacity len(chunks) and at most len(chunks) values are sent (C05.R3 checks the capacity)"},
	{"run.(*Loader).LaunchInputs$1", "wait", "waits for all inputs: the listener closes its socket and every connection on the stop request (R4), connection tasks end after a bounded flush (channelInputBuffer.Flush gives up after IntermediateChannelTimeout)"},
	{"run.NewReloadableOrchestrator$1", "recv", "SIGHUP goroutine: never joined, not on the stop path"},
	{"run.Run", "recv", "waits for SIGINT/SIGTERM: this is the wait for the stop request itself"},
	{"util.(*TrackedWaitGroup).Wait", "wait", "callers: outputFeeder.Run waits for consumers (bufferer.Destroy above it waits for the feeder with a timeout and goes on); GlobalCachedMap.Destroy waits for pipelines whose onStopped follows a timed Destroy"},
	{"util.(*NetConnWrapper).Write", "netio", "write side of the wrapper is unused (WrapNetConn is only called with writeTimeout 0 for reading connections)"},
	{"output/datadog.(*clientWorker).SendChunk", "wait", "http.Client.Timeout = cfg.HTTPTimeout, which datadog VerifyConfig requires to be non-zero (checked below)"},
}

func ruleC18R1(c *Ctx) {
	// who closes / signals what (universe-wide)
	closedFields := map[string]bool{}
	signalledFields := map[string]bool{}
	for _, fn := range c.P.universe {
		for _, op := range chanOps(fn) {
			if op.Kind == "close" {
				if f := fieldOf(op.Chan); f != "" {
					closedFields[canonField(f)] = true
				}
				if _, ok := strip(op.Chan).(*ssa.Parameter); ok && fn.Parent() != nil {
					// NewOrchestrator's destructor closure: close(ch) of the pipeline channel
					closedFields["param:"+anchorName(fn)] = true
				}
			}
		}
		for _, s := range c.callsTo(fn, extPred(aSignal)) {
			if len(s.Common().Args) == 0 {
				continue
			}
			if f := fieldOf(s.Common().Args[0]); f != "" {
				signalledFields[canonField(f)] = true
			}
		}
	}
	total, byRule, byTable := 0, 0, 0
	usedTable := map[int]bool{}
	usedBy := map[int]*ssa.Function{}
	exactC18 := map[string]bool{}
	for _, r := range c18Reviewed {
		exactC18[r.fn] = true
	}
	for _, fn := range c.P.universe {
		file, _ := c.P.posLine(fn.Pos())
		if strings.HasSuffix(file, "testdump.go") || strings.HasSuffix(file, "test_helpers.go") {
			continue
		}
		for _, b := range blockingIn(c.P, fn) {
			total++
			name := anchorName(fn)
			if gp := c.goParent(fn); gp != nil && !exactC18[name] {
				name = anchorName(gp) + "$1" // a named goroutine body stands where the launcher's literal stood
			}
			if fn.Parent() != nil && !exactC18[name] {
				// a literal inside a private helper of X stands where X's literal stood (X$N)
				root := fn
				for root.Parent() != nil {
					root = root.Parent()
				}
				if owners := ownerNames(root); len(owners) > 1 {
					for _, o := range owners[1:] {
						if exactC18[o+"$1"] || hasNormKeyC18(o) {
							name = o + "$1"
							break
						}
					}
				}
			}
			construct := b.Kind + ": " + b.Desc
			ok, why := c18Bounded(c, fn, b, closedFields, signalledFields)
			if ok {
				byRule++
				c.ok("C18.R1", fn, construct, b.In.Pos(), why)
				continue
			}
			found := false
			for i, r := range c18Reviewed {
				// closures are matched with their ordinal ignored; an entry covers as many sites as it did when it was
				// reviewed (one per closure entry), so a second literal of the same parent with the same kind of
				// blocking operation is not swallowed
				same := r.fn == name || (strings.Contains(r.fn, "$") && normClosure(r.fn) == normClosure(name) && !exactC18[name])
				if same && r.kind == b.Kind {
					if strings.Contains(r.fn, "$") && r.fn != name && usedBy[i] != nil && usedBy[i] != fn {
						continue // the entry already stands for another literal of this parent
					}
					usedBy[i] = fn
					found = true
					usedTable[i] = true
					byTable++
					c.assumed("C18.R1", fn, construct, b.In.Pos(), "reviewed: "+r.reason)
					break
				}
			}
			if !found {
				c.bad("C18.R1", fn, construct, b.In.Pos(), "unbounded blocking operation: "+why)
			}
		}
	}
	c.count("C18.R1:blocking sites", total)
	c.count("C18.R1:bounded by rule", byRule)
	c.count("C18.R1:reviewed table", byTable)
	c.floor("C18.R1", "blocking primitives enumerated", total, 30)
	for i, r := range c18Reviewed {
		if !usedTable[i] {
			c.note("reviewed-table entry for %s (%s) matched nothing on this tree", r.fn, r.kind)
		}
	}
	// guard of the datadog table entry
	vc := c.P.Fn("output/datadog.(*Config).VerifyConfig")
	okT := false
	eachInstr(vc, func(in ssa.Instruction) {
		if iff, ok := in.(*ssa.If); ok && mentions(iff.Cond, isFieldAddrOf("output/datadog.UpstreamConfig.HTTPTimeout")) {
			okT = true
		}
	})
	c.check(okT, "C18.R1", vc, "datadog HTTP timeout verified non-zero", vc.Pos(), "VerifyConfig tests Upstream.HTTPTimeout", "a zero HTTP timeout (no timeout) would be accepted")
	nc := c.P.Fn("output/datadog.NewClientWorker")
	okC := false
	for _, st := range storesToField(nc, "net/http.Client.Timeout") {
		if mentions(st.Val, isFieldAddrOf("output/datadog.UpstreamConfig.HTTPTimeout")) || mentions(st.Val, func(v ssa.Value) bool {
			f, ok := v.(*ssa.Field)
			return ok && strings.HasSuffix(fieldName(f.X.Type(), f.Field), "UpstreamConfig.HTTPTimeout")
		}) {
			okC = true
		}
	}
	c.check(okC, "C18.R1", nc, "http.Client.Timeout = cfg.HTTPTimeout", nc.Pos(), "the client's timeout is the verified configuration value", "the HTTP client has no timeout from the configuration")
}

func isTimerChan(v ssa.Value) bool {
	return mentions(v, func(x ssa.Value) bool {
		if cl, ok := x.(*ssa.Call); ok {
			if f := cl.Common().StaticCallee(); f != nil && (extName(f) == "time.After" || extName(f) == "time.Tick") {
				return true
			}
		}
		if fa, ok := x.(*ssa.FieldAddr); ok {
			n := fieldName(fa.X.Type(), fa.Field)
			return n == "time.Ticker.C" || n == "time.Timer.C"
		}
		return false
	})
}

// awaitableChanField: v is X.Channel() of an awaitable held in a struct field; returns the field
func awaitableChanField(v ssa.Value) string {
	cl, ok := strip(v).(*ssa.Call)
	if !ok {
		return ""
	}
	cc := cl.Common()
	if cc.IsInvoke() {
		if cc.Method.Name() != "Channel" {
			return ""
		}
		return canonField(fieldOf(cc.Value))
	}
	if f := cc.StaticCallee(); f != nil && extName(f) == "(*github.com/relex/gotils/channels.AwaitableBase).Channel" {
		// receiver is &x.AwaitableBase of a *SignalAwaitable loaded from a field
		f := ""
		mentions(cc.Args[0], func(x ssa.Value) bool {
			if fa, ok := x.(*ssa.FieldAddr); ok {
				n := fieldName(fa.X.Type(), fa.Field)
				if !strings.HasSuffix(n, ".AwaitableBase") && f == "" {
					f = n
				}
			}
			return false
		})
		return canonField(f)
	}
	return ""
}

func c18Bounded(c *Ctx, fn *ssa.Function, b blockSite, closed, signalled map[string]bool) (bool, string) {
	switch b.Kind {
	case "select":
		sel := b.In.(*ssa.Select)
		for _, st := range sel.States {
			if st.Dir != types.RecvOnly {
				continue
			}
			if isTimerChan(st.Chan) {
				return true, "select has a timer/ticker case: each wait is bounded"
			}
		}
		for _, st := range sel.States {
			if st.Dir != types.RecvOnly {
				continue
			}
			if f := awaitableChanField(st.Chan); f != "" && signalled[f] {
				return true, "select has a case on " + f + ".Channel(), which is signalled in the module"
			}
		}
		// a timeout channel handed in by the caller: a time.After channel fires once, so every call must get its own —
		// at every call site the argument is time.After(...) evaluated for that call (same block as the call)
		for _, st := range sel.States {
			if st.Dir != types.RecvOnly {
				continue
			}
			p, ok := resolve(st.Chan).(*ssa.Parameter)
			if !ok || p.Parent() != fn || !strings.HasSuffix(p.Type().String(), "chan time.Time") {
				continue
			}
			idx := -1
			for i, q := range fn.Params {
				if q == p {
					idx = i
				}
			}
			sites := c.callSitesOf(func(f *ssa.Function) bool { return f == fn })
			c.P.onlyCalledFrom(fn, nil) // builds the value-use index
			if idx < 0 || len(sites) == 0 || c.P.valueUse[fn] {
				return false, "the timeout channel is a parameter whose callers are not all known"
			}
			for _, s := range sites {
				if idx >= len(s.Common().Args) {
					return false, "the timeout channel is a parameter whose callers are not all known"
				}
				cl, isCall := resolve(s.Common().Args[idx]).(*ssa.Call)
				fresh := isCall && cl.Common().StaticCallee() != nil && extName(cl.Common().StaticCallee()) == "time.After" && cl.Block() == s.Block() && cl.Parent() == s.Parent()
				if !fresh {
					return false, "the timeout case waits on a channel handed in by the caller, and " + anchorName(s.Parent()) + " (" + c.P.pos(s.Pos()) + ") does not pass a time.After(...) made for that call: a timer channel fires once, a second wait on it never times out"
				}
			}
			return true, "select has a timeout case on a parameter, and every one of the " + itoa(len(sites)) + " call site(s) passes a time.After(...) made for that call"
		}
		return false, "no timer, ticker or signalled-awaitable case"
	case "recv", "range":
		var ch ssa.Value
		commaOk := b.Kind == "range"
		switch x := b.In.(type) {
		case *ssa.UnOp:
			ch = x.X
			commaOk = x.CommaOk
		case *ssa.Next:
			ch = x.Iter.(*ssa.Range).X
			commaOk = true
		}
		if isTimerChan(ch) {
			return true, "receive from a timer channel"
		}
		if f := canonField(fieldOf(ch)); f != "" {
			if closed[f] && commaOk {
				return true, "receive-until-closed on " + f + ", which is closed in the module"
			}
			return false, "receive on " + f + " with no close of that channel in the module (or the closed state is not observed)"
		}
		// local variable / parameter: a close of the same variable precedes it in this function, or every caller closes first
		for _, op := range chanOps(fn) {
			if op.Kind == "close" && sameCell(op.Chan, ch) {
				if hit, _ := c.precedes(fn, map[ssa.Instruction]bool{op.In: true}, map[ssa.Instruction]bool{b.In: true}, nil); hit == nil {
					return true, "the channel variable is closed before the receive loop"
				}
			}
		}
		if p, ok := strip(ch).(*ssa.Parameter); ok && commaOk {
			// every call site closes the argument first
			idx := -1
			for i, q := range fn.Params {
				if q == p {
					idx = i
				}
			}
			sites := c.callSitesOf(func(f *ssa.Function) bool {
				return f == fn || (f.Origin() != nil && f.Origin() == fn.Origin() && fn.Origin() != nil)
			})
			all := len(sites) > 0
			for _, s := range sites {
				arg := s.Common().Args[idx]
				okSite := false
				cl := map[ssa.Instruction]bool{}
				for _, op := range c.chanOpsR(s.Parent()) {
					if op.Kind != "close" {
						continue
					}
					if (op.In.Parent() == s.Parent() && sameValue(op.Chan, arg)) || (fieldOf(op.Chan) != "" && fieldOf(op.Chan) == fieldOf(arg)) {
						cl[op.In] = true
					}
				}
				if len(cl) > 0 {
					if hit, _ := c.precedes(s.Parent(), cl, map[ssa.Instruction]bool{s: true}, nil); hit == nil {
						okSite = true
					}
				}
				if !okSite {
					all = false
				}
			}
			if all {
				return true, fmt.Sprintf("all %d call sites close the channel argument before the call", len(sites))
			}
		}
		return false, "receive with no bounding close"
	case "send":
		return false, "bare send"
	case "wait":
		ci := b.In.(ssa.CallInstruction)
		cc := ci.Common()
		name := ""
		if cc.IsInvoke() {
			name = cc.Method.Name()
		} else if f := cc.StaticCallee(); f != nil {
			name = fnBaseName(f)
		}
		switch name {
		case "Wait":
			if cc.Signature().Params().Len() == 1 && strings.HasSuffix(cc.Signature().Params().At(0).Type().String(), "time.Duration") {
				return true, "Wait(timeout)"
			}
		case "WaitForZero", "WaitTimer":
			return true, name + " takes a timeout"
		case "DialTimeout":
			if !isZeroConst(cc.Args[2]) {
				return true, "dial with a timeout argument"
			}
		case "DoClientHandshake":
			if !isZeroConst(cc.Args[2]) {
				return true, "handshake with a timeout argument"
			}
		case "DialWithDialer":
			// the dialer's Timeout field is stored before the call
			for _, st := range storesToField(fn, "net.Dialer.Timeout") {
				if hit, _ := c.precedes(fn, map[ssa.Instruction]bool{st: true}, map[ssa.Instruction]bool{b.In: true}, nil); hit == nil && !isZeroConst(st.Val) {
					return true, "dialer.Timeout is set before the dial"
				}
			}
		}
		return false, "wait without a timeout"
	case "netio":
		// a deadline is set (and its error checked) on every path to the I/O in this function, or in every caller for helpers
		want := "SetReadDeadline"
		if strings.Contains(b.Desc, "Write") {
			want = "SetWriteDeadline"
		}
		isDL := func(in ssa.Instruction) bool {
			ci, ok := in.(ssa.CallInstruction)
			if !ok {
				return false
			}
			cc := ci.Common()
			if cc.IsInvoke() && cc.Method.Name() == want {
				return !isZeroTime(cc.Args[0])
			}
			return false
		}
		q := &PathQ{P: c.P, Barrier: isDL}
		if hit, _ := q.Reach(entryOf(fn), func(in ssa.Instruction) bool { return in == b.In }); hit == nil {
			return true, want + " precedes the I/O on every path"
		}
		if anchorName(fn) == "util.(*NetConnWrapper).Read" {
			// bounded when the wrapper is created with a non-zero read timeout: check every WrapNetConn site
			sites := c.callSitesOf(anchorPred("util.WrapNetConn"))
			all := len(sites) > 0
			for _, s := range sites {
				if isZeroConst(s.Common().Args[1]) {
					all = false
				}
			}
			if all {
				return true, fmt.Sprintf("read deadline renewed from readTimeoutMin, which is non-zero at all %d WrapNetConn sites", len(sites))
			}
		}
		// helper taking the connection as a parameter: every caller sets the deadline first
		sites := c.callSitesOf(func(f *ssa.Function) bool { return f == fn })
		if len(sites) > 0 && fn.Signature.Recv() == nil {
			all := true
			for _, s := range sites {
				s := s
				q := &PathQ{P: c.P, Barrier: isDL}
				if hit, _ := q.Reach(entryOf(s.Parent()), func(in ssa.Instruction) bool { return in == s.(ssa.Instruction) }); hit != nil {
					all = false
				}
			}
			if all {
				return true, fmt.Sprintf("all %d callers set %s before calling", len(sites), want)
			}
		}
		return false, "network I/O without a preceding deadline"
	}
	return false, "unknown"
}

func isZeroConst(v ssa.Value) bool {
	k, ok := v.(*ssa.Const)
	return ok && (k.Value == nil || k.Int64() == 0)
}

func isZeroTime(v ssa.Value) bool {
	k, ok := v.(*ssa.Const)
	return ok && k.Value == nil // time.Time{} zero value constant
}

// R2: the stop signal aborts the active session
func ruleC18R2(c *Ctx) {
	ruleC18R2wiring(c)
	fn := c.P.Fn(aNewCW)
	var cont *ssa.Function
	for _, s := range callsIn(fn) {
		if invokeOf(s, "github.com/relex/gotils/channels.Awaitable", "Next") && fieldOf(recvOf(s)) == "output/baseoutput.ClientWorker.inputClosed" {
			if cl := closureArgs(s); len(cl) == 1 {
				cont = cl[0]
			}
		}
	}
	if cont == nil {
		c.bad("C18.R2", fn, "inputClosed.Next(abort active session)", fn.Pos(), "no continuation registered on the worker's inputClosed awaitable")
	} else {
		sAb := newSumm(c.P, anchorPred("output/baseoutput.(*clientSession).Abort"))
		c.mustBeforeReturn("C18.R2", cont, entryOf(cont), sAb, "stop signal aborts the active session", "clientSession.Abort (guard: no active session)", cont.Pos(), nil)
		// it reads the activeSession pointer
		okL := false
		for _, s := range callsIn(cont) {
			if f := s.Common().StaticCallee(); f != nil && fnBaseName(f) == "Load" && fieldOf(s.Common().Args[0]) == "output/baseoutput.ClientWorker.activeSession" {
				okL = true
			}
		}
		c.check(okL, "C18.R2", cont, "the aborted session is the published active session", cont.Pos(), "activeSession.Load()", "the continuation does not use the published active session")
	}
	ab := c.P.Fn("output/baseoutput.(*clientSession).Abort")
	sA := siteSumm(c.P, func(s ssa.CallInstruction) bool { return fieldCallOf(s, fAbortConn) })
	sA.AllowEmptyGuards = false
	c.mustBeforeReturn("C18.R2", ab, entryOf(ab), sA, "Abort closes the connection", "abortConn", ab.Pos(), nil)
	rs := c.P.Fn(aCWRunSess)
	var stores, clears []ssa.Instruction
	for _, f := range withAnons(rs) {
		for _, s := range callsIn(f) {
			if sc := s.Common().StaticCallee(); sc != nil && fnBaseName(sc) == "Store" && fieldOf(s.Common().Args[0]) == "output/baseoutput.ClientWorker.activeSession" {
				if k, ok := s.Common().Args[1].(*ssa.Const); ok && k.IsNil() {
					clears = append(clears, s)
				} else if f == rs {
					stores = append(stores, s)
				}
			}
		}
	}
	runs := c.callsTo(rs, anchorPred(aSessRun))
	c.checkOrder("C18.R2", rs, "activeSession.Store(sess)", instrSet(stores), "sess.Run", callInstrSet(runs))
	// cleared in a deferred closure registered before Run
	okClr := false
	for _, rd := range rundefersOf(rs) {
		for _, d := range deferredAt(rd, false) {
			if mc, ok := resolve(d.Common().Value).(*ssa.MakeClosure); ok {
				for _, x := range clears {
					if x.Parent() == mc.Fn.(*ssa.Function) {
						okClr = true
					}
				}
			}
			// a deferred named method of the worker that stores nil
			if g := d.Common().StaticCallee(); g != nil && c.P.inUni[g] {
				for _, s := range callsIn(g) {
					if sc := s.Common().StaticCallee(); sc != nil && fnBaseName(sc) == "Store" && len(s.Common().Args) > 1 && fieldOf(s.Common().Args[0]) == "output/baseoutput.ClientWorker.activeSession" {
						if k, ok := s.Common().Args[1].(*ssa.Const); ok && k.IsNil() {
							okClr = true
						}
					}
				}
			}
		}
	}
	c.check(okClr, "C18.R2", rs, "activeSession cleared when the session ends", rs.Pos(), "a deferred closure stores nil", "a finished session stays published as active")
	// the session published is the one that runs
	if len(stores) == 1 && len(runs) == 1 {
		c.check(sameValue(stores[0].(ssa.CallInstruction).Common().Args[1], runs[0].Common().Args[0]), "C18.R2", rs, "the published session is the running one", runs[0].Pos(), "same value", "a different session is published than the one that runs")
	}
}

// stop-signal wiring: feeder.outputClosed -> ChunkConsumerArgs.InputClosed -> ClientWorker.inputClosed -> clientSession.inputClosed
func ruleC18R2wiring(c *Ctx) {
	type hop struct{ fn, dst, src string }
	for _, h := range []hop{
		{aRegConsumer, "base.ChunkConsumerArgs.InputClosed", "buffer/hybridbuffer.outputFeeder.outputClosed"},
		{aNewCW, "output/baseoutput.ClientWorker.inputClosed", "base.ChunkConsumerArgs.InputClosed"},
		{aNewSession, "output/baseoutput.clientSession.inputClosed", "output/baseoutput.ClientWorker.inputClosed"},
		{aNewFeeder, "buffer/hybridbuffer.outputFeeder.inputClosed", "param:inputClosed"},
	} {
		fn := c.P.Fn(h.fn)
		ok := false
		for _, st := range storesToField(fn, h.dst) {
			if strings.HasPrefix(h.src, "param:") {
				if mentions(st.Val, func(v ssa.Value) bool {
					p, isP := v.(*ssa.Parameter)
					return isP && p.Name() == strings.TrimPrefix(h.src, "param:")
				}) {
					ok = true
				}
			} else if mentions(st.Val, isFieldAddrOf(h.src)) {
				ok = true
			}
		}
		c.check(ok, "C18.R2", fn, "stop-signal wiring: "+h.dst+" = "+h.src, fn.Pos(), "the awaitable is passed on unchanged", "the stop signal watched by the client is not the one the feeder signals")
	}
	nb := c.P.Fn(aNewBufferer)
	ok := false
	for _, s := range c.callsTo(nb, anchorPred(aNewFeeder)) {
		for _, st := range storesToField(nb, "buffer/hybridbuffer.bufferer.inputClosed") {
			for _, a := range s.Common().Args {
				if sameValue(a, st.Val) {
					ok = true
				}
			}
		}
	}
	c.check(ok, "C18.R2", nb, "stop-signal wiring: feeder.inputClosed is the bufferer's inputClosed", nb.Pos(), "one awaitable flows into both", "Destroy signals an awaitable the feeder does not watch")
}

// R3: deadlines of the forward connection (the I/O sites themselves are enumerated by R1)
func ruleC18R3(c *Ctx) {
	type dl struct{ fn, set, io string }
	for _, d := range []dl{
		{"output/fluentdforward.(*forwardConnection).SendChunk", "SetWriteDeadline", "output/fluentdforward.writeAll"},
		{"output/fluentdforward.(*forwardConnection).SendPing", "SetWriteDeadline", "output/fluentdforward.writeAll"},
		{"output/fluentdforward.(*forwardConnection).ReadChunkAck", "SetReadDeadline", "(*github.com/vmihailenco/msgpack/v4.Decoder).Decode"},
	} {
		fn := c.P.Fn(d.fn)
		sets := sitesWhere(fn, func(s ssa.CallInstruction) bool { return s.Common().IsInvoke() && s.Common().Method.Name() == d.set })
		ios := c.callsTo(fn, func(f *ssa.Function) bool { return isAnchor(f, d.io) || extName(f) == d.io })
		if len(sets) != 1 || len(ios) != 1 {
			c.bad("C18.R3", fn, d.set+" before I/O", fn.Pos(), fmt.Sprintf("expected one %s and one I/O call, found %d / %d", d.set, len(sets), len(ios)))
			continue
		}
		// the deadline is the caller's parameter and the I/O is only reached when setting it succeeded
		okP := false
		if p, ok := strip(sets[0].Common().Args[0]).(*ssa.Parameter); ok && typeName(p.Type()) == "time.Time" {
			okP = true
		}
		via := false
		for b, si := range nilEdges(sets[0].Value(), true) {
			if c.onlyViaEdge(fn, ios[0], b, si) {
				via = true
			}
		}
		c.check(okP && via, "C18.R3", fn, d.set+"(deadline) succeeds before the I/O", sets[0].Pos(), "I/O only through the nil-error edge of "+d.set+"(deadline parameter)", "the I/O can run without an applied deadline")
	}
	// callers pass a real deadline: time.Now().Add(non-zero)
	n := 0
	for _, fn := range c.P.universe {
		for _, s := range sitesWhere(fn, func(s ssa.CallInstruction) bool {
			return invokeOf(s, iConn, "SendChunk") || invokeOf(s, iConn, "SendPing") || invokeOf(s, iConn, "ReadChunkAck")
		}) {
			n++
			arg := s.Common().Args[len(s.Common().Args)-1]
			ok := false
			if cl, isC := strip(arg).(*ssa.Call); isC {
				if f := cl.Common().StaticCallee(); f != nil && extName(f) == "(time.Time).Add" {
					if nw, isN := strip(cl.Common().Args[0]).(*ssa.Call); isN && nw.Common().StaticCallee() != nil && extName(nw.Common().StaticCallee()) == "time.Now" {
						ok = !isZeroConst(cl.Common().Args[1])
					}
				}
			}
			c.check(ok, "C18.R3", fn, "deadline = time.Now().Add(timeout) for "+s.Common().Method.Name(), s.Pos(), "a real, non-zero deadline is passed", "a zero or non-relative deadline is passed to connection I/O (it would never time out)")
		}
	}
	c.floor("C18.R3", "connection I/O call sites", n, 3)
}

// R4: close-then-wait
func ruleC18R4(c *Ctx) {
	fn := c.P.Fn(aBufDestroy)
	var closes []ssa.Instruction
	for _, op := range chanOps(fn) {
		if op.Kind == "close" && fieldOf(op.Chan) == fBufIn {
			closes = append(closes, op.In)
		}
	}
	var sig, wait []ssa.CallInstruction
	for _, s := range c.callsTo(fn, extPred(aSignal)) {
		if len(s.Common().Args) > 0 && fieldOf(s.Common().Args[0]) == "buffer/hybridbuffer.bufferer.inputClosed" {
			sig = append(sig, s)
		}
	}
	for _, s := range callsIn(fn) {
		if s.Common().IsInvoke() && s.Common().Method.Name() == "Wait" {
			wait = append(wait, s)
		}
	}
	c.checkOrder("C18.R4", fn, "close(inputChannel)", instrSet(closes), "wait for the feeder", callInstrSet(wait))
	c.checkOrder("C18.R4", fn, "inputClosed.Signal()", callInstrSet(sig), "wait for the feeder", callInstrSet(wait))
	// the queue is closed before the abort signal, so that saveEverything's range terminates
	c.checkOrder("C18.R4", fn, "close(inputChannel)", instrSet(closes), "inputClosed.Signal()", callInstrSet(sig))
	// listener closer: socket closed after the wait, on every path
	registryForm := false
	for _, a := range []struct{ parent, what, closeName string }{
		{"input/tcplistener.(*tcpLineListener).run", "listener socket", "(*net.TCPListener).Close"},
		{"input/tcplistener.(*tcpLineListener).launchConnectionCloser", "connection", "(*net.TCPConn).Close"},
	} {
		if a.what == "connection" && !c18HasFn(c, a.parent) {
			// no per-connection closer goroutine: the registry form (after seed c18g) — connections are registered with the
			// listener and closed by one sweep on the stop request
			c18RegistryCloser(c)
			registryForm = true
			continue
		}
		p := c.P.Fn(a.parent)
		var g *ssa.Function
		// the closer is the goroutine that waits on the stop request (a literal or a named method; run also launches the
		// connection handlers); failing that, the first literal, so that a closer that lost its wait is still examined
		var literal *ssa.Function
		for _, s := range c.callsInR(p) {
			if gi, ok := s.(*ssa.Go); ok {
				t := c.P.goTarget(gi)
				if t == nil || !c.P.inUni[t] {
					continue
				}
				if t.Parent() != nil && literal == nil {
					literal = t
				}
				for _, cs := range c.callsInR(t) {
					if f := cs.Common().StaticCallee(); f != nil && extName(f) == "github.com/relex/gotils/channels.AnyAwaitables" && g == nil {
						g = t
					}
				}
			}
		}
		if g == nil {
			g = literal
		}
		if g == nil {
			c.bad("C18.R4", p, a.what+" closer goroutine", p.Pos(), "no closer goroutine launched")
			continue
		}
		sCl := newSumm(c.P, func(f *ssa.Function) bool {
			n := extName(f)
			return n == a.closeName || n == "(*net.conn).Close" || n == "(*net.TCPListener).Close"
		})
		sCl.AllowEmptyGuards, sCl.LoopsRunOnce = false, false
		c.mustBeforeReturn("C18.R4", g, entryOf(g), sCl, a.what+" closed by its closer goroutine", a.closeName, g.Pos(), nil)
		// it waits on the stop request
		okStop := false
		for _, s := range c.callsInR(g) {
			if f := s.Common().StaticCallee(); f != nil && extName(f) == "github.com/relex/gotils/channels.AnyAwaitables" {
				if mentions(s.Common().Args[0], isFieldAddrOf("input/tcplistener.tcpLineListener.stopRequest")) {
					okStop = true
				}
			}
		}
		c.check(okStop, "C18.R4", g, a.what+" closer waits on the stop request", g.Pos(), "AnyAwaitables(stopRequest, abort)", "the closer goroutine does not watch the stop request")
	}
	// each connection launches its closer before it starts reading
	for _, rc := range c.P.Fns(aRunConn) {
		calleeIs := func(name string) func(ssa.CallInstruction) bool {
			return func(s ssa.CallInstruction) bool { f := s.Common().StaticCallee(); return f != nil && isAnchor(f, name) }
		}
		if registryForm {
			continue // decided by c18RegistryCloser
		}
		lc := c.sitesWhereR(rc, calleeIs("input/tcplistener.(*tcpLineListener).launchConnectionCloser"))
		rd := c.sitesWhereR(rc, calleeIs("input/tcplistener.(*multiLineReader).Read"))
		c.checkOrder("C18.R4", rc, "launchConnectionCloser", callInstrSet(lc), "first read", callInstrSet(rd))
	}
	// accept loop: every accept error ends the loop; run signals the listener abort unless it was the stop request
	run := c.P.Fn("input/tcplistener.(*tcpLineListener).run")
	acc := c.callsTo(run, extPred("(*net.TCPListener).AcceptTCP"))
	if len(acc) == 1 {
		lp := loopOf(run, acc[0].Block())
		ne := nilEdges(resultOf(acc[0].Value(), 1), false)
		ok := lp != nil && len(ne) > 0
		for b, si := range ne {
			q := &PathQ{P: c.P}
			if hit, _ := q.Reach(succPoint(b, si), func(in ssa.Instruction) bool { return in == lp.header.Instrs[0] || in == acc[0].(ssa.Instruction) }); hit != nil {
				ok = false
			}
		}
		c.check(ok, "C18.R4", run, "an accept error ends the accept loop", acc[0].Pos(), "the error edge never loops back to AcceptTCP", "the accept loop spins on a closed listener")
		// taskCounter.Done on every path to return
		sDone := newSumm(c.P, extPred("(*sync.WaitGroup).Done"))
		sDone.AllowEmptyGuards, sDone.LoopsRunOnce = false, false
		c.mustBeforeReturn("C18.R4", run, entryOf(run), sDone, "listener task marked done", "taskCounter.Done", run.Pos(), nil)
	}
}

// R6: no Signal / close twice on one object along a path
func ruleC18R6(c *Ctx) {
	n := 0
	for _, fn := range c.P.universe {
		type ev struct {
			in  ssa.Instruction
			key string
		}
		var evs []ev
		keyOf := func(v ssa.Value) string {
			if f := fieldOf(v); f != "" {
				return "field " + f
			}
			r := resolve(v)
			switch x := r.(type) {
			case *ssa.Alloc, *ssa.Parameter, *ssa.FreeVar:
				return fmt.Sprintf("var %s@%d", x.Name(), x.Pos())
			case *ssa.Call:
				return fmt.Sprintf("value@%d", x.Pos())
			}
			if u, ok := strip(v).(*ssa.UnOp); ok && u.Op == token.MUL {
				return fmt.Sprintf("cell %s@%d", u.X.Name(), u.X.Pos())
			}
			return fmt.Sprintf("value %s", v.Name())
		}
		for _, s := range callsIn(fn) {
			if _, isGo := s.(*ssa.Go); isGo {
				continue
			}
			f := s.Common().StaticCallee()
			if f != nil && extName(f) == aSignal && len(s.Common().Args) > 0 {
				if d, isDefer := s.(*ssa.Defer); isDefer {
					for _, rd := range rundefersOf(fn) {
						if dominatesInstr(d, rd) || true {
							evs = append(evs, ev{rd, "signal " + keyOf(s.Common().Args[0])})
						}
					}
					continue
				}
				evs = append(evs, ev{s, "signal " + keyOf(s.Common().Args[0])})
			}
		}
		for _, op := range chanOps(fn) {
			if op.Kind == "close" {
				evs = append(evs, ev{op.In, "close " + keyOf(op.Chan)})
			}
		}
		for _, a := range evs {
			n++
			dbl := false
			var other ssa.Instruction
			for _, b := range evs {
				if a.key != b.key {
					continue
				}
				q := &PathQ{P: c.P}
				if hit, _ := q.Reach(after(a.in), func(in ssa.Instruction) bool { return in == b.in }); hit != nil {
					dbl, other = true, b.in
				}
			}
			why := ""
			if dbl {
				why = "a path passes this site and then " + c.P.pos(other.Pos()) + " on the same object: the second Signal/close panics"
			}
			c.check(!dbl, "C18.R6", fn, "at most once: "+a.key, a.in.Pos(), "no path from this site reaches a Signal/close of the same object", why)
		}
	}
	c.floor("C18.R6", "Signal/close sites", n, 8)
}

// hasNormKeyC18: the reviewed table has an entry for a literal of the named function
func hasNormKeyC18(parent string) bool {
	for _, r := range c18Reviewed {
		if strings.Contains(r.fn, "$") && normClosure(r.fn) == normClosure(parent+"$1") {
			return true
		}
	}
	return false
}

func c18HasFn(c *Ctx, name string) bool {
	for _, f := range c.P.universe {
		if anchorName(f) == name {
			return true
		}
	}
	return false
}

// c18RegistryCloser: the registry form of "every connection is closed on the stop request". Instead of one closer goroutine
// per connection, runConnection registers its connection in a collection held by the listener, and a sweep that follows the
// stop request closes whatever is registered. The sweep runs once: a connection accepted just before the stop and registered
// after the sweep is closed by nobody — unless the stop request is consulted after the registration. Decided here:
// (1) the connection parameter is stored into a map / slice field of the listener in runConnection's region;
// (2) on every path, the first read is preceded by a consultation of stopRequest, and every such consultation by a
//
//	registration (register, then look: whichever of sweep and registration comes second sees the other);
//
// (3) some function of the package ranges over that field and closes the connections, and waits on / is reached after the
//
//	stop request.
func c18RegistryCloser(c *Ctx) {
	const fStop = "input/tcplistener.tcpLineListener.stopRequest"
	for _, rc := range c.P.Fns(aRunConn) {
		var connP ssa.Value
		for _, p := range rc.Params {
			if strings.Contains(p.Type().String(), "net.TCPConn") || strings.Contains(p.Type().String(), "net.Conn") {
				connP = p
			}
		}
		if connP == nil {
			broken("C18.R4: runConnection no longer has a connection parameter")
		}
		isConn := func(v ssa.Value) bool {
			return v != nil && mentions(v, func(y ssa.Value) bool { return c.resolveR(rc, y) == connP })
		}
		listenerField := func(v ssa.Value) string {
			f := ""
			mentions(v, func(y ssa.Value) bool {
				if fa, ok := y.(*ssa.FieldAddr); ok && typeName(fa.X.Type()) == "input/tcplistener.tcpLineListener" && f == "" {
					f = fieldName(fa.X.Type(), fa.Field)
				}
				return false
			})
			return f
		}
		regs := map[ssa.Instruction]bool{}
		regField := ""
		c.eachInstrR(rc, func(in ssa.Instruction) {
			switch x := in.(type) {
			case *ssa.MapUpdate:
				if f := listenerField(x.Map); f != "" && (isConn(x.Key) || isConn(x.Value)) {
					regs[in], regField = true, f
				}
			case *ssa.Store:
				if f := listenerField(x.Addr); f != "" && isConn(x.Val) && !strings.HasSuffix(f, ".stopRequest") {
					regs[in], regField = true, f
				}
			}
		})
		if len(regs) == 0 {
			c.bad("C18.R4", rc, "every connection is closed on the stop request", rc.Pos(), "neither a per-connection closer goroutine nor a registration of the connection with the listener was found: nothing closes an open connection when the agent stops")
			continue
		}
		consults := map[ssa.Instruction]bool{}
		for _, s := range c.callsInR(rc) {
			if _, isDefer := s.(*ssa.Defer); isDefer {
				continue
			}
			uses := false
			if s.Common().IsInvoke() && mentions(s.Common().Value, isFieldAddrOf(fStop)) {
				uses = true
			}
			for _, a := range s.Common().Args {
				if mentions(a, isFieldAddrOf(fStop)) {
					uses = true
				}
			}
			if uses {
				consults[s] = true
			}
		}
		var reads []ssa.CallInstruction
		for _, s := range c.callsInR(rc) {
			if f := s.Common().StaticCallee(); f != nil && isAnchor(f, "input/tcplistener.(*multiLineReader).Read") {
				reads = append(reads, s)
			}
		}
		if len(consults) == 0 {
			c.bad("C18.R4", rc, "the stop request is consulted after the connection is registered", firstPos(regs),
				"the connection is registered in "+regField+" for a sweep that runs once after the stop request, and the stop request is never looked at afterwards: a connection accepted just before the stop and registered after the sweep is closed by nobody, runConnection keeps reading, the listener never reports stopped")
			continue
		}
		c.checkOrder("C18.R4", rc, "registration of the connection", regs, "consultation of the stop request", consults)
		c.checkOrder("C18.R4", rc, "consultation of the stop request (after registering)", consults, "first read", callInstrSet(reads))
		// the sweep
		okSweep := false
		for _, f := range c.P.universe {
			if fnPkgPath(f) != fnPkgPath(rc) {
				continue
			}
			ranges, closes := false, false
			eachInstr(f, func(in ssa.Instruction) {
				if r, ok := in.(*ssa.Range); ok && listenerField(r.X) == regField {
					ranges = true
				}
				if ci, ok := in.(ssa.CallInstruction); ok {
					if g := ci.Common().StaticCallee(); g != nil && (extName(g) == "(*net.TCPConn).Close" || extName(g) == "(*net.conn).Close") {
						closes = true
					}
				}
			})
			if ranges && closes {
				okSweep = true
			}
		}
		c.check(okSweep, "C18.R4", rc, "a sweep closes every registered connection", firstPos(regs), "a function of the package ranges over "+regField+" and closes the connections", "nothing ranges over "+regField+" to close the registered connections")
	}
}
