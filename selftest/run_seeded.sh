#!/bin/bash
# Runs the checks against every stored independent seed (seeded/<id>/patch.diff) in scratch copies of /repo:
# each must be reported as a violation of its property. Usage: selftest/run_seeded.sh [id...]
set -u
cd "$(dirname "$0")/.."
export GOFLAGS=-mod=mod GOPROXY=off GOSUMDB=off GOTOOLCHAIN=local
ids=("$@"); [ ${#ids[@]} -eq 0 ] && ids=($(ls seeded))
# a property id (C03) selects the seeds that break that property
if [ ${#ids[@]} -eq 1 ] && [[ "${ids[0]}" =~ ^C[0-9]+$ ]]; then
  want=${ids[0]}; ids=()
  for s in $(ls seeded); do
    p=$(python3 -c "import json;print(json.load(open('seeded/$s/meta.json'))['breaks_property'])")
    [ "$p" = "$want" ] && ids+=("$s")
  done
  [ ${#ids[@]} -eq 0 ] && { echo "no seeds for $want"; exit 0; }
fi
root=${VERIF_SCRATCH:-/var/tmp/verif-seeded.$$}; mkdir -p $root
one() {
  id=$1
  prop=$(python3 -c "import json;print(json.load(open('seeded/$id/meta.json'))['breaks_property'])")
  rule=$(python3 -c "import json;print(json.load(open('seeded/$id/meta.json'))['detected_by'].split(' ')[0])")
  if [ "$rule" = "NONE" ]; then echo "$id $prop recorded as not decidable by this family (see meta.json): skipped"; return 0; fi
  d=$root/$id; vd=$root/$id.verif; mkdir -p $vd; cp known-findings.json properties.jsonl $vd/
  rsync -a --exclude .git /repo/ $d/
  if ! (cd $d && patch -p1 -s --no-backup-if-mismatch < "$OLDPWD/seeded/$id/patch.diff"); then echo "$id $prop stale (patch no longer applies)"; rm -rf $d $vd; return 0; fi
  out=$(bin/slogcheck -repo $d -property $prop -verif $vd); rc=$?
  rm -rf $d $vd
  if [ $rc -eq 1 ] && echo "$out" | grep -q "\[violated\] $rule"; then echo "$id $prop caught by $rule"; return 0; else echo "$id $prop MISSED (exit $rc)"; return 1; fi
}
export -f one; export root
# seeds are independent: run them ${SEED_JOBS:-6} at a time (one checker process each, about 1-3 GB)
printf "%s\n" "${ids[@]}" | xargs -P ${SEED_JOBS:-6} -I{} bash -c 'one {}' > $root/out.txt; bad=$?
sort $root/out.txt
rm -rf $root
[ $bad -eq 0 ] || exit 1
exit 0
