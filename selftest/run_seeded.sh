#!/bin/bash
# Runs the checks against every stored independent seed (seeded/<id>/patch.diff) in scratch copies of /repo:
# each must be reported as a violation of its property. Usage: selftest/run_seeded.sh [id...]
set -u
cd "$(dirname "$0")/.."
export GOFLAGS=-mod=mod GOPROXY=off GOSUMDB=off GOTOOLCHAIN=local
ids=("$@"); [ ${#ids[@]} -eq 0 ] && ids=($(ls seeded))
# a property id (C03) selects the seeds that break that property
if [ ${#ids[@]} -eq 1 ] && [[ "${ids[0]}" =~ ^C[0-9]+$ ]]; then
  want=${ids[0]}; ids=()
  for s in $(ls seeded); do
    p=$(python3 -c "import json;print(json.load(open('seeded/$s/meta.json'))['breaks_property'])")
    [ "$p" = "$want" ] && ids+=("$s")
  done
  [ ${#ids[@]} -eq 0 ] && { echo "no seeds for $want"; exit 0; }
fi
root=${VERIF_SCRATCH:-/var/tmp/verif-seeded.$$}; mkdir -p $root
bad=0
for id in "${ids[@]}"; do
  prop=$(python3 -c "import json;print(json.load(open('seeded/$id/meta.json'))['breaks_property'])")
  rule=$(python3 -c "import json;print(json.load(open('seeded/$id/meta.json'))['detected_by'].split(' ')[0])")
  if [ "$rule" = "NONE" ]; then echo "$id $prop recorded as not decidable by this family (see meta.json): skipped"; continue; fi
  d=$root/$id; vd=$root/$id.verif; mkdir -p $vd; cp known-findings.json properties.jsonl $vd/
  rsync -a --exclude .git /repo/ $d/
  if ! (cd $d && patch -p1 -s --no-backup-if-mismatch < "$OLDPWD/seeded/$id/patch.diff"); then echo "$id $prop stale (patch no longer applies)"; rm -rf $d $vd; continue; fi
  out=$(bin/slogcheck -repo $d -property $prop -verif $vd); rc=$?
  if [ $rc -eq 1 ] && echo "$out" | grep -q "\[violated\] $rule"; then echo "$id $prop caught by $rule"; else echo "$id $prop MISSED (exit $rc)"; bad=1; fi
  rm -rf $d $vd
done
rm -rf $root
exit $bad
