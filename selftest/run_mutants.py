#!/usr/bin/env python3
"""Both-ways validation of slogcheck.

For every entry of selftest/mutants.py (a list MUTANTS of dicts) a scratch copy of /repo is made outside
/repo, /verif and /tmp, the entry's edits are applied, and the checker is run on
the copy (evidence goes to a scratch verif dir, never to /verif/evidence):

  expect = "violation": the checker must exit 1 and name the expected rule
  expect = "silent":    a benign variant, the checker must exit 0

Usage: run_mutants.py [--only ID[,ID]] [--property Cxx] [--tests] [--jobs N] [--repo /repo]
Exit 0 if every applicable entry behaved as expected; entries whose edit no
longer applies to the current tree are listed as stale and skipped.
"""
import json, os, shutil, subprocess, sys, tempfile, concurrent.futures, argparse, time

VERIF = os.path.dirname(os.path.dirname(os.path.abspath(__file__)))
ENV = dict(os.environ, GOFLAGS="-mod=mod", GOPROXY="off", GOSUMDB="off", GOTOOLCHAIN="local", GOWORK="off")


def run_one(m, repo, scratch_root, run_tests):
    sid = m["id"]
    d = os.path.join(scratch_root, sid)
    vd = os.path.join(scratch_root, sid + ".verif")
    res = {"id": sid, "property": m["property"], "expect": m["expect"], "rule": m.get("rule", "")}
    try:
        subprocess.run(["rsync", "-a", "--exclude", ".git", repo.rstrip("/") + "/", d + "/"], check=True)
        os.makedirs(vd, exist_ok=True)
        kf = os.path.join(VERIF, "known-findings.json")
        if os.path.exists(kf):
            shutil.copy(kf, vd)
        shutil.copy(os.path.join(VERIF, "properties.jsonl"), vd)
        if m.get("base"):
            # a behaviour-preserving refactoring (benign/<id>/patch.diff) applied first: the mutant is made on top of it
            bp = subprocess.run(["patch", "-p1", "-s", "--no-backup-if-mismatch", "-i", os.path.join(VERIF, m["base"])], cwd=d, capture_output=True, text=True)
            if bp.returncode != 0:
                res["status"] = "stale"
                res["detail"] = "base patch %s does not apply" % m["base"]
                return res
        for e in m["edits"]:
            p = os.path.join(d, e["file"])
            s = open(p).read()
            if s.count(e["old"]) != 1:
                res["status"] = "stale"
                res["detail"] = "edit anchor occurs %d times in %s" % (s.count(e["old"]), e["file"])
                return res
            open(p, "w").write(s.replace(e["old"], e["new"]))
        props = m["property"] if isinstance(m["property"], list) else [m["property"]]
        out_all = ""
        codes = []
        for prop in props:
            r = subprocess.run([os.path.join(VERIF, "bin", "slogcheck"), "-repo", d, "-property", prop, "-verif", vd],
                               capture_output=True, text=True, env=ENV)
            out_all += r.stdout + r.stderr
            codes.append(r.returncode)
        res["codes"] = codes
        if any(c == 2 for c in codes):
            res["status"] = "broken"
            res["detail"] = [l for l in out_all.splitlines() if "CHECK-BROKEN" in l or "type error" in l][:5]
            return res
        viol = [l for l in out_all.splitlines() if l.startswith("  [violated]")]
        res["violated"] = viol[:6]
        if m["expect"] == "violation":
            hit = any(m.get("rule", "") in l for l in viol) and any(c == 1 for c in codes)
            res["status"] = "caught" if hit else "MISSED"
        else:
            res["status"] = "silent" if all(c == 0 for c in codes) else "FALSE-ALARM"
        if run_tests and res["status"] in ("caught", "MISSED"):
            pk = m.get("test_pkgs", ["./..."])
            t = subprocess.run(["go", "test", "-vet=off", "-count=1", "-timeout", "20m"] + pk, cwd=d, capture_output=True, text=True, env=ENV)
            res["tests_pass"] = t.returncode == 0
            if t.returncode != 0:
                res["tests_tail"] = (t.stdout + t.stderr)[-1500:]
        return res
    except Exception as ex:  # noqa
        res["status"] = "error"
        res["detail"] = repr(ex)
        return res
    finally:
        shutil.rmtree(d, ignore_errors=True)
        shutil.rmtree(vd, ignore_errors=True)


def main():
    ap = argparse.ArgumentParser()
    ap.add_argument("--only", default="")
    ap.add_argument("--property", default="")
    ap.add_argument("--tests", action="store_true")
    ap.add_argument("--jobs", type=int, default=6)
    ap.add_argument("--repo", default="/repo")
    ap.add_argument("--file", default=os.path.join(VERIF, "selftest", "mutants.py"))
    a = ap.parse_args()
    import runpy
    ms = runpy.run_path(a.file)["MUTANTS"]
    if a.only:
        ids = set(a.only.split(","))
        ms = [m for m in ms if m["id"] in ids]
    if a.property:
        ms = [m for m in ms if a.property in (m["property"] if isinstance(m["property"], list) else [m["property"]])]
    root = os.environ.get("VERIF_SCRATCH") or "/var/tmp/verif-scratch.%d" % os.getpid()
    os.makedirs(root, exist_ok=True)
    t0 = time.time()
    bad = 0
    try:
        with concurrent.futures.ThreadPoolExecutor(max_workers=a.jobs) as ex:
            results = list(ex.map(lambda m: run_one(m, a.repo, root, a.tests), ms))
    finally:
        shutil.rmtree(root, ignore_errors=True)
    for r in results:
        line = "%-28s %-5s expect=%-9s -> %s" % (r["id"], r["property"], r["expect"], r["status"])
        if r["status"] in ("MISSED", "FALSE-ALARM", "broken", "error"):
            bad += 1
            line += "  " + json.dumps({k: r[k] for k in r if k in ("detail", "violated", "codes")})
        if "tests_pass" in r:
            line += "  tests_pass=%s" % r["tests_pass"]
            if not r["tests_pass"]:
                line += "\n" + r.get("tests_tail", "")
        if r["status"] == "stale":
            line += "  (" + r["detail"] + ")"
        print(line)
    n = len(results)
    print("selftest: %d entries, %d unexpected, %d stale, %.0fs" % (n, bad, sum(1 for r in results if r["status"] == "stale"), time.time() - t0))
    sys.exit(1 if bad else 0)


if __name__ == "__main__":
    main()
